package main

import (
	"go/ast"
	"go/token"
	"go/types"
	"sort"
	"strings"

	"golang.org/x/tools/go/packages"
	"golang.org/x/tools/go/ssa"
)

func init() { register("C16", checkC16) }

const (
	exterrPkg = modPath + "/framework/exterrors"
	goSMTPPkg = "github.com/emersion/go-smtp"
)

func isSMTPErrorType(t types.Type) bool {
	return typeIs(t, exterrPkg, "SMTPError") || typeIs(t, goSMTPPkg, "SMTPError")
}

type smtpLit struct {
	lit  *ast.CompositeLit
	fn   *FuncInfo // enclosing declared function
	body *ast.BlockStmt
	info *types.Info
	name string
	ord  int
}

// enclosing function bodies (innermost FuncLit or FuncDecl) for every node of interest
func eachFuncBody(pk *packages.Package, visit func(name string, fd *ast.FuncDecl, body *ast.BlockStmt)) {
	for _, file := range pk.Syntax {
		for _, d := range file.Decls {
			fd, ok := d.(*ast.FuncDecl)
			if !ok || fd.Body == nil {
				continue
			}
			nm := fd.Name.Name
			if fn, ok := pk.TypesInfo.Defs[fd.Name].(*types.Func); ok {
				if inlinedAwayNow[fn] {
					continue // a new helper whose every call was read as part of the caller
				}
				nm = refName(fn) // keys survive a rename of the function
			}
			visit(recvTypeName(fd)+"."+nm, fd, fd.Body)
		}
	}
}

func checkC16(c *Check) {
	p := c.P
	c.explain = "C16 (reply coherence): every SMTPError composite literal and every smtp_code/smtp_enchcode map literal of the server is enumerated and the class of its basic code " +
		"is compared with the first digit of its enhanced code on every acyclic path of the enclosing function (abstract values: constants, copies of one source object, the two helpers, class-of); " +
		"the helpers SMTPCode/SMTPEnchCode are path-evaluated per temporariness edge; converter defaults, the field-map reader/writer type agreement, the provenance of the reply text and the ASCII mask boundary are checked."
	c.notCover = "errors assembled at run time from nested wrappers whose fields come from different layers; whether each individual failure site picked the semantically right class."
	c.Assume("A1: go-smtp replaces EnhancedCode{0,0,0} (EnhancedCodeNotSet) by class.0.0 derived from the basic code")
	c.Assume("A2: where a converter keeps its default class because the typed error carries no enhanced code, the default was chosen by the temporariness predicate of that same error, which for go-smtp's SMTPError is Code/100 == 4")

	c.Rule("R1", "every SMTP error literal: class(Code) in {4,5} and EnhancedCode[0] in {class(Code), 0=not set} on every path", 50)
	c.Rule("R1m", "every field-map literal with smtp_code and smtp_enchcode: same coherence", 1)
	c16Literals(c)

	c.Rule("R1f", "an SMTP error built from a literal and adjusted afterwards stays coherent: a store of a constant basic code into the error is accompanied, in the same statement list, by a store of the enhanced code (whole or class digit) into the SAME variable – unless the literal leaves the enhanced code unset", 1)
	c16InPlace(c)

	c.Rule("R2", "helpers: SMTPCode returns its temporary argument exactly on the IsTemporary edge; SMTPEnchCode yields class 4 on that edge and class 5 otherwise", 2)
	c16Helpers(c)

	c.Rule("R3", "reply converters: the default code pair is coherent on both edges of the temporariness predicate (4xx/4 when temporary, 5xx/5 otherwise), and the queue converter uses the predicate that drives retry", 2)
	c16Converters(c)

	c16LimitErrorsKeepIdentity(c, "R4b")
	c16StatusAsStored(c, "R7")
	c16ForcedClassHasNoStatus(c, "R8")
	c16ReplyClassRewrittenForRcptOnly(c, "R9")
	c16AuthRepliesAreSMTPErrors(c, "R10")
	c16AuthzTemporaryKept(c, "R11")
	c16SMTPCodeArgs(c, "R12")
	c.Rule("R13", "the failure report states the stored status of the very error whose text it quotes: Status is the EnhancedCode of the value given as DiagnosticCode, unmodified (C18.R2)", 2)
	importRules(c, "C18", checkC18, map[string]bool{"R2": true}, "R13")
	c16CodePairChangedTogether(c, "R14")
	c04FieldsWinOverDefaults(c, "R15")
	c16RememberedReplyIsThisMails(c, "R16")
	c16TemporaryByBasicCode(c, "R17")
	c.Rule("R3c", "tryDelivery: the status kept for the report and the retry decision come from the same error: every path to the temporariness classification of an attempt's error has stored that error's conversion as the recipient's status (a status left over from an earlier attempt can have the other class)", 1)
	c16StatusFromThisAttempt(c)

	c.Rule("R3b", "reply converters: when the basic code is copied from a typed error the enhanced code is copied from the same error in the same block, and vice versa (a reply never combines the code of one source with the class of another)", 2)
	for _, cv := range [][3]string{{"internal/target/queue", "", "toSMTPErr"}, {"internal/endpoint/smtp", "Endpoint", "wrapErr"}} {
		fi := p.Func(cv[0], cv[1], cv[2])
		if fi == nil {
			c.Fail("R3b", cv[2], token.NoPos, "anchor unresolved")
			continue
		}
		info := fi.Info()
		bad := ""
		n := 0
		flattened := map[*ast.BlockStmt]bool{}
		ast.Inspect(fi.Decl.Body, func(x ast.Node) bool {
			var list []ast.Stmt
			switch bs := x.(type) {
			case *ast.BlockStmt:
				list = bs.List
			case *ast.CaseClause:
				list = bs.Body
			case *ast.CommClause:
				list = bs.Body
			default:
				return true
			}
			if bs, isBlock := x.(*ast.BlockStmt); isBlock && flattened[bs] {
				return true
			}
			type cp struct{ dst, src, field string }
			var copies []cp
			// `if src.EnhancedCode[0] != 0 { dst.EnhancedCode = src.EnhancedCode }` belongs to the enclosing list: the
			// guard only keeps the default class when the source has none (assumption A2)
			var flat []ast.Stmt
			for _, st := range list {
				flat = append(flat, st)
				if is, ok := st.(*ast.IfStmt); ok && is.Else == nil && is.Init == nil {
					if be, ok := ast.Unparen(is.Cond).(*ast.BinaryExpr); ok && (be.Op == token.NEQ || be.Op == token.GTR) {
						if ix, ok := ast.Unparen(be.X).(*ast.IndexExpr); ok {
							if sel, ok := ast.Unparen(ix.X).(*ast.SelectorExpr); ok && sel.Sel.Name == "EnhancedCode" && fieldOf(info, sel) != nil {
								if z, ok := constInt(info.Types[be.Y]); ok && z == 0 {
									flat = append(flat, is.Body.List...)
									flattened[is.Body] = true
								}
							}
						}
					}
				}
			}
			for _, st := range flat {
				as, ok := st.(*ast.AssignStmt)
				if !ok || len(as.Lhs) != len(as.Rhs) {
					continue
				}
				for i, l := range as.Lhs {
					ls, ok := ast.Unparen(l).(*ast.SelectorExpr)
					if !ok || (ls.Sel.Name != "Code" && ls.Sel.Name != "EnhancedCode") || fieldOf(info, ls) == nil {
						continue
					}
					rhs := ast.Unparen(as.Rhs[i])
					if conv, ok := rhs.(*ast.CallExpr); ok && len(conv.Args) == 1 {
						if tv, ok := info.Types[conv.Fun]; ok && tv.IsType() {
							rhs = ast.Unparen(conv.Args[0])
						}
					}
					rs, ok := rhs.(*ast.SelectorExpr)
					if !ok || fieldOf(info, rs) == nil || (rs.Sel.Name != "Code" && rs.Sel.Name != "EnhancedCode") {
						continue
					}
					copies = append(copies, cp{exprStr(ls.X), exprStr(rs.X), ls.Sel.Name})
				}
			}
			for _, a := range copies {
				n++
				other := "EnhancedCode"
				if a.field == "EnhancedCode" {
					other = "Code"
				}
				found := false
				for _, b := range copies {
					if b.dst == a.dst && b.src == a.src && b.field == other {
						found = true
					}
				}
				if !found {
					bad = a.dst + "." + a.field + " is copied from " + a.src + " but " + a.dst + "." + other + " is not: the reply combines the " + a.field + " of " + a.src + " with a " + other + " from elsewhere (e.g. 451 with 5.x.x)"
				}
			}
			return true
		})
		c.Hold("R3b", cv[2]+":pair-copied-together", fi.Decl.Pos(), bad == "" && n >= 2, bad)
	}

	c.Rule("R4", "field-map protocol: every type assertion Fields(err)[K].(T) has a writer storing a T under K", 4)
	c.Rule("R4b", "every field-map writer that stores smtp_code also stores smtp_enchcode (the pair travels together)", 2)
	c16FieldMap(c)

	c.Rule("R5", "reply text of the converters is a constant, the smtp_msg field or a typed SMTP error's message; never err.Error()", 2)
	c16ReplyText(c)

	c.Rule("R6", "the UTF-8 mask of the endpoint replaces exactly the characters >= U+0080", 1)
	if fi := p.Func("internal/endpoint/smtp", "Endpoint", "wrapErr"); fi == nil {
		c.Fail("R6", "smtp.(*Endpoint).wrapErr", token.NoPos, "anchor unresolved")
	} else {
		// the mask is in wrapErr itself or in a helper of the package it hands the text to
		target := fi
		hasRange := func(d *FuncInfo) bool {
			found := false
			ast.Inspect(d.Decl.Body, func(n ast.Node) bool {
				if rs, ok := n.(*ast.RangeStmt); ok {
					if tv, ok := d.Info().Types[rs.X]; ok && isStringType(tv.Type) {
						found = true
					}
				}
				return true
			})
			return found
		}
		if !hasRange(fi) {
			for _, call := range callsIn(fi.Decl.Body) {
				if fn := callee(fi.Info(), call); fn != nil && fn.Pkg() == fi.Obj.Pkg() {
					if d := p.DeclOf(fn); d != nil && d.Decl.Body != nil && hasRange(d) {
						target = d
					}
				}
			}
		}
		checkASCIIPredicate(c, "R6", fi.Name(), target.Info(), nil, target.Decl.Body, true)
	}
	c.Rule("R6b", "without SMTPUTF8 (mangleUTF8 set) every reply leaves wrapErr through the mask, applied to the final text: no condition other than the flag skips it and no text is stored after it", 1)
	if r := c.need("R6b", "internal/endpoint/smtp", "Endpoint", "wrapErr"); r != nil {
		info := r.Info
		flag := paramObjs(r.FI)["mangleUTF8"]
		isMsgField := func(e ast.Expr) bool { fv := fieldOf(info, e); return fv != nil && objName(fv) == "Message" }
		// the mask: a store to X.Message of a builder's text where the builder is filled in a range over X.Message,
		// or of f(X.Message) with f a function of this package that carries the mask itself
		var ranged []*ast.RangeStmt
		ast.Inspect(r.FI.Decl.Body, func(n ast.Node) bool {
			if rs, ok := n.(*ast.RangeStmt); ok && isMsgField(rs.X) {
				ranged = append(ranged, rs)
			}
			return true
		})
		isMask := func(pt Pt) bool {
			return nodeAssigns(pt.Node(), func(lhs, rhs ast.Expr) bool {
				if !isMsgField(lhs) {
					return false
				}
				call, ok := ast.Unparen(rhs).(*ast.CallExpr)
				if !ok {
					return false
				}
				if methodName(call) == "String" && len(call.Args) == 0 {
					b := objOf(info, callRecv(call))
					for _, rs := range ranged {
						if rs.End() < call.Pos() && b != nil && mentions(info, rs.Body, b) && sameExpr(rs.X, lhs) {
							return true
						}
					}
					return false
				}
				if fn := callee(info, call); fn != nil && fn.Pkg() == r.FI.Obj.Pkg() && len(call.Args) == 1 && sameExpr(call.Args[0], lhs) {
					if d := c.P.DeclOf(fn); d != nil && d.Decl.Body != nil {
						has := false
						ast.Inspect(d.Decl.Body, func(n ast.Node) bool {
							if rs, ok := n.(*ast.RangeStmt); ok && len(d.Decl.Type.Params.List) == 1 && len(d.Decl.Type.Params.List[0].Names) == 1 && objOf(d.Info(), rs.X) == d.Info().Defs[d.Decl.Type.Params.List[0].Names[0]] {
								has = true
							}
							return true
						})
						if has {
							return true
						}
					}
				}
				return false
			})
		}
		textReturn := func(pt Pt) bool {
			_, ret := r.F.Exit(pt)
			if ret == nil || len(ret.Results) != 1 {
				return false
			}
			e := ast.Unparen(ret.Results[0])
			if isNilIdent(info, e) {
				return false
			}
			// a literal reply with a constant text needs no mask if that text is ASCII
			if ue, ok := e.(*ast.UnaryExpr); ok {
				if cl, ok := ue.X.(*ast.CompositeLit); ok {
					for _, el := range cl.Elts {
						if kv, ok := el.(*ast.KeyValueExpr); ok {
							if id, ok := kv.Key.(*ast.Ident); ok && id.Name == "Message" {
								if sv, ok := constString(info, kv.Value); ok {
									ascii := true
									for i := 0; i < len(sv); i++ {
										if sv[i] >= 0x80 {
											ascii = false
										}
									}
									return !ascii
								}
							}
						}
					}
				}
			}
			return true
		}
		msg := ""
		if flag == nil {
			msg = "undecided: wrapErr has no mangleUTF8 parameter"
		} else {
			world := r.F.World(func(atom ast.Expr) (bool, bool) {
				if objOf(info, atom) == flag {
					return true, true
				}
				return false, false
			})
			var masks []Pt
			for _, pt := range r.F.Points() {
				if isMask(pt) {
					masks = append(masks, pt)
				}
			}
			if len(masks) == 0 {
				msg = "undecided: no store of the masked text found"
			} else if path, f := r.F.Reach(Query{From: r.Entry(), Inclusive: true, Target: textReturn, Avoid: isPt(masks), AvoidEdge: world}); f {
				msg = "a reply to a client without SMTPUTF8 can leave unmasked (the mask is skipped on a condition other than the flag): " + r.F.Describe(path)
			} else {
				laterStore := func(pt Pt) bool {
					return !isMask(pt) && nodeAssigns(pt.Node(), func(lhs, rhs ast.Expr) bool { return isMsgField(lhs) })
				}
				if path, f := r.F.Reach(Query{From: masks, Target: laterStore}); f {
					msg = "reply text is stored after the mask was applied: " + r.F.Describe(path)
				}
			}
		}
		c.Hold("R6b", "wrapErr:mask-dominates-reply", r.FI.Decl.Pos(), msg == "", msg)
	}
}

// ---------------------------------------------------------------------------
// R1

func c16Literals(c *Check) {
	p := c.P
	for _, pk := range p.ServerPkgs() {
		info := pk.TypesInfo
		eachFuncBody(pk, func(name string, fd *ast.FuncDecl, body *ast.BlockStmt) {
			fnName := pk.Types.Name() + "." + strings.TrimPrefix(name, ".")
			ord := 0
			mord := 0
			// find literals, tracking the innermost enclosing function body
			var stack []*ast.BlockStmt
			stack = append(stack, body)
			var visit func(n ast.Node) bool
			visit = func(n ast.Node) bool {
				switch x := n.(type) {
				case *ast.FuncLit:
					stack = append(stack, x.Body)
					ast.Inspect(x.Body, visit)
					stack = stack[:len(stack)-1]
					return false
				case *ast.CompositeLit:
					tv, ok := info.Types[x]
					if !ok {
						return true
					}
					if isSMTPErrorType(tv.Type) {
						ord++
						c.sites++
						c16JudgeLiteral(c, pk, fnName, ord, x, stack[len(stack)-1])
					} else if mt, ok := tv.Type.Underlying().(*types.Map); ok && isStringType(mt.Key()) {
						var codeE, enchE ast.Expr
						for _, el := range x.Elts {
							kv, ok := el.(*ast.KeyValueExpr)
							if !ok {
								continue
							}
							if k, ok := constString(info, kv.Key); ok {
								if k == "smtp_code" {
									codeE = kv.Value
								}
								if k == "smtp_enchcode" {
									enchE = kv.Value
								}
							}
						}
						if codeE != nil && enchE != nil {
							mord++
							c.sites++
							c16JudgePair(c, "R1m", pk, fnName+":map"+itoa(mord), x.Pos(), codeE, enchE, stack[len(stack)-1])
						}
					}
				}
				return true
			}
			ast.Inspect(body, visit)
		})
	}
}

func c16JudgeLiteral(c *Check, pk *packages.Package, fnName string, ord int, lit *ast.CompositeLit, body *ast.BlockStmt) {
	var codeE, enchE ast.Expr
	keyed := true
	for _, el := range lit.Elts {
		kv, ok := el.(*ast.KeyValueExpr)
		if !ok {
			keyed = false
			continue
		}
		if id, ok := kv.Key.(*ast.Ident); ok {
			switch id.Name {
			case "Code":
				codeE = kv.Value
			case "EnhancedCode":
				enchE = kv.Value
			}
		}
	}
	key := fnName + ":lit" + itoa(ord)
	if !keyed && len(lit.Elts) > 0 {
		c.Fail("R1", key, lit.Pos(), "undecided: positional SMTPError literal")
		return
	}
	if len(lit.Elts) == 0 {
		// zero value used as a scratch variable (e.g. `smtpErr := &SMTPError{}` for errors.As): not a reply
		c.HoldConst("R1", key, lit.Pos(), true, "")
		return
	}
	if codeE == nil {
		c.Fail("R1", key, lit.Pos(), "literal without Code (basic code 0 is not a valid reply class)")
		return
	}
	c16JudgePair(c, "R1", pk, key, lit.Pos(), codeE, enchE, body)
}

func c16JudgePair(c *Check, rule string, pk *packages.Package, key string, pos token.Pos, codeE, enchE ast.Expr, body *ast.BlockStmt) {
	info := pk.TypesInfo
	// fast path: both constant
	ev := c16Evaluator(c.P, info)
	cv := ev(codeE, nil)
	var evv absVal
	if enchE == nil {
		evv = absVal{K: absConst, N: 0}
	} else {
		evv = ev(enchE, nil)
	}
	if cv.K == absConst && evv.K == absConst {
		ok, msg := c16Judge(cv, evv)
		c.HoldConst(rule, key, pos, ok, msg)
		return
	}
	// path evaluation over the local variables mentioned by the operands
	tracked := map[types.Object]bool{}
	for _, e := range []ast.Expr{codeE, enchE} {
		if e == nil {
			continue
		}
		ast.Inspect(e, func(n ast.Node) bool {
			if id, ok := n.(*ast.Ident); ok {
				if v, ok := info.Uses[id].(*types.Var); ok && !v.IsField() && v.Pkg() == pk.Types && v.Parent() != pk.Types.Scope() {
					tracked[v] = true
				}
			}
			return true
		})
	}
	flow := c.P.FlowOf(info, body, key)
	target, found := flow.PtOfNode(codeE)
	if !found {
		target, found = flow.PtOf(pos)
	}
	if !found {
		c.Fail(rule, key, pos, "undecided: literal not located in the control-flow graph")
		return
	}
	trk := func(l ast.Expr) (string, bool) {
		l = ast.Unparen(l)
		if ix, ok := l.(*ast.IndexExpr); ok {
			// element 0 of a tracked array stands for the array (class digit)
			if tv, ok := info.Types[ix.Index]; ok && tv.Value != nil && tv.Value.String() == "0" {
				l = ast.Unparen(ix.X)
			} else if o := objOf(info, ix.X); o != nil && tracked[o] {
				return "", false // other elements are irrelevant
			}
		}
		if o := objOf(info, l); o != nil && tracked[o] {
			return o.Name(), true
		}
		// a field of a tracked local (err.Code, err.EnhancedCode): its own cell, so that an in-place rewrite of one
		// member of the pair is seen (and a copy taken before the rewrite is told apart from one taken after)
		if se, ok := l.(*ast.SelectorExpr); ok && fieldOf(info, se) != nil {
			if id, ok := ast.Unparen(se.X).(*ast.Ident); ok {
				if o := objOf(info, id); o != nil && tracked[o] {
					return o.Name() + "." + se.Sel.Name, true
				}
			}
		}
		return "", false
	}
	pe := &pathEvaluator{f: flow, budget: 20000, tracked: trk}
	pe.eval = func(e ast.Expr, env map[string]absVal) absVal {
		return c16Evaluator(c.P, info)(e, envLookup(info, trk, env))
	}
	type res struct {
		c, e absVal
		w    string
	}
	seen := map[res]bool{}
	badIn := map[string]string{} // world -> first violation
	worlds := map[string]bool{}
	n := 0
	// parameters start as symbolic values
	init := map[string]absVal{}
	for o := range tracked {
		init[o.Name()] = absVal{K: absSym, Sym: "param:" + o.Name(), Root: o.Name()}
	}
	// the "world" of a path: the constant case labels it entered a switch through (`reject 450` and `reject 450 4.2.1`
	// are different inputs: a finding recorded for the one-argument form must not hide a violation of the two-argument form)
	worldOf := func(dec []decision) string {
		var w []string
		for _, d := range dec {
			if d.Succ != 0 || d.Cond == nil {
				continue
			}
			if tv, ok := info.Types[d.Cond]; ok && tv.Value != nil {
				w = append(w, tv.Value.ExactString())
			}
		}
		return strings.Join(w, ",")
	}
	complete := pe.run(func(pt Pt) bool { return pt == target }, init, func(pt Pt, env map[string]absVal, dec []decision) {
		cv := pe.eval(codeE, env)
		evv := absVal{K: absConst, N: 0}
		if enchE != nil {
			evv = pe.eval(enchE, env)
		}
		w := worldOf(dec)
		worlds[w] = true
		r := res{cv, evv, w}
		if seen[r] {
			return
		}
		seen[r] = true
		n++
		ok, msg := c16Judge(cv, evv)
		if !ok && cv.K == absSym && strings.HasPrefix(cv.Sym, "param:") {
			// the basic code is a parameter of an unexported helper (`c.noSMTPUTF8Err(550, …)`): judged with the
			// constants its callers pass
			if ok2, msg2, decided := c16JudgeAtCallers(c, pk, body, strings.TrimPrefix(cv.Sym, "param:"), evv); decided {
				ok, msg = ok2, msg2
			}
		}
		if !ok && badIn[w] == "" {
			badIn[w] = msg
		}
	})
	if !complete {
		c.Fail(rule, key, pos, "undecided: path budget exceeded")
		return
	}
	if n == 0 {
		c.Fail(rule, key, pos, "undecided: no path reaches the literal")
		return
	}
	if len(worlds) == 1 && worlds[""] {
		c.Hold(rule, key, pos, badIn[""] == "", badIn[""])
		return
	}
	var ws []string
	for w := range worlds {
		ws = append(ws, w)
	}
	sort.Strings(ws)
	for _, w := range ws {
		k := key
		if w != "" {
			k += "@case:" + w
		}
		c.Hold(rule, k, pos, badIn[w] == "", badIn[w])
	}
}

func envLookup(info *types.Info, trk func(ast.Expr) (string, bool), env map[string]absVal) func(ast.Expr) (absVal, bool) {
	return func(e ast.Expr) (absVal, bool) {
		if env == nil {
			return absVal{}, false
		}
		if k, ok := trk(e); ok {
			if v, has := env[k]; has {
				return v, true
			}
			if strings.Contains(k, ".") {
				return absVal{}, false // a field never stored to on this path: the evaluator's symbolic copy
			}
			return absVal{K: absUnknown}, true
		}
		return absVal{}, false
	}
}

// c16Evaluator returns an abstract evaluator of code / enhanced-code operands.
func c16Evaluator(p *Prog, info *types.Info) func(e ast.Expr, lookup func(ast.Expr) (absVal, bool)) absVal {
	var ev func(e ast.Expr, lookup func(ast.Expr) (absVal, bool)) absVal
	ev = func(e ast.Expr, lookup func(ast.Expr) (absVal, bool)) absVal {
		e = ast.Unparen(e)
		if tv, ok := info.Types[e]; ok && tv.Value != nil {
			if n, ok := constInt(tv); ok {
				return absVal{K: absConst, N: n}
			}
		}
		if lookup != nil {
			if v, ok := lookup(e); ok {
				return v
			}
		}
		switch x := e.(type) {
		case *ast.CompositeLit:
			// EnhancedCode{a,b,c}: element 0
			if len(x.Elts) == 0 {
				return absVal{K: absConst, N: 0}
			}
			el := x.Elts[0]
			if kv, ok := el.(*ast.KeyValueExpr); ok {
				// keyed array literal: find index 0
				el = nil
				for _, e2 := range x.Elts {
					if kv2, ok := e2.(*ast.KeyValueExpr); ok {
						if tv, ok := info.Types[kv2.Key]; ok && tv.Value != nil && tv.Value.String() == "0" {
							el = kv2.Value
						}
					}
				}
				_ = kv
				if el == nil {
					return absVal{K: absConst, N: 0}
				}
			}
			return ev(el.(ast.Expr), lookup)
		case *ast.CallExpr:
			if tv, ok := info.Types[x.Fun]; ok && tv.IsType() && len(x.Args) == 1 {
				return ev(x.Args[0], lookup)
			}
			switch qname(callee(info, x)) {
			case exterrPkg + ".SMTPCode":
				if len(x.Args) == 3 {
					t, pm := ev(x.Args[1], lookup), ev(x.Args[2], lookup)
					if t.K == absConst && pm.K == absConst {
						cls := func(n int64) int64 {
							if n < 10 {
								return n // the class digit itself (`code[0] = SMTPCode(err, 4, 5)`)
							}
							return n / 100
						}
						return absVal{K: absHelperT, Sym: exprStr(x.Args[0]), N: cls(t.N), M: cls(pm.N)}
					}
				}
			case exterrPkg + ".SMTPEnchCode":
				if len(x.Args) == 2 {
					return absVal{K: absHelperE, Sym: exprStr(x.Args[0])}
				}
			}
			return absVal{K: absSym, Sym: exprStr(x), Root: rootName(x)}
		case *ast.BinaryExpr:
			if x.Op == token.QUO {
				a, b := ev(x.X, lookup), ev(x.Y, lookup)
				if b.K == absConst && b.N == 100 {
					switch a.K {
					case absConst:
						return absVal{K: absConst, N: a.N / 100}
					case absSym:
						if !a.Div {
							a.Div = true
							return a
						}
					}
				}
			}
		case *ast.SelectorExpr:
			// package-level variable with a literal initialiser (smtp.EnhancedCodeNotSet)
			if v, ok := info.Uses[x.Sel].(*types.Var); ok && !v.IsField() && v.Pkg() != nil {
				if init := p.globalInit(v); init != nil {
					pk := p.ByPath[v.Pkg().Path()]
					return c16Evaluator(p, pk.TypesInfo)(init, nil)
				}
			}
			if fieldOf(info, x) != nil {
				// copy of a field of some object: symbolic, grouped by the object it is read from
				return absVal{K: absSym, Sym: "copy:" + exprStr(x.X), Root: exprStr(x.X)}
			}
		case *ast.Ident:
			if v, ok := info.Uses[x].(*types.Var); ok && !v.IsField() && v.Pkg() != nil && v.Parent() == v.Pkg().Scope() {
				if init := p.globalInit(v); init != nil {
					pk := p.ByPath[v.Pkg().Path()]
					return c16Evaluator(p, pk.TypesInfo)(init, nil)
				}
			}
		case *ast.TypeAssertExpr:
			return absVal{K: absSym, Sym: exprStr(x), Root: rootName(x)}
		case *ast.IndexExpr:
			// x[0] of an abstractly known array
			if tv, ok := info.Types[x.Index]; ok && tv.Value != nil && tv.Value.String() == "0" {
				return ev(x.X, lookup)
			}
		}
		return absVal{K: absUnknown}
	}
	return ev
}

func constInt(tv types.TypeAndValue) (int64, bool) {
	if tv.Value == nil {
		return 0, false
	}
	s := tv.Value.ExactString()
	var n int64
	neg := false
	if len(s) == 0 {
		return 0, false
	}
	for i, ch := range s {
		if i == 0 && ch == '-' {
			neg = true
			continue
		}
		if ch < '0' || ch > '9' {
			return 0, false
		}
		n = n*10 + int64(ch-'0')
	}
	if neg {
		n = -n
	}
	return n, true
}

// globalInit finds the initialiser expression of a package-level variable (any package that was loaded with syntax).
func (p *Prog) globalInit(v *types.Var) ast.Expr {
	pk := p.ByPath[v.Pkg().Path()]
	if pk == nil {
		return nil
	}
	for _, f := range pk.Syntax {
		for _, d := range f.Decls {
			gd, ok := d.(*ast.GenDecl)
			if !ok || gd.Tok != token.VAR {
				continue
			}
			for _, sp := range gd.Specs {
				vs := sp.(*ast.ValueSpec)
				for i, nm := range vs.Names {
					if pk.TypesInfo.Defs[nm] == v && i < len(vs.Values) {
						return vs.Values[i]
					}
				}
			}
		}
	}
	return nil
}

// c16Judge decides coherence of (basic code, enhanced class digit).
func c16Judge(code, ench absVal) (bool, string) {
	desc := "Code=" + code.String() + " EnhancedCode[0]=" + ench.String()
	switch code.K {
	case absConst:
		cl := code.N / 100
		if cl != 4 && cl != 5 {
			return false, "basic code class is not 4 or 5: " + desc
		}
		switch ench.K {
		case absConst:
			if ench.N == 0 || ench.N == cl {
				return true, ""
			}
			return false, "classes disagree: " + desc
		default:
			return false, "constant basic code with a non-constant enhanced class: " + desc
		}
	case absSym:
		switch ench.K {
		case absConst:
			if ench.N == 0 {
				return true, "" // not set: derived from the basic code by the library
			}
			return false, "basic code is variable but the enhanced class is the constant " + itoa(int(ench.N)) + ": " + desc
		case absSym:
			if ench.Sym == code.Sym && ench.Div && !code.Div {
				return true, "" // class-of(code)
			}
			if ench.Root != "" && ench.Root == code.Root {
				return true, "" // copied/parsed together from one source object: not judged
			}
			return false, "basic code and enhanced class come from unrelated sources: " + desc
		}
		return false, "undecided pair: " + desc
	case absHelperT:
		if code.N != 4 || code.M != 5 {
			return false, "SMTPCode arguments are not (4xx, 5xx): " + desc
		}
		if ench.K == absHelperE && ench.Sym == code.Sym {
			return true, ""
		}
		if ench.K == absConst && ench.N == 0 {
			return true, ""
		}
		return false, "basic code follows the temporariness of " + code.Sym + " but the enhanced class does not: " + desc
	}
	return false, "undecided: " + desc
}

// ---------------------------------------------------------------------------
// R2

func c16Helpers(c *Check) {
	p := c.P
	usedPred := map[string]string{}
	defer func() {
		// the two helpers are used side by side at every site that builds a reply from an error (Code: SMTPCode(err, …),
		// EnhancedCode: SMTPEnchCode(err, …)): they must classify with the SAME predicate – an error without a
		// Temporary() method is temporary for IsTemporaryOrUnspec and permanent for IsTemporary, and the reply would
		// read 451 5.x.x
		a, b := usedPred["SMTPCode"], usedPred["SMTPEnchCode"]
		if b == "via SMTPCode" {
			b = a
		}
		if a != "" && b != "" {
			c.Hold("R2", "exterrors.helpers:same-predicate", token.NoPos, a == b, "SMTPCode classifies with "+a+" but SMTPEnchCode with "+b+": for an error that does not say whether it is temporary (a closed connection, a plain error from a policy) the basic code and the enhanced code of one reply get different classes (451 with 5.4.0)")
		}
	}()
	for _, name := range []string{"SMTPCode", "SMTPEnchCode"} {
		fi := p.Func("framework/exterrors", "", name)
		if fi == nil {
			c.Fail("R2", "exterrors."+name, token.NoPos, "anchor unresolved")
			continue
		}
		c.SawFunc(fi.Name())
		info := fi.Info()
		var params []*types.Var
		sig := fi.Obj.Type().(*types.Signature)
		for i := 0; i < sig.Params().Len(); i++ {
			params = append(params, sig.Params().At(i))
		}
		flow := p.FlowOfFunc(fi)
		trk := func(l ast.Expr) (string, bool) {
			l = ast.Unparen(l)
			if ix, ok := l.(*ast.IndexExpr); ok {
				if tv, ok := info.Types[ix.Index]; ok && tv.Value != nil && tv.Value.String() == "0" {
					l = ast.Unparen(ix.X)
				} else {
					return "", false
				}
			}
			if o := objOf(info, l); o != nil {
				for _, pv := range params[1:] {
					if o == pv {
						return o.Name(), true
					}
				}
			}
			return "", false
		}
		pe := &pathEvaluator{f: flow, budget: 5000, tracked: trk}
		pe.eval = func(e ast.Expr, env map[string]absVal) absVal {
			return c16Evaluator(p, info)(e, envLookup(info, trk, env))
		}
		init := map[string]absVal{}
		for _, pv := range params[1:] {
			init[pv.Name()] = absVal{K: absSym, Sym: "param:" + pv.Name()}
		}
		bad := ""
		paths := 0
		pe.run(func(pt Pt) bool { _, ok := pt.Node().(*ast.ReturnStmt); return ok }, init, func(pt Pt, env map[string]absVal, dec []decision) {
			ret := pt.Node().(*ast.ReturnStmt)
			paths++
			temp := -1 // unknown
			for _, d := range dec {
				// the predicate may be negated or part of a compound condition: what the edge says about it
				for _, af := range atomsOnEdge(d.Cond, d.Succ) {
					if call, ok := ast.Unparen(resolveLocal(info, fi.Decl.Body, af.E)).(*ast.CallExpr); ok && isCall(info, call, exterrPkg+".IsTemporary", exterrPkg+".IsTemporaryOrUnspec") {
						if q := refName(callee(info, call)); usedPred[name] == "" || usedPred[name] == q {
							usedPred[name] = q
						} else {
							usedPred[name] = "several predicates"
						}
						if af.T {
							temp = 1
						} else {
							temp = 0
						}
					}
				}
			}
			if len(ret.Results) == 1 && temp < 0 && name == "SMTPEnchCode" {
				// the class is delegated to the sibling helper with the class digits as its two codes: the same predicate
				// by construction
				if v := pe.eval(ret.Results[0], env); v.K == absHelperT && v.N == 4 && v.M == 5 && len(params) > 0 && v.Sym == params[0].Name() {
					usedPred[name] = "via SMTPCode"
					return
				}
			}
			if len(ret.Results) != 1 || temp < 0 {
				bad = "undecided: a return is not controlled by the temporariness predicate"
				return
			}
			v := pe.eval(ret.Results[0], env)
			if name == "SMTPCode" {
				want := "param:" + params[1].Name()
				if temp == 0 {
					want = "param:" + params[2].Name()
				}
				if v.K != absSym || v.Sym != want {
					bad = "on the temporary=" + itoa(temp) + " edge the result is " + v.String() + ", expected " + want
				}
			} else {
				want := int64(5)
				if temp == 1 {
					want = 4
				}
				if v.K != absConst || v.N != want {
					bad = "on the temporary=" + itoa(temp) + " edge the enhanced class is " + v.String() + ", expected " + itoa(int(want))
				}
			}
		})
		if paths < 2 && bad == "" && usedPred[name] != "via SMTPCode" {
			bad = "undecided: fewer than two return paths"
		}
		c.Hold("R2", "exterrors."+name, fi.Decl.Pos(), bad == "", bad)
	}
}

// ---------------------------------------------------------------------------
// R3

func c16Converters(c *Check) {
	p := c.P
	type conv struct {
		rel, recv, name string
		preds           []string
	}
	// which predicate drives retry in the queue? read it off tryDelivery
	retryPred := map[string]bool{}
	if td := p.Func("internal/target/queue", "Queue", "tryDelivery"); td != nil {
		ast.Inspect(td.Decl.Body, func(n ast.Node) bool {
			if call, ok := n.(*ast.CallExpr); ok {
				q := qname(callee(td.Info(), call))
				if q == exterrPkg+".IsTemporary" || q == exterrPkg+".IsTemporaryOrUnspec" {
					retryPred[q] = true
				}
			}
			return true
		})
	}
	for _, cv := range []conv{
		{"internal/target/queue", "", "toSMTPErr", nil},
		{"internal/endpoint/smtp", "Endpoint", "wrapErr", nil},
	} {
		fi := p.Func(cv.rel, cv.recv, cv.name)
		key := cv.name
		if fi == nil {
			c.Fail("R3", key, token.NoPos, "anchor unresolved")
			continue
		}
		c.SawFunc(fi.Name())
		info := fi.Info()
		flow := p.FlowOfFunc(fi)
		// the result variable: the local assigned from an SMTPError literal and returned
		var resObj types.Object
		ast.Inspect(fi.Decl.Body, func(n ast.Node) bool {
			if as, ok := n.(*ast.AssignStmt); ok && len(as.Lhs) == 1 && len(as.Rhs) == 1 {
				if tv, ok := info.Types[as.Rhs[0]]; ok && isSMTPErrorType(tv.Type) {
					if _, isU := ast.Unparen(as.Rhs[0]).(*ast.UnaryExpr); isU {
						resObj = objOf(info, as.Lhs[0])
					}
				}
			}
			return true
		})
		if resObj == nil {
			c.Fail("R3", key, fi.Decl.Pos(), "undecided: result variable not found")
			continue
		}
		trk := func(l ast.Expr) (string, bool) {
			l = ast.Unparen(l)
			if sel, ok := l.(*ast.SelectorExpr); ok && objOf(info, sel.X) == resObj {
				if sel.Sel.Name == "Code" || sel.Sel.Name == "EnhancedCode" {
					return sel.Sel.Name, true
				}
			}
			// locals that carry the default pair into the literal (`defaultCode, defaultEnch := 554, …`)
			if id, ok := l.(*ast.Ident); ok {
				if v, ok := objOf(info, id).(*types.Var); ok && !v.IsField() && v != resObj && localIn(fi.Decl.Body, v) {
					if bt, ok := v.Type().Underlying().(*types.Basic); ok && bt.Info()&types.IsInteger != 0 {
						return "local:" + v.Name(), true
					}
					if _, isArr := v.Type().Underlying().(*types.Array); isArr {
						return "local:" + v.Name(), true
					}
				}
			}
			return "", false
		}
		pe := &pathEvaluator{f: flow, budget: 50000, tracked: trk, constOnly: true}
		ev := c16Evaluator(p, info)
		pe.eval = func(e ast.Expr, env map[string]absVal) absVal { return ev(e, envLookup(info, trk, env)) }
		// the literal initialises the fields: transfer handles `res := &T{…}` through a pre-pass
		lit := func(n ast.Node, env map[string]absVal) {
			as, ok := n.(*ast.AssignStmt)
			if !ok || len(as.Lhs) != 1 || objOf(info, as.Lhs[0]) != resObj {
				return
			}
			ast.Inspect(as.Rhs[0], func(x ast.Node) bool {
				if cl, ok := x.(*ast.CompositeLit); ok {
					for _, el := range cl.Elts {
						if kv, ok := el.(*ast.KeyValueExpr); ok {
							if id, ok := kv.Key.(*ast.Ident); ok && (id.Name == "Code" || id.Name == "EnhancedCode") {
								env[id.Name] = ev(kv.Value, envLookup(info, trk, env))
							}
						}
					}
					return false
				}
				return true
			})
		}
		usedPred := map[string]bool{}
		bad := ""
		npaths := 0
		// wrap transfer: run literal initialisation by visiting every assignment point as a "target" with side effect
		complete := pe.run(func(pt Pt) bool {
			if _, ok := pt.Node().(*ast.ReturnStmt); ok {
				return true
			}
			_, isAs := pt.Node().(*ast.AssignStmt)
			return isAs
		}, nil, func(pt Pt, env map[string]absVal, dec []decision) {
			if _, isAs := pt.Node().(*ast.AssignStmt); isAs {
				lit(pt.Node(), env)
				return
			}
			ret := pt.Node().(*ast.ReturnStmt)
			if len(ret.Results) != 1 || objOf(info, ret.Results[0]) != resObj {
				return // early returns of other values (nil, the deadline literal) are judged by R1
			}
			npaths++
			temp := -1
			for _, d := range dec {
				for _, af := range atomsOnEdge(d.Cond, d.Succ) {
					// a named boolean (`temporary := IsTemporaryOrUnspec(err); if temporary`) stands for its definition
					if call, ok := ast.Unparen(resolveLocal(info, fi.Decl.Body, af.E)).(*ast.CallExpr); ok {
						q := qname(callee(info, call))
						if q == exterrPkg+".IsTemporary" || q == exterrPkg+".IsTemporaryOrUnspec" {
							usedPred[q] = true
							if af.T {
								temp = 1
							} else {
								temp = 0
							}
						}
					}
				}
			}
			code, ench := env["Code"], env["EnhancedCode"]
			if temp < 0 {
				bad = "undecided: a path to the result is not controlled by a temporariness predicate"
				return
			}
			if code.K != absConst || ench.K != absConst {
				bad = "undecided: default pair is not constant"
				return
			}
			want := int64(5)
			if temp == 1 {
				want = 4
			}
			if code.N/100 != want {
				bad = "default basic code " + code.String() + " on the temporary=" + itoa(temp) + " edge (expected class " + itoa(int(want)) + ")"
			} else if ench.N != 0 && ench.N != want {
				bad = "default enhanced class " + ench.String() + " with basic code " + code.String() + " on the temporary=" + itoa(temp) + " edge"
			}
		})
		if !complete {
			bad = "undecided: path budget exceeded"
		}
		if npaths == 0 && bad == "" {
			bad = "undecided: no path returns the result variable"
		}
		c.Hold("R3", key+":defaults", fi.Decl.Pos(), bad == "", bad)
		if cv.name == "toSMTPErr" {
			same := len(usedPred) > 0
			for q := range usedPred {
				if !retryPred[q] {
					same = false
				}
			}
			var up, rp []string
			for q := range usedPred {
				up = append(up, q[strings.LastIndex(q, ".")+1:])
			}
			for q := range retryPred {
				rp = append(rp, q[strings.LastIndex(q, ".")+1:])
			}
			sort.Strings(up)
			sort.Strings(rp)
			c.Hold("R3", key+":predicate", fi.Decl.Pos(), same, "the stored status is classified with "+strings.Join(up, ",")+" but retry is decided with "+strings.Join(rp, ","))
		}
	}
}

// ---------------------------------------------------------------------------
// R4

func c16FieldMap(c *Check) {
	p := c.P
	// writers: key -> set of value types
	writers := map[string]map[string]bool{}
	addW := func(k string, t types.Type) {
		if writers[k] == nil {
			writers[k] = map[string]bool{}
		}
		writers[k][types.TypeString(t, nil)] = true
	}
	isFieldMapType := func(t types.Type) bool {
		mt, ok := t.Underlying().(*types.Map)
		if !ok || !isStringType(mt.Key()) {
			return false
		}
		it, ok := mt.Elem().Underlying().(*types.Interface)
		return ok && it.NumMethods() == 0
	}
	type reader struct {
		pos token.Pos
		key string
		t   types.Type
		fn  string
	}
	var readers []reader
	for _, pk := range p.ServerPkgs() {
		info := pk.TypesInfo
		for _, file := range pk.Syntax {
			// variables assigned from exterrors.Fields(...) in this file
			fieldVars := map[types.Object]bool{}
			ast.Inspect(file, func(n ast.Node) bool {
				if as, ok := n.(*ast.AssignStmt); ok && len(as.Rhs) == 1 && len(as.Lhs) == 1 {
					if call, ok := ast.Unparen(as.Rhs[0]).(*ast.CallExpr); ok && isCall(info, call, exterrPkg+".Fields") {
						if o := objOf(info, as.Lhs[0]); o != nil {
							fieldVars[o] = true
						}
					}
				}
				return true
			})
			var fnName string
			ast.Inspect(file, func(n ast.Node) bool {
				switch x := n.(type) {
				case *ast.FuncDecl:
					fnName = pk.Types.Name() + "." + x.Name.Name
				case *ast.CompositeLit:
					tv, ok := info.Types[x]
					if !ok || !isFieldMapType(tv.Type) {
						return true
					}
					hasCode, hasEnch := false, false
					for _, el := range x.Elts {
						if kv, ok := el.(*ast.KeyValueExpr); ok {
							if k, ok := constString(info, kv.Key); ok {
								if vt, ok := info.Types[kv.Value]; ok {
									addW(k, vt.Type)
								}
								if k == "smtp_code" {
									hasCode = true
								}
								if k == "smtp_enchcode" {
									hasEnch = true
								}
							}
						}
					}
					if hasCode || hasEnch {
						c.Hold("R4b", fnName+":maplit", x.Pos(), hasCode && hasEnch, "field map stores only one of smtp_code / smtp_enchcode")
					}
				case *ast.AssignStmt:
					for i, l := range x.Lhs {
						ix, ok := ast.Unparen(l).(*ast.IndexExpr)
						if !ok || i >= len(x.Rhs) {
							continue
						}
						if tv, ok := info.Types[ix.X]; !ok || !isFieldMapType(tv.Type) {
							continue
						}
						if k, ok := constString(info, ix.Index); ok {
							if vt, ok := info.Types[x.Rhs[i]]; ok {
								addW(k, vt.Type)
							}
						}
					}
				case *ast.TypeAssertExpr:
					if x.Type == nil {
						return true
					}
					ix, ok := ast.Unparen(x.X).(*ast.IndexExpr)
					if !ok {
						return true
					}
					k, ok := constString(info, ix.Index)
					if !ok {
						return true
					}
					fromFields := false
					if call, ok := ast.Unparen(ix.X).(*ast.CallExpr); ok && isCall(info, call, exterrPkg+".Fields") {
						fromFields = true
					}
					if o := objOf(info, ix.X); o != nil && fieldVars[o] {
						fromFields = true
					}
					if fromFields {
						readers = append(readers, reader{x.Pos(), k, info.Types[x.Type].Type, fnName})
					}
				}
				return true
			})
		}
	}
	// R4b for SMTPError.Fields (index assignments in one function): both keys are stored on every path
	if r := c.In("framework/exterrors", "SMTPError", "Fields"); r != nil {
		storeOf := func(key string) []Pt {
			return r.Assigns(func(l, _ ast.Expr) bool {
				ix, ok := ast.Unparen(l).(*ast.IndexExpr)
				if !ok {
					return false
				}
				k, ok := constString(r.Info, ix.Index)
				return ok && k == key
			})
		}
		msg := ""
		for _, k := range []string{"smtp_code", "smtp_enchcode"} {
			pts := storeOf(k)
			if len(pts) == 0 {
				msg = "SMTPError.Fields does not store " + k
				continue
			}
			if ok, w := r.MustPass(r.Entry(), true, r.IsNormalExit, isPt(pts)); !ok {
				msg = "SMTPError.Fields stores " + k + " only on some paths: an outer error then overrides one half of the pair of an inner error (e.g. 450 with 5.1.1): " + w
			}
		}
		c.Hold("R4b", "exterrors.SMTPError.Fields", r.FI.Decl.Pos(), msg == "", msg)
	} else {
		c.Fail("R4b", "exterrors.SMTPError.Fields", token.NoPos, "anchor unresolved")
	}
	for _, r := range readers {
		ws := writers[r.key]
		ts := types.TypeString(r.t, nil)
		key := r.fn + ":" + r.key
		if len(ws) == 0 {
			c.Hold("R4", key, r.pos, false, "no writer in the program stores a value under field key "+r.key)
			continue
		}
		var have []string
		for w := range ws {
			have = append(have, w[strings.LastIndex(w, "/")+1:])
		}
		sort.Strings(have)
		c.Hold("R4", key, r.pos, ws[ts], "reader asserts "+ts[strings.LastIndex(ts, "/")+1:]+" but every writer of "+r.key+" stores "+strings.Join(have, " | ")+" (the assertion never succeeds)")
	}
}

// ---------------------------------------------------------------------------
// R5

func c16ReplyText(c *Check) {
	p := c.P
	for _, a := range [][3]string{{"internal/target/queue", "", "toSMTPErr"}, {"internal/endpoint/smtp", "Endpoint", "wrapErr"}} {
		fi := p.Func(a[0], a[1], a[2])
		if fi == nil {
			c.Fail("R5", a[2], token.NoPos, "anchor unresolved")
			continue
		}
		f := p.SSAFunc(fi.Obj)
		if f == nil {
			c.Fail("R5", a[2], fi.Decl.Pos(), "undecided: no SSA")
			continue
		}
		bad := ""
		var badPos token.Pos
		nstores := 0
		var scan func(fn *ssa.Function)
		scan = func(fn *ssa.Function) {
			for _, b := range fn.Blocks {
				for _, ins := range b.Instrs {
					st, ok := ins.(*ssa.Store)
					if !ok {
						continue
					}
					fa, ok := st.Addr.(*ssa.FieldAddr)
					if !ok {
						continue
					}
					fv := fieldVarOf(fa)
					if fv == nil || objName(fv) != "Message" || !isSMTPErrorType(fa.X.Type()) {
						continue
					}
					nstores++
					if src, pos := errTextSource(st.Val, map[ssa.Value]bool{}, 0); src != "" && bad == "" {
						bad = "reply text derives from " + src
						badPos = pos
					}
				}
			}
		}
		scan(f)
		if nstores == 0 {
			c.Fail("R5", a[2], fi.Decl.Pos(), "undecided: no store to the reply text found")
			continue
		}
		if badPos == token.NoPos {
			badPos = fi.Decl.Pos()
		}
		c.Hold("R5", a[2], badPos, bad == "", bad)
	}
}

// errTextSource walks the data dependencies of a string value and reports a call that turns an error value
// into text (err.Error(), fmt.Sprint*(…err…)).
func errTextSource(v ssa.Value, seen map[ssa.Value]bool, depth int) (string, token.Pos) {
	if v == nil || seen[v] || depth > 12 {
		return "", token.NoPos
	}
	seen[v] = true
	switch x := v.(type) {
	case *ssa.Call:
		cc := &x.Call
		if cc.IsInvoke() && objName(cc.Method) == "Error" && isErrorType(cc.Value.Type()) {
			return "error.Error()", x.Pos()
		}
		name := ssaCalleeName(cc)
		if strings.HasPrefix(name, "fmt.") {
			for _, a := range cc.Args {
				if s, p := errTextSource(a, seen, depth+1); s != "" {
					return s, p
				}
				if containsErrorOperand(a, map[ssa.Value]bool{}, 0) {
					return name + " over an error value", x.Pos()
				}
			}
		}
		for _, a := range cc.Args {
			if isStringType(a.Type()) {
				if s, p := errTextSource(a, seen, depth+1); s != "" {
					return s, p
				}
			}
		}
		if !cc.IsInvoke() {
			if sel, ok := cc.Value.(*ssa.Function); ok && sel.Signature.Recv() != nil && len(cc.Args) > 0 {
				// method on a builder etc.: follow the receiver's stores is out of scope
				_ = sel
			}
		}
	case *ssa.BinOp:
		if s, p := errTextSource(x.X, seen, depth+1); s != "" {
			return s, p
		}
		return errTextSource(x.Y, seen, depth+1)
	case *ssa.Phi:
		for _, e := range x.Edges {
			if s, p := errTextSource(e, seen, depth+1); s != "" {
				return s, p
			}
		}
	case *ssa.UnOp:
		// load: follow stores to the same address within the function
		if fa, ok := x.X.(*ssa.FieldAddr); ok {
			_ = fa
		}
		if al, ok := x.X.(*ssa.Alloc); ok {
			for _, r := range *al.Referrers() {
				if st, ok := r.(*ssa.Store); ok && st.Addr == al {
					if s, p := errTextSource(st.Val, seen, depth+1); s != "" {
						return s, p
					}
				}
			}
		}
	case *ssa.Extract:
		return errTextSource(x.Tuple, seen, depth+1)
	case *ssa.TypeAssert:
		return "", token.NoPos // value taken out of the field map (smtp_msg): allowed
	case *ssa.ChangeType:
		return errTextSource(x.X, seen, depth+1)
	case *ssa.Convert:
		return errTextSource(x.X, seen, depth+1)
	}
	return "", token.NoPos
}

func containsErrorOperand(v ssa.Value, seen map[ssa.Value]bool, depth int) bool {
	if v == nil || seen[v] || depth > 6 {
		return false
	}
	seen[v] = true
	if isErrorType(v.Type()) {
		return true
	}
	switch x := v.(type) {
	case *ssa.MakeInterface:
		return containsErrorOperand(x.X, seen, depth+1)
	case *ssa.Slice:
		return containsErrorOperand(x.X, seen, depth+1)
	case *ssa.Alloc:
		for _, r := range *x.Referrers() {
			if ia, ok := r.(*ssa.IndexAddr); ok {
				for _, r2 := range *ia.Referrers() {
					if st, ok := r2.(*ssa.Store); ok && containsErrorOperand(st.Val, seen, depth+1) {
						return true
					}
				}
			}
		}
	case *ssa.ChangeInterface:
		return containsErrorOperand(x.X, seen, depth+1)
	}
	return false
}

// c16JudgeAtCallers: body belongs to an unexported function of pk whose parameter prm supplies the basic code; every
// call site in the package must pass a constant that is coherent with the enhanced class ench.
func c16JudgeAtCallers(c *Check, pk *packages.Package, body *ast.BlockStmt, prm string, ench absVal) (ok bool, msg string, decided bool) {
	var fi *FuncInfo
	c.P.AllFuncs([]*packagesPkg{pk}, func(f *FuncInfo) {
		if f.Decl.Body == body {
			fi = f
		}
	})
	if fi == nil || fi.Obj.Exported() || fi.Decl.Type.Params == nil {
		return false, "", false
	}
	pidx, pi := -1, 0
	for _, f := range fi.Decl.Type.Params.List {
		for _, nm := range f.Names {
			if nm.Name == prm {
				pidx = pi
			}
			pi++
		}
	}
	if pidx < 0 {
		return false, "", false
	}
	sites := 0
	ok = true
	c.P.AllFuncs([]*packagesPkg{pk}, func(caller *FuncInfo) {
		inf := caller.Info()
		for _, call := range callsIn(caller.Decl.Body) {
			if callee(inf, call) != fi.Obj || pidx >= len(call.Args) {
				continue
			}
			sites++
			cv := c16Evaluator(c.P, inf)(call.Args[pidx], nil)
			if cv.K != absConst {
				ok, msg = false, "the basic code handed to "+refName(fi.Obj)+" at line "+itoa(c.P.Fset.Position(call.Pos()).Line)+" is not a constant"
				continue
			}
			if o, m := c16Judge(cv, ench); !o {
				ok, msg = false, m+" (code passed to "+refName(fi.Obj)+" at line "+itoa(c.P.Fset.Position(call.Pos()).Line)+")"
			}
		}
	})
	if sites == 0 {
		return false, "", false
	}
	return ok, msg, true
}

// c16InPlace: R1f. `x := &SMTPError{Code: 550, EnhancedCode: {5,7,1}}; if temporary { x.Code = 450; … }` – the class digit
// has to move with the code, in the error itself (arrays are values in Go: `e := x.EnhancedCode; e[0] = 4` changes a copy).
func c16InPlace(c *Check) {
	p := c.P
	n := 0
	for _, pk := range p.ServerPkgs() {
		info := pk.TypesInfo
		eachFuncBody(pk, func(name string, fd *ast.FuncDecl, body *ast.BlockStmt) {
			fnName := pk.Types.Name() + "." + strings.TrimPrefix(name, ".")
			// locals built from an SMTPError literal, with the literal
			lits := map[types.Object]*ast.CompositeLit{}
			ast.Inspect(body, func(x ast.Node) bool {
				as, ok := x.(*ast.AssignStmt)
				if !ok || len(as.Lhs) != len(as.Rhs) {
					return true
				}
				for i, r := range as.Rhs {
					e := ast.Unparen(r)
					if u, isU := e.(*ast.UnaryExpr); isU && u.Op == token.AND {
						e = ast.Unparen(u.X)
					}
					if cl, isCL := e.(*ast.CompositeLit); isCL {
						if tv, has := info.Types[cl]; has && isSMTPErrorType(tv.Type) {
							if o := objOf(info, as.Lhs[i]); o != nil {
								lits[o] = cl
							}
						}
					}
				}
				return true
			})
			if len(lits) == 0 {
				return
			}
			ord := 0
			ast.Inspect(body, func(x ast.Node) bool {
				var list []ast.Stmt
				switch b := x.(type) {
				case *ast.BlockStmt:
					list = b.List
				case *ast.CaseClause:
					list = b.Body
				default:
					return true
				}
				for _, st := range list {
					as, ok := st.(*ast.AssignStmt)
					if !ok || len(as.Lhs) != len(as.Rhs) {
						continue
					}
					for i, l := range as.Lhs {
						sel, isSel := ast.Unparen(l).(*ast.SelectorExpr)
						if !isSel || sel.Sel.Name != "Code" || fieldOf(info, sel) == nil {
							continue
						}
						base := objOf(info, sel.X)
						lit := lits[base]
						tv, has := info.Types[as.Rhs[i]]
						if base == nil || lit == nil || !has || tv.Value == nil {
							continue // not a constant code, or not an error built here (converters: R3 / R3b)
						}
						ord++
						n++
						c.sites++
						// the literal leaves the enhanced code unset?
						unset := true
						for _, el := range lit.Elts {
							if kv, isKV := el.(*ast.KeyValueExpr); isKV {
								if id, isID := kv.Key.(*ast.Ident); isID && id.Name == "EnhancedCode" {
									ev := c16Evaluator(p, info)(kv.Value, nil)
									unset = ev.K == absConst && ev.N == 0
								}
							}
						}
						paired := false
						for _, st2 := range list {
							as2, ok2 := st2.(*ast.AssignStmt)
							if !ok2 {
								continue
							}
							for _, l2 := range as2.Lhs {
								e2 := ast.Unparen(l2)
								if ix, isIx := e2.(*ast.IndexExpr); isIx {
									e2 = ast.Unparen(ix.X)
								}
								if s2, isS2 := e2.(*ast.SelectorExpr); isS2 && s2.Sel.Name == "EnhancedCode" && objOf(info, s2.X) == base {
									paired = true
								}
							}
						}
						c.Hold("R1f", fnName+":adjust"+itoa(ord), as.Pos(), unset || paired, "the basic code of "+base.Name()+" is changed to "+tv.Value.String()+" but the enhanced code of the same error is not (a change made to a copy of the EnhancedCode array does not reach it): the reply combines the new class with the old one – e.g. 450 with 5.7.1, a failure the sender is meant to retry marked permanent")
					}
				}
				return true
			})
		})
	}
	if n == 0 {
		c.Fail("R1f", "sites", token.NoPos, "undecided: no error built from a literal is adjusted in place")
	}
}


// R3c: see the rule text. In tryDelivery the error e of a recipient is classified with the temporariness predicate
// (retry or give up); the status the failure report shows is RcptErrs[rcpt]. If the store of toSMTPErr(e) can be
// skipped on a path to the classification, the recipient is given up (class 5 treatment) while the report shows the
// 4.x.x status of an earlier attempt – or the other way round.
func c16StatusFromThisAttempt(c *Check) {
	r := c.need("R3c", "internal/target/queue", "Queue", "tryDelivery")
	if r == nil {
		return
	}
	info := r.Info
	n := 0
	for _, pt := range r.F.Points() {
		for _, call := range callsAt(pt.Node()) {
			if !isCall(info, call, exterrPkg+".IsTemporary", exterrPkg+".IsTemporaryOrUnspec") || len(call.Args) != 1 {
				continue
			}
			e := objOf(info, call.Args[0])
			if e == nil {
				continue
			}
			// the definition(s) of e inside the function: the look-up of the attempt's error
			var defs []Pt
			for _, dp := range r.F.Points() {
				if dp.Node() != nil && assignsObj(info, dp.Node(), e) {
					defs = append(defs, dp)
				}
			}
			if len(defs) == 0 {
				continue
			}
			n++
			stores := func(q Pt) bool {
				as, ok := q.Node().(*ast.AssignStmt)
				if !ok || len(as.Lhs) != len(as.Rhs) {
					return false
				}
				for i, l := range as.Lhs {
					ix, isIx := ast.Unparen(l).(*ast.IndexExpr)
					if !isIx || !isField(info, ix.X, "QueueMetadata", "RcptErrs") {
						continue
					}
					if mentions(info, as.Rhs[i], e) {
						return true
					}
				}
				return false
			}
			path, f := r.F.Reach(Query{From: defs, Target: func(q Pt) bool { return q == pt }, Avoid: func(q Pt) bool { return stores(q) || (q != pt && isPt(defs)(q)) }})
			c.Hold("R3c", "tryDelivery:classified-error-is-the-stored-status", call.Pos(), !f, "the error of this attempt is classified (retry / give up) on a path on which it was not stored as the recipient's status: the report shows the status of an earlier attempt, whose class can differ from how the failure was treated (given up after a permanent refusal, reported as 4.x.x): "+r.F.Describe(path))
		}
	}
	if n == 0 {
		c.Fail("R3c", "tryDelivery:classification", r.FI.Decl.Pos(), "undecided: no temporariness classification of an attempt's error in tryDelivery")
	}
}
