package main

import (
	"go/ast"
	"go/token"
	"go/types"
	"sort"
	"strings"

	"golang.org/x/tools/go/ssa"
)

func init() { register("C09", checkC09) }

type statusSite struct {
	fn       *ssa.Function
	call     ssa.CallInstruction
	key      ssa.Value
	recv     ssa.Value
	inMethod bool // the site is inside a SetStatus method (forwarder)
}

func (p *Prog) statusSites() []statusSite {
	var out []statusSite
	for _, f := range p.MaddyFuncs() {
		for _, b := range f.Blocks {
			for _, ins := range b.Instrs {
				ci, ok := ins.(ssa.CallInstruction)
				if !ok {
					continue
				}
				cc := ci.Common()
				var key, recv ssa.Value
				switch {
				case cc.IsInvoke() && objName(cc.Method) == "SetStatus" && len(cc.Args) == 2:
					key, recv = cc.Args[0], cc.Value
				case !cc.IsInvoke() && cc.StaticCallee() != nil && objName(cc.StaticCallee()) == "SetStatus" && cc.StaticCallee().Signature.Recv() != nil && len(cc.Args) == 3:
					key, recv = cc.Args[1], cc.Args[0]
				default:
					continue
				}
				if !isStringType(key.Type()) {
					continue
				}
				top := f
				for top.Parent() != nil {
					top = top.Parent()
				}
				out = append(out, statusSite{fn: f, call: ci, key: key, recv: recv, inMethod: objName(top) == "SetStatus" && top.Signature.Recv() != nil})
			}
		}
	}
	sort.Slice(out, func(i, j int) bool { return out[i].call.Pos() < out[j].call.Pos() })
	return out
}

func topFunc(f *ssa.Function) *ssa.Function {
	for f.Parent() != nil {
		f = f.Parent()
	}
	return f
}

func siteKey(p *Prog, f *ssa.Function, ord map[string]int) string {
	t := topFunc(f)
	name := t.Name()
	if t.Signature.Recv() != nil {
		if nt := namedOf(t.Signature.Recv().Type()); nt != nil {
			name = objName(nt.Obj()) + "." + name
		}
	}
	if t.Pkg != nil {
		name = t.Pkg.Pkg.Name() + "." + name
	}
	ord[name]++
	return name + ":site" + itoa(ord[name])
}

// isRcptParam: prm is the first string parameter of a method named AddRcpt or Rcpt.
func isRcptParam(prm *ssa.Parameter) bool {
	f := prm.Parent()
	if f.Parent() != nil || f.Signature.Recv() == nil {
		return false
	}
	if objName(f) != "AddRcpt" && objName(f) != "Rcpt" {
		return false
	}
	for _, q := range f.Params[1:] {
		if isStringType(q.Type()) {
			return q == prm
		}
	}
	return false
}

func checkC09(c *Check) {
	p := c.P
	c.explain = "C09 (per-recipient results name exactly the accepted recipients): the key of every SetStatus call in the server is traced backwards through go/ssa def-use chains, static callees, closures and struct fields (all stores to a field are enumerated program-wide, locals with reaching definitions) to its origins; " +
		"an origin must be an element of a recipient list whose every store is append(list, <the recipient parameter of the same object's AddRcpt/Rcpt>), i.e. value-identical to what the caller passed. Also: a list owned by an object that outlives a transaction is reset when a transaction starts; an accepting method appends once (not per rewrite × target); " +
		"a status-all loop is followed by return; a counter used to skip already-reported recipients advances on every callback path; layers that pass a transformed address inward translate keys back, and already-translated keys are not translated again."
	c.notCover = "the next hop's own behaviour (number and order of LMTP replies), value-level equality of strings that pass through library calls."

	pc := newProv(p)
	sites := p.statusSites()
	c.Rule("K1", "every SetStatus key (outside forwarding collectors) originates only from elements of a recipient list filled with the unmodified AddRcpt/Rcpt parameter", 4)
	c.Rule("K1f", "every store to such a recipient list appends the unmodified recipient parameter (or resets the list)", 3)
	ord := map[string]int{}
	checkedFields := map[*types.Var]bool{}
	var listFields []*types.Var
	for _, s := range sites {
		c.sites++
		c.SawFunc(topFunc(s.fn).String())
		key := siteKey(p, s.fn, ord)
		if s.inMethod {
			continue
		}
		os := pc.origins(s.key, s.call, 0, map[ssa.Value]bool{})
		bad := ""
		for _, o := range os {
			switch o.Kind {
			case "listelem":
				if !checkedFields[o.Field] {
					checkedFields[o.Field] = true
					listFields = append(listFields, o.Field)
				}
			default:
				bad = "the status key originates from " + o.String() + " – not from the list of addresses this object was given by AddRcpt (a converted, echoed or foreign spelling is filed under a key the caller does not know: the caller counts the recipient as delivered)"
			}
		}
		if len(os) == 0 {
			bad = "undecided: no origin found for the key"
		}
		c.Hold("K1", key, s.call.Pos(), bad == "", bad)
	}
	// K1f: field stores
	sort.Slice(listFields, func(i, j int) bool { return listFields[i].Pos() < listFields[j].Pos() })
	for _, fv := range listFields {
		stores := p.FieldStores(fv)
		owner := fieldOwnerName(fv)
		if len(stores) == 0 {
			c.Hold("K1f", owner+"."+objName(fv), fv.Pos(), false, "undecided: recipient list has no store")
			continue
		}
		for i, st := range stores {
			c.SawFunc(topFunc(st.Parent()).String())
			es := pc.elemsOf(st.Val, st, 0, map[ssa.Value]bool{})
			bad := ""
			for _, o := range es {
				switch {
				case o.Kind == "listelem" && o.Field == fv:
				case o.Kind == "param" && isRcptParam(o.Param):
				default:
					bad = "the list receives " + o.String() + " instead of the unmodified recipient parameter (results are later reported under that other spelling)"
				}
			}
			c.Hold("K1f", owner+"."+objName(fv)+":store"+itoa(i+1), st.Pos(), bad == "", bad)
		}
	}

	// ---- K2 freshness
	c.Rule("K2", "a recipient list owned by an object that serves more than one transaction is reset when a transaction starts", 1)
	for _, fv := range listFields {
		ownerT := fieldOwner(p, fv)
		if ownerT == nil {
			continue
		}
		perTxn := allocatedOnlyInStart(p, ownerT)
		if perTxn {
			c.Hold("K2", objName(ownerT.Obj())+"."+objName(fv), fv.Pos(), true, "")
			continue
		}
		// needs a reset in its Mail method
		reset := false
		for _, st := range p.FieldStores(fv) {
			top := topFunc(st.Parent())
			if objName(top) != "Mail" && objName(top) != "Reset" && objName(top) != "Start" {
				continue
			}
			if es := pc.elemsOf(st.Val, st, 0, map[ssa.Value]bool{}); len(es) == 0 {
				reset = true
			}
		}
		c.Hold("K2", objName(ownerT.Obj())+"."+objName(fv), fv.Pos(), reset, "objects of type "+objName(ownerT.Obj())+" are reused across transactions (connection pool) but the recipient list is never reset when a transaction starts: a reused connection reports the recipients of earlier messages")
	}

	// ---- K3a: accept-once
	c.Rule("K3a", "an accepting method records the client's recipient once per acceptance (not once per rewritten address × target)", 3)
	for _, fv := range listFields {
		for i, st := range p.FieldStores(fv) {
			top := topFunc(st.Parent())
			if objName(top) != "AddRcpt" && objName(top) != "Rcpt" {
				continue
			}
			fi := p.DeclOf(top.Object().(*types.Func))
			if fi == nil {
				continue
			}
			inLoop := false
			ast.Inspect(fi.Decl.Body, func(n ast.Node) bool {
				switch l := n.(type) {
				case *ast.RangeStmt:
					if posIn(l.Body, st.Pos()) {
						inLoop = true
					}
				case *ast.ForStmt:
					if posIn(l.Body, st.Pos()) {
						inLoop = true
					}
				}
				return true
			})
			c.Hold("K3a", fi.Name()+":"+objName(fv)+":append"+itoa(i+1), st.Pos(), !inLoop, "the client's address is appended inside a loop (once per rewritten address and target): with two targets or a 1→N rewrite one client recipient receives several results (the LMTP server library panics on surplus results)")
		}
	}

	// ---- K3d: the recipient is recorded only once the next hop accepted it
	c.Rule("K3d", "an accepting method that forwards the recipient records it only after the inner Rcpt/AddRcpt succeeded (never on its error edge)", 3)
	for _, fv := range listFields {
		for i, st := range p.FieldStores(fv) {
			top := topFunc(st.Parent())
			if objName(top) != "AddRcpt" && objName(top) != "Rcpt" {
				continue
			}
			fn, _ := top.Object().(*types.Func)
			fi := p.DeclOf(fn)
			if fi == nil {
				continue
			}
			r := &RuleCtx{C: c, FI: fi, F: p.FlowOfFunc(fi), Info: fi.Info()}
			info := r.Info
			storePt, found := r.F.PtOf(st.Pos())
			if !found {
				continue
			}
			inner := func(info *types.Info, call *ast.CallExpr) bool {
				m := methodName(call)
				if m != "Rcpt" && m != "AddRcpt" {
					return false
				}
				// a call on something else than the method's own receiver
				return callee(info, call) != fn
			}
			calls := r.Calls(inner)
			if len(calls) == 0 {
				continue // nothing is forwarded (e.g. the queue's own delivery)
			}
			msg := ""
			// the append comes after some forwarding call on every path …
			if ok, w := r.MustPass(r.Entry(), true, isPt([]Pt{storePt}), isPt(calls)); !ok {
				msg = "the recipient is recorded before the next hop was asked: " + w
			}
			// … and is unreachable on the error edge of each of them (within the same iteration)
			for _, cp := range calls {
				call := r.CallAt(cp, inner)
				eo := errVarAssigned(info, cp.Node(), call)
				if eo == nil {
					// `return f(x)` / error not bound: then the store must not precede it either (checked above) and cannot follow it
					if _, f := r.F.Reach(Query{From: []Pt{cp}, Target: isPt([]Pt{storePt}), Avoid: isPt(calls)}); f {
						msg = "the recipient is recorded without looking at the result of the inner " + methodName(call)
					}
					continue
				}
				if path, f := r.F.ReachRefined(cp, eo, false, false, isPt([]Pt{storePt}), isPt(calls)); f {
					msg = "the recipient is recorded although the next hop refused it: later per-recipient results are matched against a list that contains recipients the next hop never accepted (statuses shift to the wrong recipient): " + r.F.Describe(path)
				}
			}
			c.Hold("K3d", fi.Name()+":"+objName(fv)+":store"+itoa(i+1), st.Pos(), msg == "", msg)
		}
	}

	// ---- K3b: status-all loops are final; skip counters advance
	c.Rule("K3b", "in a BodyNonAtomic implementation a loop that reports a status for all recipients is followed by return before any other status is reported", 3)
	c.Rule("K3c", "a counter used to skip already-reported recipients (`list[k:]`) is advanced exactly once on every path of the reporting callback", 1)
	nK3c := 0
	for _, pk := range p.ServerPkgs() {
		p.AllFuncs([]*packagesPkg{pk}, func(fi *FuncInfo) {
			if refName(fi.Obj) != "BodyNonAtomic" || fi.Decl.Recv == nil {
				return
			}
			info := fi.Info()
			r := &RuleCtx{C: c, FI: fi, F: p.FlowOfFunc(fi), Info: info}
			c.SawFunc(fi.Name())
			isSet := func(call *ast.CallExpr) bool { return methodName(call) == "SetStatus" }
			// status-all events: a loop over a whole list that reports a status for each element – written in this function,
			// in a closure of it, or in a function of the package it calls (`failRcpts(sc, rcpts, err)`)
			allLoopsIn := func(inf *types.Info, body ast.Node) []*ElemLoop {
				var out []*ElemLoop
				for _, l := range elemLoops(inf, body, func(e ast.Expr) bool {
					_, sliced := ast.Unparen(e).(*ast.SliceExpr)
					return !sliced // a sliced tail `list[k:]` is a fill-in, judged by K3c
				}) {
					if !l.Whole {
						continue
					}
					l := l
					hit := false
					inspectNoLit(l.Body, func(x ast.Node) bool {
						if call, ok := x.(*ast.CallExpr); ok && isSet(call) && len(call.Args) == 2 && l.IsElem(call.Args[0]) {
							hit = true
						}
						return true
					})
					if hit {
						out = append(out, l)
					}
				}
				return out
			}
			// closures bound to a local name that report for a whole list
			allClosures := map[types.Object]bool{}
			ast.Inspect(fi.Decl.Body, func(n ast.Node) bool {
				if as, ok := n.(*ast.AssignStmt); ok && len(as.Lhs) == 1 && len(as.Rhs) == 1 {
					if fl, ok := ast.Unparen(as.Rhs[0]).(*ast.FuncLit); ok && len(allLoopsIn(info, fl.Body)) > 0 {
						if o := objOf(info, as.Lhs[0]); o != nil {
							allClosures[o] = true
						}
					}
				}
				return true
			})
			isAllCall := func(call *ast.CallExpr) bool {
				if o := objOf(info, call.Fun); o != nil && allClosures[o] {
					return true
				}
				if fn := callee(info, call); fn != nil && fn.Pkg() == fi.Obj.Pkg() && fn != fi.Obj {
					if d := p.DeclOf(fn); d != nil && d.Decl.Body != nil && len(allLoopsIn(d.Info(), d.Decl.Body)) > 0 {
						return true
					}
				}
				return false
			}
			var allLoops []*ElemLoop
			for _, l := range allLoopsIn(info, fi.Decl.Body) {
				inLit := false
				ast.Inspect(fi.Decl.Body, func(n ast.Node) bool {
					if fl, ok := n.(*ast.FuncLit); ok && within(fl.Body, l.Stmt) {
						inLit = true
					}
					return true
				})
				if !inLit {
					allLoops = append(allLoops, l)
				}
			}
			anySet := func(pt Pt) bool {
				n := pt.Node()
				if n == nil {
					return false
				}
				found := false
				// a status reported here: direct call, a status-all helper, or a call that is handed a callback which reports
				ast.Inspect(n, func(x ast.Node) bool {
					if call, ok := x.(*ast.CallExpr); ok && (isSet(call) || isAllCall(call)) {
						found = true
					}
					return true
				})
				return found
			}
			nEv := 0
			for _, l := range allLoops {
				l := l
				nEv++
				inLoop := func(pt Pt) bool { n := pt.Node(); return n != nil && posIn(l.Stmt, n.Pos()) }
				path, f := r.F.Reach(Query{From: r.F.LoopDone(l), Inclusive: true, Target: func(pt Pt) bool { return anySet(pt) && !inLoop(pt) }})
				c.Hold("K3b", fi.Name()+":all-loop"+itoa(nEv), l.Stmt.Pos(), !f, "after reporting a status for every recipient the function goes on and can report a second status for the same recipients: "+r.F.Describe(path))
			}
			for _, pt := range r.F.Points() {
				for _, call := range callsAt(pt.Node()) {
					if !isAllCall(call) {
						continue
					}
					// a helper called once per element of an outer loop (`for _, d := range ds { d.failBody(c, err) }`) reports
					// for that element's recipients only; the next iteration is not "a second status"
					nEv++
					pt := pt
					path, f := r.F.Reach(Query{From: []Pt{pt}, Target: func(q Pt) bool { return anySet(q) && q != pt }})
					if f {
						// tolerate the re-execution of the very same call in a later iteration of an enclosing loop
						only := true
						for _, q := range path {
							if anySet(q) && q != pt {
								only = false
							}
						}
						if only {
							f = false
						}
					}
					c.Hold("K3b", fi.Name()+":all-loop"+itoa(nEv), call.Pos(), !f, "after reporting a status for every recipient (through "+exprStr(call.Fun)+") the function goes on and can report a second status for the same recipients: "+r.F.Describe(path))
				}
			}
			// K3c
			inspectNoLit(fi.Decl.Body, func(n ast.Node) bool {
				rs, ok := n.(*ast.RangeStmt)
				if !ok {
					return true
				}
				se, ok := ast.Unparen(rs.X).(*ast.SliceExpr)
				if !ok || se.Low == nil {
					return true
				}
				k := objOf(info, se.Low)
				if k == nil {
					return true
				}
				reports := false
				inspectNoLit(rs.Body, func(x ast.Node) bool {
					if call, ok := x.(*ast.CallExpr); ok && isSet(call) {
						reports = true
					}
					return true
				})
				if !reports {
					return true
				}
				// closures that advance k / report
				ast.Inspect(fi.Decl.Body, func(x ast.Node) bool {
					fl, ok := x.(*ast.FuncLit)
					if !ok {
						return true
					}
					mentionsK := mentions(info, fl.Body, k)
					callsSet := false
					ast.Inspect(fl.Body, func(y ast.Node) bool {
						if call, ok := y.(*ast.CallExpr); ok && isSet(call) {
							callsSet = true
						}
						return true
					})
					if !mentionsK && !callsSet {
						return true
					}
					nK3c++
					lf := p.FlowOf(info, fl.Body, fi.Name()+"$cb")
					inc := func(pt Pt) bool {
						switch s := pt.Node().(type) {
						case *ast.IncDecStmt:
							return s.Tok == token.INC && objOf(info, s.X) == k
						case *ast.AssignStmt:
							return len(s.Lhs) == 1 && objOf(info, s.Lhs[0]) == k && s.Tok == token.ADD_ASSIGN && exprStr(s.Rhs[0]) == "1"
						}
						return false
					}
					reportPt := func(pt Pt) bool {
						for _, call := range callsAt(pt.Node()) {
							if isSet(call) {
								return true
							}
						}
						return false
					}
					msg := ""
					// every path that reports must advance the counter; and never twice
					reps := lf.Find(func(n ast.Node) bool { return reportPt(ptOfNode(lf, n)) })
					for _, rp := range reps {
						// path entry → rp → exit avoiding inc
						_, f1 := lf.Reach(Query{From: []Pt{lf.Entry()}, Inclusive: true, Target: isPt([]Pt{rp}), Avoid: inc})
						_, f2 := lf.Reach(Query{From: []Pt{rp}, Target: lf.IsNormalExit, Avoid: inc})
						if f1 && f2 {
							msg = "a path of the callback reports a status without advancing " + k.Name() + ": the fill-in over " + exprStr(rs.X) + " then reports that recipient a second time"
						}
					}
					incs := lf.Find(func(n ast.Node) bool { return inc(ptOfNode(lf, n)) })
					for _, ip := range incs {
						if _, f := lf.Reach(Query{From: []Pt{ip}, Target: inc}); f {
							msg = "the counter " + k.Name() + " can be advanced twice in one callback invocation (a recipient is skipped and gets no result)"
						}
					}
					if len(incs) == 0 {
						msg = "the counter " + k.Name() + " is never advanced by the callback"
					}
					c.Hold("K3c", fi.Name()+":"+k.Name(), fl.Pos(), msg == "", msg)
					return false
				})
				return true
			})
		})
	}
	if nK3c == 0 {
		c.HoldConst("K3c", "no-skip-counter", token.NoPos, true, "")
	}

	c09PerPartStatus(c)
	c09AcceptedListAfterAccept(c, "K12")
	c09OneKeyForConnTable(c, "K13")
	c09NoSpellingDependentSkip(c, "K14")
	c09AcceptedListWhole(c, "K15")

	// ---- K5: a failure of one atomic target is reported for exactly that target's recipients
	c.Rule("K5", "pipeline per-recipient body path: when an atomic target's Body fails, the error is reported for that target's complete recipient list and for no other target's recipients", 1)
	if r := c.In(pipelineRel, "msgpipelineDelivery", "BodyNonAtomic"); r != nil {
		info := r.Info
		msg := "no fan-out over the started target deliveries"
		for _, rs := range rangesIn(r.FI.Decl.Body, func(rs *ast.RangeStmt) bool { return isField(info, rs.X, "msgpipelineDelivery", "deliveries") }) {
			lv := objOf(info, rs.Value)
			if lv == nil {
				continue
			}
			// the Body call on the loop variable
			var bodyPt Pt
			var bodyCall *ast.CallExpr
			for _, pt := range r.F.Points() {
				nd := pt.Node()
				if nd == nil || !within(rs.Body, nd) {
					continue
				}
				for _, call := range callsAt(nd) {
					if methodName(call) == "Body" && recvObj(info, call) == lv {
						bodyPt, bodyCall = pt, call
					}
				}
			}
			if bodyCall == nil {
				continue
			}
			msg = ""
			eo := errVarAssigned(info, bodyPt.Node(), bodyCall)
			if eo == nil {
				msg = "the error of an atomic target's Body is dropped"
				break
			}
			// closures that report for all deliveries
			allReporters := map[types.Object]bool{}
			ast.Inspect(r.FI.Decl.Body, func(n ast.Node) bool {
				if as, ok := n.(*ast.AssignStmt); ok && len(as.Lhs) == 1 && len(as.Rhs) == 1 {
					if fl, ok := as.Rhs[0].(*ast.FuncLit); ok {
						for range rangesIn(fl.Body, func(rs2 *ast.RangeStmt) bool { return isField(info, rs2.X, "msgpipelineDelivery", "deliveries") }) {
							allReporters[objOf(info, as.Lhs[0])] = true
						}
					}
				}
				return true
			})
			iterEnd := func(pt Pt) bool {
				return (pt.B.Stmt == ast.Stmt(rs) && (pt.B.Kind == kindRangeLoop || pt.B.Kind == kindRangeDone) && pt.I == 0) || r.F.IsExitPt(pt)
			}
			// on the error edge: a report loop over <lv>.recipients must be passed before the iteration ends
			ownLoopX := func(pt Pt) bool {
				nd := pt.Node()
				for _, rs2 := range rangesIn(rs.Body, func(rs2 *ast.RangeStmt) bool { return rs2.X == nd }) {
					if sx, ok := ast.Unparen(rs2.X).(*ast.SelectorExpr); ok && objOf(info, sx.X) == lv && sx.Sel.Name == "recipients" {
						reports := false
						ast.Inspect(rs2.Body, func(x ast.Node) bool {
							if call, ok := x.(*ast.CallExpr); ok && methodName(call) == "SetStatus" && len(call.Args) == 2 && objOf(info, call.Args[0]) == objOf(info, rs2.Value) && objOf(info, call.Args[1]) == eo {
								reports = true
							}
							return true
						})
						return reports
					}
				}
				return false
			}
			foreign := func(pt Pt) bool {
				for _, call := range callsAt(pt.Node()) {
					if id, ok := call.Fun.(*ast.Ident); ok && allReporters[objOf(info, id)] {
						return true
					}
				}
				return false
			}
			// … or a method of the per-target delivery, called on this target with this error, that does exactly that
			// (`delivery.failBody(c, err)`)
			ownHelper := func(pt Pt) bool {
				for _, call := range callsAt(pt.Node()) {
					if recvObj(info, call) != lv {
						continue
					}
					fn := callee(info, call)
					if fn == nil || fn.Pkg() != r.FI.Obj.Pkg() {
						continue
					}
					d := c.P.DeclOf(fn)
					if d == nil || d.Decl.Body == nil || d.Decl.Recv == nil || len(d.Decl.Recv.List) != 1 || len(d.Decl.Recv.List[0].Names) != 1 {
						continue
					}
					di := d.Info()
					recvO := di.Defs[d.Decl.Recv.List[0].Names[0]]
					// the parameter the error is bound to
					var errP types.Object
					pi := 0
					for _, f := range d.Decl.Type.Params.List {
						for _, nm := range f.Names {
							if pi < len(call.Args) && objOf(info, call.Args[pi]) == eo {
								errP = di.Defs[nm]
							}
							pi++
						}
					}
					if errP == nil {
						continue
					}
					for _, l := range elemLoops(di, d.Decl.Body, func(e ast.Expr) bool {
						sx, ok := ast.Unparen(e).(*ast.SelectorExpr)
						return ok && objOf(di, sx.X) == recvO && sx.Sel.Name == "recipients"
					}) {
						l := l
						reports := false
						ast.Inspect(l.Body, func(x ast.Node) bool {
							if c2, ok := x.(*ast.CallExpr); ok && methodName(c2) == "SetStatus" && len(c2.Args) == 2 && l.IsElem(c2.Args[0]) && objOf(di, c2.Args[1]) == errP {
								reports = true
							}
							return true
						})
						if reports && l.Whole {
							return true
						}
					}
				}
				return false
			}
			if path, f := r.F.ReachRefined(bodyPt, eo, false, false, iterEnd, orPt(ownLoopX, ownHelper)); f {
				msg = "a failure of one target's Body can be left unreported for that target's recipients: " + r.F.Describe(path)
			}
			if path, f := r.F.ReachRefined(bodyPt, eo, false, false, foreign, iterEnd); f {
				msg = "a failure of one target's Body is reported for the recipients of every target: a recipient whose own target accepted (and will commit) the message is told it failed – the client retries and the message is delivered twice: " + r.F.Describe(path)
			}
		}
		c.Hold("K5", "msgpipelineDelivery.BodyNonAtomic:per-target-failure", r.FI.Decl.Pos(), msg == "", msg)
	}

	// ---- K6: the per-connection fan-out of the remote target covers every accepted recipient: connections that carry
	// accepted recipients are never removed from the delivery before its results were reported
	c.Rule("K6", "the remote target reports per-recipient results by iterating its connections: a connection is never removed from the delivery (other than by ending it), so every accepted recipient is covered", 1)
	if pk := p.Pkg(remoteRel); pk != nil {
		bad := ""
		var badPos token.Pos
		n := 0
		p.AllFuncs([]*packagesPkg{pk}, func(fi *FuncInfo) {
			info := fi.Info()
			ast.Inspect(fi.Decl.Body, func(x ast.Node) bool {
				switch s := x.(type) {
				case *ast.CallExpr:
					if id, ok := s.Fun.(*ast.Ident); ok && (id.Name == "delete" || id.Name == "clear") && len(s.Args) >= 1 && isField(info, s.Args[0], "remoteDelivery", "connections") {
						bad = "a connection is removed from the delivery in " + fi.Name() + ": recipients already accepted on it are no longer covered by the result fan-out (they get no status and the queue counts them as delivered)"
						badPos = s.Pos()
					}
				case *ast.AssignStmt:
					for _, l := range s.Lhs {
						if isField(info, l, "remoteDelivery", "connections") {
							bad = "the delivery's connection table is replaced in " + fi.Name()
							badPos = s.Pos()
						}
						if ix, ok := ast.Unparen(l).(*ast.IndexExpr); ok && isField(info, ix.X, "remoteDelivery", "connections") {
							n++
							if refName(fi.Obj) != "connectionForDomain" {
								bad = "the delivery's connection table is written outside connectionForDomain (in " + fi.Name() + ")"
								badPos = s.Pos()
							}
						}
					}
				}
				return true
			})
		})
		// and the fan-out ranges over the whole table
		okRange := false
		if rb := c.In(remoteRel, "remoteDelivery", "BodyNonAtomic"); rb != nil {
			for range rangesIn(rb.FI.Decl.Body, func(rs *ast.RangeStmt) bool { return isField(rb.Info, rs.X, "remoteDelivery", "connections") }) {
				okRange = true
			}
		}
		if !okRange && bad == "" {
			bad = "the per-recipient fan-out of the remote target does not range over all of the delivery's connections"
		}
		c.Hold("K6", "remoteDelivery.connections", badPos, bad == "" && n >= 1, bad)
	}

	// ---- K4 translating layers
	c.Rule("K4", "a layer that hands a transformed address to the inner AddRcpt translates result keys back through a table written at the forwarding site; already-translated keys are not translated again", 3)
	c09Translate(c, pc, sites)

	// ---- K7: the table the translation reads. The pipeline's collector maps a target's key back through
	// msgMeta.OriginalRcpts; a rewritten address that reaches a target without an entry there is reported under the
	// rewritten spelling, which the client never sent. Where and under which key the entry is written is C18's rule
	// R8 (the failure report reads the same table), evaluated here.
	c.Rule("K7", "pipeline AddRcpt: whenever the address handed to a target differs from what the client sent it is recorded in OriginalRcpts under the very variable passed to the target, with the client's spelling as the value (C18.R8)", 2)
	sub := newCheck("C18", c.P, c.Tier)
	c18Alias(sub)
	for _, o := range sub.obs {
		if o.Rule == "R8" {
			c.Hold("K7", o.Key, o.posRaw, o.OK, o.Msg)
		}
	}
	for f := range sub.funcs {
		c.SawFunc(f)
	}

	// ---- K9: whose entries a translating collector reads. The message metadata is shared by every layer that handles
	// the message: when a pipeline is the target of a queue (or of another pipeline) whose own caller rewrote the
	// recipient upstream, msgMeta.OriginalRcpts already holds that layer's (rewritten ↦ original) entry – and the
	// rewritten address is exactly what this pipeline's caller passes to AddRcpt. A collector that translates through the
	// shared table reports the result under the upstream original, a string its caller never gave it: the queue looks
	// the failure up under its own recipient, finds nothing and counts the recipient as delivered. The table a collector
	// translates through therefore belongs to the delivery that wrote it.
	c.Rule("K9", "the pipeline's translating collector reads a table owned by that delivery (a field of the delivery object filled at the site that records the rewrite), not the message-wide OriginalRcpts that other layers write too", 1)
	if r := c.need("K9", pipelineRel, "msgpipelineDelivery", "BodyNonAtomic"); r != nil {
		info := r.Info
		n := 0
		ast.Inspect(r.FI.Decl.Body, func(x ast.Node) bool {
			cl, ok := x.(*ast.CompositeLit)
			if !ok {
				return true
			}
			tn := namedOf(info.TypeOf(cl))
			if tn == nil || objName(tn.Obj()) != "statusCollector" {
				return true
			}
			for _, el := range cl.Elts {
				kv, ok := el.(*ast.KeyValueExpr)
				if !ok {
					continue
				}
				if _, isMap := info.TypeOf(kv.Value).Underlying().(*types.Map); !isMap {
					continue
				}
				n++
				shared := false
				ast.Inspect(kv.Value, func(y ast.Node) bool {
					if sel, ok := y.(*ast.SelectorExpr); ok {
						if fv := fieldOf(info, sel); fv != nil {
							if o := fieldOwner(p, fv); o != nil && objName(o.Obj()) == "MsgMetadata" {
								shared = true
							}
						}
					}
					return true
				})
				// the delivery's own table is written where the rewrite is recorded: same key, same value, same guard
				if fv := fieldOf(info, kv.Value); fv != nil && !shared {
					if ra := c.In(pipelineRel, "msgpipelineDelivery", "AddRcpt"); ra != nil {
						ai := ra.Info
						okStore, nStore := true, 0
						ast.Inspect(ra.FI.Decl.Body, func(y ast.Node) bool {
							bs, isBlk := y.(*ast.BlockStmt)
							if !isBlk {
								return true
							}
							for _, st := range bs.List {
								as, isAs := st.(*ast.AssignStmt)
								if !isAs || len(as.Lhs) != 1 || len(as.Rhs) != 1 {
									continue
								}
								ix, isIx := ast.Unparen(as.Lhs[0]).(*ast.IndexExpr)
								if !isIx || fieldOf(ai, ix.X) != fv {
									continue
								}
								nStore++
								twin := false
								for _, st2 := range bs.List {
									as2, ok2 := st2.(*ast.AssignStmt)
									if !ok2 || len(as2.Lhs) != 1 || len(as2.Rhs) != 1 {
										continue
									}
									ix2, ok3 := ast.Unparen(as2.Lhs[0]).(*ast.IndexExpr)
									if ok3 && isField(ai, ix2.X, "MsgMetadata", "OriginalRcpts") && exprStr(ix2.Index) == exprStr(ix.Index) && exprStr(as2.Rhs[0]) == exprStr(as.Rhs[0]) {
										twin = true
									}
								}
								if !twin {
									okStore = false
								}
							}
							return true
						})
						c.Hold("K9", "msgpipelineDelivery.AddRcpt:own-table-filled", ra.FI.Decl.Pos(), okStore && nStore > 0, "the delivery's own table of rewrites is not filled at the site that records the rewrite in OriginalRcpts (same key, same value): results of rewritten recipients are not translated back")
					}
				}
				c.Hold("K9", "msgpipelineDelivery.BodyNonAtomic:table"+itoa(n), kv.Pos(), !shared, "the collector translates result keys through "+exprStr(kv.Value)+", the message-wide table: an entry left there by an upstream layer (the pipeline in front of the queue rewrote alias@ to mbox@) makes this pipeline report mbox@'s failure under alias@ – its caller passed mbox@, does not find the failure and treats the recipient as delivered (no retry, no failure report)")
			}
			return true
		})
		if n == 0 {
			c.Fail("K9", "msgpipelineDelivery.BodyNonAtomic:table", r.FI.Decl.Pos(), "undecided: no translating collector is built")
		}
	}

	// ---- K10: the table maps the address a target was given straight to the address the caller gave. One step undoes
	// all rewrites; a second look-up with the translated address lands in the entry of ANOTHER recipient of the same
	// transaction (alias chains: postmaster→admin, admin→alice, both addressed) and files the result under the wrong key.
	c.Rule("K10", "the pipeline's translating collector translates a result key in one step: every look-up in its table is keyed by the address SetStatus was called with, never by an address it has already translated", 1)
	if r := c.need("K10", pipelineRel, "statusCollector", "SetStatus"); r != nil {
		info := r.Info
		var prm types.Object
		if sig, ok := r.FI.Obj.Type().(*types.Signature); ok && sig.Params().Len() >= 1 {
			prm = sig.Params().At(0)
		}
		nLook := 0
		msg := ""
		for _, pt := range r.F.Points() {
			if pt.Node() == nil {
				continue
			}
			ast.Inspect(pt.Node(), func(x ast.Node) bool {
				if _, isLit := x.(*ast.FuncLit); isLit {
					return false
				}
				ix, ok := x.(*ast.IndexExpr)
				if !ok {
					return true
				}
				if _, isMap := info.TypeOf(ix.X).Underlying().(*types.Map); !isMap || fieldOf(info, ix.X) == nil {
					return true
				}
				nLook++
				k := objOf(info, ix.Index)
				if k == nil {
					msg = "the table is read with a computed key (" + exprStr(ix.Index) + ")"
					return true
				}
				defs, ok := r.ReachingDefs(k, pt, nil)
				if k != prm || !ok || len(defs) > 0 {
					msg = "line " + itoa(c.P.Fset.Position(ix.Pos()).Line) + ": the table is read with a key that can already be a translated address (" + exprStr(ix.Index) + " is assigned before the look-up): a second step through the table ends in another recipient's entry – that recipient's result is filed under the wrong address and its own address gets none (the caller takes it for delivered)"
				}
				return true
			})
		}
		if nLook == 0 {
			msg = "undecided: no table look-up in the collector"
		}
		c.Hold("K10", "statusCollector.SetStatus:single-step", r.FI.Decl.Pos(), msg == "", msg)
	}

	// ---- K8: the consumer of the keys. The queue reads per-recipient results back under the strings it passed to
	// AddRcpt; its own collector must file them under the key it is called with (C10.R6).
	c.Rule("K8", "the queue's result collector (partialError.SetStatus) files a failure under exactly the key it was called with (C10.R6)", 1)
	sub10 := newCheck("C10", c.P, c.Tier)
	c10Recipients(sub10)
	for _, o := range sub10.obs {
		if o.Rule == "R6" {
			c.Hold("K8", o.Key, o.posRaw, o.OK, o.Msg)
		}
	}
}

func fieldOwnerName(fv *types.Var) string {
	return fv.Pkg().Name()
}

// fieldOwner finds the named struct type declaring field fv.
func fieldOwner(p *Prog, fv *types.Var) *types.Named {
	pk := p.ByPath[fv.Pkg().Path()]
	if pk == nil {
		return nil
	}
	for _, name := range pk.Types.Scope().Names() {
		tn, ok := pk.Types.Scope().Lookup(name).(*types.TypeName)
		if !ok {
			continue
		}
		nt, ok := tn.Type().(*types.Named)
		if !ok {
			continue
		}
		st, ok := nt.Underlying().(*types.Struct)
		if !ok {
			continue
		}
		for i := 0; i < st.NumFields(); i++ {
			if st.Field(i) == fv {
				return nt
			}
		}
	}
	return nil
}

// allocatedOnlyInStart: every composite literal / new() of T in maddy server code is inside a method named Start
// (the object is created per transaction), or inside a function only ever called from such a method.
func allocatedOnlyInStart(p *Prog, t *types.Named) bool {
	ok := true
	n := 0
	for _, pk := range p.ServerPkgs() {
		p.AllFuncs([]*packagesPkg{pk}, func(fi *FuncInfo) {
			ast.Inspect(fi.Decl.Body, func(x ast.Node) bool {
				cl, isLit := x.(*ast.CompositeLit)
				if !isLit {
					return true
				}
				if namedOf(fi.Info().TypeOf(cl)) != t {
					return true
				}
				n++
				if refName(fi.Obj) != "Start" && refName(fi.Obj) != "getDelivery" {
					ok = false
				}
				return true
			})
		})
	}
	return ok && n > 0
}

func c09Translate(c *Check, pc *provCtx, sites []statusSite) {
	p := c.P
	// (a) msgpipeline: statusCollector.SetStatus forwards param or originalRcpts[param]
	if r := c.need("K4", pipelineRel, "statusCollector", "SetStatus"); r != nil {
		f := p.SSAFunc(r.FI.Obj)
		msg := "the translating collector does not forward"
		sawLookup, nSites := false, 0
		for _, s := range sites {
			if topFunc(s.fn) != f {
				continue
			}
			if nSites == 0 {
				msg = ""
			}
			nSites++
			os := pc.origins(s.key, s.call, 0, map[ssa.Value]bool{})
			for _, o := range os {
				switch {
				case o.Kind == "param":
				case o.Kind == "maplookup" && o.Field != nil && objName(o.Field) == "originalRcpts":
					sawLookup = true
					for _, ko := range o.Key {
						if ko.Kind != "param" {
							msg = "the reverse table is not looked up with the key that was reported"
						}
					}
				default:
					msg = "the forwarded key originates from " + o.String()
				}
			}
		}
		if nSites > 0 && !sawLookup && msg == "" {
			msg = "keys are forwarded without reverse translation of rewritten recipients"
		}
		// the untranslated key is forwarded only when the table has no entry for it
		if msg == "" {
			info := r.Info
			var prm types.Object
			if ps := r.FI.Decl.Type.Params.List; len(ps) >= 1 && len(ps[0].Names) >= 1 {
				prm = info.Defs[ps[0].Names[0]]
			}
			for _, tq := range r.F.Points() {
				as, ok := tq.Node().(*ast.AssignStmt)
				if !ok || len(as.Lhs) != 2 || len(as.Rhs) != 1 {
					continue
				}
				ix, ok := ast.Unparen(as.Rhs[0]).(*ast.IndexExpr)
				if !ok {
					continue
				}
				if fv := fieldOf(info, ix.X); fv == nil || objName(fv) != "originalRcpts" {
					continue
				}
				okObj := objOf(info, as.Lhs[1])
				rawForward := func(q Pt) bool {
					for _, call := range callsAt(q.Node()) {
						if methodName(call) == "SetStatus" && len(call.Args) == 2 && objOf(info, call.Args[0]) == prm && prm != nil {
							// the parameter may have been overwritten with the translation before
							if _, n := localDef(info, r.FI.Decl.Body, prm); n == 0 {
								return true
							}
						}
					}
					return false
				}
				if okObj != nil {
					if path, f := r.F.ReachRefined(tq, okObj, false, true, rawForward, nil); f {
						msg = "a recipient that has an entry in the reverse table is still reported under the rewritten address: " + r.F.Describe(path)
					}
				}
			}
		}
		c.Hold("K4", "msgpipeline.statusCollector.SetStatus", r.FI.Decl.Pos(), msg == "", msg)
	}
	// the table handed to the collector is the one written at the forwarding site with (inner ↦ outer)
	if r := c.need("K4", pipelineRel, "msgpipelineDelivery", "AddRcpt"); r != nil {
		info := r.Info
		okWrite := false
		ast.Inspect(r.FI.Decl.Body, func(n ast.Node) bool {
			as, ok := n.(*ast.AssignStmt)
			if !ok || len(as.Lhs) != 1 || len(as.Rhs) != 1 {
				return true
			}
			ix, ok := ast.Unparen(as.Lhs[0]).(*ast.IndexExpr)
			if !ok || !isField(info, ix.X, "MsgMetadata", "OriginalRcpts") {
				return true
			}
			// key must be the value handed to the inner AddRcpt, value the (copy of the) parameter
			inner := objOf(info, ix.Index)
			passed := false
			ast.Inspect(r.FI.Decl.Body, func(x ast.Node) bool {
				if call, ok := x.(*ast.CallExpr); ok && methodName(call) == "AddRcpt" && len(call.Args) >= 2 && objOf(info, call.Args[1]) == inner && inner != nil {
					passed = true
				}
				return true
			})
			if passed {
				okWrite = true
			}
			return true
		})
		c.Hold("K4", "msgpipelineDelivery.AddRcpt:reverse-table", r.FI.Decl.Pos(), okWrite, "the rewritten address handed to the target is not recorded in the reverse table (results of rewritten recipients cannot be reported under the client's address)")
	}
	// (a2) every partial target below the pipeline receives a fresh translating collector that wraps the collector
	// this pipeline was given (each rewriting level adds exactly one reverse lookup)
	if r := c.In(pipelineRel, "msgpipelineDelivery", "BodyNonAtomic"); r != nil {
		info := r.Info
		var cParam types.Object
		for _, o := range paramObjs(r.FI) {
			if typeIs(o.Type(), modulePkg, "StatusCollector") {
				cParam = o
			}
		}
		isWrapLit := func(e ast.Expr) bool {
			cl, ok := ast.Unparen(e).(*ast.CompositeLit)
			if !ok || namedOf(info.TypeOf(cl)) == nil || objName(namedOf(info.TypeOf(cl)).Obj()) != "statusCollector" {
				return false
			}
			okW, okT := false, false
			for _, el := range cl.Elts {
				if kv, ok := el.(*ast.KeyValueExpr); ok {
					if id, ok := kv.Key.(*ast.Ident); ok {
						if id.Name == "wrapped" && objOf(info, kv.Value) == cParam && cParam != nil {
							okW = true
						}
						if id.Name == "originalRcpts" {
							// the table of rewrites: the delivery's own (K9 decides that it must not be the message-wide one)
							if fv := fieldOf(info, kv.Value); fv != nil {
								if _, isMap := fv.Type().Underlying().(*types.Map); isMap {
									okT = true
								}
							}
						}
					}
				}
			}
			return okW && okT
		}
		msg := "no partial target is handed a collector"
		ast.Inspect(r.FI.Decl.Body, func(n ast.Node) bool {
			call, ok := n.(*ast.CallExpr)
			if !ok || methodName(call) != "BodyNonAtomic" || len(call.Args) != 4 {
				return true
			}
			msg = ""
			arg := call.Args[1]
			ok2 := isWrapLit(arg)
			if o := objOf(info, arg); o != nil && !ok2 {
				// a local: every definition must be such a literal
				all, n := true, 0
				ast.Inspect(r.FI.Decl.Body, func(x ast.Node) bool {
					if as, ok := x.(*ast.AssignStmt); ok {
						for i, l := range as.Lhs {
							if objOf(info, l) == o {
								n++
								if len(as.Rhs) != len(as.Lhs) || !isWrapLit(as.Rhs[i]) {
									all = false
								}
							}
						}
					}
					return true
				})
				ok2 = all && n > 0
			}
			if !ok2 {
				msg = "a per-recipient target below the pipeline is not given a fresh translating collector around the caller's collector: in a nested pipeline the rewrite of this level is never translated back (a two-step rewrite A→B→C is reported under B, which the caller does not know)"
			}
			return true
		})
		c.Hold("K4", "msgpipelineDelivery.BodyNonAtomic:fresh-translator", r.FI.Decl.Pos(), msg == "", msg)
	}
	// (b) already-translated keys must not go through the translating collector
	var scT *types.Named
	if pk := p.Pkg(pipelineRel); pk != nil {
		if o := pk.Types.Scope().Lookup("statusCollector"); o != nil {
			scT, _ = o.Type().(*types.Named)
		}
	}
	for _, s := range sites {
		if s.inMethod || s.fn.Pkg == nil || !strings.HasSuffix(s.fn.Pkg.Pkg.Path(), pipelineRel) {
			continue
		}
		translating := false
		var walk func(v ssa.Value, d int)
		walk = func(v ssa.Value, d int) {
			if d > 6 || v == nil {
				return
			}
			if namedOf(v.Type()) == scT && scT != nil {
				translating = true
			}
			switch x := v.(type) {
			case *ssa.MakeInterface:
				walk(x.X, d+1)
			case *ssa.UnOp:
				walk(x.X, d+1)
			case *ssa.Phi:
				for _, e := range x.Edges {
					walk(e, d+1)
				}
			case *ssa.ChangeInterface:
				walk(x.X, d+1)
			}
		}
		walk(s.recv, 0)
		if !translating {
			continue
		}
		outer := false
		for _, o := range pc.origins(s.key, s.call, 0, map[ssa.Value]bool{}) {
			if o.Kind == "listelem" && objName(o.Field) == "recipients" {
				outer = true
			}
		}
		c.Hold("K4", "msgpipeline:no-double-translation", s.call.Pos(), !outer, "a client-supplied address (element of the delivery's recipients list) is passed through the translating collector and gets translated a second time: if it is also the rewrite result of another recipient its status is filed under that other recipient")
	}
	// (c) LMTP endpoint: Session.rcpt hands CleanDomain(to) inward; statusWrapper must map back
	rc := c.In(smtpEndpRel, "Session", "rcpt")
	sw := c.In(smtpEndpRel, "statusWrapper", "SetStatus")
	if rc == nil || sw == nil {
		c.Fail("K4", "smtp.statusWrapper", token.NoPos, "anchor unresolved")
		return
	}
	// does rcpt pass a transformed value to AddRcpt?
	transformed := false
	ast.Inspect(rc.FI.Decl.Body, func(n ast.Node) bool {
		if call, ok := n.(*ast.CallExpr); ok && methodName(call) == "AddRcpt" && len(call.Args) >= 2 {
			prm := paramObjs(rc.FI)["to"]
			if objOf(rc.Info, call.Args[1]) != prm {
				transformed = true
			}
		}
		return true
	})
	if !transformed {
		c.Hold("K4", "smtp.statusWrapper.SetStatus", sw.FI.Decl.Pos(), true, "")
		return
	}
	f := p.SSAFunc(sw.FI.Obj)
	msg := "statusWrapper does not forward"
	for _, s := range sites {
		if topFunc(s.fn) != f {
			continue
		}
		msg = ""
		mapped := false
		for _, o := range pc.origins(s.key, s.call, 0, map[ssa.Value]bool{}) {
			if o.Kind == "maplookup" || o.Kind == "listelem" {
				mapped = true
			}
		}
		if !mapped {
			msg = "the endpoint hands the normalised recipient (CleanDomain) to the pipeline but forwards per-recipient results to the LMTP library under that normalised spelling, while the library keys its replies by the address the client sent: for `RCPT TO:<u@EXAMPLE.COM>` the library panics (recipient not specified) and the client gets 421"
		}
	}
	c.Hold("K4", "smtp.statusWrapper.SetStatus", sw.FI.Decl.Pos(), msg == "", msg)
}

// ---- K11: a BodyNonAtomic that fans out over a table of parts (the remote target's connections, the pipeline's
// targets) reports each part's outcome for that part's recipients. Inside the loop over the table (goroutines and
// closures included) a SetStatus whose recipient is an element of a list that does not belong to the loop's part
// – `for _, rcpt := range rd.recipients` inside `for _, conn := range rd.connections` – files one connection's
// failure under the recipients of all the others: delivered recipients are retried (duplicates), or their failure is
// overwritten by another part's success.
func c09PerPartStatus(c *Check) {
	c.Rule("K11", "inside a BodyNonAtomic loop over a table of parts (connections, targets) every status is reported for a recipient of that part: the reported address is an element of a list reached through the loop's own variable", 1)
	p := c.P
	n := 0
	for _, pk := range p.ServerPkgs() {
		p.AllFuncs([]*packagesPkg{pk}, func(fi *FuncInfo) {
			if refName(fi.Obj) != "BodyNonAtomic" || fi.Decl.Recv == nil || fi.Decl.Body == nil {
				return
			}
			info := fi.Info()
			ast.Inspect(fi.Decl.Body, func(x ast.Node) bool {
				outer, ok := x.(*ast.RangeStmt)
				if !ok || fieldOf(info, outer.X) == nil {
					return true
				}
				var partVars []types.Object
				for _, e := range []ast.Expr{outer.Key, outer.Value} {
					if e != nil {
						if o := objOf(info, e); o != nil {
							partVars = append(partVars, o)
						}
					}
				}
				if len(partVars) == 0 {
					return true
				}
				ofPart := func(e ast.Node) bool {
					for _, o := range partVars {
						if mentions(info, e, o) {
							return true
						}
					}
					return false
				}
				// locals defined from the part inside the loop body (`rcpts := conn.Rcpts()`) belong to it too
				for changed := true; changed; {
					changed = false
					ast.Inspect(outer.Body, func(y ast.Node) bool {
						if as, ok := y.(*ast.AssignStmt); ok && len(as.Lhs) == len(as.Rhs) {
							for i, l := range as.Lhs {
								o := objOf(info, l)
								if o == nil || !ofPart(as.Rhs[i]) {
									continue
								}
								dup := false
								for _, q := range partVars {
									if q == o {
										dup = true
									}
								}
								if !dup {
									partVars = append(partVars, o)
									changed = true
								}
							}
						}
						return true
					})
				}
				// inner loops and their element variables
				elemOfPart := map[types.Object]bool{}
				elemOther := map[types.Object]*ast.RangeStmt{}
				ast.Inspect(outer.Body, func(y ast.Node) bool {
					if in, ok := y.(*ast.RangeStmt); ok {
						for _, e := range []ast.Expr{in.Key, in.Value} {
							if e == nil {
								continue
							}
							if o := objOf(info, e); o != nil {
								if ofPart(in.X) {
									elemOfPart[o] = true
								} else {
									elemOther[o] = in
								}
							}
						}
					}
					return true
				})
				hasSet := false
				ast.Inspect(outer.Body, func(y ast.Node) bool {
					call, ok := y.(*ast.CallExpr)
					if !ok || methodName(call) != "SetStatus" || len(call.Args) != 2 {
						return true
					}
					hasSet = true
					o := objOf(info, call.Args[0])
					if o == nil {
						return true
					}
					if in, foreign := elemOther[o]; foreign && !elemOfPart[o] {
						// a failure of the whole message – status for everybody, then out of the function – is not a
						// part's outcome: allowed when the fan-out is not continued afterwards (decided on the flow graph
						// of the function; inside a goroutine or closure started per part a return only ends that part)
						inLit := false
						ast.Inspect(outer.Body, func(z ast.Node) bool {
							if fl, ok := z.(*ast.FuncLit); ok && within(fl.Body, call) {
								inLit = true
							}
							return true
						})
						if !inLit {
							fl := p.FlowOfFunc(fi)
							if pt, ok := fl.PtOfNode(call); ok {
								again := func(q Pt) bool {
									return q.I == 0 && q.B.Kind == kindRangeLoop && q.B.Stmt == ast.Stmt(outer)
								}
								if _, cont := fl.Reach(Query{From: []Pt{pt}, Target: again, NoCorr: true}); !cont {
									return true
								}
							}
						}
						n++
						c.Hold("K11", fi.Pkg.Types.Name()+"."+recvTypeName(fi.Decl)+".BodyNonAtomic:"+exprStr(outer.X)+":foreign-list", call.Pos(), false, "inside the loop over "+exprStr(outer.X)+" a status is reported for every element of "+exprStr(in.X)+", a list that does not belong to the part being processed: one part's outcome is filed under the recipients of all the others (a recipient whose server accepted the message is marked failed and retried – a duplicate – or its failure is overwritten)")
					}
					return true
				})
				if hasSet {
					n++
					c.SawFunc(fi.Name())
					c.HoldConst("K11", fi.Pkg.Types.Name()+"."+recvTypeName(fi.Decl)+".BodyNonAtomic:"+exprStr(outer.X), outer.Pos(), true, "")
				}
				return true
			})
		})
	}
	if n == 0 {
		c.Fail("K11", "fan-out", token.NoPos, "undecided: no BodyNonAtomic loops over a table of parts and reports statuses inside it")
	}
}
