package main

import (
	"go/ast"
	"go/constant"
	"go/token"
	"go/types"
	"golang.org/x/tools/go/cfg"
	"strings"
)

// evalExpr evaluates e with go/constant, taking free operands from lookup. ok=false if e contains anything else.
func evalExpr(info *types.Info, e ast.Expr, lookup func(ast.Expr) (constant.Value, bool)) (constant.Value, bool) {
	e = ast.Unparen(e)
	if lookup != nil {
		if v, ok := lookup(e); ok {
			return v, true
		}
	}
	if tv, ok := info.Types[e]; ok && tv.Value != nil {
		return tv.Value, true
	}
	switch x := e.(type) {
	case *ast.UnaryExpr:
		v, ok := evalExpr(info, x.X, lookup)
		if !ok {
			return nil, false
		}
		switch x.Op {
		case token.NOT:
			if v.Kind() != constant.Bool {
				return nil, false
			}
			return constant.MakeBool(!constant.BoolVal(v)), true
		case token.SUB, token.ADD, token.XOR:
			return constant.UnaryOp(x.Op, v, 0), true
		}
	case *ast.BinaryExpr:
		a, ok1 := evalExpr(info, x.X, lookup)
		if x.Op == token.LAND || x.Op == token.LOR {
			// short-circuit with partial knowledge
			b, ok2 := evalExpr(info, x.Y, lookup)
			if ok1 && a.Kind() == constant.Bool {
				av := constant.BoolVal(a)
				if x.Op == token.LAND && !av {
					return constant.MakeBool(false), true
				}
				if x.Op == token.LOR && av {
					return constant.MakeBool(true), true
				}
				if ok2 && b.Kind() == constant.Bool {
					return b, true
				}
				return nil, false
			}
			if ok2 && b.Kind() == constant.Bool {
				bv := constant.BoolVal(b)
				if x.Op == token.LAND && !bv {
					return constant.MakeBool(false), true
				}
				if x.Op == token.LOR && bv {
					return constant.MakeBool(true), true
				}
			}
			return nil, false
		}
		b, ok2 := evalExpr(info, x.Y, lookup)
		if !ok1 || !ok2 {
			return nil, false
		}
		switch x.Op {
		case token.EQL, token.NEQ, token.LSS, token.LEQ, token.GTR, token.GEQ:
			if a.Kind() == constant.Bool || b.Kind() == constant.Bool {
				if a.Kind() != b.Kind() || (x.Op != token.EQL && x.Op != token.NEQ) {
					return nil, false
				}
			}
			return constant.MakeBool(constant.Compare(a, x.Op, b)), true
		case token.ADD, token.SUB, token.MUL, token.AND, token.OR, token.XOR, token.AND_NOT:
			if a.Kind() == constant.Bool {
				return nil, false
			}
			return constant.BinaryOp(a, x.Op, b), true
		case token.QUO:
			if a.Kind() == constant.Int && b.Kind() == constant.Int {
				if constant.Sign(b) == 0 {
					return nil, false
				}
				return constant.BinaryOp(a, token.QUO_ASSIGN, b), true
			}
		case token.REM:
			if a.Kind() == constant.Int && b.Kind() == constant.Int && constant.Sign(b) != 0 {
				return constant.BinaryOp(a, token.REM, b), true
			}
		case token.SHL, token.SHR:
			if s, ok := constant.Uint64Val(b); ok && a.Kind() == constant.Int {
				return constant.Shift(a, x.Op, uint(s)), true
			}
		}
	case *ast.CallExpr:
		// numeric conversions rune(x), int(x), byte(x)… are value-preserving for the small values we use
		if len(x.Args) == 1 {
			if tv, ok := info.Types[x.Fun]; ok && tv.IsType() {
				if b, ok := tv.Type.Underlying().(*types.Basic); ok && b.Info()&types.IsInteger != 0 {
					return evalExpr(info, x.Args[0], lookup)
				}
			}
		}
	}
	return nil, false
}

// asciiBoundary decides an ASCII-rejecting predicate: cond must be false for 0x7F and true for 0x80, where the
// character operand is recognised by isChar. Returns (ok, explanation).
func asciiBoundary(info *types.Info, cond ast.Expr, isChar func(ast.Expr) bool) (bool, string) {
	at := func(v int64) (bool, bool) {
		r, ok := evalExpr(info, cond, func(e ast.Expr) (constant.Value, bool) {
			if isChar(e) {
				return constant.MakeInt64(v), true
			}
			return nil, false
		})
		if !ok || r.Kind() != constant.Bool {
			return false, false
		}
		return constant.BoolVal(r), true
	}
	lo, ok1 := at(0x7F)
	hi, ok2 := at(0x80)
	mid, ok3 := at(0x41)
	top, ok4 := at(0x10FFFF)
	if !ok1 || !ok2 || !ok3 || !ok4 {
		return false, "undecided: predicate " + exprStr(cond) + " is not a constant comparison over the character"
	}
	if lo {
		return false, "predicate " + exprStr(cond) + " is true at U+007F (an ASCII character is treated as non-ASCII)"
	}
	if mid {
		return false, "predicate " + exprStr(cond) + " is true at U+0041"
	}
	if !hi {
		return false, "predicate " + exprStr(cond) + " is false at U+0080 (a non-ASCII character is treated as ASCII)"
	}
	if !top {
		return false, "predicate " + exprStr(cond) + " is false at U+10FFFF"
	}
	return true, ""
}

// ---------------------------------------------------------------------------
// small abstract path evaluator (E-const)

type absKind int

const (
	absUnknown absKind = iota
	absConst           // N
	absSym             // symbolic value Sym, optionally divided by 100 (class-of)
	absHelperT         // exterrors.SMTPCode(e, t, p): Sym = e, N = class(t), M = class(p)
	absHelperE         // exterrors.SMTPEnchCode(e, lit): Sym = e
)

type absVal struct {
	K    absKind
	N, M int64
	Sym  string // identity of the symbolic source
	Root string // root object the symbolic source derives from (same root ⇒ supplied together)
	Div  bool   // value is Sym/100
}

func (a absVal) String() string {
	switch a.K {
	case absConst:
		return itoa(int(a.N))
	case absSym:
		if a.Div {
			return "class-of(" + a.Sym + ")"
		}
		return a.Sym
	case absHelperT:
		return "SMTPCode(" + a.Sym + "," + itoa(int(a.N)) + "xx," + itoa(int(a.M)) + "xx)"
	case absHelperE:
		return "SMTPEnchCode(" + a.Sym + ")"
	}
	return "unknown"
}

type decision struct {
	Cond ast.Expr
	Succ int // 0 = true edge
}

// pathEval enumerates the acyclic paths of flow from entry to target (a point), interpreting assignments to the
// tracked lvalues (keyed by canonical expression text, e.g. "code", "enchCode", "res.Code"). visit is called
// with the environment at the target and the branch decisions taken. Returns false if the path budget is exceeded.
type pathEvaluator struct {
	f       *Flow
	eval    func(e ast.Expr, env map[string]absVal) absVal
	tracked func(lhs ast.Expr) (string, bool)
	budget  int
	// constOnly: assignments of non-constant values are ignored (used to judge defaults)
	constOnly bool
}

func (pe *pathEvaluator) run(target func(Pt) bool, init map[string]absVal, visit func(pt Pt, env map[string]absVal, dec []decision)) bool {
	f := pe.f
	onPath := map[*cfg.Block]bool{}
	steps := 0
	ok := true
	var walk func(b *cfg.Block, i int, env map[string]absVal, dec []decision)
	walk = func(b *cfg.Block, i int, env map[string]absVal, dec []decision) {
		if !ok {
			return
		}
		steps++
		if steps > pe.budget {
			ok = false
			return
		}
		for ; i < len(b.Nodes); i++ {
			pt := Pt{b, i}
			if target(pt) {
				visit(pt, env, dec)
				// continue: a later point may also be a target (e.g. several returns are in different blocks anyway)
			}
			env = pe.transfer(b.Nodes[i], env)
		}
		if endPt := (Pt{b, len(b.Nodes)}); target(endPt) {
			visit(endPt, env, dec)
		}
		if len(b.Succs) == 0 {
			return
		}
		cond, isCase := f.Cond(b)
		for si, s := range b.Succs {
			if onPath[s] {
				continue
			}
			d := dec
			if cond != nil && !isCase {
				// prune infeasible edges when the condition is decidable
				if v, okc := evalExpr(f.Info, cond, func(e ast.Expr) (constant.Value, bool) {
					if k, isT := pe.tracked(e); isT {
						if a, has := env[k]; has && a.K == absConst {
							return constant.MakeInt64(a.N), true
						}
					}
					return nil, false
				}); okc && v.Kind() == constant.Bool {
					if constant.BoolVal(v) != (si == 0) {
						continue
					}
				}
				d = append(append([]decision{}, dec...), decision{cond, si})
			}
			if cond != nil && isCase {
				// the label a switch was entered (or passed) through: lets a visitor tell the worlds of a switch apart
				d = append(append([]decision{}, dec...), decision{cond, si})
			}
			onPath[s] = true
			ne := make(map[string]absVal, len(env))
			for k, v := range env {
				ne[k] = v
			}
			walk(s, 0, ne, d)
			onPath[s] = false
		}
	}
	env := map[string]absVal{}
	for k, v := range init {
		env[k] = v
	}
	onPath[f.G.Blocks[0]] = true
	walk(f.G.Blocks[0], 0, env, nil)
	return ok
}

func (pe *pathEvaluator) transfer(n ast.Node, env map[string]absVal) map[string]absVal {
	set := func(k string, v absVal) {
		if pe.constOnly && v.K != absConst {
			return
		}
		env[k] = v
		// cells of fields of k ("k.F") do not survive a reassignment of k itself
		for k2 := range env {
			if strings.HasPrefix(k2, k+".") {
				delete(env, k2)
			}
		}
	}
	switch s := n.(type) {
	case *ast.AssignStmt:
		if len(s.Lhs) == len(s.Rhs) {
			for i, l := range s.Lhs {
				if k, ok := pe.tracked(l); ok {
					if s.Tok == token.ASSIGN || s.Tok == token.DEFINE {
						set(k, pe.eval(s.Rhs[i], env))
					} else {
						set(k, absVal{K: absUnknown})
					}
				}
			}
		} else if len(s.Rhs) == 1 {
			for i, l := range s.Lhs {
				if k, ok := pe.tracked(l); ok {
					v := absVal{K: absUnknown}
					if i == 0 {
						v = pe.eval(s.Rhs[0], env)
						if v.K == absUnknown {
							v = absVal{K: absSym, Sym: exprStr(s.Rhs[0]), Root: rootName(s.Rhs[0])}
						}
					}
					set(k, v)
				}
			}
		}
	case *ast.ValueSpec: // go/cfg adds each var spec of a DeclStmt as its own node
		for i, nm := range s.Names {
			if k, ok := pe.tracked(nm); ok {
				if i < len(s.Values) {
					set(k, pe.eval(s.Values[i], env))
				} else if len(s.Values) == 0 {
					set(k, absVal{K: absConst, N: 0}) // zero value
				} else {
					set(k, absVal{K: absUnknown})
				}
			}
		}
	case *ast.IncDecStmt:
		if k, ok := pe.tracked(s.X); ok {
			set(k, absVal{K: absUnknown})
		}
	}
	return env
}

// rootName: the left-most identifier of the first argument / operand of e (used to group values supplied together).
func rootName(e ast.Expr) string {
	for {
		switch x := ast.Unparen(e).(type) {
		case *ast.CallExpr:
			if len(x.Args) == 0 {
				e = x.Fun
			} else {
				e = x.Args[0]
			}
		case *ast.SelectorExpr:
			e = x.X
		case *ast.IndexExpr:
			e = x.X
		case *ast.TypeAssertExpr:
			e = x.X
		case *ast.StarExpr:
			e = x.X
		case *ast.UnaryExpr:
			e = x.X
		case *ast.Ident:
			return x.Name
		default:
			return exprStr(e)
		}
	}
}

type constantValue = constant.Value

func makeInt(n int64) constant.Value { return constant.MakeInt64(n) }
func boolVal(v constant.Value) bool  { return v.Kind() == constant.Bool && constant.BoolVal(v) }
