package main

import (
	"go/ast"
	"go/constant"
	"go/token"
	"go/types"
)

// evalExpr evaluates e with go/constant, taking free operands from lookup. ok=false if e contains anything else.
func evalExpr(info *types.Info, e ast.Expr, lookup func(ast.Expr) (constant.Value, bool)) (constant.Value, bool) {
	e = ast.Unparen(e)
	if tv, ok := info.Types[e]; ok && tv.Value != nil {
		return tv.Value, true
	}
	if lookup != nil {
		if v, ok := lookup(e); ok {
			return v, true
		}
	}
	switch x := e.(type) {
	case *ast.UnaryExpr:
		v, ok := evalExpr(info, x.X, lookup)
		if !ok {
			return nil, false
		}
		switch x.Op {
		case token.NOT:
			if v.Kind() != constant.Bool {
				return nil, false
			}
			return constant.MakeBool(!constant.BoolVal(v)), true
		case token.SUB, token.ADD, token.XOR:
			return constant.UnaryOp(x.Op, v, 0), true
		}
	case *ast.BinaryExpr:
		a, ok1 := evalExpr(info, x.X, lookup)
		if x.Op == token.LAND || x.Op == token.LOR {
			// short-circuit with partial knowledge
			b, ok2 := evalExpr(info, x.Y, lookup)
			if ok1 && a.Kind() == constant.Bool {
				av := constant.BoolVal(a)
				if x.Op == token.LAND && !av {
					return constant.MakeBool(false), true
				}
				if x.Op == token.LOR && av {
					return constant.MakeBool(true), true
				}
				if ok2 && b.Kind() == constant.Bool {
					return b, true
				}
				return nil, false
			}
			if ok2 && b.Kind() == constant.Bool {
				bv := constant.BoolVal(b)
				if x.Op == token.LAND && !bv {
					return constant.MakeBool(false), true
				}
				if x.Op == token.LOR && bv {
					return constant.MakeBool(true), true
				}
			}
			return nil, false
		}
		b, ok2 := evalExpr(info, x.Y, lookup)
		if !ok1 || !ok2 {
			return nil, false
		}
		switch x.Op {
		case token.EQL, token.NEQ, token.LSS, token.LEQ, token.GTR, token.GEQ:
			if a.Kind() == constant.Bool || b.Kind() == constant.Bool {
				if a.Kind() != b.Kind() || (x.Op != token.EQL && x.Op != token.NEQ) {
					return nil, false
				}
			}
			return constant.MakeBool(constant.Compare(a, x.Op, b)), true
		case token.ADD, token.SUB, token.MUL, token.AND, token.OR, token.XOR, token.AND_NOT:
			if a.Kind() == constant.Bool {
				return nil, false
			}
			return constant.BinaryOp(a, x.Op, b), true
		case token.QUO:
			if a.Kind() == constant.Int && b.Kind() == constant.Int {
				if constant.Sign(b) == 0 {
					return nil, false
				}
				return constant.BinaryOp(a, token.QUO_ASSIGN, b), true
			}
		case token.REM:
			if a.Kind() == constant.Int && b.Kind() == constant.Int && constant.Sign(b) != 0 {
				return constant.BinaryOp(a, token.REM, b), true
			}
		case token.SHL, token.SHR:
			if s, ok := constant.Uint64Val(b); ok && a.Kind() == constant.Int {
				return constant.Shift(a, x.Op, uint(s)), true
			}
		}
	case *ast.CallExpr:
		// numeric conversions rune(x), int(x), byte(x)… are value-preserving for the small values we use
		if len(x.Args) == 1 {
			if tv, ok := info.Types[x.Fun]; ok && tv.IsType() {
				if b, ok := tv.Type.Underlying().(*types.Basic); ok && b.Info()&types.IsInteger != 0 {
					return evalExpr(info, x.Args[0], lookup)
				}
			}
		}
	}
	return nil, false
}

// asciiBoundary decides an ASCII-rejecting predicate: cond must be false for 0x7F and true for 0x80, where the
// character operand is recognised by isChar. Returns (ok, explanation).
func asciiBoundary(info *types.Info, cond ast.Expr, isChar func(ast.Expr) bool) (bool, string) {
	at := func(v int64) (bool, bool) {
		r, ok := evalExpr(info, cond, func(e ast.Expr) (constant.Value, bool) {
			if isChar(e) {
				return constant.MakeInt64(v), true
			}
			return nil, false
		})
		if !ok || r.Kind() != constant.Bool {
			return false, false
		}
		return constant.BoolVal(r), true
	}
	lo, ok1 := at(0x7F)
	hi, ok2 := at(0x80)
	mid, ok3 := at(0x41)
	top, ok4 := at(0x10FFFF)
	if !ok1 || !ok2 || !ok3 || !ok4 {
		return false, "undecided: predicate " + exprStr(cond) + " is not a constant comparison over the character"
	}
	if lo {
		return false, "predicate " + exprStr(cond) + " is true at U+007F (an ASCII character is treated as non-ASCII)"
	}
	if mid {
		return false, "predicate " + exprStr(cond) + " is true at U+0041"
	}
	if !hi {
		return false, "predicate " + exprStr(cond) + " is false at U+0080 (a non-ASCII character is treated as ASCII)"
	}
	if !top {
		return false, "predicate " + exprStr(cond) + " is false at U+10FFFF"
	}
	return true, ""
}
