package main

import (
	"go/ast"
	"go/token"
	"go/types"
	"sort"
	"strings"
)

// Error discipline shared by all properties: in the functions a property's rules depend on, the error result of a
// step is looked at before it is lost.
//
//	E1  a local error variable that receives the result of a call is read (tested, returned, passed on, stored)
//	    on every path before it is assigned again or the function returns normally. An error that is overwritten
//	    unseen is the footprint of a removed `if err != nil { return err }`: the step failed and the function goes on
//	    as if it had not.
//
// "Read" is any use of the variable other than as the target of an assignment; a variable that a function literal
// of the same function mentions (deferred clean-up, goroutine) counts as read there; named results are read by the
// return. Assignments whose right-hand side is not a call (err = nil, err = otherErr) are not definitions of
// interest. errLookedAtExceptions lists the sites of today's tree where an error is deliberately not looked at.
var errLookedAtExceptions = map[string]string{
	"pass_table.AuthPlain:Lookup1": "the `ok` result is tested before the error: a failed table lookup is answered as 'unknown credentials'; authentication is refused on both paths, so C14 is not affected (the reply class for a broken table is outside the listed properties)",
}

// errLookedAt examines one function (and, separately, each function literal in it) and returns the obligations
// as key -> message ("" = holds).
func errLookedAt(p *Prog, fi *FuncInfo) map[string]string {
	out := map[string]string{}
	if fi.Decl.Body == nil {
		return out
	}
	info := fi.Info()
	bodies := []*ast.BlockStmt{fi.Decl.Body}
	var ftypes = []*ast.FuncType{fi.Decl.Type}
	ast.Inspect(fi.Decl.Body, func(x ast.Node) bool {
		if fl, ok := x.(*ast.FuncLit); ok {
			bodies = append(bodies, fl.Body)
			ftypes = append(ftypes, fl.Type)
		}
		return true
	})
	for bi, body := range bodies {
		f := p.FlowOf(info, body, fi.Name())
		named := map[types.Object]bool{}
		if ft := ftypes[bi]; ft.Results != nil {
			for _, fld := range ft.Results.List {
				for _, nm := range fld.Names {
					if o := info.Defs[nm]; o != nil {
						named[o] = true
					}
				}
			}
		}
		// variables mentioned inside nested literals of this body
		inLit := map[types.Object]bool{}
		ast.Inspect(body, func(x ast.Node) bool {
			if fl, ok := x.(*ast.FuncLit); ok && fl.Body != body {
				ast.Inspect(fl.Body, func(y ast.Node) bool {
					if id, ok := y.(*ast.Ident); ok {
						if o := info.Uses[id]; o != nil {
							inLit[o] = true
						}
					}
					return true
				})
				return false
			}
			return true
		})
		ord := map[string]int{}
		for _, dp := range f.Points() {
			as, ok := dp.Node().(*ast.AssignStmt)
			if !ok || (as.Tok != token.ASSIGN && as.Tok != token.DEFINE) {
				continue
			}
			// the error variable(s) receiving a call result
			for i, l := range as.Lhs {
				id, ok := ast.Unparen(l).(*ast.Ident)
				if !ok || id.Name == "_" {
					continue
				}
				o := objOf(info, id)
				v, isVar := o.(*types.Var)
				if !isVar || v.IsField() || !isErrorType(v.Type()) || v.Parent() == nil || v.Pkg() == nil || v.Parent() == v.Pkg().Scope() {
					continue
				}
				var rhs ast.Expr
				if len(as.Rhs) == len(as.Lhs) {
					rhs = as.Rhs[i]
				} else if len(as.Rhs) == 1 {
					rhs = as.Rhs[0]
				}
				call, isCallE := ast.Unparen(rhs).(*ast.CallExpr)
				if !isCallE {
					continue
				}
				if tv, ok := info.Types[call.Fun]; ok && tv.IsType() {
					continue // conversion
				}
				// only THE error result of a step: the last result of the call; not an error constructor, not a
				// wrapper/conversion of an error that already exists (one of the arguments is an error)
				if len(as.Rhs) == 1 && len(as.Lhs) > 1 && i != len(as.Lhs)-1 {
					continue
				}
				if isCall(info, call, "fmt.Errorf", "errors.New") {
					continue
				}
				wraps := false
				for _, a := range call.Args {
					if tv, ok := info.Types[a]; ok && tv.Type != nil && isErrorType(tv.Type) {
						wraps = true
					}
				}
				if wraps {
					continue
				}
				callee := methodName(call)
				if callee == "" {
					callee = exprStr(call.Fun)
				}
				ord[callee]++
				key := refName(fi.Obj)
				if bi > 0 {
					key += "$lit" + itoa(bi)
				}
				key += ":" + callee + itoa(ord[callee])
				if inLit[o] {
					out[key] = ""
					continue
				}
				reads := func(q Pt) bool {
					n := q.Node()
					if n == nil {
						return false
					}
					return readsObj(info, n, o)
				}
				lost := func(q Pt) bool {
					if q == dp {
						return false
					}
					if n := q.Node(); n != nil && assignsObj(info, n, o) {
						return true // (reads are checked first: `err = wrap(err)` reads)
					}
					if named[o] {
						return false
					}
					return f.IsNormalExit(q)
				}
				path, found := f.Reach(Query{From: []Pt{dp}, Target: lost, Avoid: reads, NoCorr: true})
				msg := ""
				if found {
					msg = "the error of " + callee + " can be lost without having been looked at (overwritten or the function returns): " + f.Describe(path)
				}
				out[key] = msg
			}
		}
	}
	return out
}

// readsObj: node n uses variable o other than as the plain target of an assignment.
func readsObj(info *types.Info, n ast.Node, o types.Object) bool {
	found := false
	var lhsIdents = map[*ast.Ident]bool{}
	inspectNoLit(n, func(x ast.Node) bool {
		switch s := x.(type) {
		case *ast.AssignStmt:
			if s.Tok == token.ASSIGN || s.Tok == token.DEFINE {
				for _, l := range s.Lhs {
					if id, ok := ast.Unparen(l).(*ast.Ident); ok {
						lhsIdents[id] = true
					}
				}
			}
		case *ast.Ident:
			if !lhsIdents[s] && info.Uses[s] == o {
				found = true
			}
		}
		return true
	})
	return found
}

// errDiscipline adds rule E1 to check c for the given functions. Returns the number of definitions examined.
func errDiscipline(c *Check, rule string, fis []*FuncInfo) int {
	n := 0
	seen := map[*types.Func]bool{}
	for _, fi := range fis {
		if fi == nil || seen[fi.Obj] {
			continue
		}
		seen[fi.Obj] = true
		obs := errLookedAt(c.P, fi)
		var keys []string
		for k := range obs {
			keys = append(keys, k)
		}
		sort.Strings(keys)
		for _, k := range keys {
			n++
			full := fi.Pkg.Types.Name() + "." + k
			if why, ok := errLookedAtExceptions[full]; ok {
				c.Except(rule + " " + full + ": " + why)
				continue
			}
			c.Hold(rule, full, fi.Decl.Pos(), obs[k] == "", obs[k])
		}
	}
	return n
}

// funcsOfPkgs: all non-test functions of the given packages.
func funcsOfPkgs(p *Prog, rels ...string) []*FuncInfo {
	var out []*FuncInfo
	for _, rel := range rels {
		pk := p.Pkg(rel)
		if pk == nil {
			continue
		}
		p.AllFuncs([]*packagesPkg{pk}, func(fi *FuncInfo) {
			if strings.HasSuffix(p.Fset.Position(fi.Decl.Pos()).Filename, "_test.go") {
				return
			}
			out = append(out, fi)
		})
	}
	return out
}


// errDisciplineSeen applies E1 to every function the property's own rules looked at (c.funcs).
func errDisciplineSeen(c *Check) {
	p := c.P
	want := map[string]bool{}
	for f := range c.funcs {
		want[f] = true
	}
	var fis []*FuncInfo
	p.AllFuncs(p.Pkgs, func(fi *FuncInfo) {
		if want[fi.Name()] && isServerPkg(fi.Pkg.PkgPath) && !strings.HasSuffix(p.Fset.Position(fi.Decl.Pos()).Filename, "_test.go") {
			fis = append(fis, fi)
		}
	})
	sort.Slice(fis, func(i, j int) bool { return fis[i].Name() < fis[j].Name() })
	c.Rule("E1", "in every function this property's rules looked at, the error result of a step (a call) is read - tested, returned, passed on or stored - on every path before it is overwritten or the function returns: no failed step is silently treated as done", e1Floor[c.ID])
	errDiscipline(c, "E1", fis)
}

// e1Floor: number of error-producing steps seen in each property's functions on the reference tree, minus a margin.
var e1Floor = map[string]int{"C01": 30, "C02": 23, "C03": 42, "C04": 32, "C05": 21, "C06": 37, "C07": 4, "C09": 19, "C10": 29, "C11": 52, "C12": 1, "C13": 5, "C14": 18, "C15": 8, "C17": 7, "C18": 14, "C20": 16}
