package main

import (
	"go/ast"
	"go/constant"
	"go/token"
	"go/types"
	"sort"
	"strings"
)

// Error discipline shared by all properties: in the functions a property's rules depend on, the error result of a
// step is looked at before it is lost.
//
//	E1  a local error variable that receives the result of a call is read (tested, returned, passed on, stored)
//	    on every path before it is assigned again or the function returns normally. An error that is overwritten
//	    unseen is the footprint of a removed `if err != nil { return err }`: the step failed and the function goes on
//	    as if it had not.
//
// "Read" is any use of the variable other than as the target of an assignment; a variable that a function literal
// of the same function mentions (deferred clean-up, goroutine) counts as read there; named results are read by the
// return. Assignments whose right-hand side is not a call (err = nil, err = otherErr) are not definitions of
// interest. errLookedAtExceptions lists the sites of today's tree where an error is deliberately not looked at.
var errLookedAtExceptions = map[string]string{
	"E2 dkim.RewriteBody:ToASCII1":          "a non-EAI message may not carry U-labels in d= / s=: when the domain or selector has no A-label form the message is deliberately left unsigned (return nil, no signature added – C08.R1 decides that nothing is added on that path); not signing is not a wrong signature",
	"E2 dkim.RewriteBody:ToASCII2":          "a non-EAI message may not carry U-labels in d= / s=: when the domain or selector has no A-label form the message is deliberately left unsigned (return nil, no signature added – C08.R1 decides that nothing is added on that path); not signing is not a wrong signature",
	"E2 lexer.next:ReadRune1":               "end of input ends the last token: the lexer reports the token it has (true) and the next call reports the end",
	"E2 auth.AuthPlain:AuthPlain1":          "a provider's refusal is superseded by the next provider's answer; the last one is what the final return reports (success comes only from a nil answer: C14.R3b)",
	"E2 smtp.releaseLimits:*":               "cannot fail: the very same string was split successfully when the permit was taken (C03.R5 / C03.immut)",
	"E2 msgpipeline.srcBlockForAddr:Split1": "the empty reverse-path is not an address: the error is deliberately ignored for it (comment at the site) and the lookup goes on with empty parts",
	"E2 dns.CheckCNAMEAD:exchange2":         "the AAAA fallback is best effort by design: when it fails the canonical name stays empty, which the only caller (discoverTLSA) turns into the error 'no address associated with the host' – the delivery is deferred, nothing is treated as secure",
	"E2 msgpipeline.getRcptModifiers:RewriteSender1": "the call is a probe: per-recipient modifiers may not change the sender, and the result is only used to warn when they would; the sender in use is never taken from it, so its failure changes nothing",
	"E2 modify.rewrite:Split1":              "the address was produced by address.ForLookup two steps earlier, which splits it successfully; the branch cannot be taken and the site says so (\"ignore it silently\"): the value is returned unchanged",
	"E2 table.Lookup:Split1":                "table.email_localpart maps an address to its local part: a key that is not an address has no mapping (or maps to itself with allow_non_email) – the split error IS the not-found answer",
	"E2 smtp.parseMessageDateTime:Parse1":   "the layouts are alternatives: a layout that does not fit is superseded by the next one, and when none fits the function refuses with an error of its own",
	"E2 dns.exchange:ExchangeContext1":      "the configured servers are alternatives: a server that cannot be reached is superseded by the next one, and the last error is what the function returns when none answered",
	"E2 dns.exchange:ExchangeContext2":      "the retry over TCP of a truncated reply: as for the first exchange, a server that fails is superseded by the next one and the last error is returned when none answered",
	"E2 table.SetKey:Exec1":                 "upsert idiom: when the insert is refused (key exists) the update is tried and ITS error is the one reported",
	"E1 dns.exchange:New1":                  "try-the-next-server idiom: lastErr holds the failure of the latest server asked and is superseded by the next server's outcome; it is returned when no server answered",
	"E2 dns.exchange:New1":                  "as above",
	"E1 plain_separate.AuthPlain:New1":      "try-the-next-provider idiom: lastErr starts as 'no providers configured' and is superseded by each provider's refusal; it is returned when no provider accepted",
	"E2 plain_separate.AuthPlain:New1":      "as above",
	"E2 dnsbl.checkList:Split1":     "a sender address that cannot be split (<>, <postmaster>) has no domain to look up: the MAIL FROM part of the list check is skipped on purpose (comment in the code), the other parts have run",
	"E2 rspamd.addConnHeaders:Get1": "the reverse-DNS name is an optional request header for rspamd: when the lookup failed the header is left out and the scan is made without it",
	"E1 pass_table.AuthPlain:Lookup1":       "the `ok` result is tested before the error: a failed table lookup is answered as 'unknown credentials'; authentication is refused on both paths, so C14 is not affected (the reply class for a broken table is outside the listed properties)",
}

// errLookedAt examines one function (and, separately, each function literal in it) and returns the obligations
// as key -> message ("" = holds).
func errLookedAt(p *Prog, fi *FuncInfo) map[string]string {
	out := map[string]string{}
	if fi.Decl.Body == nil {
		return out
	}
	info := fi.Info()
	bodies := []*ast.BlockStmt{fi.Decl.Body}
	var ftypes = []*ast.FuncType{fi.Decl.Type}
	ast.Inspect(fi.Decl.Body, func(x ast.Node) bool {
		if fl, ok := x.(*ast.FuncLit); ok {
			bodies = append(bodies, fl.Body)
			ftypes = append(ftypes, fl.Type)
		}
		return true
	})
	for bi, body := range bodies {
		f := p.FlowOf(info, body, fi.Name())
		named := map[types.Object]bool{}
		if ft := ftypes[bi]; ft.Results != nil {
			for _, fld := range ft.Results.List {
				for _, nm := range fld.Names {
					if o := info.Defs[nm]; o != nil {
						named[o] = true
					}
				}
			}
		}
		// variables mentioned inside nested literals of this body
		inLit := map[types.Object]bool{}
		ast.Inspect(body, func(x ast.Node) bool {
			if fl, ok := x.(*ast.FuncLit); ok && fl.Body != body {
				ast.Inspect(fl.Body, func(y ast.Node) bool {
					if id, ok := y.(*ast.Ident); ok {
						if o := info.Uses[id]; o != nil {
							inLit[o] = true
						}
					}
					return true
				})
				return false
			}
			return true
		})
		ord := map[string]int{}
		for _, dp := range f.Points() {
			as, ok := dp.Node().(*ast.AssignStmt)
			if !ok || (as.Tok != token.ASSIGN && as.Tok != token.DEFINE) {
				continue
			}
			// the error variable(s) receiving a call result
			for i, l := range as.Lhs {
				id, ok := ast.Unparen(l).(*ast.Ident)
				if !ok || id.Name == "_" {
					continue
				}
				o := objOf(info, id)
				v, isVar := o.(*types.Var)
				if !isVar || v.IsField() || !isErrorType(v.Type()) || v.Parent() == nil || v.Pkg() == nil || v.Parent() == v.Pkg().Scope() {
					continue
				}
				var rhs ast.Expr
				if len(as.Rhs) == len(as.Lhs) {
					rhs = as.Rhs[i]
				} else if len(as.Rhs) == 1 {
					rhs = as.Rhs[0]
				}
				call, isCallE := ast.Unparen(rhs).(*ast.CallExpr)
				if !isCallE {
					continue
				}
				if tv, ok := info.Types[call.Fun]; ok && tv.IsType() {
					continue // conversion
				}
				// only THE error result of a step: the last result of the call; not an error constructor, not a
				// wrapper/conversion of an error that already exists (one of the arguments is an error)
				if len(as.Rhs) == 1 && len(as.Lhs) > 1 && i != len(as.Lhs)-1 {
					continue
				}
				// (a constructed error is a step's failure too when it is put into a variable: `err = fmt.Errorf(…); break`
				// with the next iteration assigning err again loses it)
				constructed := isCall(info, call, "fmt.Errorf", "errors.New")
				wraps := false
				for _, a := range call.Args {
					if tv, ok := info.Types[a]; ok && tv.Type != nil && isErrorType(tv.Type) {
						wraps = true
					}
				}
				if wraps && !constructed {
					continue
				}
				callee := methodName(call)
				if callee == "" {
					callee = exprStr(call.Fun)
				}
				ord[callee]++
				key := refName(fi.Obj)
				if bi > 0 {
					key += "$lit" + itoa(bi)
				}
				key += ":" + callee + itoa(ord[callee])
				if inLit[o] {
					out[key] = ""
					continue
				}
				reads := func(q Pt) bool {
					n := q.Node()
					if n == nil {
						return false
					}
					return readsObj(info, n, o)
				}
				lost := func(q Pt) bool {
					if q == dp {
						return false
					}
					if n := q.Node(); n != nil && assignsObj(info, n, o) {
						return true // (reads are checked first: `err = wrap(err)` reads)
					}
					if named[o] {
						return false
					}
					return f.IsNormalExit(q)
				}
				path, found := f.Reach(Query{From: []Pt{dp}, Target: lost, Avoid: reads, NoCorr: true})
				msg := ""
				if found {
					msg = "the error of " + callee + " can be lost without having been looked at (overwritten or the function returns): " + f.Describe(path)
				}
				out[key] = msg
				// a named result: the rules below apply when every return of the function is explicit (a bare return
				// hands the named value on, whatever it is)
				if named[o] {
					bare := false
					inspectNoLit(body, func(x ast.Node) bool {
						if ret, ok := x.(*ast.ReturnStmt); ok && len(ret.Results) == 0 {
							bare = true
						}
						return true
					})
					if bare || bi != 0 {
						continue
					}
				}
				// a helper the reference tree did not have and that returns nothing cannot refuse: what follows its failed
				// step is decided in its caller, whose rules read the helper's body in place
				if bi == 0 && p.newHelpers[fi.Obj] && (ftypes[0].Results == nil || len(ftypes[0].Results.List) == 0) {
					continue
				}
				// E2: when the step DID fail, the error itself is used (returned, wrapped, logged, stored) or the function
				// refuses, before the value is lost - a test with the wrong polarity sends the failure down the success path
				realRead := func(q Pt) bool { return q.Node() != nil && readsObjReal(info, q.Node(), o) }
				refuses := func(q Pt) bool {
					k, ret := f.Exit(q)
					if k == NotExit {
						return false
					}
					if !f.IsNormalExit(q) {
						return true // panic / os.Exit
					}
					if ret == nil || len(ret.Results) == 0 {
						return false
					}
					last := ast.Unparen(ret.Results[len(ret.Results)-1])
					// going on as a success: `return nil`, `return …, nil`, `return true`; everything else (an error
					// literal or constructor, another error variable, false, a verdict object) refuses or reports
					if isNilIdent(info, last) {
						return false
					}
					if tv, ok := info.Types[last]; ok && tv.Value != nil && tv.Value.Kind() == constant.Bool && constant.BoolVal(tv.Value) {
						return false
					}
					return true
				}
				// a range loop whose body uses the error (reporting it per recipient) counts as using it: the loop is
				// over the recipients / connections the step was made for
				loopReads := func(q Pt) bool {
					if q.B.Kind != kindRangeLoop || q.I != 0 {
						return false
					}
					rs, ok := q.B.Stmt.(*ast.RangeStmt)
					if !ok {
						return false
					}
					return readsObjReal(info, rs.Body, o)
				}
				realRead = orPt(realRead, loopReads)
				lost2 := func(q Pt) bool {
					if n := q.Node(); n != nil && assignsObj(info, n, o) {
						return true
					}
					return f.IsNormalExit(q)
				}
				msg2 := ""
				if path, found := f.ReachRefined2(dp, o, false, false, lost2, orPt(realRead, refuses), nil); found {
					msg2 = "when " + callee + " fails, the function goes on as if it had succeeded (the error is neither used nor is anything refused before it is lost): " + f.Describe(path)
				}
				out["E2|"+key] = msg2
				// E3: a value known to be nil is not reported as the failure
				asArg := func(q Pt) bool {
					n := q.Node()
					if n == nil {
						return false
					}
					hit := false
					inspectNoLit(n, func(x ast.Node) bool {
						// `err != nil && f(err)` / `err == nil || f(err)`: the right operand only runs for a non-nil error
						if be, ok := x.(*ast.BinaryExpr); ok && (be.Op == token.LAND || be.Op == token.LOR) {
							if ns, isTest := nilTest(info, be.X, o); isTest && ((be.Op == token.LAND && ns == 1) || (be.Op == token.LOR && ns == 0)) {
								return false
							}
						}
						if call, ok := x.(*ast.CallExpr); ok {
							if fn := calleeFn(info, call); fn != nil && p.newHelpers[fn] {
								return true // a function the reference tree did not have: what it does with the value is read in its body
							}
							for _, a := range call.Args {
								if objOf(info, a) == o {
									hit = true
								}
							}
						}
						return true
					})
					return hit
				}
				redef := func(q Pt) bool { return q.Node() != nil && assignsObj(info, q.Node(), o) }
				msg3 := ""
				// only after a branch that asserts the value is nil (an unconditional `report(rcpt, err)` hands on the
				// outcome, whatever it is)
				var starts []Pt
				for _, b := range f.G.Blocks {
					cond, isCase := f.Cond(b)
					if cond == nil || isCase || !b.Live {
						continue
					}
					for si := 0; si < 2 && si < len(b.Succs); si++ {
						for _, fact := range atomsOnEdge(cond, si) {
							if ns, ok := nilTest(info, fact.E, o); ok && ((ns == 0) == fact.T) {
								b := b
								if _, reach := f.ReachRefined2(dp, o, true, false, func(q Pt) bool { return q.B == b }, redef, nil); reach {
									starts = append(starts, Pt{b.Succs[si], 0})
								}
							}
						}
					}
				}
				if path, found := f.Reach(Query{From: starts, Inclusive: true, Target: asArg, Avoid: redef}); found && len(starts) > 0 {
					msg3 = "the error of " + callee + " is handed on (wrapped / reported) on the path where it is nil - the failure branch is taken when the step succeeded: " + f.Describe(path)
				}
				out["E3|"+key] = msg3
			}
		}
	}
	return out
}

// readsObj: node n uses variable o other than as the plain target of an assignment.
func readsObj(info *types.Info, n ast.Node, o types.Object) bool {
	found := false
	var lhsIdents = map[*ast.Ident]bool{}
	inspectNoLit(n, func(x ast.Node) bool {
		switch s := x.(type) {
		case *ast.AssignStmt:
			if s.Tok == token.ASSIGN || s.Tok == token.DEFINE {
				for _, l := range s.Lhs {
					if id, ok := ast.Unparen(l).(*ast.Ident); ok {
						lhsIdents[id] = true
					}
				}
			}
		case *ast.Ident:
			if !lhsIdents[s] && info.Uses[s] == o {
				found = true
			}
		}
		return true
	})
	return found
}

// errDiscipline adds rule E1 to check c for the given functions. Returns the number of definitions examined.
func errDiscipline(c *Check, rule string, fis []*FuncInfo) int {
	n := 0
	seen := map[*types.Func]bool{}
	for _, fi := range fis {
		if fi == nil || seen[fi.Obj] {
			continue
		}
		seen[fi.Obj] = true
		obs := errLookedAt(c.P, fi)
		var keys []string
		for k := range obs {
			keys = append(keys, k)
		}
		sort.Strings(keys)
		for _, k := range keys {
			rl, kk := rule, k
			if strings.HasPrefix(k, "E2|") || strings.HasPrefix(k, "E3|") {
				rl, kk = k[:2], k[3:]
			} else {
				n++
			}
			full := fi.Pkg.Types.Name() + "." + kk
			why, ok := errLookedAtExceptions[rl+" "+full]
			if !ok {
				// an exception may name the function only (`E2 smtp.releaseLimits:*`): the step may be made through a helper
				if i := strings.Index(full, ":"); i > 0 {
					why, ok = errLookedAtExceptions[rl+" "+full[:i]+":*"]
				}
			}
			if ok {
				c.Except(rl + " " + full + ": " + why)
				continue
			}
			c.Hold(rl, full, fi.Decl.Pos(), obs[k] == "", obs[k])
		}
	}
	return n
}

// funcsOfPkgs: all non-test functions of the given packages.
func funcsOfPkgs(p *Prog, rels ...string) []*FuncInfo {
	var out []*FuncInfo
	for _, rel := range rels {
		pk := p.Pkg(rel)
		if pk == nil {
			continue
		}
		p.AllFuncs([]*packagesPkg{pk}, func(fi *FuncInfo) {
			if strings.HasSuffix(p.Fset.Position(fi.Decl.Pos()).Filename, "_test.go") {
				return
			}
			out = append(out, fi)
		})
	}
	return out
}

// errDisciplineSeen applies E1 to every function the property's own rules looked at (c.funcs).
func errDisciplineSeen(c *Check) {
	p := c.P
	want := map[string]bool{}
	for f := range c.funcs {
		want[f] = true
	}
	var fis []*FuncInfo
	p.AllFuncs(p.Pkgs, func(fi *FuncInfo) {
		if want[fi.Name()] && isServerPkg(fi.Pkg.PkgPath) && !strings.HasSuffix(p.Fset.Position(fi.Decl.Pos()).Filename, "_test.go") {
			fis = append(fis, fi)
		}
	})
	keptFis := append([]*FuncInfo{}, fis...)
	// E5 / E5b / E6 also look at what those functions call directly inside the server (the bookkeeping of a step is
	// often one call down: getRcptModifiers for AddRcpt, updateMetadataOnDisk for tryDelivery)
	{
		have := map[*types.Func]bool{}
		for _, fi := range keptFis {
			have[fi.Obj] = true
		}
		for _, fi := range fis {
			for _, call := range callsIn(fi.Decl.Body) {
				fn := calleeFn(fi.Info(), call)
				if fn == nil || have[fn] || fn.Pkg() == nil || !isServerPkg(fn.Pkg().Path()) {
					continue
				}
				rel := strings.TrimPrefix(strings.TrimPrefix(fn.Pkg().Path(), modPath), "/")
				if rel == "framework/log" || rel == "framework/exterrors" || strings.HasPrefix(rel, "framework/config") {
					continue
				}
				if d := p.DeclOf(fn); d != nil && d.Decl.Body != nil && !strings.HasSuffix(p.Fset.Position(d.Decl.Pos()).Filename, "_test.go") {
					have[fn] = true
					keptFis = append(keptFis, d)
				}
			}
		}
	}
	// … and at every function of the packages the property is anchored in (properties.jsonl, anchors.files) plus the
	// modules those mechanisms are built from: the inventory is quiet on the reference tree by construction, so the
	// wider net costs nothing there, and a skipped step in a table, a normaliser or a report generator is as fatal
	// for the property as one in its central function
	{
		have := map[*types.Func]bool{}
		for _, fi := range keptFis {
			have[fi.Obj] = true
		}
		for _, rel := range propertyPackages[c.ID] {
			pk := p.Pkg(rel)
			if pk == nil {
				continue
			}
			p.AllFuncs([]*packagesPkg{pk}, func(fi *FuncInfo) {
				if have[fi.Obj] || fi.Decl.Body == nil || strings.HasSuffix(p.Fset.Position(fi.Decl.Pos()).Filename, "_test.go") {
					return
				}
				have[fi.Obj] = true
				keptFis = append(keptFis, fi)
			})
		}
	}
	sort.Slice(keptFis, func(i, j int) bool { return keptFis[i].Name() < keptFis[j].Name() })
	defer keptEffectsSeen(c, keptFis)
	// E1–E4 look at the functions of the property's packages as well (a swallowed read error in the body buffer
	// selector is as fatal for "a failed transaction commits nothing" as one in the session)
	{
		have := map[*types.Func]bool{}
		for _, fi := range fis {
			have[fi.Obj] = true
		}
		inPkgs := map[string]bool{}
		for _, rel := range propertyPackages[c.ID] {
			inPkgs[modPath+"/"+rel] = true
		}
		for _, fi := range keptFis {
			if !have[fi.Obj] && inPkgs[fi.Pkg.PkgPath] {
				have[fi.Obj] = true
				fis = append(fis, fi)
			}
		}
	}
	// functions that call helpers the reference tree did not have: E1–E4 look at the bodies as written, and at the
	// helpers themselves
	if len(p.origBody) > 0 {
		have := map[*types.Func]bool{}
		for _, fi := range fis {
			have[fi.Obj] = true
		}
		for i := 0; i < len(fis); i++ {
			fi := fis[i]
			for _, h := range p.newCallees[fi.Obj] {
				if !have[h] {
					if d := p.DeclOf(h); d != nil && d.Decl.Body != nil {
						have[h] = true
						fis = append(fis, d)
					}
				}
			}
		}
		for i, fi := range fis {
			if ob := p.origBody[fi.Obj]; ob != nil {
				d := *fi.Decl
				d.Body = ob
				fis[i] = &FuncInfo{Obj: fi.Obj, Decl: &d, Pkg: fi.Pkg}
			}
		}
	}
	sort.Slice(fis, func(i, j int) bool { return fis[i].Name() < fis[j].Name() })
	c.Rule("E2", "when a step failed (its error is non-nil) the error itself is used - returned, wrapped, logged, stored - or the function refuses, before the value is lost: an error test with the wrong polarity sends the failure down the success path", 0)
	c.Rule("E3", "an error known to be nil is not handed on as the failure (the failure branch is not taken when the step succeeded)", 0)
	c.Rule("E1", "in every function this property's rules looked at, the error result of a step (a call) is read - tested, returned, passed on or stored - on every path before it is overwritten or the function returns: no failed step is silently treated as done", e1Floor[c.ID])
	errDiscipline(c, "E1", fis)
	lastWinsSeen(c, fis)
	typedNilSeen(c, fis)
	sliceReuseSeen(c, fis)
	sharedTableSeen(c, fis)
	failedResultSeen(c, fis)
	emptyRangeSeen(c, fis)
	directiveDestinationsSeen(c, fis)
	arrayCopyStoreSeen(c, fis)
	inPlaceFilterSeen(c, fis)
	timerRearmedSeen(c, fis)
	c.Rule("E4", "the value of a two-valued type assertion, map lookup or channel receive is not read where its ok flag is false (there it is the zero value: a nil connection, an empty entitlement, reply code 0)", 0)
	for _, fi := range fis {
		obs := commaOkSites(c.P, fi)
		var keys []string
		for k := range obs {
			keys = append(keys, k)
		}
		sort.Strings(keys)
		for _, k := range keys {
			full := fi.Pkg.Types.Name() + "." + k
			if why, ok := errLookedAtExceptions["E4 "+full]; ok {
				c.Except("E4 " + full + ": " + why)
				continue
			}
			c.Hold("E4", full, fi.Decl.Pos(), obs[k] == "", obs[k])
		}
	}
}

// e1Floor: number of error-producing steps seen in each property's functions on the reference tree, halved (behaviour-preserving restructuring moves steps between functions; the floor only guards against a vacuous pass).
var e1Floor = map[string]int{"C01": 19, "C02": 14, "C03": 26, "C04": 20, "C05": 13, "C06": 23, "C07": 2, "C09": 12, "C10": 18, "C11": 33, "C13": 3, "C14": 11, "C15": 5, "C17": 4, "C18": 9, "C20": 10}

// readsObjReal: node n uses variable o other than as an assignment target and other than in a comparison with nil.
func readsObjReal(info *types.Info, n ast.Node, o types.Object) bool {
	found := false
	skip := map[*ast.Ident]bool{}
	inspectNoLit(n, func(x ast.Node) bool {
		switch s := x.(type) {
		case *ast.AssignStmt:
			if s.Tok == token.ASSIGN || s.Tok == token.DEFINE {
				for _, l := range s.Lhs {
					if id, ok := ast.Unparen(l).(*ast.Ident); ok {
						skip[id] = true
					}
				}
			}
		case *ast.BinaryExpr:
			if s.Op == token.EQL || s.Op == token.NEQ {
				if isNilIdent(info, s.Y) {
					if id, ok := ast.Unparen(s.X).(*ast.Ident); ok {
						skip[id] = true
					}
				}
				if isNilIdent(info, s.X) {
					if id, ok := ast.Unparen(s.Y).(*ast.Ident); ok {
						skip[id] = true
					}
				}
			}
		case *ast.Ident:
			if !skip[s] && info.Uses[s] == o {
				found = true
			}
		}
		return true
	})
	return found
}

// E4 comma-ok discipline: the value of `v, ok := x.(T)`, `v, ok := m[k]` or `v, ok := <-ch` is not read where ok is
// known to be false (it is the zero value there: a nil pointer, an empty entitlement, code 0).
func commaOkSites(p *Prog, fi *FuncInfo) map[string]string {
	out := map[string]string{}
	if fi.Decl.Body == nil {
		return out
	}
	info := fi.Info()
	bodies := []*ast.BlockStmt{fi.Decl.Body}
	ast.Inspect(fi.Decl.Body, func(x ast.Node) bool {
		if fl, ok := x.(*ast.FuncLit); ok {
			bodies = append(bodies, fl.Body)
		}
		return true
	})
	ord := 0
	for bi, body := range bodies {
		f := p.FlowOf(info, body, fi.Name())
		for _, pt := range f.Points() {
			as, ok := pt.Node().(*ast.AssignStmt)
			if !ok || len(as.Lhs) != 2 || len(as.Rhs) != 1 {
				continue
			}
			kind := ""
			switch r := ast.Unparen(as.Rhs[0]).(type) {
			case *ast.TypeAssertExpr:
				if r.Type != nil {
					kind = "assert"
				}
			case *ast.IndexExpr:
				if _, isMap := info.TypeOf(r.X).Underlying().(*types.Map); isMap {
					kind = "map"
				}
			case *ast.UnaryExpr:
				if r.Op == token.ARROW {
					kind = "recv"
				}
			}
			if kind == "" {
				continue
			}
			v, okv := objOf(info, as.Lhs[0]), objOf(info, as.Lhs[1])
			if v == nil || okv == nil || v.Name() == "_" || okv.Name() == "_" {
				continue
			}
			if _, isVar := okv.(*types.Var); !isVar || !isBoolType(okv.Type()) {
				continue
			}
			ord++
			key := refName(fi.Obj)
			if bi > 0 {
				key += "$lit" + itoa(bi)
			}
			key += ":" + kind + ":" + v.Name() + itoa(ord)
			reads := func(q Pt) bool {
				if q == pt || q.Node() == nil || q.Node() == pt.Node() {
					return false
				}
				return readsUnguarded(info, q.Node(), v, okv)
			}
			redef := func(q Pt) bool {
				return q != pt && q.Node() != nil && (assignsObj(info, q.Node(), v) || assignsObj(info, q.Node(), okv)) && !readsObj(info, q.Node(), v)
			}
			// the loop may re-execute the definition: that is a new value
			redef2 := func(q Pt) bool { return q == pt || redef(q) }
			// named booleans that imply ok (`expired := ok && …`): false wherever ok is false
			implied := map[types.Object]bool{}
			ast.Inspect(body, func(x ast.Node) bool {
				as2, isAs := x.(*ast.AssignStmt)
				if !isAs || len(as2.Lhs) != 1 || len(as2.Rhs) != 1 {
					return true
				}
				b, isVar := objOf(info, as2.Lhs[0]).(*types.Var)
				if !isVar || b.IsField() || !isBoolType(b.Type()) {
					return true
				}
				if _, n := localDef(info, body, b); n != 1 {
					return true
				}
				for _, af := range atomsOnEdge(as2.Rhs[0], 0) {
					if objOf(info, af.E) == okv && af.T {
						implied[b] = true
					}
				}
				return true
			})
			var impliedFalse func(b *cfgBlock, i int) bool
			if len(implied) > 0 {
				impliedFalse = func(b *cfgBlock, i int) bool {
					raw := f.condRaw(b)
					if raw == nil {
						return false
					}
					for _, af := range atomsOnEdge(raw, i) {
						if o := objOf(info, af.E); o != nil && implied[o] && af.T {
							return true
						}
					}
					return false
				}
			}
			// where ok is false the value is the zero value: a test of its length or nil-ness has a known outcome
			zeroWorld := f.World(func(atom ast.Expr) (bool, bool) {
				be, isBE := ast.Unparen(atom).(*ast.BinaryExpr)
				if !isBE {
					return false, false
				}
				if call, isCall := ast.Unparen(be.X).(*ast.CallExpr); isCall && len(call.Args) == 1 {
					if fid, isF := call.Fun.(*ast.Ident); isF && fid.Name == "len" && objOf(info, call.Args[0]) == v {
						if tv, has := info.Types[be.Y]; has && tv.Value != nil && tv.Value.String() == "0" {
							switch be.Op {
							case token.EQL, token.LEQ:
								return true, true
							case token.NEQ, token.GTR:
								return false, true
							}
						}
					}
				}
				if objOf(info, be.X) == v && isNilIdent(info, be.Y) {
					switch be.Op {
					case token.EQL:
						return true, true
					case token.NEQ:
						return false, true
					}
				}
				return false, false
			})
			prevImplied := impliedFalse
			impliedFalse = func(b *cfgBlock, i int) bool {
				if prevImplied != nil && prevImplied(b, i) {
					return true
				}
				return zeroWorld(b, i)
			}
			msg := ""
			if path, found := f.ReachRefined2(pt, okv, true, true, reads, redef2, impliedFalse); found {
				msg = "the value of a failed " + map[string]string{"assert": "type assertion", "map": "map lookup", "recv": "receive from a closed channel"}[kind] + " (" + v.Name() + ", the zero value) is used: " + f.Describe(path)
			}
			out[key] = msg
		}
	}
	return out
}

// readsUnguarded: node n reads v outside the right operand of `ok && …` / `!ok || …` (where ok is known true).
func readsUnguarded(info *types.Info, n ast.Node, v, okv types.Object) bool {
	if _, bare := n.(*ast.Ident); bare {
		return false // go/cfg lists the targets of a select-case / range assignment as bare identifiers
	}
	// `return v, false, …`: the zero value is handed back together with the answer "not found" – the caller decides
	if ret, isRet := n.(*ast.ReturnStmt); isRet && len(ret.Results) >= 2 {
		onlyBare := true
		inspectNoLit(ret, func(y ast.Node) bool {
			if id, isID := y.(*ast.Ident); isID && info.Uses[id] == v {
				bare := false
				for _, r := range ret.Results {
					if ast.Unparen(r) == ast.Expr(id) {
						bare = true
					}
				}
				if !bare {
					onlyBare = false
				}
			}
			return true
		})
		if onlyBare {
			return false
		}
	}
	found := false
	var walk func(x ast.Node)
	walk = func(x ast.Node) {
		inspectNoLit(x, func(y ast.Node) bool {
			if found {
				return false
			}
			if be, isBin := y.(*ast.BinaryExpr); isBin && (be.Op == token.LAND || be.Op == token.LOR) {
				// does the left operand establish ok == true for the right one?
				est := false
				for _, af := range atomsOnEdge(be.X, map[token.Token]int{token.LAND: 0, token.LOR: 1}[be.Op]) {
					if objOf(info, af.E) == okv && af.T {
						est = true
					}
				}
				if est {
					walk(be.X)
					return false
				}
			}
			if as, isAs := y.(*ast.AssignStmt); isAs && (as.Tok == token.ASSIGN || as.Tok == token.DEFINE) {
				for _, r := range as.Rhs {
					walk(r)
				}
				for _, l := range as.Lhs {
					if _, isID := ast.Unparen(l).(*ast.Ident); !isID {
						walk(l)
					}
				}
				return false
			}
			// the length of the zero value is a fact, not a use of it (`v, ok := m[k]; if len(v) == 0 { … }`)
			if call, isCall := y.(*ast.CallExpr); isCall && len(call.Args) == 1 {
				if fid, isF := call.Fun.(*ast.Ident); isF && (fid.Name == "len" || fid.Name == "cap") {
					if _, isB := info.Uses[fid].(*types.Builtin); isB {
						if aid, isA := ast.Unparen(call.Args[0]).(*ast.Ident); isA && info.Uses[aid] == v {
							return false
						}
					}
				}
			}
			if id, isID := y.(*ast.Ident); isID && info.Uses[id] == v {
				found = true
			}
			return true
		})
	}
	walk(n)
	return found
}

// propertyPackages: the packages each property is anchored in (anchors.files of properties.jsonl) and the modules its
// mechanisms are assembled from. Used only to select the functions the inventory rules (E5, E5b, E6) look at.
var propertyPackages = map[string][]string{
	"C01": {"internal/target/queue", "internal/target/remote", "internal/target/smtp", "internal/smtpconn", "internal/dsn"},
	"C02": {"internal/target/queue", "framework/buffer"},
	"C03": {"internal/endpoint/smtp", "internal/msgpipeline", "internal/limits", "internal/limits/limiters", "internal/modify"},
	"C04": {"internal/msgpipeline", "internal/modify", "internal/table", "framework/address", "framework/dns"},
	"C05": {"internal/target/remote", "internal/smtpconn", "internal/smtpconn/pool", "framework/dns", "framework/future"},
	"C06": {"internal/msgpipeline", "internal/check", "framework/config/module", "internal/target/remote", "internal/check/command", "internal/check/dnsbl", "internal/check/dns", "internal/check/dkim", "internal/check/spf", "internal/check/requiretls", "internal/check/authorize_sender", "internal/check/milter", "internal/check/rspamd"},
	"C07": {"internal/dmarc", "internal/msgpipeline", "internal/check/spf", "internal/check/dkim"},
	"C09": {"internal/msgpipeline", "internal/smtpconn", "internal/target/remote", "internal/target/smtp", "internal/target/queue"},
	"C10": {"internal/target/queue", "framework/buffer", "framework/module"},
	"C11": {"internal/limits", "internal/limits/limiters", "internal/endpoint/smtp", "internal/target/remote"},
	"C12": {"internal/target/queue"},
	"C13": {"internal/target/remote", "framework/dns", "framework/future"},
	"C14": {"internal/auth", "internal/auth/pass_table", "internal/auth/sasllogin", "internal/authz", "internal/endpoint/smtp", "internal/table"},
	"C15": {"internal/check/authorize_sender", "internal/authz", "internal/msgpipeline", "framework/address", "internal/table"},
	"C16": {"framework/exterrors", "internal/endpoint/smtp", "internal/smtpconn", "internal/target/queue", "internal/target/remote", "framework/config/module"},
	"C17": {"framework/address", "framework/dns"},
	"C18": {"internal/dsn", "internal/target/queue"},
	"C19": {"internal/smtpconn/pool", "internal/target/remote", "internal/smtpconn"},
	"C20": {"framework/cfgparser", "framework/config/lexer"},
	"C08": {"internal/modify/dkim", "internal/check/dkim", "internal/smtpconn"},
}
