package main

import (
	"go/ast"
	"go/constant"
	"go/token"
	"go/types"
	"sort"
	"strings"

	"golang.org/x/tools/go/cfg"
)

// Flow is the control-flow graph of one function body with point-level queries.
// A point is (block, index); index == len(block.Nodes) is the "end of block" pseudo point.
type Flow struct {
	P    *Prog
	Info *types.Info
	G    *cfg.CFG
	Body *ast.BlockStmt
	Name string
	corr map[string][]types.Object
	sw   map[*ast.CaseClause]*ast.SwitchStmt

	preds     map[*cfg.Block][]*cfg.Block
	rangeVars map[token.Pos]*ast.RangeStmt
	nbStable  map[*types.Var]int // named booleans: 0 unknown, 1 expandable (or being decided), 2 not expandable

	// set while a query evaluates its Target: what the path knows (see KnownNonNil)
	curFacts  map[string]bool
	curRefSet map[types.Object]bool
	boolConst map[*types.Var]bool
	curRefNil bool
}

// switchOf: the expression switch a case clause belongs to (nil for type switches / select).
func (f *Flow) switchOf(cc *ast.CaseClause) *ast.SwitchStmt {
	if f.sw == nil {
		f.sw = map[*ast.CaseClause]*ast.SwitchStmt{}
		if f.Body != nil {
			ast.Inspect(f.Body, func(n ast.Node) bool {
				if s, ok := n.(*ast.SwitchStmt); ok {
					for _, cl := range s.Body.List {
						if c, ok := cl.(*ast.CaseClause); ok {
							f.sw[c] = s
						}
					}
				}
				return true
			})
		}
	}
	return f.sw[cc]
}

// CaseTag: for the condition block of a `switch tag { case e: }` edge, the tag expression (nil otherwise).
func (f *Flow) CaseTag(b *cfg.Block) ast.Expr {
	if len(b.Succs) != 2 {
		return nil
	}
	if cc, ok := b.Succs[0].Stmt.(*ast.CaseClause); ok {
		if s := f.switchOf(cc); s != nil {
			return s.Tag
		}
	}
	return nil
}

type Pt struct {
	B *cfg.Block
	I int
}

func (pt Pt) Node() ast.Node {
	if pt.B == nil || pt.I >= len(pt.B.Nodes) {
		return nil
	}
	return pt.B.Nodes[pt.I]
}

func noReturnCall(info *types.Info, call *ast.CallExpr) bool {
	if id, ok := ast.Unparen(call.Fun).(*ast.Ident); ok {
		if b, ok := info.Uses[id].(*types.Builtin); ok && objName(b) == "panic" {
			return true
		}
	}
	switch qname(callee(info, call)) {
	case "os.Exit", "log.Fatal", "log.Fatalf", "log.Fatalln", "log.Panic", "log.Panicf", "log.Panicln", "runtime.Goexit":
		return true
	}
	return false
}

// FlowOf builds (and caches) the flow of a function body.
func (p *Prog) FlowOf(info *types.Info, body *ast.BlockStmt, name string) *Flow {
	if f, ok := p.flowCache[body]; ok {
		return f
	}
	g := cfg.New(body, func(call *ast.CallExpr) bool { return !noReturnCall(info, call) })
	f := &Flow{P: p, Info: info, G: g, Body: body, Name: name}
	p.flowCache[body] = f
	return f
}

func (p *Prog) FlowOfFunc(fi *FuncInfo) *Flow {
	return p.FlowOf(fi.Info(), fi.Decl.Body, fi.Name())
}

func (f *Flow) Entry() Pt { return Pt{f.G.Blocks[0], 0} }

// Points enumerates all live points carrying a node.
func (f *Flow) Points() []Pt {
	var out []Pt
	for _, b := range f.G.Blocks {
		if !b.Live {
			continue
		}
		for i := range b.Nodes {
			out = append(out, Pt{b, i})
		}
	}
	return out
}

// Find returns the points whose node satisfies pred.
func (f *Flow) Find(pred func(ast.Node) bool) []Pt {
	var out []Pt
	for _, pt := range f.Points() {
		if pred(pt.Node()) {
			out = append(out, pt)
		}
	}
	return out
}

// PtOf returns the point whose node contains pos (innermost match: the node with the smallest extent).
func (f *Flow) PtOf(pos token.Pos) (Pt, bool) {
	var best Pt
	found := false
	var bestLen token.Pos
	for _, pt := range f.Points() {
		n := pt.Node()
		if posIn(n, pos) {
			// do not match through a FuncLit boundary
			inLit := false
			ast.Inspect(n, func(x ast.Node) bool {
				if fl, ok := x.(*ast.FuncLit); ok && posIn(fl.Body, pos) {
					inLit = true
				}
				return !inLit
			})
			if inLit {
				continue
			}
			l := n.End() - n.Pos()
			if !found || l < bestLen {
				best, bestLen, found = pt, l, true
			}
		}
	}
	return best, found
}

// PtOfNode: the point whose node contains n (identity), not looking through function literals.
func (f *Flow) PtOfNode(n ast.Node) (Pt, bool) {
	for _, pt := range f.Points() {
		root := pt.Node()
		if root == nil {
			continue
		}
		hit := false
		ast.Inspect(root, func(x ast.Node) bool {
			if hit || x == nil {
				return false
			}
			if x == n {
				hit = true
				return false
			}
			if _, isLit := x.(*ast.FuncLit); isLit && x != root {
				return false
			}
			return true
		})
		if hit {
			return pt, true
		}
	}
	return Pt{}, false
}

type ExitKind int

const (
	NotExit ExitKind = iota
	ExitReturn
	ExitFallOff
	ExitPanic
)

// Exit classifies an end-of-block point without successors.
func (f *Flow) Exit(pt Pt) (ExitKind, *ast.ReturnStmt) {
	if pt.I != len(pt.B.Nodes) || len(pt.B.Succs) != 0 || !pt.B.Live {
		return NotExit, nil
	}
	if len(pt.B.Nodes) == 0 {
		return ExitFallOff, nil
	}
	switch n := pt.B.Nodes[len(pt.B.Nodes)-1].(type) {
	case *ast.ReturnStmt:
		return ExitReturn, n
	case *ast.ExprStmt:
		if c, ok := n.X.(*ast.CallExpr); ok && noReturnCall(f.Info, c) {
			return ExitPanic, nil
		}
	}
	return ExitFallOff, nil
}

// IsNormalExit: return or falling off the end (not panic / os.Exit).
func (f *Flow) IsNormalExit(pt Pt) bool {
	k, _ := f.Exit(pt)
	return k == ExitReturn || k == ExitFallOff
}

// Cond returns the branch condition of a block with two successors (Succs[0] = true edge).
// For the lowered switch statement the node is the case expression and tag is the switch tag (or nil for tagless).
func (f *Flow) Cond(b *cfg.Block) (cond ast.Expr, isCase bool) {
	if len(b.Succs) != 2 || len(b.Nodes) == 0 {
		return nil, false
	}
	e, ok := b.Nodes[len(b.Nodes)-1].(ast.Expr)
	if !ok {
		return nil, false
	}
	if b.Succs[0].Kind == cfg.KindSwitchCaseBody || b.Succs[1].Kind == cfg.KindSwitchNextCase {
		if cc, ok := b.Succs[0].Stmt.(*ast.CaseClause); ok {
			// the cases of a tagless switch are ordinary conditions evaluated in order
			if s := f.switchOf(cc); s != nil && s.Tag == nil {
				return f.normCond(e, 0), false
			}
			return e, true
		}
	}
	return f.normCond(e, 0), false
}

// condRaw: the branch condition as written (named booleans not expanded); nil for case edges.
func (f *Flow) condRaw(b *cfg.Block) ast.Expr {
	if len(b.Succs) != 2 || len(b.Nodes) == 0 {
		return nil
	}
	e, ok := b.Nodes[len(b.Nodes)-1].(ast.Expr)
	if !ok {
		return nil
	}
	if cc, ok := b.Succs[0].Stmt.(*ast.CaseClause); ok && (b.Succs[0].Kind == cfg.KindSwitchCaseBody || b.Succs[1].Kind == cfg.KindSwitchNextCase) {
		if s := f.switchOf(cc); s == nil || s.Tag != nil {
			return nil
		}
	}
	return e
}

// edgeAtoms: the atomic facts of an edge, from the expanded condition and – so that repeated tests of a named
// boolean still correlate where only some of them could be expanded – from the condition as written.
func (f *Flow) edgeAtoms(b *cfg.Block, cond ast.Expr, i int) []atomFact {
	out := atomsOnEdge(cond, i)
	if raw := f.condRaw(b); raw != nil && raw != cond {
		seen := map[string]bool{}
		for _, a := range out {
			k, _ := canonAtom(a)
			seen[k] = true
		}
		for _, a := range atomsOnEdge(raw, i) {
			if k, _ := canonAtom(a); !seen[k] {
				out = append(out, a)
			}
		}
	}
	return out
}

// normCond replaces a named boolean (`inTransaction := s.delivery != nil; if inTransaction {`) by its defining
// condition, recursively through !, && and ||. A name is expanded only if it is defined exactly once, the
// definition precedes the use, no local it mentions is reassigned in between, and – when it reads a field – no
// call or store that could change that field lies in between. The synthetic !, &&, || nodes carry no type
// information; their leaves are the original, typed nodes.
func (f *Flow) normCond(e ast.Expr, depth int) ast.Expr {
	if f.Body == nil || depth > 4 {
		return e
	}
	switch x := e.(type) {
	case *ast.ParenExpr:
		return f.normCond(x.X, depth)
	case *ast.UnaryExpr:
		if x.Op == token.NOT {
			if in := f.normCond(x.X, depth); in != x.X {
				return &ast.UnaryExpr{OpPos: x.OpPos, Op: token.NOT, X: in}
			}
		}
	case *ast.BinaryExpr:
		if x.Op == token.LAND || x.Op == token.LOR {
			a, b := f.normCond(x.X, depth), f.normCond(x.Y, depth)
			if a != x.X || b != x.Y {
				return &ast.BinaryExpr{X: a, OpPos: x.OpPos, Op: x.Op, Y: b}
			}
		}
	case *ast.Ident:
		o, ok := f.Info.Uses[x].(*types.Var)
		if !ok || o.IsField() || !localIn(f.Body, o) || !isBoolType(o.Type()) {
			return e
		}
		def, n := localDef(f.Info, f.Body, o)
		if n != 1 || def == nil || def.End() >= x.Pos() {
			return e
		}
		if _, ok := f.Info.Types[def]; !ok {
			return e
		}
		if tv := f.Info.Types[def]; !isBoolType(tv.Type) {
			return e
		}
		switch d := ast.Unparen(def).(type) {
		case *ast.BinaryExpr:
		case *ast.UnaryExpr:
			if d.Op != token.NOT {
				return e
			}
		default:
			return e // results of calls, copies of other variables: values the rules track by variable
		}
		stable := true
		readsField := false
		ast.Inspect(def, func(n ast.Node) bool {
			switch y := n.(type) {
			case *ast.Ident:
				if dv, ok := f.Info.Uses[y].(*types.Var); ok && !dv.IsField() && assignedBetween(f.Info, f.Body, dv, def.End(), x.Pos()) {
					stable = false
				}
			case *ast.SelectorExpr:
				if fieldOf(f.Info, y) != nil {
					readsField = true
				}
			case *ast.CallExpr:
				if tv, ok := f.Info.Types[y.Fun]; !(ok && (tv.IsType() || tv.IsBuiltin())) {
					readsField = true // result of a call: treat like shared state
				}
			}
			return true
		})
		if stable && readsField {
			// any call or field store between definition and use may change what was read
			ast.Inspect(f.Body, func(n ast.Node) bool {
				if n == nil || !stable {
					return false
				}
				if n.Pos() > def.End() && n.Pos() < x.Pos() {
					switch y := n.(type) {
					case *ast.CallExpr:
						if tv, ok := f.Info.Types[y.Fun]; !(ok && (tv.IsType() || tv.IsBuiltin())) {
							if f.rawBetween(def.Pos(), n.Pos(), x.Pos()) {
								stable = false
							}
						}
					case *ast.AssignStmt:
						for _, l := range y.Lhs {
							if fieldOf(f.Info, l) != nil && f.rawBetween(def.Pos(), n.Pos(), x.Pos()) {
								stable = false
							}
						}
					}
				}
				return true
			})
		}
		if stable {
			return f.normCond(ast.Unparen(def), depth+1)
		}
	}
	return e
}

// Query is a path query over points.
type Query struct {
	From      []Pt                              // start points
	Inclusive bool                              // examine From points themselves (else start at their successors)
	Target    func(Pt) bool                     // a path ends successfully here
	Avoid     func(Pt) bool                     // points that may not be passed (checked before Target)
	AvoidEdge func(b *cfg.Block, succ int) bool // block-to-block edges that may not be taken
	NoCorr    bool                              // disable correlation of repeated identical conditions
}

// Reach reports whether some path exists; it returns the witness path.
//
// Repeated conditions are correlated: when the same side-effect-free atomic condition (e.g. `len(newRcpts) == 0`)
// is tested twice on a path without an intervening assignment to a variable it mentions, the second test must
// agree with the first. This removes the classic infeasible-path false alarm.
func (f *Flow) Reach(q Query) ([]Pt, bool) {
	curInfo = f.Info
	f.P.countPaths()
	corr := f.corrAtoms()
	if q.NoCorr {
		corr = nil
	}
	type key struct {
		b     *cfg.Block
		i     int
		facts string
	}
	type state struct {
		pt    Pt
		facts map[string]bool
	}
	factKey := func(m map[string]bool) string {
		if len(m) == 0 {
			return ""
		}
		ks := make([]string, 0, len(m))
		for k, v := range m {
			if v {
				ks = append(ks, k+"=T")
			} else {
				ks = append(ks, k+"=F")
			}
		}
		sort.Strings(ks)
		return strings.Join(ks, ";")
	}
	prev := map[key]key{}
	seen := map[key]bool{}
	var queue []state
	push := func(from key, to state, hasFrom bool) {
		k := key{to.pt.B, to.pt.I, factKey(to.facts)}
		if seen[k] {
			return
		}
		seen[k] = true
		if hasFrom {
			prev[k] = from
		}
		queue = append(queue, to)
	}
	succs := func(st state) []state {
		pt := st.pt
		if pt.I < len(pt.B.Nodes) {
			facts := st.facts
			// the branch condition itself (last node of a two-way block) defines nothing; a bare identifier there is a
			// test of that variable, not a range key/value
			isCondNode := pt.I == len(pt.B.Nodes)-1 && len(pt.B.Succs) == 2 && pt.B.Kind != cfg.KindRangeLoop
			if _, isExpr := pt.B.Nodes[pt.I].(ast.Expr); !isExpr {
				isCondNode = false
			}
			if len(facts) > 0 && !isCondNode {
				// kill facts about variables assigned by this node
				if killed := f.killedBy(pt.B.Nodes[pt.I], corr); len(killed) > 0 {
					nf := map[string]bool{}
					for k, v := range facts {
						if !killed[k] {
							nf[k] = v
						}
					}
					facts = nf
				}
			}
			// an error variable assigned the nil literal (or an error literal) is known nil (non-nil) from here on
			if as, isAs := pt.B.Nodes[pt.I].(*ast.AssignStmt); isAs && len(corr) > 0 && len(as.Lhs) == len(as.Rhs) && (as.Tok == token.ASSIGN || as.Tok == token.DEFINE) {
				var add map[string]bool
				for i, l := range as.Lhs {
					id, isID := ast.Unparen(l).(*ast.Ident)
					if !isID {
						continue
					}
					o := objOf(f.Info, id)
					v, isVar := o.(*types.Var)
					if isVar && !v.IsField() && isBoolType(v.Type()) {
						// a flag assigned a constant
						bkey := v.Name() + "@" + itoa(int(v.Pos()))
						if _, tracked := corr[bkey]; tracked {
							if tv, has := f.Info.Types[as.Rhs[i]]; has && tv.Value != nil && tv.Value.Kind() == constant.Bool {
								if add == nil {
									add = map[string]bool{}
								}
								add[bkey] = constant.BoolVal(tv.Value)
							}
						}
						continue
					}
					if !isVar || v.IsField() || !isErrorType(v.Type()) {
						continue
					}
					key := v.Name() + " == nil@" + itoa(int(v.Pos()))
					if _, tracked := corr[key]; !tracked {
						continue
					}
					rhs := ast.Unparen(as.Rhs[i])
					known, val := false, false
					if isNilIdent(f.Info, rhs) {
						known, val = true, true
					} else if nonNilErrExpr(f.Info, rhs) {
						known, val = true, false
					} else if rid, isRID := rhs.(*ast.Ident); isRID {
						// a copy of a variable whose nil-ness the path knows
						if rv, isRV := f.Info.Uses[rid].(*types.Var); isRV && !rv.IsField() && isErrorType(rv.Type()) {
							if old, has := facts[rv.Name()+" == nil@"+itoa(int(rv.Pos()))]; has {
								known, val = true, old
							}
						}
					}
					if known {
						if add == nil {
							add = map[string]bool{}
						}
						add[key] = val
					}
				}
				if len(add) > 0 {
					nf := map[string]bool{}
					for k, v := range facts {
						nf[k] = v
					}
					for k, v := range add {
						nf[k] = v
					}
					facts = nf
				}
			}
			return []state{{Pt{pt.B, pt.I + 1}, facts}}
		}
		var out []state
		cond, isCase := f.Cond(pt.B)
		for i, s := range pt.B.Succs {
			if q.AvoidEdge != nil && q.AvoidEdge(pt.B, i) {
				continue
			}
			facts := st.facts
			if cond != nil && !isCase && len(corr) > 0 {
				contradiction := false
				var add []atomFact
				for _, af := range f.edgeAtoms(pt.B, cond, i) {
					t, truth := canonAtom(af)
					if _, tracked := corr[t]; !tracked {
						continue
					}
					if old, has := facts[t]; has {
						if old != truth {
							contradiction = true
						}
					} else {
						add = append(add, af)
					}
				}
				if contradiction {
					continue
				}
				if len(add) > 0 {
					nf := map[string]bool{}
					for k, v := range facts {
						nf[k] = v
					}
					for _, af := range add {
						t, truth := canonAtom(af)
						nf[t] = truth
					}
					facts = nf
				}
			}
			out = append(out, state{Pt{s, 0}, facts})
		}
		return out
	}
	for _, s := range q.From {
		// facts the start point is known to be under: the branch edges that lead – without alternative – to it
		var seed map[string]bool
		if len(corr) > 0 {
			seed = f.seedFacts(s, corr)
		}
		if q.Inclusive {
			push(key{}, state{s, seed}, false)
		} else {
			for _, n := range succs(state{s, seed}) {
				push(key{}, n, false)
			}
		}
	}
	for len(queue) > 0 {
		st := queue[0]
		queue = queue[1:]
		pt := st.pt
		if q.Avoid != nil && q.Avoid(pt) {
			continue
		}
		self := key{pt.B, pt.I, factKey(st.facts)}
		f.curFacts = st.facts
		hit := q.Target != nil && q.Target(pt)
		f.curFacts = nil
		if hit {
			var path []Pt
			k := self
			for {
				path = append([]Pt{{k.b, k.i}}, path...)
				pk, ok := prev[k]
				if !ok {
					break
				}
				k = pk
			}
			return path, true
		}
		for _, n := range succs(st) {
			push(self, n, true)
		}
	}
	return nil, false
}

// corrAtoms: the side-effect-free atomic conditions that occur at least twice in the function, with the objects
// they mention.
func (f *Flow) corrAtoms() map[string][]types.Object {
	if f.corr != nil {
		return f.corr
	}
	curInfo = f.Info
	count := map[string]int{}
	objs := map[string][]types.Object{}
	for _, b := range f.G.Blocks {
		cond, isCase := f.Cond(b)
		if cond == nil || isCase || !b.Live {
			continue
		}
		seenHere := map[string]bool{}
		for si := 0; si < 2; si++ {
			for _, af := range f.edgeAtoms(b, cond, si) {
				t, _ := canonAtom(af)
				if seenHere[t] {
					continue
				}
				seenHere[t] = true
				pure := true
				var os []types.Object
				ast.Inspect(af.E, func(n ast.Node) bool {
					switch x := n.(type) {
					case *ast.CallExpr:
						if id, ok := x.Fun.(*ast.Ident); ok {
							if _, isB := f.Info.Uses[id].(*types.Builtin); isB && (id.Name == "len" || id.Name == "cap") {
								return true
							}
						}
						pure = false
					case *ast.UnaryExpr:
						if x.Op == token.ARROW {
							pure = false
						}
					case *ast.Ident:
						if o := f.Info.Uses[x]; o != nil {
							os = append(os, o)
						}
					}
					return true
				})
				if !pure {
					continue
				}
				count[t]++
				objs[t] = os
				// a test of a local flag that is assigned a constant somewhere is tracked even when it occurs once (the
				// assignment makes the outcome known: `ok = true; …; if !ok {`)
				if id, isID := ast.Unparen(af.E).(*ast.Ident); isID {
					if v, isVar := f.Info.Uses[id].(*types.Var); isVar && !v.IsField() && isBoolType(v.Type()) && f.constAssignedBool(v) {
						count[t]++
					}
				}
				// a nil test of a local error variable is tracked even when it occurs once: whether `return err`
				// further down is a success depends on it (IsSuccessReturn consults the facts of the path)
				if be, ok := ast.Unparen(af.E).(*ast.BinaryExpr); ok && (be.Op == token.EQL || be.Op == token.NEQ) {
					if id, ok := ast.Unparen(be.X).(*ast.Ident); ok && isNilIdent(f.Info, be.Y) {
						if v, ok := f.Info.Uses[id].(*types.Var); ok && !v.IsField() && isErrorType(v.Type()) {
							count[t]++
						}
					}
				}
			}
		}
	}
	f.corr = map[string][]types.Object{}
	for t, n := range count {
		if n >= 2 {
			f.corr[t] = objs[t]
		}
	}
	return f.corr
}

// killedBy: correlated atoms invalidated by node n (it assigns a variable they mention, or takes its address,
// or calls something while the atom mentions a field / non-local).
func (f *Flow) killedBy(n ast.Node, corr map[string][]types.Object) map[string]bool {
	var assigned []types.Object
	hasCall := false
	ast.Inspect(n, func(x ast.Node) bool {
		switch s := x.(type) {
		case *ast.AssignStmt:
			for _, l := range s.Lhs {
				// root object of the lvalue
				e := l
				for {
					switch y := ast.Unparen(e).(type) {
					case *ast.SelectorExpr:
						e = y.X
						continue
					case *ast.IndexExpr:
						e = y.X
						continue
					case *ast.StarExpr:
						e = y.X
						continue
					}
					break
				}
				if o := objOf(f.Info, e); o != nil {
					assigned = append(assigned, o)
				}
			}
		case *ast.IncDecStmt:
			if o := objOf(f.Info, s.X); o != nil {
				assigned = append(assigned, o)
			}
		case *ast.UnaryExpr:
			if s.Op == token.AND {
				if o := objOf(f.Info, s.X); o != nil {
					assigned = append(assigned, o)
				}
			}
		case *ast.CallExpr:
			hasCall = true
		case *ast.RangeStmt:
			for _, e := range []ast.Expr{s.Key, s.Value} {
				if e != nil {
					if o := objOf(f.Info, e); o != nil {
						assigned = append(assigned, o)
					}
				}
			}
		case *ast.Ident:
			// bare range key/value nodes added by go/cfg
		}
		return true
	})
	// go/cfg adds the key/value identifiers of a range statement as separate nodes: treat a bare identifier
	// node as a definition of that variable
	if id, ok := n.(*ast.Ident); ok {
		if o := objOf(f.Info, id); o != nil {
			assigned = append(assigned, o)
		}
	}
	out := map[string]bool{}
	for t, os := range corr {
		for _, o := range os {
			for _, a := range assigned {
				if o == a {
					out[t] = true
				}
			}
			// a call may change anything that is not a plain local variable (fields via pointers, globals)
			if hasCall {
				if v, ok := o.(*types.Var); ok {
					if v.IsField() || (v.Pkg() != nil && v.Parent() == v.Pkg().Scope()) {
						out[t] = true
					}
				}
			}
		}
		if hasCall && strings.Contains(t, ".") {
			// atoms over fields (x.f) are invalidated by any call
			out[t] = true
		}
	}
	return out
}

var pathCounter int

func (p *Prog) countPaths() { pathCounter++ }

// Describe renders a witness path compactly: the lines of the branch points and the end.
func (f *Flow) Describe(path []Pt) string {
	if len(path) == 0 {
		return ""
	}
	s := ""
	last := -1
	n := 0
	for _, pt := range path {
		nd := pt.Node()
		if nd == nil {
			continue
		}
		line := f.P.Fset.Position(nd.Pos()).Line
		if line != last {
			if n < 14 {
				if s != "" {
					s += "→"
				}
				s += itoa(line)
			}
			n++
			last = line
		}
	}
	if n >= 14 {
		s += "→…"
	}
	return "path lines " + s
}

func itoa(i int) string {
	if i == 0 {
		return "0"
	}
	neg := i < 0
	if neg {
		i = -i
	}
	var b []byte
	for i > 0 {
		b = append([]byte{byte('0' + i%10)}, b...)
		i /= 10
	}
	if neg {
		b = append([]byte{'-'}, b...)
	}
	return string(b)
}

// ---------------------------------------------------------------------------
// predicates on points

// callsAt returns calls evaluated when control passes node n. For defer/go statements only the argument
// evaluation happens here, not the call itself.
func callsAt(n ast.Node) []*ast.CallExpr {
	switch s := n.(type) {
	case *ast.DeferStmt:
		var out []*ast.CallExpr
		for _, a := range s.Call.Args {
			out = append(out, callsIn(a)...)
		}
		if sel, ok := s.Call.Fun.(*ast.SelectorExpr); ok {
			out = append(out, callsIn(sel.X)...)
		}
		return out
	case *ast.GoStmt:
		var out []*ast.CallExpr
		for _, a := range s.Call.Args {
			out = append(out, callsIn(a)...)
		}
		return out
	case nil:
		return nil
	}
	return callsIn(n)
}

// deferredCalls returns the calls that a defer statement schedules: the call itself, or – for
// `defer func(){…}()` – all calls in the closure body (may-execute set).
func deferredCalls(n ast.Node) []*ast.CallExpr {
	d, ok := n.(*ast.DeferStmt)
	if !ok {
		return nil
	}
	if fl, ok := d.Call.Fun.(*ast.FuncLit); ok {
		return callsIn(fl.Body)
	}
	return []*ast.CallExpr{d.Call}
}

// CallPred is a predicate over resolved calls.
type CallPred func(info *types.Info, call *ast.CallExpr) bool

func calling(names ...string) CallPred {
	return func(info *types.Info, call *ast.CallExpr) bool { return isCall(info, call, names...) }
}

// PtCalls: the point executes a call satisfying pred (not counting deferred registration).
func (f *Flow) PtCalls(pred CallPred) func(Pt) bool {
	return func(pt Pt) bool {
		for _, c := range callsAt(pt.Node()) {
			if pred(f.Info, c) {
				return true
			}
		}
		return false
	}
}

// PtCallsOrDefers: the point executes such a call or registers it with defer (it then runs at every later exit).
func (f *Flow) PtCallsOrDefers(pred CallPred) func(Pt) bool {
	return func(pt Pt) bool {
		n := pt.Node()
		for _, c := range callsAt(n) {
			if pred(f.Info, c) {
				return true
			}
		}
		if d, ok := n.(*ast.DeferStmt); ok {
			if _, isLit := d.Call.Fun.(*ast.FuncLit); !isLit && pred(f.Info, d.Call) {
				return true
			}
		}
		return false
	}
}

func (f *Flow) IsExitPt(pt Pt) bool { k, _ := f.Exit(pt); return k != NotExit }

func orPt(ps ...func(Pt) bool) func(Pt) bool {
	return func(pt Pt) bool {
		for _, p := range ps {
			if p != nil && p(pt) {
				return true
			}
		}
		return false
	}
}

// ---------------------------------------------------------------------------
// nil-ness refinement of one variable along paths

// nilTest recognises `v != nil`, `v == nil` (either operand order) over object obj.
// Returns the successor index on which v is nil.
func nilTest(info *types.Info, cond ast.Expr, obj types.Object) (nilSucc int, ok bool) {
	be, isBin := ast.Unparen(cond).(*ast.BinaryExpr)
	if !isBin || (be.Op != token.NEQ && be.Op != token.EQL) {
		return 0, false
	}
	var other ast.Expr
	if objOf(info, be.X) == obj && obj != nil {
		other = be.Y
	} else if objOf(info, be.Y) == obj && obj != nil {
		other = be.X
	} else {
		return 0, false
	}
	if !isNilIdent(info, other) {
		return 0, false
	}
	if be.Op == token.NEQ {
		return 1, true
	}
	return 0, true
}

// assignsObj reports whether node n (re)assigns obj (plain assignment, define, or inc/dec).
func assignsObj(info *types.Info, n ast.Node, obj types.Object) bool {
	found := false
	inspectNoLit(n, func(x ast.Node) bool {
		switch s := x.(type) {
		case *ast.AssignStmt:
			for _, l := range s.Lhs {
				if objOf(info, l) == obj {
					found = true
				}
			}
		case *ast.RangeStmt:
			if (s.Key != nil && objOf(info, s.Key) == obj) || (s.Value != nil && objOf(info, s.Value) == obj) {
				found = true
			}
		}
		return true
	})
	return found
}

// ReachRefined explores paths starting after `from` on which variable obj – as assigned at `from` – has the given
// nil-ness (wantNil). While the value is fresh (not reassigned), branch edges contradicting it are pruned.
// boolObj mode: if isBool, obj is a bool variable and wantNil means "false".
func (f *Flow) ReachRefined(from Pt, obj types.Object, wantNil bool, isBool bool, target, avoid func(Pt) bool) ([]Pt, bool) {
	return f.ReachRefined2(from, obj, wantNil, isBool, target, avoid, nil)
}

// ReachRefined2 is ReachRefined with additional edges to avoid.
//
// The refinement follows copies: after `w = v` (also inside a parallel assignment) with v refined and unassigned
// since, w carries the same fact; a variable drops out when it is assigned anything else. This is what lets a fact
// about an error survive `_r = err; …; err2 := _r` – the shape an extracted helper takes after inlining.
func (f *Flow) ReachRefined2(from Pt, obj types.Object, wantNil bool, isBool bool, target, avoid func(Pt) bool, avoidEdge func(b *cfgBlock, i int) bool) ([]Pt, bool) {
	f.P.countPaths()
	// sets of refined objects, interned
	type oset = map[types.Object]bool
	sets := map[string]oset{}
	enc := func(m oset) string {
		if len(m) == 0 {
			return ""
		}
		ks := make([]string, 0, len(m))
		for o := range m {
			ks = append(ks, itoa(int(o.Pos()))+o.Name())
		}
		sort.Strings(ks)
		k := strings.Join(ks, ",")
		if _, ok := sets[k]; !ok {
			c := oset{}
			for o := range m {
				c[o] = true
			}
			sets[k] = c
		}
		return k
	}
	type key struct {
		b     *cfg.Block
		i     int
		fresh string
		flags string // local flags assigned a constant on the path: "pos:name=T;…"
	}
	seen := map[key]bool{}
	prev := map[key]key{}
	type item struct {
		pt    Pt
		fresh string
		flags string
	}
	var queue []item
	push := func(from key, hasFrom bool, to Pt, fresh string, flags string) {
		k := key{to.B, to.I, fresh, flags}
		if seen[k] {
			return
		}
		seen[k] = true
		if hasFrom {
			prev[k] = from
		}
		queue = append(queue, item{to, fresh, flags})
	}
	flagKey := func(v *types.Var) string { return itoa(int(v.Pos())) + ":" + v.Name() }
	flagVal := func(flags string, v *types.Var) (bool, bool) {
		k := flagKey(v)
		for _, e := range strings.Split(flags, ";") {
			if strings.HasPrefix(e, k+"=") {
				return e[len(k)+1:] == "T", true
			}
		}
		return false, false
	}
	flagSet := func(flags string, v *types.Var, val, known bool) string {
		k := flagKey(v)
		var out []string
		for _, e := range strings.Split(flags, ";") {
			if e != "" && !strings.HasPrefix(e, k+"=") {
				out = append(out, e)
			}
		}
		if known {
			if val {
				out = append(out, k+"=T")
			} else {
				out = append(out, k+"=F")
			}
		}
		sort.Strings(out)
		return strings.Join(out, ";")
	}
	expand := func(it item, self key, has bool) {
		pt := it.pt
		if pt.I < len(pt.B.Nodes) {
			push(self, has, Pt{pt.B, pt.I + 1}, it.fresh, it.flags)
			return
		}
		skip := map[int]bool{}
		if it.flags != "" {
			if cond, isCase := f.Cond(pt.B); cond != nil && !isCase {
				for si := 0; si < 2; si++ {
					for _, fact := range atomsOnEdge(cond, si) {
						if id, isID := ast.Unparen(fact.E).(*ast.Ident); isID {
							if v, isVar := f.Info.Uses[id].(*types.Var); isVar {
								if val, known := flagVal(it.flags, v); known && val != fact.T {
									skip[si] = true
								}
							}
						}
						if be, isBE := ast.Unparen(fact.E).(*ast.BinaryExpr); isBE && (be.Op == token.EQL || be.Op == token.NEQ) {
							x, y := ast.Unparen(be.X), ast.Unparen(be.Y)
							if isNilIdent(f.Info, x) {
								x, y = y, x
							}
							if id, isID := x.(*ast.Ident); isID && isNilIdent(f.Info, y) {
								if v, isVar := f.Info.Uses[id].(*types.Var); isVar && isErrorType(v.Type()) {
									if nonNil, known := flagVal(it.flags, v); known {
										atomSaysNil := (be.Op == token.EQL) == fact.T
										if atomSaysNil == nonNil {
											skip[si] = true
										}
									}
								}
							}
						}
					}
				}
			}
		}
		if it.fresh != "" {
			if cond, isCase := f.Cond(pt.B); cond != nil && !isCase {
				for si := 0; si < 2; si++ {
					for _, fact := range atomsOnEdge(cond, si) {
						for o := range sets[it.fresh] {
							if isBool {
								if objOf(f.Info, fact.E) == o && fact.T == wantNil {
									// wantNil means "false" for bool variables: edge asserts the opposite
									skip[si] = true
								}
							} else if ns, ok := nilTest(f.Info, fact.E, o); ok {
								// the atom `fact.E` has truth fact.T on this edge; atom true ⇔ successor 0 of the atom
								atomSaysNil := (ns == 0) == fact.T
								if atomSaysNil != wantNil {
									skip[si] = true
								}
							}
						}
					}
				}
			}
		}
		for i, s := range pt.B.Succs {
			if skip[i] || (avoidEdge != nil && avoidEdge(pt.B, i)) {
				continue
			}
			push(self, has, Pt{s, 0}, it.fresh, it.flags)
		}
	}
	// transfer of the refined set over a node
	transfer := func(cur string, n ast.Node) string {
		if cur == "" || n == nil {
			return cur
		}
		set := sets[cur]
		var add, del []types.Object
		touched := false
		if as, ok := n.(*ast.AssignStmt); ok && (as.Tok == token.ASSIGN || as.Tok == token.DEFINE) && len(as.Lhs) == len(as.Rhs) {
			for i, l := range as.Lhs {
				lid, isID := ast.Unparen(l).(*ast.Ident)
				if !isID {
					continue
				}
				lo := objOf(f.Info, lid)
				if lo == nil {
					continue
				}
				ro := types.Object(nil)
				if rid, isRID := ast.Unparen(as.Rhs[i]).(*ast.Ident); isRID {
					ro = f.Info.Uses[rid]
				}
				switch {
				case ro != nil && set[ro]:
					if !set[lo] {
						if v, isVar := lo.(*types.Var); isVar && !v.IsField() {
							add = append(add, lo)
						}
					}
				case set[lo]:
					if !assignsSame(f.Info, n, lo, wantNil, isBool) {
						del = append(del, lo)
					}
				case !isBool && ((wantNil && isNilIdent(f.Info, as.Rhs[i])) || (!wantNil && nonNilErrExpr(f.Info, as.Rhs[i]))):
					// another variable receives a value of the very nil-ness the refinement is about
					if v, isVar := lo.(*types.Var); isVar && !v.IsField() && isErrorType(v.Type()) {
						add = append(add, lo)
					}
				}
				touched = true
			}
		}
		if !touched || true {
			// any other (re)definition of a refined variable: tuple assignment, range, inc/dec, declaration
			for o := range set {
				already := false
				for _, d := range del {
					already = already || d == o
				}
				if already {
					continue
				}
				if as, ok := n.(*ast.AssignStmt); ok && (as.Tok == token.ASSIGN || as.Tok == token.DEFINE) && len(as.Lhs) == len(as.Rhs) {
					continue // handled pairwise above
				}
				if assignsObj(f.Info, n, o) && !assignsSame(f.Info, n, o, wantNil, isBool) {
					del = append(del, o)
				}
			}
		}
		if len(add) == 0 && len(del) == 0 {
			return cur
		}
		ns := oset{}
		for o := range set {
			ns[o] = true
		}
		for _, o := range del {
			delete(ns, o)
		}
		for _, o := range add {
			ns[o] = true
		}
		return enc(ns)
	}
	// constant assignments to local flags
	flagTransfer := func(flags string, n ast.Node) string {
		as, ok := n.(*ast.AssignStmt)
		if !ok {
			return flags
		}
		for i, l := range as.Lhs {
			id, isID := ast.Unparen(l).(*ast.Ident)
			if !isID {
				continue
			}
			v, isVar := objOf(f.Info, id).(*types.Var)
			if !isVar || v.IsField() {
				continue
			}
			if isErrorType(v.Type()) {
				// an error variable assigned nil / an error literal: "T" stands for non-nil
				if len(as.Lhs) == len(as.Rhs) && isNilIdent(f.Info, as.Rhs[i]) {
					flags = flagSet(flags, v, false, true)
				} else if len(as.Lhs) == len(as.Rhs) && nonNilErrExpr(f.Info, as.Rhs[i]) {
					flags = flagSet(flags, v, true, true)
				} else {
					flags = flagSet(flags, v, false, false)
				}
				continue
			}
			if !isBoolType(v.Type()) {
				continue
			}
			if len(as.Lhs) == len(as.Rhs) {
				if tv, has := f.Info.Types[as.Rhs[i]]; has && tv.Value != nil && tv.Value.Kind() == constant.Bool {
					flags = flagSet(flags, v, constant.BoolVal(tv.Value), true)
					continue
				}
			}
			flags = flagSet(flags, v, false, false)
		}
		return flags
	}
	start := enc(oset{obj: true})
	expand(item{from, start, ""}, key{}, false)
	for len(queue) > 0 {
		it := queue[0]
		queue = queue[1:]
		self := key{it.pt.B, it.pt.I, it.fresh, it.flags}
		if avoid != nil && avoid(it.pt) {
			continue
		}
		if it.fresh != "" && !isBool {
			f.curRefSet, f.curRefNil = sets[it.fresh], wantNil
		}
		hit := target != nil && target(it.pt)
		f.curRefSet = nil
		if hit {
			var path []Pt
			k := self
			for {
				path = append([]Pt{{k.b, k.i}}, path...)
				pk, ok := prev[k]
				if !ok {
					break
				}
				k = pk
			}
			return path, true
		}
		it.fresh = transfer(it.fresh, it.pt.Node())
		it.flags = flagTransfer(it.flags, it.pt.Node())
		expand(it, self, true)
	}
	return nil, false
}

// errVarAssigned returns the object of the (last) error-typed LHS of the assignment that contains call.
func errVarAssigned(info *types.Info, n ast.Node, call *ast.CallExpr) types.Object {
	var res types.Object
	inspectNoLit(n, func(x ast.Node) bool {
		as, ok := x.(*ast.AssignStmt)
		if !ok {
			return true
		}
		contains := false
		for _, r := range as.Rhs {
			if ast.Unparen(r) == call {
				contains = true
			}
		}
		if !contains {
			return true
		}
		for _, l := range as.Lhs {
			o := objOf(info, l)
			if o != nil && isErrorType(o.Type()) {
				res = o
			}
		}
		return true
	})
	return res
}

func isErrorType(t types.Type) bool {
	if t == nil {
		return false
	}
	nt, ok := t.(*types.Named)
	return ok && nt.Obj().Pkg() == nil && objName(nt.Obj()) == "error"
}

// ---------------------------------------------------------------------------
// interprocedural must-call summaries

type mustKey struct {
	fn  *types.Func
	key string
}

var mustCache = map[mustKey]int{} // 0 unknown, 1 in progress, 2 true, 3 false

// MustCall: on every path from entry to a normal exit of fi, a call satisfying pred is executed (or deferred
// before the exit), directly or through a statically resolved maddy callee that itself MustCall (depth-limited).
func (p *Prog) MustCall(fi *FuncInfo, predKey string, pred CallPred, depth int) bool {
	if fi == nil {
		return false
	}
	k := mustKey{fi.Obj, predKey}
	switch mustCache[k] {
	case 1:
		return false // recursion: assume not
	case 2:
		return true
	case 3:
		return false
	}
	mustCache[k] = 1
	f := p.FlowOfFunc(fi)
	hit := p.mustPred(f, predKey, pred, depth)
	_, found := f.Reach(Query{From: []Pt{f.Entry()}, Inclusive: true, Target: f.IsNormalExit, Avoid: hit})
	if found {
		mustCache[k] = 3
	} else {
		mustCache[k] = 2
	}
	return !found
}

// mustPred lifts a call predicate to points: the point calls pred directly, defers it, or calls a maddy
// function that must call it.
func (p *Prog) mustPred(f *Flow, predKey string, pred CallPred, depth int) func(Pt) bool {
	return func(pt Pt) bool {
		n := pt.Node()
		if n == nil {
			return false
		}
		check := func(c *ast.CallExpr) bool {
			if pred(f.Info, c) {
				return true
			}
			if depth > 0 {
				if fi := p.DeclOf(callee(f.Info, c)); fi != nil {
					if p.MustCall(fi, predKey, pred, depth-1) {
						return true
					}
				}
			}
			return false
		}
		for _, c := range callsAt(n) {
			if check(c) {
				return true
			}
		}
		if d, ok := n.(*ast.DeferStmt); ok {
			if fl, isLit := d.Call.Fun.(*ast.FuncLit); isLit {
				// deferred closure: its body must call on all of its own paths
				lf := p.FlowOf(f.Info, fl.Body, f.Name+"$defer")
				_, found := lf.Reach(Query{From: []Pt{lf.Entry()}, Inclusive: true, Target: lf.IsNormalExit, Avoid: p.mustPred(lf, predKey, pred, depth)})
				return !found
			}
			return check(d.Call)
		}
		return false
	}
}

// MayCall: some path of fi (or of its static maddy callees, depth-limited) executes a call satisfying pred.
func (p *Prog) MayCall(fi *FuncInfo, pred CallPred, depth int, seen map[*types.Func]bool) bool {
	if fi == nil {
		return false
	}
	if seen == nil {
		seen = map[*types.Func]bool{}
	}
	if seen[fi.Obj] {
		return false
	}
	seen[fi.Obj] = true
	found := false
	ast.Inspect(fi.Decl.Body, func(n ast.Node) bool {
		if found {
			return false
		}
		c, ok := n.(*ast.CallExpr)
		if !ok {
			return true
		}
		if pred(fi.Info(), c) {
			found = true
			return false
		}
		if depth > 0 {
			if cf := p.DeclOf(callee(fi.Info(), c)); cf != nil && p.MayCall(cf, pred, depth-1, seen) {
				found = true
				return false
			}
		}
		return true
	})
	return found
}

type cfgBlock = cfg.Block

// atomFact: on some edge, the atomic condition E is known to have truth value T.
// canonAtom: `x != y` is the same fact as `x == y` with the opposite truth (so that `if err == nil {…}; if err != nil`
// correlates).
func canonAtom(af atomFact) (string, bool) {
	ids := objIDs(af.E)
	if be, ok := ast.Unparen(af.E).(*ast.BinaryExpr); ok && be.Op == token.NEQ {
		return exprStr(be.X) + " == " + exprStr(be.Y) + ids, !af.T
	}
	return exprStr(af.E) + ids, af.T
}

// objIDs distinguishes equally spelled conditions over different variables (`err` shadowed in an if-init): the
// declaration positions of the identifiers' objects are part of the fact's key.
func objIDs(e ast.Expr) string {
	if theProg == nil {
		return ""
	}
	s := ""
	ast.Inspect(e, func(n ast.Node) bool {
		if id, ok := n.(*ast.Ident); ok {
			for _, pk := range []*types.Info{curInfo} {
				if pk == nil {
					continue
				}
				if o := pk.Uses[id]; o != nil {
					if _, isVar := o.(*types.Var); isVar {
						s += "@" + itoa(int(o.Pos()))
					}
				}
			}
		}
		return true
	})
	return s
}

// curInfo: type information of the function whose flow is being queried (set by Reach / corrAtoms / seedFacts).
var curInfo *types.Info

type atomFact struct {
	E ast.Expr
	T bool
}

// atomsOnEdge returns what is known about the atomic sub-conditions of cond on successor succ (0 = cond true).
// go/cfg (v0.29) keeps && / || / ! inside one condition node, so the decomposition is done here.
func atomsOnEdge(cond ast.Expr, succ int) []atomFact {
	var out []atomFact
	var walk func(e ast.Expr, truth bool)
	walk = func(e ast.Expr, truth bool) {
		e = ast.Unparen(e)
		switch x := e.(type) {
		case *ast.UnaryExpr:
			if x.Op == token.NOT {
				walk(x.X, !truth)
				return
			}
		case *ast.BinaryExpr:
			if x.Op == token.LAND {
				if truth {
					walk(x.X, true)
					walk(x.Y, true)
				}
				return
			}
			if x.Op == token.LOR {
				if !truth {
					walk(x.X, false)
					walk(x.Y, false)
				}
				return
			}
		}
		out = append(out, atomFact{e, truth})
	}
	walk(cond, succ == 0)
	return out
}

// edgeImplies: on successor succ of cond, some atom matching pred is known to have the truth value pred asks for.
func edgeImplies(cond ast.Expr, succ int, pred func(atom ast.Expr) (want bool, match bool)) bool {
	for _, f := range atomsOnEdge(cond, succ) {
		if want, ok := pred(f.E); ok && want == f.T {
			return true
		}
	}
	return false
}

// AvoidImplying builds an AvoidEdge function that removes every edge on which an atom matching pred has the
// given truth (so: "is the target still reachable without ever learning that fact?").
func (f *Flow) AvoidImplying(pred func(atom ast.Expr) (want bool, match bool)) func(b *cfgBlock, i int) bool {
	return func(b *cfgBlock, i int) bool {
		cond, isCase := f.Cond(b)
		if cond == nil || isCase {
			return false
		}
		return edgeImplies(cond, i, pred)
	}
}

const (
	kindRangeLoop = cfg.KindRangeLoop
	kindIfThen    = cfg.KindIfThen
	kindIfElse    = cfg.KindIfElse
	kindForLoop   = cfg.KindForLoop
	kindForBody   = cfg.KindForBody
	kindForDone   = cfg.KindForDone
)

const (
	kindRangeBody      = cfg.KindRangeBody
	kindRangeDone      = cfg.KindRangeDone
	kindSelectCaseBody = cfg.KindSelectCaseBody
)

// World builds an AvoidEdge function from a partial valuation of atomic conditions: every condition is evaluated in
// three-valued logic and an edge that contradicts a known outcome is removed ("in the world where …").
func (f *Flow) World(val func(atom ast.Expr) (truth bool, known bool)) func(b *cfgBlock, i int) bool {
	var eval func(e ast.Expr) (bool, bool)
	eval = func(e ast.Expr) (bool, bool) {
		e = ast.Unparen(e)
		switch x := e.(type) {
		case *ast.UnaryExpr:
			if x.Op == token.NOT {
				v, k := eval(x.X)
				return !v, k
			}
		case *ast.BinaryExpr:
			if x.Op == token.LAND || x.Op == token.LOR {
				a, ka := eval(x.X)
				b, kb := eval(x.Y)
				if x.Op == token.LAND {
					if (ka && !a) || (kb && !b) {
						return false, true
					}
					if ka && kb {
						return true, true
					}
					return false, false
				}
				if (ka && a) || (kb && b) {
					return true, true
				}
				if ka && kb {
					return false, true
				}
				return false, false
			}
		}
		v, k := val(e)
		if k {
			return v, k
		}
		// named-boolean idiom: `x := <cond>` defined once, operands untouched between definition and use
		if id, ok := e.(*ast.Ident); ok && f.Body != nil {
			if o, ok := f.Info.Uses[id].(*types.Var); ok && !o.IsField() && localIn(f.Body, o) {
				if def, n := localDef(f.Info, f.Body, o); n == 1 && def != nil && def.Pos() < id.Pos() {
					if tv, ok := f.Info.Types[def]; ok && tv.Value == nil && isBoolType(tv.Type) {
						stable := true
						ast.Inspect(def, func(x ast.Node) bool {
							if di, ok := x.(*ast.Ident); ok {
								if dv, ok := f.Info.Uses[di].(*types.Var); ok && !dv.IsField() && assignedBetween(f.Info, f.Body, dv, def.End(), id.Pos()) {
									stable = false
								}
							}
							return true
						})
						if stable {
							return eval(def)
						}
					}
				}
			}
		}
		return false, false
	}
	return func(b *cfgBlock, i int) bool {
		cond, isCase := f.Cond(b)
		if cond == nil || isCase {
			return false
		}
		v, known := eval(cond)
		return known && v != (i == 0)
	}
}

// assignsSame: node n assigns obj exactly the value the refinement already assumes (constant true/false for bool
// flags, nil for pointers/errors) – the assumption stays valid.
func assignsSame(info *types.Info, n ast.Node, obj types.Object, wantNil, isBool bool) bool {
	same := false
	inspectNoLit(n, func(x ast.Node) bool {
		as, ok := x.(*ast.AssignStmt)
		if !ok || len(as.Lhs) != len(as.Rhs) {
			return true
		}
		for i, l := range as.Lhs {
			if objOf(info, l) != obj {
				continue
			}
			if isBool {
				if tv, ok := info.Types[as.Rhs[i]]; ok && tv.Value != nil {
					if (tv.Value.String() == "false") == wantNil && (tv.Value.String() == "true" || tv.Value.String() == "false") {
						same = true
					}
				}
			} else if wantNil && isNilIdent(info, as.Rhs[i]) {
				same = true
			} else if !wantNil && nonNilErrExpr(info, as.Rhs[i]) {
				same = true
			}
		}
		return true
	})
	return same
}

func isBoolType(t types.Type) bool {
	b, ok := t.Underlying().(*types.Basic)
	return ok && b.Info()&types.IsBoolean != 0
}

// assignedBetween: obj is (re)assigned by a statement located textually in (from, to).
func assignedBetween(info *types.Info, body ast.Node, obj types.Object, from, to token.Pos) bool {
	found := false
	ast.Inspect(body, func(n ast.Node) bool {
		if n == nil || found {
			return false
		}
		switch s := n.(type) {
		case *ast.AssignStmt:
			if s.Pos() > from && s.Pos() < to {
				for _, l := range s.Lhs {
					if objOf(info, l) == obj {
						found = true
					}
				}
			}
		case *ast.IncDecStmt:
			if s.Pos() > from && s.Pos() < to && objOf(info, s.X) == obj {
				found = true
			}
		case *ast.RangeStmt:
			if s.Pos() > from && s.Pos() < to && ((s.Key != nil && objOf(info, s.Key) == obj) || (s.Value != nil && objOf(info, s.Value) == obj)) {
				found = true
			}
		}
		return true
	})
	return found
}

// ValueWorld: the branch edges that are impossible when the expressions recognised by lookup have the given
// constant values. Conditions are evaluated in three-valued logic over their atoms (constant folding through
// evalExpr); `switch tag { case e: }` edges compare the values of tag and e.
func (f *Flow) ValueWorld(lookup func(ast.Expr) (constant.Value, bool)) func(b *cfgBlock, i int) bool {
	w := f.World(func(atom ast.Expr) (bool, bool) {
		if v, ok := evalExpr(f.Info, atom, lookup); ok && v.Kind() == constant.Bool {
			return constant.BoolVal(v), true
		}
		return false, false
	})
	return func(b *cfgBlock, i int) bool {
		if cond, isCase := f.Cond(b); cond != nil && isCase {
			tag := f.CaseTag(b)
			if tag == nil {
				return false
			}
			tv, ok1 := evalExpr(f.Info, tag, lookup)
			cv, ok2 := evalExpr(f.Info, cond, lookup)
			if ok1 && ok2 && tv.Kind() == cv.Kind() {
				eq := constant.Compare(tv, token.EQL, cv)
				return eq != (i == 0)
			}
			return false
		}
		return w(b, i)
	}
}

// seedFacts: correlated atoms known at pt because every way into pt's block comes over the same branch edges: the
// chain of unique predecessors is followed upwards; facts killed by a statement between the branch and pt are dropped.
func (f *Flow) seedFacts(pt Pt, corr map[string][]types.Object) map[string]bool {
	if f.preds == nil {
		f.preds = map[*cfg.Block][]*cfg.Block{}
		for _, b := range f.G.Blocks {
			for _, s := range b.Succs {
				f.preds[s] = append(f.preds[s], b)
			}
		}
	}
	facts := map[string]bool{}
	// statements executed between a branch and pt, innermost first: collect in reverse then apply kills
	type seg struct {
		b      *cfg.Block
		upto   int
		viaIdx int
		pred   *cfg.Block
	}
	var chain []seg
	b, upto := pt.B, pt.I
	for n := 0; n < 32; n++ {
		ps := f.preds[b]
		if len(ps) != 1 {
			chain = append(chain, seg{b: b, upto: upto, viaIdx: -1})
			break
		}
		p := ps[0]
		idx := -1
		for i, s := range p.Succs {
			if s == b {
				if idx >= 0 {
					idx = -2 // both edges lead here
					break
				}
				idx = i
			}
		}
		chain = append(chain, seg{b: b, upto: upto, viaIdx: idx, pred: p})
		b, upto = p, len(p.Nodes)
		if p == pt.B {
			break // loop
		}
	}
	// walk from the outermost branch towards pt
	for i := len(chain) - 1; i >= 0; i-- {
		sg := chain[i]
		if sg.pred != nil && sg.viaIdx >= 0 {
			if cond, isCase := f.Cond(sg.pred); cond != nil && !isCase {
				for _, af := range f.edgeAtoms(sg.pred, cond, sg.viaIdx) {
					t, truth := canonAtom(af)
					if _, tracked := corr[t]; tracked {
						facts[t] = truth
					}
				}
			}
		}
		for j := 0; j < sg.upto && j < len(sg.b.Nodes); j++ {
			if sg.pred != nil && j == len(sg.b.Nodes)-1 && len(sg.b.Succs) == 2 {
				// the block's own condition node has no effect
			}
			for k := range f.killedBy(sg.b.Nodes[j], corr) {
				delete(facts, k)
			}
		}
	}
	if len(facts) == 0 {
		return nil
	}
	return facts
}

// RangeVarOf: go/cfg (v0.29) emits the key and value identifiers of a range statement as bare identifier nodes in
// the block in front of the loop head. For such a node the range statement is returned (nil otherwise).
func (f *Flow) RangeVarOf(n ast.Node) *ast.RangeStmt {
	id, ok := n.(*ast.Ident)
	if !ok || f.Body == nil {
		return nil
	}
	if f.rangeVars == nil {
		f.rangeVars = map[token.Pos]*ast.RangeStmt{}
		ast.Inspect(f.Body, func(x ast.Node) bool {
			if rs, ok := x.(*ast.RangeStmt); ok {
				if rs.Key != nil {
					f.rangeVars[rs.Key.Pos()] = rs
				}
				if rs.Value != nil {
					f.rangeVars[rs.Value.Pos()] = rs
				}
			}
			return true
		})
	}
	return f.rangeVars[id.Pos()]
}

// evalBoolUnder evaluates a boolean expression built from !, && and || in three-valued logic under a valuation of
// its atoms.
func evalBoolUnder(e ast.Expr, val func(atom ast.Expr) (bool, bool)) (bool, bool) {
	e = ast.Unparen(e)
	switch x := e.(type) {
	case *ast.UnaryExpr:
		if x.Op == token.NOT {
			v, k := evalBoolUnder(x.X, val)
			return !v, k
		}
	case *ast.BinaryExpr:
		if x.Op == token.LAND || x.Op == token.LOR {
			a, ka := evalBoolUnder(x.X, val)
			b, kb := evalBoolUnder(x.Y, val)
			if x.Op == token.LAND {
				if (ka && !a) || (kb && !b) {
					return false, true
				}
				return true, ka && kb
			}
			if (ka && a) || (kb && b) {
				return true, true
			}
			return false, ka && kb
		}
	}
	return val(e)
}

// KnownNonNil: during the evaluation of a query's Target, is local variable v known to be non-nil on the path that
// reached the point (a branch edge `v != nil` was taken and v not assigned since, or v is the refined variable of a
// ReachRefined query for the non-nil case)? Outside a query it answers false.
func (f *Flow) KnownNonNil(v types.Object) bool {
	if f.curRefSet != nil && f.curRefSet[v] && !f.curRefNil {
		return true
	}
	if f.curFacts != nil {
		if isNil, has := f.curFacts[v.Name()+" == nil@"+itoa(int(v.Pos()))]; has && !isNil {
			return true
		}
	}
	return false
}

// KnownAtom: during the evaluation of a query's Target, the truth of the atomic condition e as established by the
// branch edges taken on the path that reached the point (known == false when the path did not decide it).
func (f *Flow) KnownAtom(e ast.Expr) (val bool, known bool) {
	if f.curFacts == nil {
		return false, false
	}
	k, t := canonAtom(atomFact{E: e, T: true})
	v, has := f.curFacts[k]
	if !has {
		return false, false
	}
	return v == t, true
}

// rawBetween: in the control-flow graph (conditions ignored) the node at mid lies on a path from the node at from to
// the node at to that does not pass `from` again (a call in the other arm of an if/else does not lie between a
// definition and its use). Unlocated positions count as "between".
func (f *Flow) rawBetween(from, mid, to token.Pos) bool {
	pf, ok1 := f.PtOf(from)
	pm, ok2 := f.PtOf(mid)
	pt, ok3 := f.PtOf(to)
	if !ok1 || !ok2 || !ok3 {
		return true
	}
	reach := func(a, b Pt, stop Pt) bool {
		type k struct {
			b *cfg.Block
			i int
		}
		seen := map[k]bool{}
		queue := []Pt{a}
		first := true
		for len(queue) > 0 {
			p := queue[0]
			queue = queue[1:]
			if !first {
				if p == b {
					return true
				}
				if p == stop {
					continue
				}
			}
			first = false
			if p.I < len(p.B.Nodes) {
				n := Pt{p.B, p.I + 1}
				if !seen[k{n.B, n.I}] {
					seen[k{n.B, n.I}] = true
					queue = append(queue, n)
				}
				continue
			}
			for _, s := range p.B.Succs {
				n := Pt{s, 0}
				if !seen[k{n.B, n.I}] {
					seen[k{n.B, n.I}] = true
					queue = append(queue, n)
				}
			}
		}
		return false
	}
	return reach(pf, pm, pf) && reach(pm, pt, pf)
}

func isCall_(info *types.Info, call *ast.CallExpr, names ...string) bool {
	return isCall(info, call, names...)
}


// constAssignedBool: some assignment in the function gives the flag a constant.
func (f *Flow) constAssignedBool(v *types.Var) bool {
	if f.boolConst == nil {
		f.boolConst = map[*types.Var]bool{}
		ast.Inspect(f.Body, func(n ast.Node) bool {
			as, ok := n.(*ast.AssignStmt)
			if !ok || len(as.Lhs) != len(as.Rhs) {
				return true
			}
			for i, l := range as.Lhs {
				if bv, isVar := objOf(f.Info, l).(*types.Var); isVar && !bv.IsField() && isBoolType(bv.Type()) {
					if tv, has := f.Info.Types[as.Rhs[i]]; has && tv.Value != nil && tv.Value.Kind() == constant.Bool {
						f.boolConst[bv] = true
					}
				}
			}
			return true
		})
	}
	return f.boolConst[v]
}

// nonNilErrExpr: the expression is an error value that is not nil whatever the input: the address of a composite
// literal, a struct literal, errors.New / fmt.Errorf, or a package-level sentinel (`ErrInvalidAuthCred`, `io.EOF`).
func nonNilErrExpr(info *types.Info, e ast.Expr) bool {
	switch x := ast.Unparen(e).(type) {
	case *ast.UnaryExpr:
		if x.Op == token.AND {
			_, isCL := ast.Unparen(x.X).(*ast.CompositeLit)
			return isCL
		}
	case *ast.CompositeLit:
		return true
	case *ast.CallExpr:
		if isCall_(info, x, "fmt.Errorf", "errors.New") {
			return true
		}
		// an error constructor of the module itself (cfgparser.NodeErr, parseContext.Err, config.NodeErr): every
		// return of it is a constructed error
		return alwaysNonNilErrFunc(callee(info, x), 0)
	case *ast.Ident, *ast.SelectorExpr:
		var id *ast.Ident
		if s, isSel := x.(*ast.SelectorExpr); isSel {
			id = s.Sel
		} else {
			id = x.(*ast.Ident)
		}
		if v, isVar := info.Uses[id].(*types.Var); isVar && !v.IsField() && v.Pkg() != nil && v.Parent() == v.Pkg().Scope() {
			return isErrorType(v.Type()) || types.Implements(v.Type(), errorIface())
		}
	}
	return false
}

func errorIface() *types.Interface {
	return types.Universe.Lookup("error").Type().Underlying().(*types.Interface)
}

// RangeOfX: go/cfg emits the range expression of a range statement as a node of the block in front of the loop
// head. For such a node the range statement is returned (nil otherwise).
func (f *Flow) RangeOfX(n ast.Node) *ast.RangeStmt {
	e, ok := n.(ast.Expr)
	if !ok || f.Body == nil {
		return nil
	}
	var found *ast.RangeStmt
	ast.Inspect(f.Body, func(x ast.Node) bool {
		if rs, ok := x.(*ast.RangeStmt); ok && rs.X == e {
			found = rs
		}
		return found == nil
	})
	return found
}


// localAlwaysConstructed: e is a local variable every definition of which is a constructed value (`wrapped :=
// temporaryErr{…}; return wrapped`).
func localAlwaysConstructed(info *types.Info, body ast.Node, e ast.Expr) bool {
	id, ok := ast.Unparen(e).(*ast.Ident)
	if !ok {
		return false
	}
	v, isVar := info.Uses[id].(*types.Var)
	if !isVar || v.IsField() || v.Pkg() == nil || v.Parent() == v.Pkg().Scope() {
		return false
	}
	if _, isIface := v.Type().Underlying().(*types.Interface); isIface {
		// an interface variable may have been declared without a value
		declaredZero := false
		ast.Inspect(body, func(x ast.Node) bool {
			if vs, ok := x.(*ast.ValueSpec); ok && len(vs.Values) == 0 {
				for _, nm := range vs.Names {
					if info.Defs[nm] == types.Object(v) {
						declaredZero = true
					}
				}
			}
			return true
		})
		if declaredZero {
			return false
		}
	}
	n, all := 0, true
	ast.Inspect(body, func(x ast.Node) bool {
		switch s := x.(type) {
		case *ast.AssignStmt:
			for i, l := range s.Lhs {
				if objOf(info, l) != types.Object(v) {
					continue
				}
				n++
				if len(s.Lhs) != len(s.Rhs) || !nonNilErrExpr(info, s.Rhs[i]) {
					all = false
				}
			}
		case *ast.ValueSpec:
			for i, nm := range s.Names {
				if info.Defs[nm] == types.Object(v) && i < len(s.Values) {
					n++
					if !nonNilErrExpr(info, s.Values[i]) {
						all = false
					}
				}
			}
		}
		return true
	})
	return all && n > 0
}

var nonNilFuncCache = map[*types.Func]bool{}

var nilPreservingCache = map[*types.Func]int{}

// nilPreservingErrFunc: fn is a wrapper of the analysed module (`moduleError`, `wrapClientErr`) with a single error result
// that returns nil only inside `if p == nil { return nil }` for an error parameter p and a constructed error on every other
// return: its result is non-nil whenever argument p is. The index of p is returned, -1 if fn is not of that shape.
func nilPreservingErrFunc(fn *types.Func) int {
	if fn == nil || theProg == nil {
		return -1
	}
	if v, ok := nilPreservingCache[fn]; ok {
		return v
	}
	nilPreservingCache[fn] = -1
	sig, _ := fn.Type().(*types.Signature)
	if sig == nil || sig.Results().Len() != 1 || !isErrorType(sig.Results().At(0).Type()) {
		return -1
	}
	d := theProg.DeclOf(fn)
	if d == nil || d.Decl.Body == nil {
		return -1
	}
	info := d.Info()
	guarded := map[*ast.ReturnStmt]int{}
	for _, st := range d.Decl.Body.List {
		ifs, ok := st.(*ast.IfStmt)
		if !ok || ifs.Init != nil || ifs.Else != nil || len(ifs.Body.List) != 1 {
			continue
		}
		ret, ok := ifs.Body.List[0].(*ast.ReturnStmt)
		if !ok || len(ret.Results) != 1 || !isNilIdent(info, ret.Results[0]) {
			continue
		}
		be, ok := ast.Unparen(ifs.Cond).(*ast.BinaryExpr)
		if !ok || be.Op != token.EQL {
			continue
		}
		var pe ast.Expr
		if isNilIdent(info, be.Y) {
			pe = be.X
		} else if isNilIdent(info, be.X) {
			pe = be.Y
		}
		if pe == nil {
			continue
		}
		o := objOf(info, pe)
		for i := 0; i < sig.Params().Len(); i++ {
			if types.Object(sig.Params().At(i)) == o && isErrorType(sig.Params().At(i).Type()) {
				guarded[ret] = i
			}
		}
	}
	if len(guarded) != 1 {
		return -1
	}
	idx := -1
	for _, i := range guarded {
		idx = i
	}
	// the parameter is not reassigned
	reassigned := false
	ast.Inspect(d.Decl.Body, func(x ast.Node) bool {
		if as, ok := x.(*ast.AssignStmt); ok {
			for _, l := range as.Lhs {
				if objOf(info, l) == types.Object(sig.Params().At(idx)) {
					reassigned = true
				}
			}
		}
		return true
	})
	if reassigned {
		return -1
	}
	all, n := true, 0
	inspectNoLit(d.Decl.Body, func(x ast.Node) bool {
		if ret, ok := x.(*ast.ReturnStmt); ok {
			if _, g := guarded[ret]; g {
				return true
			}
			n++
			if len(ret.Results) != 1 || !nonNilErrExpr(info, ret.Results[0]) {
				all = false
			}
		}
		return true
	})
	if all && n > 0 {
		nilPreservingCache[fn] = idx
		return idx
	}
	return -1
}

// alwaysNonNilErrFunc: fn is a function of the analysed module with a single error result whose every return statement
// returns a surely non-nil error expression (a constructor).
func alwaysNonNilErrFunc(fn *types.Func, depth int) bool {
	if fn == nil || theProg == nil || depth > 2 {
		return false
	}
	if v, ok := nonNilFuncCache[fn]; ok {
		return v
	}
	nonNilFuncCache[fn] = false
	sig, _ := fn.Type().(*types.Signature)
	if sig == nil || sig.Results().Len() != 1 || !isErrorType(sig.Results().At(0).Type()) {
		return false
	}
	d := theProg.DeclOf(fn)
	if d == nil || d.Decl.Body == nil {
		return false
	}
	all, n := true, 0
	inspectNoLit(d.Decl.Body, func(x ast.Node) bool {
		if ret, ok := x.(*ast.ReturnStmt); ok {
			n++
			if len(ret.Results) != 1 {
				all = false
				return true
			}
			e := ast.Unparen(ret.Results[0])
			if call, isCall := e.(*ast.CallExpr); isCall && !isCall_(d.Info(), call, "fmt.Errorf", "errors.New") {
				if !alwaysNonNilErrFunc(callee(d.Info(), call), depth+1) {
					all = false
				}
			} else if !nonNilErrExpr(d.Info(), e) && !localAlwaysConstructed(d.Info(), d.Decl.Body, e) {
				all = false
			}
		}
		return true
	})
	nonNilFuncCache[fn] = all && n > 0
	return all && n > 0
}
