package main

import (
	"reflect"
	"go/ast"
	"go/token"
	"go/types"
	"strings"
)

func init() { register("C02", checkC02) }

const queueRel = "internal/target/queue"

func isGOOSWindows(info *types.Info, cond ast.Expr) (winSucc int, ok bool) {
	be, isBin := ast.Unparen(cond).(*ast.BinaryExpr)
	if !isBin || (be.Op != token.EQL && be.Op != token.NEQ) {
		return 0, false
	}
	isGOOS := func(e ast.Expr) bool {
		s, ok := ast.Unparen(e).(*ast.SelectorExpr)
		if !ok || s.Sel.Name != "GOOS" {
			return false
		}
		o := info.Uses[s.Sel]
		return o != nil && o.Pkg() != nil && o.Pkg().Path() == "runtime"
	}
	isWin := func(e ast.Expr) bool { s, ok := constString(info, e); return ok && s == "windows" }
	if !((isGOOS(be.X) && isWin(be.Y)) || (isGOOS(be.Y) && isWin(be.X))) {
		return 0, false
	}
	if be.Op == token.EQL {
		return 0, true
	}
	return 1, true
}

func checkC02(c *Check) {
	c.explain = "C02 (spool survives a crash), ordering part: the order of durable effects is checked on every control-flow path of the queue's storage functions: " +
		"sync-before-acknowledge, write-new→sync→rename for the metadata (the commit record), recovery keyed on the commit record only, metadata persisted before a retry is scheduled, " +
		"failure report handed over before the spool forgets the recipient, abort removes what Body stored. File roles are resolved from the constant suffix of the path argument."
	c.notCover = "crash points themselves (no execution), torn writes inside the kernel, directory fsync, crashes inside recovery; only the non-Windows branch of the metadata rewrite is judged for atomicity."
	c.Assume("A2: (*os.File).Sync, os.Rename, os.Create, os.Remove, (*json.Encoder).Encode behave as documented (rename is atomic on POSIX)")

	c02StoreNew(c)
	c02Unbuffered(c)
	c02CommitLast(c)
	c02UpdateMeta(c)
	c02Recovery(c)
	c02TryDelivery(c)
	c02Abort(c)
	c02CommitRecordWriters(c)
	c02RecordMaps(c)
	c02WheelCallback(c)
	c02CommitNeverFails(c, "R11")
	c02ReportID(c, "R12")
	c02StagingTruncated(c, "R13")
	c12StagingFilePerMessage(c, "R14")
	c.Rule("R15", "deliver: a failure of Body / Commit is recorded for every accepted recipient (C01.R2) – a recipient without a recorded failure counts as delivered and is dropped from the spooled record, so that neither this process nor a restart attempts it again", 3)
	importRules(c, "C01", c01Deliver, map[string]bool{"R2": true}, "R15")
	c02AttemptEndsRemovedOrScheduled(c, "R16")
	c02ErrorsNotSwallowed(c)
	c02CleanupOnlyWhenGone(c)
}

// R9: while loading, parts of a message are deleted only because a sibling file is known not to exist – never because
// a file could not be examined (a transient I/O error at start-up must not destroy a stored message).
func c02CleanupOnlyWhenGone(c *Check) {
	c.Rule("R9", "recovery / loading: a spool file is removed only on the edge where a sibling file does not exist (os.IsNotExist of that very error); any other error leaves everything in place", 3)
	isRm := calling("~/"+queueRel+".Queue.tryRemoveDanglingFile", "os.Remove", "os.RemoveAll", "~/"+queueRel+".Queue.removeFromDisk")
	for _, fn := range []string{"readDiskQueue", "openMessage", "readMessageMeta"} {
		r := c.In(queueRel, "Queue", fn)
		if r == nil {
			c.Fail("R9", fn, token.NoPos, "anchor unresolved")
			continue
		}
		info := r.Info
		rms := r.Calls(isRm)
		// in the world where no error "is a not-exist error", no removal is reachable
		w := r.F.World(func(atom ast.Expr) (bool, bool) {
			if call, ok := ast.Unparen(atom).(*ast.CallExpr); ok && (isCall(info, call, "os.IsNotExist") || (isCall(info, call, "errors.Is") && len(call.Args) == 2 && strings.HasSuffix(exprStr(call.Args[1]), "ErrNotExist"))) {
				return false, true
			}
			return false, false
		})
		path, f := r.F.Reach(Query{From: r.Entry(), Inclusive: true, Target: isPt(rms), AvoidEdge: w})
		c.Hold("R9", fn+":remove-only-if-sibling-gone", r.FI.Decl.Pos(), !f, "a stored file is removed on a path where nothing is known to be missing (an unreadable or temporarily inaccessible file makes the loader delete the rest of the message): "+r.F.Describe(path))
	}
}

// R8: storing and loading report their failures. For every call in the storage functions whose error result is kept,
// no success return (and, for the writers, no later durable step) is reachable on the edge where that error is set.
func c02ErrorsNotSwallowed(c *Check) {
	c.Rule("R8", "queue storage functions: after a failed file operation, encode, copy or sync the function does not report success (a message is acknowledged / loaded only if every step succeeded)", 12)
	for _, fn := range [][2]string{{"Queue", "storeNewMessage"}, {"Queue", "updateMetadataOnDisk"}, {"Queue", "openMessage"}, {"Queue", "readMessageMeta"}, {"queueDelivery", "Body"}} {
		r := c.need("R8", queueRel, fn[0], fn[1])
		if r == nil {
			continue
		}
		info := r.Info
		n := 0
		for _, pt := range r.F.Points() {
			as, ok := pt.Node().(*ast.AssignStmt)
			if !ok || len(as.Rhs) != 1 {
				continue
			}
			call, ok := ast.Unparen(as.Rhs[0]).(*ast.CallExpr)
			if !ok {
				continue
			}
			eo := errVarAssigned(info, as, call)
			if eo == nil {
				continue
			}
			n++
			name := exprStr(call.Fun)
			key := fn[1] + ":" + name + ":" + itoa(n)
			path, f := r.F.ReachRefined(pt, eo, false, false, r.IsSuccessReturn, nil)
			c.Hold("R8", key, call.Pos(), !f, "after "+name+" failed "+fn[1]+" can still report success (the message is acknowledged, or handed to delivery, although it is not completely on disk / not completely read): "+r.F.Describe(path))
		}
	}
}

// R2b: the commit record (*.meta) is only ever created or replaced by a rename whose source file was synced in the
// same function (or, on Windows, created directly by the metadata writer). Recovery must never promote a leftover
// temporary file.
func c02CommitRecordWriters(c *Check) {
	p := c.P
	c.Rule("R2b", "every operation of the queue package that creates or replaces a *.meta commit record is a rename of a file that was synced in the same function (or the Windows branch of the metadata writer)", 1)
	pk := p.Pkg(queueRel)
	if pk == nil {
		return
	}
	n := 0
	p.AllFuncs([]*packagesPkg{pk}, func(fi *FuncInfo) {
		info := fi.Info()
		r := &RuleCtx{C: c, FI: fi, F: p.FlowOfFunc(fi), Info: info}
		for _, pt := range r.F.Points() {
			for _, call := range callsAt(pt.Node()) {
				var dst ast.Expr
				kind := ""
				switch {
				case isRename(info, call) && len(call.Args) == 2:
					dst, kind = call.Args[1], "rename"
				case isCreate(info, call) && len(call.Args) >= 1:
					dst, kind = call.Args[0], "create"
				case isCall(info, call, "os.WriteFile", "io/ioutil.WriteFile", "os.Link", "os.Symlink") && len(call.Args) >= 2:
					dst, kind = call.Args[0], "write"
					if isCall(info, call, "os.Link", "os.Symlink") {
						dst = call.Args[1]
					}
				}
				if dst == nil {
					continue
				}
				suf, ok := pathSuffix(info, fi.Decl.Body, dst, 0)
				if ok && suf != ".meta" {
					continue
				}
				// a destination whose role cannot be resolved to a constant suffix may be the commit record: it is
				// judged like one (renames in the spool directory always name their role with a constant today)
				if !ok && kind != "rename" {
					continue
				}
				n++
				c.SawFunc(fi.Name())
				key := refName(fi.Obj) + ":" + kind + ":.meta"
				msg := ""
				switch kind {
				case "rename":
					syncs := r.Calls(isSync)
					if len(syncs) == 0 {
						msg = "a file is renamed onto the *.meta commit record without having been synced in this function: a leftover / half-written temporary file (e.g. one found at start-up) replaces the good record and the message's pending recipients are lost"
					} else if ok, w := r.MustPass(r.Entry(), true, isPt([]Pt{pt}), isPt(syncs)); !ok {
						msg = "the rename onto *.meta is reachable without a preceding Sync: " + w
					}
				case "create":
					// only on the windows edge of the metadata writer
					onWin := r.F.AvoidImplying(func(atom ast.Expr) (bool, bool) {
						ws, ok := isGOOSWindows(info, atom)
						return ws == 0, ok
					})
					if _, f := r.F.Reach(Query{From: r.Entry(), Inclusive: true, Target: isPt([]Pt{pt}), AvoidEdge: onWin}); f {
						msg = "the commit record is created/truncated in place (a crash mid-write destroys it)"
					}
				default:
					msg = "the commit record is written in place"
				}
				c.Hold("R2b", key, call.Pos(), msg == "", msg)
			}
		}
	})
	if n == 0 {
		c.Fail("R2b", "queue:meta-writers", token.NoPos, "undecided: no writer of the commit record found")
	}
}

// R7: maps of the persisted record that the delivery loop writes are non-nil in every record that can be read back:
// either the writer guards nil → make, or the constructor used before the first persist initialises them.
func c02RecordMaps(c *Check) {
	c.Rule("R7", "every map field of the spooled record that tryDelivery writes is initialised when the record is first persisted, or made on demand before the write (a record read back after a crash must not carry a nil map)", 2)
	td := c.need("R7", queueRel, "Queue", "tryDelivery")
	st := c.need("R7", queueRel, "Queue", "Start")
	if td == nil || st == nil {
		return
	}
	info := td.Info
	written := map[string]token.Pos{}
	ast.Inspect(td.FI.Decl.Body, func(n ast.Node) bool {
		var target ast.Expr
		switch s := n.(type) {
		case *ast.AssignStmt:
			for _, l := range s.Lhs {
				if ix, ok := ast.Unparen(l).(*ast.IndexExpr); ok {
					target = ix.X
					if fv := fieldOf(info, target); fv != nil {
						if _, isMap := fv.Type().Underlying().(*types.Map); isMap && typeIs(info.TypeOf(ast.Unparen(target).(*ast.SelectorExpr).X), modPath+"/"+queueRel, "QueueMetadata") {
							written[objName(fv)] = s.Pos()
						}
					}
				}
			}
		case *ast.IncDecStmt:
			if ix, ok := ast.Unparen(s.X).(*ast.IndexExpr); ok {
				if fv := fieldOf(info, ix.X); fv != nil {
					if _, isMap := fv.Type().Underlying().(*types.Map); isMap {
						written[objName(fv)] = s.Pos()
					}
				}
			}
		}
		return true
	})
	if len(written) == 0 {
		c.Fail("R7", "tryDelivery:map-writes", td.FI.Decl.Pos(), "undecided: no map of the record is written")
		return
	}
	// initialised in the Start literal?
	initd := map[string]bool{}
	ast.Inspect(st.FI.Decl.Body, func(n ast.Node) bool {
		if cl, ok := n.(*ast.CompositeLit); ok && typeIs(st.Info.TypeOf(cl), modPath+"/"+queueRel, "QueueMetadata") {
			for _, el := range cl.Elts {
				if kv, ok := el.(*ast.KeyValueExpr); ok {
					if id, ok := kv.Key.(*ast.Ident); ok && !isNilIdent(st.Info, kv.Value) {
						initd[id.Name] = true
					}
				}
			}
		}
		return true
	})
	for name, pos := range written {
		// guarded: `if meta.X == nil { meta.X = make(...) }` dominating the write
		guarded := false
		ast.Inspect(td.FI.Decl.Body, func(n ast.Node) bool {
			is, ok := n.(*ast.IfStmt)
			if !ok || is.End() > pos {
				return true
			}
			be, ok := ast.Unparen(is.Cond).(*ast.BinaryExpr)
			if !ok || be.Op != token.EQL || !isNilIdent(info, be.Y) {
				return true
			}
			if fv := fieldOf(info, be.X); fv != nil && objName(fv) == name {
				for _, s := range is.Body.List {
					if nodeAssigns(s, func(l, rhs ast.Expr) bool {
						fl := fieldOf(info, l)
						return fl != nil && fl.Name() == name && rhs != nil && !isNilIdent(info, rhs)
					}) {
						guarded = true
					}
				}
			}
			return true
		})
		// an initialised but empty map survives the round trip through the file only if the encoder writes it: with an
		// `omitempty` tag it is left out and decodes as nil
		if initd[name] && !guarded {
			if tn, ok := td.FI.Pkg.Types.Scope().Lookup("QueueMetadata").(*types.TypeName); ok {
				if stt, ok := tn.Type().Underlying().(*types.Struct); ok {
					for i := 0; i < stt.NumFields(); i++ {
						if objName(stt.Field(i)) == name && strings.Contains(reflect.StructTag(stt.Tag(i)).Get("json"), "omitempty") {
							initd[name] = false
						}
					}
				}
			}
		}
		c.Hold("R7", "QueueMetadata."+name, pos, guarded || initd[name], "tryDelivery writes into the record's "+name+" map, but the record persisted at acceptance does not initialise it and the write is not guarded: a message recovered from that first record (an empty map tagged omitempty is not written at all) panics on its first failed recipient (assignment to entry in nil map), is marked broken and never retried")
	}
}

var (
	isSync    = calling("os.File.Sync")
	isCreate  = calling("os.Create", "os.OpenFile")
	isRename  = calling("os.Rename")
	isRemove  = calling("os.Remove", "os.RemoveAll")
	isEncode  = calling("encoding/json.Encoder.Encode")
	isUpdMeta = calling("~/" + queueRel + ".Queue.updateMetadataOnDisk")
	isRmDisk  = calling("~/" + queueRel + ".Queue.removeFromDisk")
	isStoreNw = calling("~/" + queueRel + ".Queue.storeNewMessage")
	isWheelAd = calling("~/" + queueRel + ".TimeWheel.Add")
	isEmitDSN = calling("~/" + queueRel + ".Queue.emitDSN")
)

// fileRoleOf: suffix constant of the path with which the *os.File variable of a method call was created.
func fileRoleOf(r *RuleCtx, fileObj types.Object) string {
	if fileObj == nil {
		return ""
	}
	role := ""
	ast.Inspect(r.FI.Decl.Body, func(n ast.Node) bool {
		as, ok := n.(*ast.AssignStmt)
		if !ok || len(as.Rhs) != 1 {
			return true
		}
		call, ok := ast.Unparen(as.Rhs[0]).(*ast.CallExpr)
		if !ok || !isCreate(r.Info, call) || len(call.Args) == 0 {
			return true
		}
		if objOf(r.Info, as.Lhs[0]) != fileObj {
			return true
		}
		if s, ok := pathSuffix(r.Info, r.FI.Decl.Body, call.Args[0], 0); ok {
			if role != "" && role != s {
				role = role + "|" + s
			} else {
				role = s
			}
		}
		return true
	})
	return role
}

func c02StoreNew(c *Check) {
	c.Rule("R1", "storeNewMessage: every success return is preceded on all paths by a successful Sync of the header file, of the body file and a successful metadata write; the delivery's Body succeeds only if storing succeeded", 4)
	r := c.need("R1", queueRel, "Queue", "storeNewMessage")
	if r == nil {
		return
	}
	success := r.IsSuccessReturn
	// Sync calls by file role
	roles := map[string][]Pt{}
	for _, pt := range r.Calls(isSync) {
		call := r.CallAt(pt, isSync)
		role := fileRoleOf(r, recvObj(r.Info, call))
		roles[role] = append(roles[role], pt)
	}
	for _, role := range []string{".header", ".body"} {
		pts := roles[role]
		key := "storeNewMessage:sync" + role
		if len(pts) == 0 {
			c.Hold("R1", key, r.FI.Decl.Pos(), false, "no Sync on the file created with suffix "+role+" (the acknowledged message may not be on disk)")
			continue
		}
		ok, w := r.MustPass(r.Entry(), true, success, isPt(pts))
		if !ok {
			c.Hold("R1", key, r.Pos(pts[0]), false, "a success return is reachable without Sync of the "+role+" file: "+w)
			continue
		}
		bad := ""
		for _, pt := range pts {
			call := r.CallAt(pt, isSync)
			found, w, decided := r.OnErr(pt, call, false, success, nil)
			if !decided {
				bad = "the error of Sync is not assigned/checked"
			} else if found {
				bad = "a success return is reachable after Sync failed: " + w
			}
		}
		c.Hold("R1", key, r.Pos(pts[0]), bad == "", bad)
	}
	// metadata
	upd := r.Calls(isUpdMeta)
	if len(upd) == 0 {
		c.Hold("R1", "storeNewMessage:meta", r.FI.Decl.Pos(), false, "storeNewMessage does not write the metadata (commit record)")
	} else {
		ok, w := r.MustPass(r.Entry(), true, success, isPt(upd))
		bad := ""
		if !ok {
			bad = "a success return is reachable without writing the metadata: " + w
		}
		for _, pt := range upd {
			found, w, decided := r.OnErr(pt, r.CallAt(pt, isUpdMeta), false, success, nil)
			if !decided {
				bad = "the error of the metadata write is dropped"
			} else if found {
				bad = "a success return is reachable after the metadata write failed: " + w
			}
		}
		c.Hold("R1", "storeNewMessage:meta", r.Pos(upd[0]), bad == "", bad)
	}
	// queueDelivery.Body
	rb := c.need("R1", queueRel, "queueDelivery", "Body")
	if rb != nil {
		st := rb.Calls(isStoreNw)
		if len(st) == 0 {
			c.Hold("R1", "queueDelivery.Body", rb.FI.Decl.Pos(), false, "Body does not store the message")
		} else {
			ok, w := rb.MustPass(rb.Entry(), true, rb.IsSuccessReturn, isPt(st))
			bad := ""
			if !ok {
				bad = "Body can succeed without storing: " + w
			}
			for _, pt := range st {
				found, w, decided := rb.OnErr(pt, rb.CallAt(pt, isStoreNw), false, rb.IsSuccessReturn, nil)
				if !decided {
					bad = "the error of storeNewMessage is dropped"
				} else if found {
					bad = "Body returns success after storing failed (250 for a message that is not on disk): " + w
				}
			}
			c.Hold("R1", "queueDelivery.Body", rb.Pos(st[0]), bad == "", bad)
		}
	}
}

func c02UpdateMeta(c *Check) {
	c.Rule("R2", "updateMetadataOnDisk (non-Windows): create *.meta.new, encode into it, Sync it, then rename onto *.meta - in this order on every path to success; nothing is written after the rename", 6)
	r := c.need("R2", queueRel, "Queue", "updateMetadataOnDisk")
	if r == nil {
		return
	}
	// analyse the non-Windows configuration: prune the windows edges
	noWin := r.F.AvoidImplying(func(atom ast.Expr) (bool, bool) {
		ws, ok := isGOOSWindows(r.Info, atom)
		return ws == 0, ok // the atom is true on windows iff its windows successor is 0
	})
	reach := func(from []Pt, incl bool, target, avoid func(Pt) bool) (bool, string) {
		p, f := r.F.Reach(Query{From: from, Inclusive: incl, Target: target, Avoid: avoid, AvoidEdge: noWin})
		return f, r.F.Describe(p)
	}
	success := r.IsSuccessReturn
	creates := r.Calls(isCreate)
	encodes := r.Calls(isEncode)
	syncs := r.Calls(isSync)
	renames := r.Calls(isRename)
	key := "updateMetadataOnDisk"
	// reachable (non-windows) creates
	var liveCreates []Pt
	for _, pt := range creates {
		if f, _ := reach(r.Entry(), true, isPt([]Pt{pt}), nil); f {
			liveCreates = append(liveCreates, pt)
		}
	}
	// 1. the created file is the temporary one
	okTmp := len(liveCreates) > 0
	var tmpArg ast.Expr
	tmpSuffixes := map[string]bool{}
	var fileObj types.Object
	for _, pt := range liveCreates {
		call := r.CallAt(pt, isCreate)
		// the path may be chosen per platform (`writePath := metaPath + ".new"; if inPlace { writePath = metaPath }`):
		// what reaches the Create in the non-Windows world
		cands := []ast.Expr{call.Args[0]}
		if o, isVar := objOf(r.Info, call.Args[0]).(*types.Var); isVar && !o.IsField() {
			if _, n := localDef(r.Info, r.FI.Decl.Body, o); n > 1 {
				if defs, okD := r.ReachingDefs(o, pt, noWin); okD && len(defs) > 0 {
					cands = defs
				}
			}
		}
		for _, cand := range cands {
			suf, ok := pathSuffix(r.Info, r.FI.Decl.Body, cand, 0)
			if !ok || !strings.HasSuffix(suf, ".new") || strings.HasSuffix(suf, ".meta") {
				okTmp = false
			} else {
				tmpSuffixes[suf] = true
			}
		}
		tmpArg = call.Args[0]
		if as, ok := pt.Node().(*ast.AssignStmt); ok && len(as.Lhs) > 0 {
			fileObj = objOf(r.Info, as.Lhs[0])
		}
	}
	c.Hold("R2", key+":create-temp", r.FI.Decl.Pos(), okTmp, "on non-Windows the metadata is not first written to a temporary *.new file (a crash mid-write destroys the commit record)")
	// 2. encoder writes into that file; sync is on that file
	okSame := fileObj != nil && len(encodes) > 0 && len(syncs) > 0
	for _, pt := range encodes {
		call := r.CallAt(pt, isEncode)
		// receiver: json.NewEncoder(file)
		if ne, ok := ast.Unparen(callRecv(call)).(*ast.CallExpr); !ok || !isCall(r.Info, ne, "encoding/json.NewEncoder") || len(ne.Args) != 1 || objOf(r.Info, ne.Args[0]) != fileObj {
			if o := recvObj(r.Info, call); o != nil {
				// encoder variable: find its definition
				def, n := localDef(r.Info, r.FI.Decl.Body, o)
				if ne, ok := ast.Unparen(def).(*ast.CallExpr); !(n == 1 && ok && isCall(r.Info, ne, "encoding/json.NewEncoder") && len(ne.Args) == 1 && objOf(r.Info, ne.Args[0]) == fileObj) {
					okSame = false
				}
			} else {
				okSame = false
			}
		}
	}
	for _, pt := range syncs {
		if recvObj(r.Info, r.CallAt(pt, isSync)) != fileObj {
			okSame = false
		}
	}
	c.Hold("R2", key+":same-file", r.FI.Decl.Pos(), okSame, "Encode and Sync do not operate on the file that was created")
	// 3. order
	f1, w1 := reach(r.Entry(), true, success, isPt(renames))
	c.Hold("R2", key+":rename-before-success", r.FI.Decl.Pos(), !f1 && len(renames) > 0, "success is reachable without renaming the new metadata into place: "+w1)
	f2, w2 := reach(r.Entry(), true, isPt(renames), isPt(syncs))
	c.Hold("R2", key+":sync-before-rename", r.FI.Decl.Pos(), !f2 && len(syncs) > 0, "the rename is reachable without a preceding Sync (an empty or partial commit record can replace the good one): "+w2)
	f3, w3 := reach(r.Entry(), true, isPt(syncs), isPt(encodes))
	c.Hold("R2", key+":encode-before-sync", r.FI.Decl.Pos(), !f3 && len(encodes) > 0, "Sync is reachable before the metadata was encoded: "+w3)
	// errors of encode/sync prevent the rename
	bad := ""
	for _, set := range [][]Pt{encodes, syncs} {
		for _, pt := range set {
			var call *ast.CallExpr
			if call = r.CallAt(pt, isEncode); call == nil {
				call = r.CallAt(pt, isSync)
			}
			obj := errVarAssigned(r.Info, pt.Node(), call)
			if obj == nil {
				bad = "the error of " + exprStr(call.Fun) + " is not checked"
				continue
			}
			if p, f := r.F.ReachRefined(pt, obj, false, false, orPt(isPt(renames), success), nil); f {
				bad = "after a failed " + exprStr(call.Fun) + " the rename or a success return is still reachable: " + r.F.Describe(p)
			}
		}
	}
	c.Hold("R2", key+":errors-stop", r.FI.Decl.Pos(), bad == "", bad)
	// 4. nothing durable after the rename
	after := orPt(isPt(encodes), isPt(syncs), r.IsCallPt(calling("os.File.Write", "os.File.WriteString", "io.Copy")))
	f4, w4 := reach(renames, false, after, nil)
	c.Hold("R2", key+":nothing-after-rename", r.FI.Decl.Pos(), !f4, "data is written or synced after the rename: "+w4)
	// 5. rename arguments
	okArgs := len(renames) > 0
	for _, pt := range renames {
		call := r.CallAt(pt, isRename)
		to, ok := pathSuffix(r.Info, r.FI.Decl.Body, call.Args[1], 0)
		if !ok || to != ".meta" || tmpArg == nil {
			okArgs = false
			continue
		}
		if !sameExpr(call.Args[0], tmpArg) {
			// written differently (`os.Create(tmp)` … `os.Rename(path+".new", path)`): what reaches the rename in the
			// non-Windows world must end in the suffix of the file that was created
			cands := []ast.Expr{call.Args[0]}
			if o, isVar := objOf(r.Info, call.Args[0]).(*types.Var); isVar && !o.IsField() {
				if _, n := localDef(r.Info, r.FI.Decl.Body, o); n > 1 {
					if defs, okD := r.ReachingDefs(o, pt, noWin); okD && len(defs) > 0 {
						cands = defs
					}
				}
			}
			for _, cand := range cands {
				if suf, okS := pathSuffix(r.Info, r.FI.Decl.Body, cand, 0); !okS || !tmpSuffixes[suf] {
					okArgs = false
				}
			}
		}
	}
	c.Hold("R2", key+":rename-args", r.FI.Decl.Pos(), okArgs, "the rename does not move the file that was created onto the *.meta commit record")
}

func c02Recovery(c *Check) {
	c.Rule("R3", "recovery schedules a message only for a *.meta commit record that decodes and whose header and body exist; temporary and quarantined records can never match", 5)
	r := c.need("R3", queueRel, "Queue", "readDiskQueue")
	if r == nil {
		return
	}
	adds := r.Calls(isWheelAd)
	if len(adds) == 0 {
		c.Hold("R3", "readDiskQueue:schedules", r.FI.Decl.Pos(), false, "recovery never schedules anything")
		return
	}
	isAdd := isPt(adds)
	// suffix test
	var sufConst string
	hasSuffixEdge := r.F.AvoidImplying(func(atom ast.Expr) (bool, bool) {
		if call, ok := ast.Unparen(atom).(*ast.CallExpr); ok && isCall(r.Info, call, "strings.HasSuffix") && len(call.Args) == 2 {
			if s, ok := constString(r.Info, call.Args[1]); ok {
				sufConst = s
				return true, true // remove the edges that establish the suffix: then the Add must be unreachable
			}
		}
		return false, false
	})
	p, f := r.F.Reach(Query{From: r.Entry(), Inclusive: true, Target: isAdd, AvoidEdge: hasSuffixEdge})
	c.Hold("R3", "readDiskQueue:keyed-on-meta", r.Pos(adds[0]), !f && sufConst == ".meta", "a message is scheduled without its name having passed the .meta suffix test (suffix="+sufConst+"): "+r.F.Describe(p))
	// the other suffixes used by the queue must not match
	others := map[string]bool{}
	for _, fn := range []string{"updateMetadataOnDisk", "discardBroken"} {
		if o := c.In(queueRel, "Queue", fn); o != nil {
			ast.Inspect(o.FI.Decl.Body, func(n ast.Node) bool {
				if call, ok := n.(*ast.CallExpr); ok && (isCreate(o.Info, call) || isRename(o.Info, call)) {
					for _, a := range call.Args {
						// every value the path argument can take (a variable assigned per platform has several)
						cands := []ast.Expr{a}
						if v, isVar := objOf(o.Info, a).(*types.Var); isVar && !v.IsField() {
							if _, n := localDef(o.Info, o.FI.Decl.Body, v); n > 1 {
								if pt, found := o.F.PtOf(call.Pos()); found {
									if defs, _ := o.ReachingDefs(v, pt, nil); len(defs) > 0 {
										cands = defs
									}
								}
							}
						}
						for _, cand := range cands {
							if s, ok := pathSuffix(o.Info, o.FI.Decl.Body, cand, 0); ok && s != ".meta" {
								others[s] = true
							}
						}
					}
				}
				return true
			})
		}
	}
	bad := ""
	for s := range others {
		if sufConst != "" && strings.HasSuffix("x"+s, sufConst) {
			bad = "file suffix " + s + " (temporary or quarantined record) matches the loader's suffix test " + sufConst
		}
	}
	c.HoldConst("R3", "readDiskQueue:other-suffixes", r.FI.Decl.Pos(), bad == "" && len(others) >= 2, bad+" (suffixes seen: "+itoa(len(others))+")")
	// decode + stat guards
	guards := []struct {
		name string
		pred CallPred
	}{
		{"decode", calling("~/" + queueRel + ".Queue.readMessageMeta")},
		{"stat", calling("os.Stat")},
	}
	for _, g := range guards {
		pts := r.Calls(g.pred)
		if len(pts) == 0 {
			c.Hold("R3", "readDiskQueue:"+g.name, r.FI.Decl.Pos(), false, "recovery does not perform the "+g.name+" check")
			continue
		}
		for _, pt := range pts {
			call := r.CallAt(pt, g.pred)
			k := "readDiskQueue:" + g.name
			if g.name == "stat" {
				if s, ok := pathSuffix(r.Info, r.FI.Decl.Body, call.Args[0], 0); ok {
					k += s
				}
			}
			ok1, w := r.MustPass(r.Entry(), true, isAdd, isPt([]Pt{pt}))
			found, w2, decided := r.OnErr(pt, call, false, isAdd, isPt([]Pt{pt}))
			msg := ""
			if !ok1 {
				msg = "a message is scheduled without the check: " + w
			} else if !decided {
				msg = "the result of the check is not tested"
			} else if found {
				msg = "a message is scheduled although the check failed: " + w2
			}
			c.Hold("R3", k, r.Pos(pt), msg == "", msg)
		}
	}
}

func c02TryDelivery(c *Check) {
	c.Rule("R4", "tryDelivery: the pending-recipient list is replaced and persisted before the next attempt is scheduled", 2)
	c.Rule("R4b", "tryDelivery: the failure report is handed over before the spool forgets the failed recipients (removal or metadata rewrite)", 2)
	r := c.need("R4", queueRel, "Queue", "tryDelivery")
	if r == nil {
		return
	}
	adds := r.Calls(isWheelAd)
	upd := r.Calls(isUpdMeta)
	setTo := r.Assigns(func(lhs, rhs ast.Expr) bool { return isField(r.Info, lhs, "QueueMetadata", "To") })
	if len(adds) == 0 {
		c.Hold("R4", "tryDelivery:reschedule", r.FI.Decl.Pos(), false, "tryDelivery never re-schedules")
	} else {
		ok, w := r.MustPass(r.Entry(), true, isPt(adds), isPt(upd))
		c.Hold("R4", "tryDelivery:persist-before-schedule", r.Pos(adds[0]), ok && len(upd) > 0, "the retry is scheduled without persisting the metadata first (a restart re-sends to recipients already handled): "+w)
		ok2, w2 := r.MustPass(r.Entry(), true, isPt(upd), isPt(setTo))
		c.Hold("R4", "tryDelivery:narrow-before-persist", r.FI.Decl.Pos(), ok2 && len(setTo) > 0, "the metadata is persisted before the recipient list was narrowed to the pending ones: "+w2)
	}
	// R4b
	emit := r.Calls(isEmitDSN)
	forget := orPt(isPt(r.Calls(isRmDisk)), isPt(upd), isPt(setTo), isPt(adds))
	// the guard: a condition on len(failed list)
	var failedObj types.Object
	for _, pt := range emit {
		call := r.CallAt(pt, isEmitDSN)
		if len(call.Args) == 3 {
			failedObj = objOf(r.Info, call.Args[2])
		}
	}
	if len(emit) == 0 || failedObj == nil {
		c.Hold("R4b", "tryDelivery:report", r.FI.Decl.Pos(), false, "tryDelivery does not emit a failure report for a list of failed recipients")
		return
	}
	isGuard := func(pt Pt) bool {
		if pt.I != len(pt.B.Nodes)-1 {
			return false
		}
		cond, _ := r.F.Cond(pt.B)
		return cond != nil && mentions(r.Info, cond, failedObj)
	}
	ok, w := r.MustPass(r.Entry(), true, forget, isGuard)
	c.Hold("R4b", "tryDelivery:report-decision-first", r.Pos(emit[0]), ok, "the spool forgets recipients (removal / metadata rewrite / reschedule) before the failed list was examined for a report: "+w)
	// on the non-empty edge the emit must come before forgetting
	guardEdge := r.F.AvoidImplying(func(atom ast.Expr) (bool, bool) {
		if !mentions(r.Info, atom, failedObj) {
			return false, false
		}
		// truth of the atom when the failed list is empty: edges that establish "empty" are removed
		if s, ok := lenZeroEdge(r.Info, atom); ok {
			return s == 0, true
		}
		return false, false
	})
	p, f := r.F.Reach(Query{From: r.Entry(), Inclusive: true, Target: forget, Avoid: isPt(emit), AvoidEdge: guardEdge})
	c.Hold("R4b", "tryDelivery:report-before-forget", r.Pos(emit[0]), !f, "with failed recipients present, the spool forgets them before the report is handed over (a crash in between loses the report): "+r.F.Describe(p))
}

// lenZeroEdge: for a condition `len(x) OP k` returns the successor taken when len(x) == 0.
func lenZeroEdge(info *types.Info, cond ast.Expr) (int, bool) {
	v, ok := evalExpr(info, cond, func(e ast.Expr) (constantValue, bool) {
		if call, ok := ast.Unparen(e).(*ast.CallExpr); ok {
			if id, ok := call.Fun.(*ast.Ident); ok && id.Name == "len" {
				return makeInt(0), true
			}
		}
		return nil, false
	})
	if !ok {
		return 0, false
	}
	if boolVal(v) {
		return 0, true
	}
	return 1, true
}

func c02Abort(c *Check) {
	c.Rule("R5", "abort removes what Body stored; removal deletes header, body and metadata", 3)
	ra := c.need("R5", queueRel, "queueDelivery", "Abort")
	rb := c.In(queueRel, "queueDelivery", "Body")
	if ra != nil && rb != nil {
		rm := ra.Calls(isRmDisk)
		// the only conditions allowed to skip the removal are tests of a field that Body sets on success
		setBySuccess := map[string]bool{}
		for _, pt := range rb.Assigns(func(lhs, rhs ast.Expr) bool { return fieldOf(rb.Info, lhs) != nil }) {
			// must be on every success path
			if ok, _ := rb.MustPass(rb.Entry(), true, rb.IsSuccessReturn, isPt([]Pt{pt})); ok {
				if as, ok := pt.Node().(*ast.AssignStmt); ok {
					for _, l := range as.Lhs {
						if fv := fieldOf(rb.Info, l); fv != nil {
							setBySuccess[objName(fv)] = true
						}
					}
				}
			}
		}
		bad := ""
		if len(rm) == 0 {
			bad = "Abort never removes the stored message (an aborted message is delivered after restart)"
		} else {
			skipEdge := ra.F.AvoidImplying(func(atom ast.Expr) (bool, bool) {
				// edges on which a field that Body sets on success is nil → nothing was stored → skipping is fine
				if be, ok := ast.Unparen(atom).(*ast.BinaryExpr); ok && (be.Op == token.NEQ || be.Op == token.EQL) {
					for _, pair := range [][2]ast.Expr{{be.X, be.Y}, {be.Y, be.X}} {
						if fv := fieldOf(ra.Info, pair[0]); fv != nil && setBySuccess[objName(fv)] && isNilIdent(ra.Info, pair[1]) {
							return be.Op == token.EQL, true
						}
					}
				}
				return false, false
			})
			p, f := ra.F.Reach(Query{From: ra.Entry(), Inclusive: true, Target: ra.IsNormalExit, Avoid: isPt(rm), AvoidEdge: skipEdge})
			if f {
				bad = "Abort can return without removing a stored message: " + ra.F.Describe(p)
			}
		}
		c.Hold("R5", "queueDelivery.Abort", ra.FI.Decl.Pos(), bad == "", bad)
	}
	rr := c.need("R5", queueRel, "Queue", "removeFromDisk")
	if rr != nil {
		roles := map[string]bool{}
		for _, pt := range rr.Calls(isRemove) {
			call := rr.CallAt(pt, isRemove)
			if s, ok := pathSuffix(rr.Info, rr.FI.Decl.Body, call.Args[0], 0); ok {
				if ok2, _ := rr.MustPass(rr.Entry(), true, rr.IsNormalExit, isPt([]Pt{pt})); ok2 {
					roles[s] = true
				}
				continue
			}
			// table-driven form: `for _, part := range [...]struct{ext …}{{".header", …}, …} { os.Remove(… id+part.ext) }`:
			// the loop runs over a literal table to completion and every iteration passes the Remove
			for _, l := range elemLoops(rr.Info, rr.FI.Decl.Body, func(e ast.Expr) bool {
				_, isLit := ast.Unparen(resolveLocal(rr.Info, rr.FI.Decl.Body, e)).(*ast.CompositeLit)
				return isLit
			}) {
				if !l.Whole || !within(l.Body, call) {
					continue
				}
				if _, skip := rr.F.Reach(Query{From: rr.F.LoopBodyStart(l), Inclusive: true, Target: rr.F.IterEnd(l), Avoid: isPt([]Pt{pt})}); skip {
					continue
				}
				// the loop itself is passed on every way through the function
				if okLoop, _ := rr.MustPass(rr.Entry(), true, rr.IsNormalExit, isPt(rr.F.LoopDone(l))); !okLoop {
					continue
				}
				// the field of the element that ends the path
				var fieldName string
				var tail ast.Expr = call.Args[0]
				ast.Inspect(call.Args[0], func(x ast.Node) bool {
					if sx, ok := x.(*ast.SelectorExpr); ok && l.IsElem(sx.X) {
						fieldName, tail = sx.Sel.Name, sx
					}
					return true
				})
				// … must be the last operand of the path expression
				if fieldName == "" || tail.End() < ast.Unparen(lastOperand(call.Args[0])).End() {
					continue
				}
				table, _ := ast.Unparen(resolveLocal(rr.Info, rr.FI.Decl.Body, l.List)).(*ast.CompositeLit)
				for _, s := range literalFieldStrings(rr.Info, table, fieldName) {
					roles[s] = true
				}
			}
		}
		for _, s := range []string{".header", ".body", ".meta"} {
			c.Hold("R5", "removeFromDisk:"+s, rr.FI.Decl.Pos(), roles[s], "removeFromDisk does not remove the "+s+" file on every path")
		}
	}
}

// lastOperand: the right-most operand of a `+` chain / the last argument of a Join-like call.
func lastOperand(e ast.Expr) ast.Expr {
	for {
		switch x := ast.Unparen(e).(type) {
		case *ast.BinaryExpr:
			e = x.Y
			continue
		case *ast.CallExpr:
			if len(x.Args) > 0 {
				e = x.Args[len(x.Args)-1]
				continue
			}
		}
		return e
	}
}

// literalFieldStrings: the constant string values of struct field name in the elements of a composite literal of
// structs (keyed or positional elements).
func literalFieldStrings(info *types.Info, table *ast.CompositeLit, name string) []string {
	if table == nil {
		return nil
	}
	var out []string
	for _, el := range table.Elts {
		if kv, ok := el.(*ast.KeyValueExpr); ok {
			el = kv.Value
		}
		cl, ok := ast.Unparen(el).(*ast.CompositeLit)
		if !ok {
			return nil
		}
		st, ok := info.TypeOf(cl).Underlying().(*types.Struct)
		if !ok {
			return nil
		}
		found := false
		for i, f := range cl.Elts {
			if kv, ok := f.(*ast.KeyValueExpr); ok {
				if id, ok := kv.Key.(*ast.Ident); ok && id.Name == name {
					if sv, ok := constString(info, kv.Value); ok {
						out = append(out, sv)
						found = true
					}
				}
				continue
			}
			if i < st.NumFields() && st.Field(i).Name() == name {
				if sv, ok := constString(info, f); ok {
					out = append(out, sv)
					found = true
				}
			}
		}
		if !found {
			return nil
		}
	}
	return out
}

// R1c: "synced" is a statement about the bytes that had reached the file when Sync ran. A spool file written through
// a buffering wrapper (bufio.Writer and the like) whose Flush runs after the Sync – deferred, typically – is synced
// empty or cut at a buffer boundary: the function returns with a complete file in the page cache, every test and every
// retry in the same process reads correct bytes, and after a power cut the acknowledged message has half a header.
func c02Unbuffered(c *Check) {
	c.Rule("R1c", "queue storage: a spool file that is synced is written directly, or every buffering writer wrapped around it is flushed (not by defer) on every path before that Sync", 2)
	for _, fn := range []string{"storeNewMessage", "updateMetadataOnDisk"} {
		r := c.need("R1c", queueRel, "Queue", fn)
		if r == nil {
			continue
		}
		info := r.Info
		synced := map[types.Object][]Pt{}
		for _, pt := range r.Calls(isSync) {
			if o := recvObj(info, r.CallAt(pt, isSync)); o != nil {
				synced[o] = append(synced[o], pt)
			}
		}
		msg := ""
		nwrap := 0
		for _, pt := range r.F.Points() {
			as, ok := pt.Node().(*ast.AssignStmt)
			if !ok || len(as.Lhs) != len(as.Rhs) {
				continue
			}
			for i, rhs := range as.Rhs {
				call, ok := ast.Unparen(rhs).(*ast.CallExpr)
				if !ok {
					continue
				}
				var file types.Object
				for _, a := range call.Args {
					if o := objOf(info, a); o != nil && len(synced[o]) > 0 {
						file = o
					}
				}
				w := objOf(info, as.Lhs[i])
				if file == nil || w == nil {
					continue
				}
				// does the result buffer? (it has a Flush method)
				ms := types.NewMethodSet(w.Type())
				hasFlush := false
				for j := 0; j < ms.Len(); j++ {
					if ms.At(j).Obj().Name() == "Flush" {
						hasFlush = true
					}
				}
				if !hasFlush {
					continue
				}
				nwrap++
				flushed := func(q Pt) bool {
					if _, isDefer := q.Node().(*ast.DeferStmt); isDefer {
						return false
					}
					for _, cc := range callsAt(q.Node()) {
						if methodName(cc) == "Flush" && recvObj(info, cc) == w {
							return true
						}
					}
					return false
				}
				if ok, wit := r.MustPass([]Pt{pt}, false, isPt(synced[file]), flushed); !ok {
					msg = "line " + itoa(r.Line(pt)) + ": the file " + file.Name() + " is written through the buffering writer " + w.Name() + ", which is not flushed on every path before " + file.Name() + ".Sync(): the Sync covers a file that is empty or cut at a buffer boundary, the rest reaches the disk whenever the kernel likes (after a power cut the acknowledged message has a truncated header / body / record): " + wit
				}
			}
		}
		_ = nwrap
		c.Hold("R1c", fn+":unbuffered", r.FI.Decl.Pos(), msg == "" && len(synced) > 0, func() string {
			if len(synced) == 0 {
				return "undecided: no synced file found"
			}
			return msg
		}())
	}
}

// R1d: the *.meta file is the commit record of a spool entry: recovery schedules a message for every record whose header
// and body exist (R3). The record is therefore written last – after the header and the body file were synced. Written
// first ("so that an interrupted store can be cleaned up"), a stop while the body is still being copied leaves a
// complete-looking entry: after the restart a message that was never accepted is delivered with a truncated body.
func c02CommitLast(c *Check) {
	c.Rule("R1d", "storeNewMessage: the metadata (commit record) is written only after the header file and the body file were synced", 1)
	r := c.need("R1d", queueRel, "Queue", "storeNewMessage")
	if r == nil {
		return
	}
	metaW := r.Calls(calling("~/" + queueRel + ".Queue.updateMetadataOnDisk"))
	msg := ""
	if len(metaW) == 0 {
		msg = "undecided: no metadata write"
	}
	roles := map[string][]Pt{}
	for _, pt := range r.Calls(isSync) {
		call := r.CallAt(pt, isSync)
		roles[fileRoleOf(r, recvObj(r.Info, call))] = append(roles[fileRoleOf(r, recvObj(r.Info, call))], pt)
	}
	for _, role := range []string{".header", ".body"} {
		if len(roles[role]) == 0 {
			msg = "undecided: no Sync of the " + role + " file"
			continue
		}
		if ok, w := r.MustPass(r.Entry(), true, isPt(metaW), isPt(roles[role])); !ok && msg == "" {
			msg = "the commit record (*.meta) can be written before the " + role + " file is synced: a stop in between leaves a record whose header and body exist but are incomplete – recovery delivers a message that was never accepted, with a truncated body: " + w
		}
	}
	c.Hold("R1d", "storeNewMessage:commit-record-last", r.FI.Decl.Pos(), msg == "", msg)
}


// R10: the retry wheel has ONE goroutine (tick); it runs the callback handed to NewTimeWheel, and TimeWheel.Add is a
// rendezvous with that goroutine. A callback that waits (for a delivery slot, a channel, a wait group) while the
// holders of what it waits for are themselves inside Add stops the wheel for good: nothing that is due – after a
// restart, the whole spool – is attempted again. The callback may only start goroutines and do non-waiting work.
func c02WheelCallback(c *Check) {
	c.Rule("R10", "the retry wheel's callback never waits on its own goroutine: no channel send / receive outside a select with default, no WaitGroup.Wait / Cond.Wait / time.Sleep / TimeWheel.Add, directly or in what it calls synchronously (waiting belongs in the goroutine it starts)", 1)
	p := c.P
	pk := p.Pkg(queueRel)
	if pk == nil {
		c.Fail("R10", "queue", token.NoPos, "undecided: queue package not loaded")
		return
	}
	info := pk.TypesInfo
	var callbacks []*FuncInfo
	for _, fi := range funcsOfPkgs(p, queueRel) {
		for _, call := range callsIn(fi.Decl.Body) {
			fn := callee(info, call)
			if fn == nil || fn.Pkg() != pk.Types || refName(fn) != "NewTimeWheel" || len(call.Args) != 1 {
				continue
			}
			var cb *types.Func
			switch a := ast.Unparen(call.Args[0]).(type) {
			case *ast.SelectorExpr:
				cb, _ = info.Uses[a.Sel].(*types.Func)
			case *ast.Ident:
				cb, _ = info.Uses[a].(*types.Func)
			}
			if d := p.DeclOf(cb); cb != nil && d != nil && d.Decl.Body != nil {
				callbacks = append(callbacks, d)
			} else {
				c.Fail("R10", fi.Name()+":callback", call.Pos(), "undecided: the wheel's callback is not a function of the package")
			}
		}
	}
	if len(callbacks) == 0 {
		c.Fail("R10", "callback", token.NoPos, "undecided: no NewTimeWheel(callback) in the queue package")
		return
	}
	var waits func(fi *FuncInfo, depth int, seen map[*types.Func]bool) (string, token.Pos)
	waits = func(fi *FuncInfo, depth int, seen map[*types.Func]bool) (string, token.Pos) {
		if seen[fi.Obj] {
			return "", token.NoPos
		}
		seen[fi.Obj] = true
		fInfo := fi.Pkg.TypesInfo
		// comm statements of selects with a default never wait
		safe := map[ast.Node]bool{}
		ast.Inspect(fi.Decl.Body, func(x ast.Node) bool {
			sel, ok := x.(*ast.SelectStmt)
			if !ok {
				return true
			}
			hasDefault := false
			for _, cl := range sel.Body.List {
				if cc := cl.(*ast.CommClause); cc.Comm == nil {
					hasDefault = true
				}
			}
			for _, cl := range sel.Body.List {
				if cc := cl.(*ast.CommClause); cc.Comm != nil && hasDefault {
					ast.Inspect(cc.Comm, func(y ast.Node) bool {
						if y != nil {
							safe[y] = true
						}
						return true
					})
				}
			}
			if !hasDefault {
				safe[sel] = false
			}
			return true
		})
		what, at := "", token.NoPos
		var visit func(n ast.Node) bool
		visit = func(n ast.Node) bool {
			if what != "" || n == nil {
				return false
			}
			switch x := n.(type) {
			case *ast.GoStmt:
				// arguments are evaluated here, the body runs elsewhere
				for _, a := range x.Call.Args {
					ast.Inspect(a, visit)
				}
				return false
			case *ast.FuncLit:
				return false // runs when called; deferred / callback literals of the callback are rare and judged where invoked
			case *ast.DeferStmt:
				if lit, ok := x.Call.Fun.(*ast.FuncLit); ok {
					ast.Inspect(lit.Body, visit) // runs on this goroutine at return
					return false
				}
			case *ast.SendStmt:
				if !safe[x] {
					what, at = "channel send "+exprStr(x.Chan)+" <- …", x.Pos()
				}
			case *ast.UnaryExpr:
				if x.Op == token.ARROW && !safe[x] {
					what, at = "channel receive <-"+exprStr(x.X), x.Pos()
				}
			case *ast.SelectStmt:
				if v, has := safe[x]; has && !v {
					what, at = "select without default", x.Pos()
				}
			case *ast.RangeStmt:
				if _, isChan := fInfo.TypeOf(x.X).Underlying().(*types.Chan); isChan {
					what, at = "range over channel "+exprStr(x.X), x.Pos()
				}
			case *ast.CallExpr:
				switch {
				case isCall(fInfo, x, "sync.WaitGroup.Wait", "sync.Cond.Wait", "time.Sleep"):
					what, at = exprStr(x.Fun)+"()", x.Pos()
				default:
					fn := callee(fInfo, x)
					if fn == nil || fn.Pkg() == nil || !strings.HasPrefix(fn.Pkg().Path(), modPath) {
						return true
					}
					if recv := fn.Type().(*types.Signature).Recv(); recv != nil {
						if nt := namedOf(recv.Type()); nt != nil && objName(nt.Obj()) == "TimeWheel" && refName(fn) == "Add" {
							what, at = "TimeWheel.Add (a rendezvous with the goroutine the callback runs on)", x.Pos()
							return false
						}
					}
					if d := p.DeclOf(fn); d != nil && d.Decl.Body != nil && depth < 3 && fn.Pkg() == fi.Obj.Pkg() {
						if w, _ := waits(d, depth+1, seen); w != "" {
							what, at = w+" (in "+d.Name()+")", x.Pos()
						}
					}
				}
			}
			return what == ""
		}
		ast.Inspect(fi.Decl.Body, visit)
		return what, at
	}
	for _, cb := range callbacks {
		c.SawFunc(cb.Name())
		w, at := waits(cb, 0, map[*types.Func]bool{})
		pos := cb.Decl.Pos()
		if at.IsValid() {
			pos = at
		}
		c.Hold("R10", cb.Name()+":never-waits", pos, w == "", "the retry wheel's callback waits on the wheel's only goroutine: "+w+". While it waits no other due message is dispatched, and a delivery goroutine that re-schedules its message (TimeWheel.Add hands over to this goroutine) can never finish: after a restart with a backlog the spool is not attempted again")
	}
}
