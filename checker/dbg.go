package main

import (
	"fmt"
	"go/printer"
	"go/token"
	"os"
	"strings"
)

// debug helper: VERIF_DUMP=pkg:recv:name prints the CFG of a function
func init() {
	register("DEPS", func(c *Check) {
		pk := c.P.ByPath[goSMTPPkg]
		fmt.Println("go-smtp syntax files:", len(pk.Syntax), "types:", pk.Types != nil, "info:", pk.TypesInfo != nil)
	})
	// ANCHORS regenerates the rename index (checker/anchors_index.json) from the tree being analysed
	register("ANCHORS", func(c *Check) {
		path := os.Getenv("VERIF_ANCHORS_OUT")
		if path == "" {
			path = "/verif/checker/anchors_index.json"
		}
		n, err := writeAnchorsIndex(c.P, path)
		fmt.Println("anchors index:", n, "functions written to", path, err)
	})
	// KEPT regenerates the must-pass inventory of E5 (checker/mustpass_index.json) from the tree being analysed
	register("KEPT", func(c *Check) {
		path := os.Getenv("VERIF_KEPT_OUT")
		if path == "" {
			path = "/verif/checker/mustpass_index.json"
		}
		nf, ni, err := writeKeptIndex(c, path)
		fmt.Println("must-pass inventory:", nf, "functions,", ni, "effects written to", path, err)
	})
	register("DUMP", func(c *Check) {
		var rel, recv, name string
		fmt.Sscanf(os.Getenv("VERIF_DUMP"), "%s %s %s", &rel, &recv, &name)
		if recv == "-" {
			recv = ""
		}
		fi := c.P.Func(rel, recv, name)
		if fi == nil {
			fmt.Println("not found")
			return
		}
		if os.Getenv("VERIF_DUMP_SRC") != "" {
			printer.Fprint(os.Stdout, token.NewFileSet(), fi.Decl)
			fmt.Println()
			return
		}
		f := c.P.FlowOfFunc(fi)
		fmt.Println(f.G.Format(c.P.Fset))
	})
	// LOCKS: discovery run of the lock-balance rule over every server package
	register("LOCKS", func(c *Check) {
		c.Rule("L", "lock balance (discovery)", 0)
		var rels []string
		for _, pk := range c.P.ServerPkgs() {
			rels = append(rels, strings.TrimPrefix(strings.TrimPrefix(pk.PkgPath, modPath), "/"))
		}
		fmt.Println("pairs:", lockBalance(c, "L", rels, nil))
	})
	// LASTWINS: discovery run of E7 over every server package
	register("LASTWINS", func(c *Check) {
		var rels []string
		for _, pk := range c.P.ServerPkgs() {
			rels = append(rels, strings.TrimPrefix(strings.TrimPrefix(pk.PkgPath, modPath), "/"))
		}
		lastWinsSeen(c, funcsOfPkgs(c.P, rels...))
	})
	// ERRS: discovery run of the error-looked-at rule over every server package
	register("ERRS", func(c *Check) {
		c.Rule("E1", "error looked at (discovery)", 0)
		c.Rule("E2", "failure not treated as success (discovery)", 0)
		c.Rule("E3", "nil error not reported (discovery)", 0)
		var rels []string
		for _, pk := range c.P.ServerPkgs() {
			rels = append(rels, strings.TrimPrefix(strings.TrimPrefix(pk.PkgPath, modPath), "/"))
		}
		fmt.Println("definitions:", errDiscipline(c, "E1", funcsOfPkgs(c.P, rels...)))
		c.Rule("E4", "comma-ok (discovery)", 0)
		for _, fi := range funcsOfPkgs(c.P, rels...) {
			for k, m := range commaOkSites(c.P, fi) {
				c.Hold("E4", fi.Pkg.Types.Name()+"."+k, fi.Decl.Pos(), m == "", m)
			}
		}
	})
}

// dbgf prints a diagnostic line when VERIF_DEBUG is set (never part of a verdict).
func dbgf(format string, args ...interface{}) {
	if os.Getenv("VERIF_DEBUG") != "" {
		fmt.Fprintf(os.Stderr, "debug: "+format+"\n", args...)
	}
}
