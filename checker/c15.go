package main

import (
	"go/ast"
	"go/token"
	"go/types"
	"strings"
)

func init() { register("C15", checkC15) }

const authzSenderRel = "internal/check/authorize_sender"

func checkC15(c *Check) {
	c.explain = "C15 (sender authorization), structural part: the unauthenticated test is the first decision of the authorization routine and refuses; envelope and header checks both reach it with the session's authenticated user, and the header check accepts only over an accepting authorization result; both sides are normalised before the entitlement lookup; " +
		"a security decision on the author reads every From field (not just the first value of a repeatable field) and every address of a From list; every normalisation / lookup error ends in the configured error action with a reason; the entitlement predicate accepts only by equality with the address, its domain or the wildcard."
	c.notCover = "display-name tricks inside one field (net/mail parsing), contents of the entitlement tables, PRECIS/IDNA behaviour on specific strings."

	r := c.need("R1", authzSenderRel, "state", "authzSender")
	c.Rule("R1", "authzSender: the empty-user test is the first decision and its true edge returns a refusal", 1)
	c.Rule("R3", "authzSender: the entitlement lookup receives the normalised user name and addresses derived from the normalised sender address", 1)
	c.Rule("R5", "authzSender: an error of normalisation or of a table lookup always ends in the error action with a reason", 4)
	if r != nil {
		info := r.Info
		prm := paramObjs(r.FI)
		authName, email := prm["authName"], prm["email"]
		// R1
		isEmptyTest := func(atom ast.Expr) (bool, bool) {
			if be, ok := ast.Unparen(atom).(*ast.BinaryExpr); ok && (be.Op == token.EQL || be.Op == token.NEQ) && objOf(info, be.X) == authName && authName != nil {
				if s, ok := constString(info, be.Y); ok && s == "" {
					return be.Op == token.EQL, true
				}
			}
			return false, false
		}
		world := r.F.World(isEmptyTest) // the world where the user is empty
		anyCall := func(pt Pt) bool {
			for _, call := range callsAt(pt.Node()) {
				if m := methodName(call); m != "Apply" && m != "" || isCall(info, call, "~/internal/authz.AuthorizeEmailUse") {
					if m == "DebugMsg" || m == "Msg" {
						continue
					}
					return true
				}
			}
			return false
		}
		emptyResult := func(pt Pt) bool {
			_, ret := r.F.Exit(pt)
			if ret == nil || len(ret.Results) != 1 {
				return false
			}
			if cl, ok := ast.Unparen(ret.Results[0]).(*ast.CompositeLit); ok && len(cl.Elts) == 0 {
				return true
			}
			return false
		}
		path, f := r.F.Reach(Query{From: r.Entry(), Inclusive: true, Target: orPt(anyCall, emptyResult), AvoidEdge: world})
		c.Hold("R1", "authzSender:unauthenticated", r.FI.Decl.Pos(), !f && authName != nil, "with an empty authenticated user the routine still performs lookups or accepts: "+r.F.Describe(path))
		// R3
		var azCall *ast.CallExpr
		ast.Inspect(r.FI.Decl.Body, func(n ast.Node) bool {
			if call, ok := n.(*ast.CallExpr); ok && isCall(info, call, "~/internal/authz.AuthorizeEmailUse") {
				azCall = call
			}
			return true
		})
		msg := "no entitlement lookup"
		if azCall != nil && len(azCall.Args) == 4 {
			msg = ""
			normOf := func(e ast.Expr, field string, arg types.Object) bool {
				o := objOf(info, e)
				if o == nil {
					return false
				}
				def, _ := localDef(info, r.FI.Decl.Body, o)
				call, ok := ast.Unparen(def).(*ast.CallExpr)
				if !ok {
					return false
				}
				fv := fieldOf(info, call.Fun)
				return fv != nil && objName(fv) == field && len(call.Args) == 1 && objOf(info, call.Args[0]) == arg
			}
			if !normOf(azCall.Args[1], "authNorm", authName) {
				msg = "the user name passed to the entitlement lookup is not the normalised authenticated user"
			}
			// addresses: every assignment to the address list derives from the normalised sender
			addrsObj := objOf(info, azCall.Args[2])
			var fromNormObj types.Object
			ast.Inspect(r.FI.Decl.Body, func(n ast.Node) bool {
				if as, ok := n.(*ast.AssignStmt); ok && len(as.Rhs) == 1 {
					if call, ok := ast.Unparen(as.Rhs[0]).(*ast.CallExpr); ok {
						if fv := fieldOf(info, call.Fun); fv != nil && objName(fv) == "fromNorm" && len(call.Args) == 1 && objOf(info, call.Args[0]) == email {
							fromNormObj = objOf(info, as.Lhs[0])
						}
					}
				}
				return true
			})
			if fromNormObj == nil {
				msg = "the sender address is not normalised"
			} else {
				ast.Inspect(r.FI.Decl.Body, func(n ast.Node) bool {
					as, ok := n.(*ast.AssignStmt)
					if !ok {
						return true
					}
					for i, l := range as.Lhs {
						if objOf(info, l) != addrsObj || addrsObj == nil {
							continue
						}
						var rhs ast.Expr
						if len(as.Rhs) == len(as.Lhs) {
							rhs = as.Rhs[i]
						} else {
							rhs = as.Rhs[0]
						}
						if !mentions(info, rhs, fromNormObj) {
							// a single-value lookup result wrapped into a slice: follow that variable
							ok2 := false
							ast.Inspect(rhs, func(x ast.Node) bool {
								if id, ok := x.(*ast.Ident); ok {
									if o := info.Uses[id]; o != nil {
										ast.Inspect(r.FI.Decl.Body, func(y ast.Node) bool {
											if a2, ok := y.(*ast.AssignStmt); ok && len(a2.Rhs) == 1 {
												for _, l2 := range a2.Lhs {
													if objOf(info, l2) == o && mentions(info, a2.Rhs[0], fromNormObj) {
														ok2 = true
													}
												}
											}
											return true
										})
									}
								}
								return true
							})
							if !ok2 {
								msg = "an address that does not derive from the normalised sender reaches the entitlement lookup: " + exprStr(rhs)
							}
						}
					}
					return true
				})
			}
		}
		c.Hold("R3", "authzSender:normalised", r.FI.Decl.Pos(), msg == "", msg)
		// R5
		errApply := func(pt Pt) bool {
			_, ret := r.F.Exit(pt)
			if ret == nil || len(ret.Results) != 1 {
				return false
			}
			return c15ErrAction(c.P, r.FI, info, ret.Results[0], 0)
		}
		n := 0
		for _, pt := range r.F.Points() {
			as, ok := pt.Node().(*ast.AssignStmt)
			if !ok || len(as.Rhs) != 1 {
				continue
			}
			call, ok := ast.Unparen(as.Rhs[0]).(*ast.CallExpr)
			if !ok {
				continue
			}
			eo := errVarAssigned(info, as, call)
			if eo == nil {
				continue
			}
			n++
			key := "authzSender:" + exprStr(call.Fun)
			// on err != nil every exit is the error action; stop at a reassignment of err (handled by freshness)
			path, f := r.F.ReachRefined(pt, eo, false, false, func(q Pt) bool { return r.F.IsExitPt(q) && !errApply(q) }, nil)
			c.Hold("R5", key, as.Pos(), !f, "an error of "+exprStr(call.Fun)+" can end in something other than the error action with a reason (the check silently passes): "+r.F.Describe(path))
		}
		if n < 4 {
			c.Fail("R5", "authzSender:error-sites", r.FI.Decl.Pos(), "undecided: expected at least four fallible steps")
		}
	}

	// ---- R3b: the address list judged is the translation when the prepare_email mapping has one, the normalised
	// address itself only when it has none
	c.Rule("R3b", "authzSender: with an entry in the prepare_email mapping the entitlement lookup judges that translation (not the untranslated address); without an entry, the normalised address", 1)
	if r != nil {
		info := r.Info
		var az *ast.CallExpr
		var azPt Pt
		for _, pt := range r.Calls(calling("~/internal/authz.AuthorizeEmailUse")) {
			azPt, az = pt, r.CallAt(pt, calling("~/internal/authz.AuthorizeEmailUse"))
		}
		msg := ""
		if az == nil || len(az.Args) != 4 {
			msg = "undecided: no entitlement lookup"
		} else if lst, ok := objOf(info, az.Args[2]).(*types.Var); !ok || lst.IsField() {
			msg = "undecided: the address list is not a local variable"
		} else {
			// the "found" flags of the mapping lookups: bool locals assigned from a Lookup / from len(result) > 0
			found := map[types.Object]bool{}
			ast.Inspect(r.FI.Decl.Body, func(n ast.Node) bool {
				as, ok := n.(*ast.AssignStmt)
				if !ok {
					return true
				}
				for i, l := range as.Lhs {
					o, isVar := objOf(info, l).(*types.Var)
					if !isVar || !isBoolType(o.Type()) {
						continue
					}
					if len(as.Rhs) == 1 && len(as.Lhs) == 3 && i == 1 {
						if call, ok := ast.Unparen(as.Rhs[0]).(*ast.CallExpr); ok && methodName(call) == "Lookup" {
							found[o] = true
						}
					}
					if len(as.Rhs) == len(as.Lhs) {
						if be, ok := ast.Unparen(as.Rhs[i]).(*ast.BinaryExpr); ok && (be.Op == token.GTR || be.Op == token.NEQ) {
							if lc, ok := ast.Unparen(be.X).(*ast.CallExpr); ok && len(lc.Args) == 1 {
								if id, ok := lc.Fun.(*ast.Ident); ok && id.Name == "len" {
									found[o] = true
								}
							}
						}
					}
				}
				return true
			})
			// a flag copied into another bool local (`ok = ok1` after a helper was read in place) makes that one a flag too
			for changed := true; changed; {
				changed = false
				ast.Inspect(r.FI.Decl.Body, func(n ast.Node) bool {
					as, ok := n.(*ast.AssignStmt)
					if !ok || len(as.Rhs) != len(as.Lhs) {
						return true
					}
					for i, l := range as.Lhs {
						o, isVar := objOf(info, l).(*types.Var)
						if !isVar || !isBoolType(o.Type()) || found[o] {
							continue
						}
						if src := objOf(info, as.Rhs[i]); src != nil && found[src] {
							found[o] = true
							changed = true
						}
					}
					return true
				})
			}
			// the flags the function actually consults (a flag that is only copied into another one is judged there)
			consulted := map[types.Object]bool{}
			for _, b := range r.F.G.Blocks {
				if cond, _ := r.F.Cond(b); cond != nil {
					ast.Inspect(cond, func(x ast.Node) bool {
						if id, ok := x.(*ast.Ident); ok {
							if o := objOf(info, id); o != nil && found[o] {
								consulted[o] = true
							}
						}
						return true
					})
				}
			}
			world := func(has bool) func(b *cfgBlock, i int) bool {
				return r.F.World(func(atom ast.Expr) (bool, bool) {
					if o := objOf(info, atom); o != nil && found[o] {
						return has, true
					}
					return false, false
				})
			}
			// definitions of the list: from a mapping lookup (LookupMulti result / slice literal of the Lookup result) or
			// the fallback (slice literal of the normalised address)
			var normObj types.Object
			ast.Inspect(r.FI.Decl.Body, func(n ast.Node) bool {
				if as, ok := n.(*ast.AssignStmt); ok && len(as.Rhs) == 1 {
					if call, ok := ast.Unparen(as.Rhs[0]).(*ast.CallExpr); ok {
						if fv := fieldOf(info, call.Fun); fv != nil && objName(fv) == "fromNorm" {
							normObj = objOf(info, as.Lhs[0])
						}
					}
				}
				return true
			})
			classify := func(has bool) (fromMap, fallback, other bool) {
				w := world(has)
				isDef := func(q Pt) bool { return q.Node() != nil && assignsObj(info, q.Node(), lst) }
				for _, dp := range r.F.Points() {
					if dp.Node() == nil || !isDef(dp) {
						continue
					}
					if _, f := r.F.Reach(Query{From: []Pt{dp}, Target: func(q Pt) bool { return q == azPt }, Avoid: func(q Pt) bool { return q != azPt && isDef(q) }, AvoidEdge: w}); !f {
						continue
					}
					if _, f := r.F.Reach(Query{From: r.Entry(), Inclusive: true, Target: func(q Pt) bool { return q == dp }, AvoidEdge: w}); !f {
						continue
					}
					as, _ := dp.Node().(*ast.AssignStmt)
					if as == nil {
						if _, isSpec := dp.Node().(*ast.ValueSpec); isSpec {
							continue // zero declaration
						}
						other = true
						continue
					}
					for i, l := range as.Lhs {
						if objOf(info, l) != lst {
							continue
						}
						var rhs ast.Expr
						if len(as.Rhs) == len(as.Lhs) {
							rhs = as.Rhs[i]
						} else if len(as.Rhs) == 1 {
							rhs = as.Rhs[0]
						}
						switch {
						case rhs == nil:
							other = true
						case normObj != nil && mentions(info, rhs, normObj) && func() bool { _, isLit := ast.Unparen(rhs).(*ast.CompositeLit); return isLit }():
							fallback = true
						default:
							isLookup := false
							ast.Inspect(rhs, func(x ast.Node) bool {
								if call, ok := x.(*ast.CallExpr); ok && (methodName(call) == "LookupMulti" || methodName(call) == "Lookup") {
									isLookup = true
								}
								if id, ok := x.(*ast.Ident); ok {
									if o := objOf(info, id); o != nil && o != normObj {
										if def, n := localDef(info, r.FI.Decl.Body, o); n >= 1 && def != nil {
											if call, ok := ast.Unparen(def).(*ast.CallExpr); ok && (methodName(call) == "Lookup" || methodName(call) == "LookupMulti") {
												isLookup = true
											}
										}
									}
								}
								return true
							})
							if isLookup {
								fromMap = true
							} else {
								other = true
							}
						}
					}
				}
				return
			}
			m1, f1, o1 := classify(true)
			m2, f2, o2 := classify(false)
			// the flag is set by a lookup on every path that reaches the entitlement lookup (not left at its zero value,
			// which reads "no translation")
			unset := ""
			for o := range found {
				o := o
				if !consulted[o] {
					continue
				}
				sets := func(q Pt) bool {
					as, ok := q.Node().(*ast.AssignStmt)
					if !ok {
						return false
					}
					for _, l := range as.Lhs {
						if objOf(info, l) == o {
							return true
						}
					}
					return false
				}
				if path, f := r.F.Reach(Query{From: r.Entry(), Inclusive: true, Target: func(q Pt) bool { return q == azPt }, Avoid: func(q Pt) bool { return q != azPt && sets(q) }}); f {
					unset = r.F.Describe(path)
				}
			}
			switch {
			case unset != "":
				msg = "the 'found' flag of the prepare_email lookup is left at its zero value on a path to the entitlement lookup: a translation that exists is ignored and the untranslated address is judged: " + unset
			case len(consulted) == 0:
				msg = "undecided: no 'found' flag of the prepare_email lookup is consulted"
			case o1 || o2:
				msg = "the address list handed to the entitlement lookup can be something other than the mapping's translation or the normalised address"
			case !m1 || f1:
				msg = "although the prepare_email mapping has an entry for the address, the entitlement lookup judges the untranslated address (an alias of somebody else's mailbox is authorized by its spelling)"
			case m2 && !f2:
				msg = "without an entry in the prepare_email mapping the entitlement lookup is not given the normalised address"
			}
		}
		c.Hold("R3b", "authzSender:translation-used", r.FI.Decl.Pos(), msg == "", msg)
	}

	// ---- R7: acceptance only over a positive entitlement answer
	c.Rule("R7", "authzSender accepts (returns a result without a reason) only on the path where the entitlement lookup answered true without an error – not from a cache, a default or an earlier verdict", 1)
	if r != nil {
		info := r.Info
		isAz := calling("~/internal/authz.AuthorizeEmailUse")
		azPts := r.Calls(isAz)
		accepting := func(pt Pt) bool {
			k, ret := r.F.Exit(pt)
			if k == ExitFallOff {
				return true
			}
			if ret == nil {
				return false
			}
			if len(ret.Results) != 1 {
				return true
			}
			return !c15Refusal(c.P, r.FI, info, ret.Results[0], 0)
		}
		msg := ""
		if len(azPts) != 1 {
			msg = "undecided: expected exactly one entitlement lookup"
		} else {
			ap := azPts[0]
			as, _ := ap.Node().(*ast.AssignStmt)
			var okVar, errVar types.Object
			if as != nil && len(as.Lhs) == 2 {
				okVar, errVar = objOf(info, as.Lhs[0]), objOf(info, as.Lhs[1])
			}
			if okVar == nil || errVar == nil {
				msg = "undecided: the answer of the entitlement lookup is not kept in two variables"
			} else {
				if path, f := r.F.Reach(Query{From: r.Entry(), Inclusive: true, Target: accepting, Avoid: isPt(azPts)}); f {
					msg = "the sender is accepted without asking the entitlement mapping: " + r.F.Describe(path)
				} else if path, f := r.F.ReachRefined(ap, okVar, true, true, accepting, isPt(azPts)); f {
					msg = "the sender is accepted although the entitlement lookup answered false: " + r.F.Describe(path)
				} else if path, f := r.F.ReachRefined(ap, errVar, false, false, accepting, isPt(azPts)); f {
					msg = "the sender is accepted although the entitlement lookup failed: " + r.F.Describe(path)
				}
			}
		}
		c.Hold("R7", "authzSender:accept-only-if-entitled", r.FI.Decl.Pos(), msg == "", msg)
	}

	// ---- R2
	c.Rule("R2", "CheckSender and CheckBody pass the session's authenticated user to authzSender; CheckBody accepts only over an accepting authorization result", 2)
	isAuthz := calling("~/" + authzSenderRel + ".state.authzSender")
	for _, m := range []string{"CheckSender", "CheckBody"} {
		rm := c.need("R2", authzSenderRel, "state", m)
		if rm == nil {
			continue
		}
		info := rm.Info
		calls := rm.Calls(isAuthz)
		msg := ""
		if len(calls) == 0 {
			msg = m + " never authorizes"
		}
		for _, pt := range calls {
			call := rm.CallAt(pt, isAuthz)
			o := objOf(info, call.Args[1])
			def, _ := localDef(info, rm.FI.Decl.Body, o)
			if def == nil || !isField(info, def, "ConnState", "AuthUser") {
				msg = "authzSender is not given the session's authenticated user"
			}
		}
		if m == "CheckBody" && msg == "" {
			// accepting returns: `return res` where res.Reason == nil was established, or early returns before any header is read
			// (check disabled / locally generated message)
			resObjs := map[types.Object]bool{}
			for _, pt := range calls {
				if as, ok := pt.Node().(*ast.AssignStmt); ok {
					resObjs[objOf(info, as.Lhs[0])] = true
				}
			}
			firstHdr := rm.F.Find(func(n ast.Node) bool {
				hit := false
				inspectNoLit(n, func(x ast.Node) bool {
					if call, ok := x.(*ast.CallExpr); ok && (methodName(call) == "Get" || methodName(call) == "FieldsByKey" || methodName(call) == "Values") {
						hit = true
					}
					return true
				})
				return hit
			})
			// Judged in the world in which every verdict of the decision function is a plain refusal (res.Reason != nil,
			// not temporary): there, handing a verdict on (`return res`) refuses – under whatever condition it is done
			// (`if res.Reason == nil || IsTemporary(res.Reason) { return res }`) – and the only accepting returns are
			// an empty result, or a result variable that does not hold a verdict of the decision function.
			isVerdictReason := func(e ast.Expr) bool {
				s, ok := ast.Unparen(e).(*ast.SelectorExpr)
				return ok && s.Sel.Name == "Reason" && resObjs[objOf(info, s.X)]
			}
			refusals := rm.F.World(func(atom ast.Expr) (bool, bool) {
				atom = ast.Unparen(atom)
				if be, ok := atom.(*ast.BinaryExpr); ok && (be.Op == token.EQL || be.Op == token.NEQ) && isNilIdent(info, be.Y) && isVerdictReason(be.X) {
					return be.Op == token.NEQ, true
				}
				if call, ok := atom.(*ast.CallExpr); ok && len(call.Args) == 1 && isVerdictReason(call.Args[0]) && isCall(info, call, "~/framework/exterrors.IsTemporary", "~/framework/exterrors.IsTemporaryOrUnspec") {
					return false, true
				}
				return false, false
			})
			accept := func(pt Pt) bool {
				_, ret := rm.F.Exit(pt)
				if ret == nil || len(ret.Results) != 1 {
					return false
				}
				e := ast.Unparen(ret.Results[0])
				if cl, ok := e.(*ast.CompositeLit); ok && len(cl.Elts) == 0 {
					return true
				}
				o := objOf(info, e)
				if o == nil {
					return false
				}
				if !resObjs[o] {
					return false
				}
				// a result variable: every definition that reaches the return is a call of the decision function
				defs, okD := rm.ReachingDefs(o, pt, refusals)
				if !okD {
					return true
				}
				for _, d := range defs {
					call, isCall := ast.Unparen(d).(*ast.CallExpr)
					if !isCall || methodName(call) != "authzSender" {
						return true
					}
				}
				return false
			}
			if path, f := rm.F.Reach(Query{From: firstHdr, Target: accept, AvoidEdge: refusals}); f {
				msg = "the header check can accept without an accepting authorization result: " + rm.F.Describe(path)
			}
		}
		c.Hold("R2", "state."+m, rm.FI.Decl.Pos(), msg == "", msg)
	}

	// ---- R2b: nothing but "no network connection" (locally generated) and "header check disabled" skips the authorization
	c.Rule("R2b", "for a message that arrived over a connection (and, for the header stage, with the header check enabled) every accepting outcome of CheckSender / CheckBody comes after an authzSender call", 2)
	for _, m := range []string{"CheckSender", "CheckBody"} {
		rm := c.In(authzSenderRel, "state", m)
		if rm == nil {
			c.Fail("R2b", "state."+m, token.NoPos, "anchor unresolved")
			continue
		}
		info := rm.Info
		calls := rm.Calls(isAuthz)
		w := rm.F.World(func(atom ast.Expr) (bool, bool) {
			atom = ast.Unparen(atom)
			if be, ok := atom.(*ast.BinaryExpr); ok && (be.Op == token.EQL || be.Op == token.NEQ) && isNilIdent(info, be.Y) {
				if fv := fieldOf(info, be.X); fv != nil && objName(fv) == "Conn" {
					return be.Op == token.NEQ, true // there is a connection
				}
			}
			if fv := fieldOf(info, atom); fv != nil && objName(fv) == "checkHeader" {
				return true, true
			}
			return false, false
		})
		acceptingExpr := func(e ast.Expr) bool {
			if e == nil {
				return true // falls off the end, or a value the analysis cannot see
			}
			if call, ok := ast.Unparen(e).(*ast.CallExpr); ok && isAuthz(info, call) {
				return false // the verdict of authzSender itself
			}
			return !c15Refusal(c.P, rm.FI, info, e, 0)
		}
		path, f := rm.ReachBadReturn(rm.Entry(), 0, acceptingExpr, isPt(calls), w)
		c.Hold("R2b", "state."+m, rm.FI.Decl.Pos(), !f && len(calls) > 0, m+" can accept a message received over a connection without asking authzSender (the check is skipped for everybody): "+rm.F.Describe(path))
	}

	// ---- R4
	c.Rule("R4", "a security decision on the message author reads every From field: a function deciding on a repeatable field enumerates it (FieldsByKey) or refuses duplicates; Header.Get returns only the first value", 1)
	c.Rule("R4b", "CheckBody: a From field with several addresses is refused, or every address is authorized", 1)
	if rb := c.In(authzSenderRel, "state", "CheckBody"); rb != nil {
		info := rb.Info
		usesGetFrom, enumerates := false, false
		ast.Inspect(rb.FI.Decl.Body, func(n ast.Node) bool {
			call, ok := n.(*ast.CallExpr)
			if !ok || len(call.Args) != 1 {
				return true
			}
			if s, ok := constString(info, call.Args[0]); ok && strings.EqualFold(s, "From") {
				switch methodName(call) {
				case "Get":
					usesGetFrom = true
				case "FieldsByKey", "Values":
					enumerates = true
				}
			}
			return true
		})
		// when the function enumerates the field only to count it, more than one field must end in a refusal: the counter
		// incremented in the enumeration loop is evaluated as 2
		if enumerates && usesGetFrom {
			var counter types.Object
			ast.Inspect(rb.FI.Decl.Body, func(n ast.Node) bool {
				fs, ok := n.(*ast.ForStmt)
				if !ok {
					return true
				}
				enum := false
				ast.Inspect(fs, func(x ast.Node) bool {
					if call, ok := x.(*ast.CallExpr); ok && (methodName(call) == "FieldsByKey" || methodName(call) == "Values") && len(call.Args) == 1 {
						if sv, ok := constString(info, call.Args[0]); ok && strings.EqualFold(sv, "From") {
							enum = true
						}
					}
					// the iterator may have been obtained before the loop: `f := hdr.FieldsByKey("From"); for f.Next() {`
					if id, ok := x.(*ast.Ident); ok && fs.Cond != nil && posIn(fs.Cond, id.Pos()) {
						if o, ok := info.Uses[id].(*types.Var); ok && !o.IsField() {
							if def, n := localDef(info, rb.FI.Decl.Body, o); n == 1 && def != nil {
								if dc, ok := ast.Unparen(def).(*ast.CallExpr); ok && (methodName(dc) == "FieldsByKey" || methodName(dc) == "Values") && len(dc.Args) == 1 {
									if sv, ok := constString(info, dc.Args[0]); ok && strings.EqualFold(sv, "From") {
										enum = true
									}
								}
							}
						}
					}
					return true
				})
				if enum {
					ast.Inspect(fs.Body, func(x ast.Node) bool {
						if id, ok := x.(*ast.IncDecStmt); ok && id.Tok == token.INC {
							counter = objOf(info, id.X)
						}
						return true
					})
				}
				return true
			})
			if counter != nil {
				w2 := rb.F.ValueWorld(func(e ast.Expr) (constantValue, bool) {
					if id, ok := ast.Unparen(e).(*ast.Ident); ok && objOf(info, id) == counter {
						return makeInt(2), true
					}
					return nil, false
				})
				// from the end of the counting loop every exit is a refusal
				var done []Pt
				for _, b := range rb.F.G.Blocks {
					if fs, ok := b.Stmt.(*ast.ForStmt); ok && b.Kind == kindForDone && mentions(info, fs.Body, counter) {
						done = append(done, Pt{b, 0})
					}
				}
				notRefusal := func(e ast.Expr) bool {
					return e == nil || !c15Refusal(c.P, rb.FI, info, e, 0)
				}
				if path, f := rb.ReachBadReturn(done, 0, notRefusal, nil, w2); f || len(done) == 0 {
					enumerates = false
					_ = path
				}
			} else {
				enumerates = false
			}
		}
		c.Hold("R4", "CheckBody:repeated-From", rb.FI.Decl.Pos(), enumerates || !usesGetFrom, "the header check authorizes only the first From field (Header.Get): a message with a second From field naming a foreign address passes, and clients display that one; the DMARC code (ExtractFromDomain) enumerates FieldsByKey for the same reason")
		// R4b: in the world len(list) > 1 no authzSender call outside a loop over the list is reachable
		var listObj types.Object
		ast.Inspect(rb.FI.Decl.Body, func(n ast.Node) bool {
			if as, ok := n.(*ast.AssignStmt); ok && len(as.Rhs) == 1 {
				if call, ok := ast.Unparen(as.Rhs[0]).(*ast.CallExpr); ok && isCall(info, call, "net/mail.ParseAddressList") {
					listObj = objOf(info, as.Lhs[0])
				}
			}
			return true
		})
		msg := ""
		if listObj == nil {
			msg = "undecided: the From field is not parsed as an address list"
		} else {
			world := rb.F.World(func(atom ast.Expr) (bool, bool) {
				if !mentions(info, atom, listObj) {
					return false, false
				}
				// evaluate len(list) ⋈ k with len = 2
				v, ok := evalExpr(info, atom, func(e ast.Expr) (constantValue, bool) {
					if call, ok := ast.Unparen(e).(*ast.CallExpr); ok {
						if id, ok := call.Fun.(*ast.Ident); ok && id.Name == "len" && len(call.Args) == 1 && objOf(info, call.Args[0]) == listObj {
							return makeInt(2), true
						}
					}
					return nil, false
				})
				if !ok {
					return false, false
				}
				return boolVal(v), true
			})
			inListLoop := func(pt Pt) bool {
				n := pt.Node()
				if n == nil {
					return false
				}
				for _, rs := range rangesIn(rb.FI.Decl.Body, func(rs *ast.RangeStmt) bool { return objOf(info, rs.X) == listObj }) {
					if within(rs.Body, n) {
						return true
					}
				}
				return false
			}
			single := func(pt Pt) bool { return rb.IsCallPt(isAuthz)(pt) && !inListLoop(pt) }
			if path, f := rb.F.Reach(Query{From: rb.Entry(), Inclusive: true, Target: single, AvoidEdge: world}); f {
				msg = "with two addresses in the From field only one of them is authorized (the others can be anyone's): " + rb.F.Describe(path)
			}
		}
		c.Hold("R4b", "CheckBody:address-list", rb.FI.Decl.Pos(), msg == "", msg)
	}

	// ---- R6 entitlement predicate accepts by equality only
	c.Rule("R6", "AuthorizeEmailUse accepts only over an equality between an entitlement entry and the address, its domain or the wildcard", 1)
	if ra := c.need("R6", "internal/authz", "", "AuthorizeEmailUse"); ra != nil {
		info := ra.Info
		accept := func(pt Pt) bool {
			_, ret := ra.F.Exit(pt)
			if ret == nil || len(ret.Results) != 2 {
				return false
			}
			tv, ok := info.Types[ret.Results[0]]
			return ok && tv.Value != nil && tv.Value.String() == "true"
		}
		// the loops over the addresses and over the entitlement entries (any loop form), the domain variable
		var addrLoop, entLoop *ElemLoop
		var domObj types.Object
		pa := paramObjs(ra.FI)["addrs"]
		for _, l := range elemLoops(info, ra.FI.Decl.Body, func(e ast.Expr) bool {
			sl, ok := info.TypeOf(e).Underlying().(*types.Slice)
			return ok && isStringType(sl.Elem())
		}) {
			if pa != nil && objOf(info, l.List) == pa {
				addrLoop = l
			} else if addrLoop != nil && within(addrLoop.Body, l.Stmt) {
				entLoop = l
			}
		}
		ast.Inspect(ra.FI.Decl.Body, func(n ast.Node) bool {
			if as, ok := n.(*ast.AssignStmt); ok && len(as.Rhs) == 1 && len(as.Lhs) == 3 {
				if call, ok := ast.Unparen(as.Rhs[0]).(*ast.CallExpr); ok && isCall(info, call, "~/framework/address.Split") {
					domObj = objOf(info, as.Lhs[1])
				}
			}
			return true
		})
		isEnt := func(e ast.Expr) bool { return entLoop != nil && entLoop.IsElem(e) }
		other := func(e ast.Expr) bool {
			if addrLoop != nil && addrLoop.IsElem(e) {
				return true
			}
			if o := objOf(info, e); o != nil && o == domObj {
				return true
			}
			sv, ok := constString(info, e)
			return ok && sv == "*"
		}
		// the world in which no entry equals the address, its domain or the wildcard
		eqAtoms := ra.F.World(func(atom ast.Expr) (bool, bool) {
			be, ok := ast.Unparen(atom).(*ast.BinaryExpr)
			if !ok || (be.Op != token.EQL && be.Op != token.NEQ) {
				return false, false
			}
			if (isEnt(be.X) && other(be.Y)) || (isEnt(be.Y) && other(be.X)) {
				return be.Op == token.NEQ, true
			}
			return false, false
		})
		eqOK := func(b *cfgBlock, i int) bool {
			// `switch entry { case domain, "*", addr: }` and `switch addr { case entry: }`
			if cond, isCase := ra.F.Cond(b); cond != nil && isCase {
				if tag := ra.F.CaseTag(b); tag != nil && ((isEnt(tag) && other(cond)) || (isEnt(cond) && other(tag))) {
					return i == 0
				}
				return false
			}
			return eqAtoms(b, i)
		}
		var entObj, addrObj types.Object
		if entLoop != nil {
			entObj = entLoop.Idx
			if entLoop.Val != nil {
				entObj = entLoop.Val
			}
		}
		if addrLoop != nil {
			addrObj = addrLoop.ElemObj()
		}
		path, f := ra.F.Reach(Query{From: ra.Entry(), Inclusive: true, Target: accept, AvoidEdge: eqOK})
		// the answer of a single-valued table is an entitlement only when the table found the user: a not-found answer is the
		// empty string, which equals the (empty) domain of an address without one
		msgNF := ""
		nLook := 0
		for _, pt := range ra.F.Points() {
			as, ok := pt.Node().(*ast.AssignStmt)
			if !ok || len(as.Lhs) != 3 || len(as.Rhs) != 1 {
				continue
			}
			call, ok := ast.Unparen(as.Rhs[0]).(*ast.CallExpr)
			if !ok || methodName(call) != "Lookup" {
				continue
			}
			val, okV := objOf(info, as.Lhs[0]), objOf(info, as.Lhs[1])
			if val == nil || okV == nil {
				continue
			}
			nLook++
			usesVal := func(q Pt) bool { return q.Node() != nil && q != pt && mentions(info, q.Node(), val) }
			if path, f := ra.F.ReachRefined(pt, okV, true, true, usesVal, nil); f {
				msgNF = "the value of a lookup that found nothing is used as an entitlement: " + ra.F.Describe(path)
			}
		}
		c.Hold("R6", "AuthorizeEmailUse:not-found-is-no-entitlement", ra.FI.Decl.Pos(), msgNF == "" && nLook > 0, msgNF)
		c.Hold("R6", "AuthorizeEmailUse:equality-only", ra.FI.Decl.Pos(), !f && entObj != nil && addrObj != nil, "the entitlement lookup can accept without an equality between an entry and the address / its domain / \"*\" (e.g. a suffix or prefix match admits foreign addresses that merely end with an entitled one): "+ra.F.Describe(path))
	}

	// ---- R9: the normalisers are functions. Whether an authenticated name is entitled to an address is decided on the
	// normalised forms; every normaliser that can be configured (authz.NormalizeFuncs) answers from its argument alone.
	// A cache shared by the case-folding and the case-preserving profile (keyed by the address only) makes the answer for
	// `Alice@…` under one profile depend on whether the other profile was asked first – a failed login attempt is enough.
	c.Rule("R9", "every configurable normaliser (authz.NormalizeFuncs: auto, PRECIS profiles, …) is pure inside maddy: no package-level mutable state, cache, clock or environment in its call cone", 3)
	for _, nf := range [][3]string{{"internal/authz", "", "NormalizeAuto"}, {"framework/address", "", "PRECISFold"}, {"framework/address", "", "PRECIS"}} {
		fi := c.P.Func(nf[0], nf[1], nf[2])
		if fi == nil {
			c.Fail("R9", nf[2], token.NoPos, "anchor unresolved")
			continue
		}
		ok, msg, pos := pureCone(c, fi)
		if pos == token.NoPos {
			pos = fi.Decl.Pos()
		}
		c.Hold("R9", fi.Pkg.Types.Name()+"."+nf[2]+":pure", pos, ok, nf[2]+" "+msg+": the same name can normalise differently depending on earlier calls – e.g. a case-preserving set-up treats `Alice@…` as `alice@…` after any case-folding lookup of that spelling, and the attacker who owns `alice@…` may send as `Alice@…`")
	}

	// ---- R8: the check is asked. authorize_sender is usually configured where relaying happens – in a destination
	// block; its state is then created lazily, at the first recipient of that block, and sees the envelope sender only
	// through the pipeline's replay of the sender stage. The replay happens before the state is registered, so that a
	// refusal is repeated for the next recipient (a registered state skips the replay: the second RCPT would be
	// accepted and the message relayed under the forged sender), and the stage functions record what to replay on
	// every path. Those are C06's rules R4 / R4d, a clause of this property as well.
	c.Rule("R8", "the pipeline asks a lazily created check state about the sender before registering it, for every recipient block, and records the sender stage for that replay on every path; every recipient block a recipient was routed to is registered for the body stage (C06.R4, R4d, R1c)", 3)
	sub := newCheck("C06", c.P, c.Tier)
	sub.Rule("R4", "", 0)
	sub.Rule("R4d", "", 0)
	sub.Rule("R1c", "", 0)
	c06ReplayOnly(sub)
	for _, o := range sub.obs {
		if o.Rule == "R4" || o.Rule == "R4d" || o.Rule == "R1c" {
			c.Hold("R8", o.Rule+":"+o.Key, o.posRaw, o.OK, o.Msg)
		}
	}
	for f := range sub.funcs {
		c.SawFunc(f)
	}
	// the *_action directives of authorize_sender are parsed by the shared action parser: a `reject` that loses its
	// flag there is an `ignore` (the verdict is computed, logged, and the message goes on)
	c06ActionParsed(c, "R10")
	c15FileStampIsMTime(c, "R12")
	// a check runs in a goroutine whose recover() only logs: a panic inside the check is a check that "passed". The
	// address validators the check calls on header content are total (C17.R9)
	c.Rule("R13", "the address helpers authorize_sender applies to header content cannot panic: every index / slice operation in framework/address is in bounds (a panicking check goroutine is recovered and counts as passed) (C17.R9)", 0)
	boundsRule(c, "R13", []string{"framework/address"})
	c.Rule("R14", "the keys identities and entitlements are compared under are made with letter-to-letter lower-casing, never with full case folding: ß/ss and ς/σ spellings are different registrable domains and keep different keys (C17.R4)", 1)
	importRules(c, "C17", func(s *Check) { s.Rule("R4", "key chains", 0); c17Chains(s) }, map[string]bool{"R4": true}, "R14")
	c06RejectWins(c, "R15")
	c14FullMatchAnchorsWhole(c, "R16")
	c15NormalizerTable(c, "R17")
	c.Rule("R19", "PLAIN: an authorization identity different from the authentication identity is refused before any authentication – the entitlement lookup runs for the user whose password was checked (C14.R6)", 1)
	importRules(c, "C14", c14Mapping, map[string]bool{"R6": true}, "R19")
	// which source block – and so which checks – a sender gets is decided on the normalised address, domain rule
	// included: a spelling that misses `source example.org { check { authorize_sender } }` (trailing dot, case) falls
	// through to default_source and is never asked for authorization
	c.Rule("R11", "the pipeline selects the sender's source block with the normalised address for table, full-address and domain rules (C04.R1r)", 1)
	{
		sub := newCheck("C04", c.P, c.Tier)
		sub.Rule("R1r", "", 0)
		sub.Rule("R2", "", 0)
		c04Selectors(sub)
		for _, o := range sub.obs {
			if o.Rule == "R1r" {
				c.Hold("R11", o.Key, o.posRaw, o.OK, o.Msg)
			}
		}
		for f := range sub.funcs {
			c.SawFunc(f)
		}
	}
}

// c15Refusal: the expression is a check result carrying a reason – X.Apply(CheckResult{Reason: non-nil}), a
// CheckResult literal with a non-nil Reason, or a call of a function of the same package all of whose returns are.
func c15Refusal(p *Prog, fi *FuncInfo, info *types.Info, e ast.Expr, depth int) bool {
	e = ast.Unparen(e)
	hasReason := func(n ast.Node) bool {
		found := false
		ast.Inspect(n, func(x ast.Node) bool {
			if kv, ok := x.(*ast.KeyValueExpr); ok {
				if id, ok := kv.Key.(*ast.Ident); ok && id.Name == "Reason" && !isNilIdent(info, kv.Value) {
					found = true
				}
			}
			return true
		})
		return found
	}
	switch x := e.(type) {
	case *ast.CompositeLit:
		return hasReason(x)
	case *ast.CallExpr:
		if methodName(x) == "Apply" && len(x.Args) == 1 {
			if c15Refusal(p, fi, info, x.Args[0], depth) {
				return true
			}
		}
		fn := callee(info, x)
		if fn == nil || depth >= 2 || fn.Pkg() == nil || fn.Pkg() != fi.Obj.Pkg() {
			return false
		}
		d := p.DeclOf(fn)
		if d == nil || d.Decl.Body == nil {
			return false
		}
		all, n := true, 0
		inspectNoLit(d.Decl.Body, func(y ast.Node) bool {
			if ret, ok := y.(*ast.ReturnStmt); ok {
				n++
				if len(ret.Results) != 1 || !c15Refusal(p, d, d.Info(), ret.Results[0], depth+1) {
					all = false
				}
			}
			return true
		})
		return all && n > 0
	}
	return false
}

// c15ErrAction: the expression is the configured error action applied to a result that carries a reason –
// `X.errAction.Apply(CheckResult{Reason: …})` – or a call of a function of the package every return of which is.
func c15ErrAction(p *Prog, fi *FuncInfo, info *types.Info, e ast.Expr, depth int) bool {
	call, ok := ast.Unparen(e).(*ast.CallExpr)
	if !ok {
		return false
	}
	if methodName(call) == "Apply" {
		fv := fieldOf(info, callRecv(call))
		if fv == nil || objName(fv) != "errAction" {
			return false
		}
		hasReason := false
		ast.Inspect(call, func(n ast.Node) bool {
			if kv, ok := n.(*ast.KeyValueExpr); ok {
				if id, ok := kv.Key.(*ast.Ident); ok && id.Name == "Reason" && !isNilIdent(info, kv.Value) {
					hasReason = true
				}
			}
			return true
		})
		return hasReason
	}
	fn := callee(info, call)
	if fn == nil || depth >= 2 || fn.Pkg() != fi.Obj.Pkg() {
		return false
	}
	d := p.DeclOf(fn)
	if d == nil || d.Decl.Body == nil {
		return false
	}
	all, n := true, 0
	inspectNoLit(d.Decl.Body, func(y ast.Node) bool {
		if ret, ok := y.(*ast.ReturnStmt); ok {
			n++
			if len(ret.Results) != 1 || !c15ErrAction(p, d, d.Info(), ret.Results[0], depth+1) {
				all = false
			}
		}
		return true
	})
	return all && n > 0
}
