package main

import (
	"fmt"
	"go/ast"
	"go/token"
	"go/types"
	"reflect"
	"strings"

	"golang.org/x/tools/go/ast/astutil"
)

// Helper-extraction tolerance. Rules name the functions of the reference tree and look at their bodies. When a
// maintainer moves part of such a body into a NEW helper function ("extract method"), every rule on that body would
// fail closed – an alarm on a harmless edit. Before the rules run, the syntax trees are therefore normalised: a
// call of a function that the reference tree did not have (its package/receiver/name is not in the anchors index and
// it is not the renamed form of a reference function) is replaced, at statement level, by a copy of the helper's
// body:
//
//	x, err := s.helper(a, b)      p1 := a; p2 := b            (parameters of the helper, its own objects)
//	                          ⇒   …copy of the body, `return e1, e2` → `_r1, _r2 = e1, e2; goto _end`…
//	                              _end: ;
//	                              x, err := _r1, _r2
//
// `go helper(a)` / `defer helper(a)` become `go func(){ … }()`. Calls in conditions and initialisers of if / switch
// are hoisted in front of the statement; calls in the right operand of && / || and in loop conditions are left
// alone. Helpers with defer / recover (inlining would move the deferred call to the caller's exit), variadic,
// generic and recursive helpers are not inlined. The trees are only analysed, never compiled, so evaluation-order
// liberties of the hoisting do not matter. Type information is extended for the synthetic nodes (the copy shares
// the helper's objects). go/ssa is built from the unmodified trees first. On the reference tree there is no new
// function and this pass does nothing.
type inlineState struct {
	p         *Prog
	isNew     map[*types.Func]*FuncInfo
	tailOnly  map[*types.Func]bool // helpers with defer / recover: inlined only where their return is the caller's return
	quasiTail bool                 // the statement being processed is followed only by a return of plain names
	n         int
	notes     []string
	localLit  map[types.Object]*types.Func // local closures that are only called: read in place like new helpers
}

// inlinedAwayNow: the set of the program being analysed (one program per process at a time)
var inlinedAwayNow map[*types.Func]bool

func (p *Prog) applyInlining() {
	inlinedAwayNow = nil
	rs := p.renames()
	if len(rs.index) == 0 {
		return
	}
	st := &inlineState{p: p, isNew: map[*types.Func]*FuncInfo{}, tailOnly: map[*types.Func]bool{}}
	for _, pk := range p.ServerPkgs() {
		rel := strings.TrimPrefix(strings.TrimPrefix(pk.PkgPath, modPath), "/")
		pk := pk
		p.AllFuncs([]*packagesPkg{pk}, func(fi *FuncInfo) {
			if fi.Decl.Body == nil || strings.HasSuffix(p.Fset.Position(fi.Decl.Pos()).Filename, "_test.go") {
				return
			}
			if rs.names[rel+"|"+recvTypeName(fi.Decl)+"|"+fi.Obj.Name()] {
				return
			}
			if refName(fi.Obj) != fi.Obj.Name() {
				return // a renamed anchor
			}
			ok, tail := inlinable(fi)
			if !ok {
				return
			}
			st.isNew[fi.Obj] = fi
			st.tailOnly[fi.Obj] = tail
		})
	}
	// (local closures that are only called are read in place as well, so the pass runs on the reference tree too)
	p.newHelpers = map[*types.Func]bool{}
	for fn := range st.isNew {
		p.newHelpers[fn] = true
	}
	p.SSA() // from the unmodified trees
	for _, pk := range p.ServerPkgs() {
		info := pk.TypesInfo
		for _, file := range pk.Syntax {
			if strings.HasSuffix(p.Fset.Position(file.Pos()).Filename, "_test.go") {
				continue
			}
			for _, d := range file.Decls {
				fd, ok := d.(*ast.FuncDecl)
				if !ok || fd.Body == nil {
					continue
				}
				obj, _ := info.Defs[fd.Name].(*types.Func)
				// the generic per-function rules (E1–E4) keep looking at the body as written
				if obj != nil && st.callsNew(pk, fd.Body) {
					m := map[ast.Node]ast.Node{}
					orig := cloneNode(fd.Body, m).(*ast.BlockStmt)
					copyInfo(info, m)
					if p.origBody == nil {
						p.origBody = map[*types.Func]*ast.BlockStmt{}
						p.newCallees = map[*types.Func][]*types.Func{}
					}
					p.origBody[obj] = orig
					seen := map[*types.Func]bool{}
					ast.Inspect(fd.Body, func(n ast.Node) bool {
						if call, ok := n.(*ast.CallExpr); ok {
							if fn := callee(info, call); fn != nil && st.isNew[fn] != nil && !seen[fn] {
								seen[fn] = true
								p.newCallees[obj] = append(p.newCallees[obj], fn)
							}
						}
						return true
					})
				}
				func() {
					defer func() {
						if r := recover(); r != nil {
							st.notes = append(st.notes, fmt.Sprintf("helper inlining gave up in %s: %v", fd.Name.Name, r))
						}
					}()
					st.funcBody(pk, fd.Body, []*types.Func{obj})
				}()
			}
		}
	}
	p.flowCache = map[ast.Node]*Flow{}
	p.inlineNotes = st.notes
	// helpers without a remaining call are analysed only as part of their callers
	left := map[*types.Func]bool{}
	for _, pk := range p.ServerPkgs() {
		for _, file := range pk.Syntax {
			if strings.HasSuffix(p.Fset.Position(file.Pos()).Filename, "_test.go") {
				continue
			}
			ast.Inspect(file, func(n ast.Node) bool {
				if id, ok := n.(*ast.Ident); ok {
					if fn, isFn := pk.TypesInfo.Uses[id].(*types.Func); isFn && st.isNew[fn] != nil {
						left[fn] = true
					}
				}
				return true
			})
		}
	}
	p.inlinedAway = map[*types.Func]bool{}
	for fn := range st.isNew {
		// (a new function that no call was read in place for – a method reached only through an interface, a function
		// only used as a value – is analysed on its own like any other)
		if !left[fn] && p.inlinedN[fn] > 0 {
			p.inlinedAway[fn] = true
		}
	}
	inlinedAwayNow = p.inlinedAway
}

func inlinable(fi *FuncInfo) (ok bool, tailOnly bool) {
	sig := fi.Obj.Type().(*types.Signature)
	if sig.Variadic() || sig.TypeParams() != nil || sig.RecvTypeParams() != nil {
		return false, false
	}
	ok = true
	movable := movableDefers(fi.Decl.Body)
	inspectNoLit(fi.Decl.Body, func(n ast.Node) bool {
		switch x := n.(type) {
		case *ast.DeferStmt:
			if !movable[x] {
				tailOnly = true
			}
		case *ast.CallExpr:
			if id, isID := x.Fun.(*ast.Ident); isID && id.Name == "recover" {
				tailOnly = true
			}
		case *ast.LabeledStmt, *ast.BranchStmt:
			// labels of the helper would have to be renamed per copy; goto-free helpers with labelled loops are rare
			if b, isB := x.(*ast.BranchStmt); isB && b.Label == nil {
				return true
			}
			ok = false
		}
		return ok
	})
	return ok, tailOnly
}

// funcBody processes a function (or function-literal) body and the bodies of the literals nested in it.
func (st *inlineState) funcBody(pk *packagesPkg, body *ast.BlockStmt, stack []*types.Func) {
	st.registerLocalClosures(pk, body)
	var lits []*ast.FuncLit
	ast.Inspect(body, func(n ast.Node) bool {
		if fl, ok := n.(*ast.FuncLit); ok {
			lits = append(lits, fl)
		}
		return true
	})
	st.tailStmt(pk, body, stack)
	body.List = st.stmts(pk, body.List, stack)
	for _, fl := range lits {
		st.tailStmt(pk, fl.Body, stack)
		fl.Body.List = st.stmts(pk, fl.Body.List, stack)
	}
	st.dropInlinedClosures(pk, body)
}

// dropInlinedClosures removes `name := func…` statements whose every call was read in place (a literal that is never
// called any more would be taken for a callback that escapes).
func (st *inlineState) dropInlinedClosures(pk *packagesPkg, body *ast.BlockStmt) {
	info := pk.TypesInfo
	if len(st.localLit) == 0 {
		return
	}
	used := map[types.Object]bool{}
	ast.Inspect(body, func(n ast.Node) bool {
		if id, ok := n.(*ast.Ident); ok {
			if o := info.Uses[id]; o != nil && st.localLit[o] != nil {
				used[o] = true
			}
		}
		return true
	})
	astutil.Apply(body, func(c *astutil.Cursor) bool {
		as, ok := c.Node().(*ast.AssignStmt)
		if !ok || as.Tok != token.DEFINE || len(as.Lhs) != 1 || len(as.Rhs) != 1 {
			return true
		}
		id, isID := as.Lhs[0].(*ast.Ident)
		if !isID {
			return true
		}
		o := info.Defs[id]
		if o == nil || st.localLit[o] == nil || used[o] {
			return true
		}
		if _, isLit := ast.Unparen(as.Rhs[0]).(*ast.FuncLit); !isLit {
			return true
		}
		// only where the cursor can delete (statement lists)
		if c.Index() >= 0 {
			c.Delete()
		}
		return false
	}, nil)
}

// tailStmt: a helper call that is the last statement of a body returns where the body returns.
func (st *inlineState) tailStmt(pk *packagesPkg, body *ast.BlockStmt, stack []*types.Func) {
	for i := 0; i < 6 && len(body.List) > 0; i++ {
		es, ok := body.List[len(body.List)-1].(*ast.ExprStmt)
		if !ok {
			return
		}
		call, ok := ast.Unparen(es.X).(*ast.CallExpr)
		if !ok {
			return
		}
		h := st.eligibleT(pk, call, stack, true)
		if h == nil || !st.tailOnly[h.Obj] || h.Obj.Type().(*types.Signature).Results().Len() != 0 {
			return // ordinary helpers are handled by the general case
		}
		body.List = append(body.List[:len(body.List)-1:len(body.List)-1], st.tailBody(pk, call, h, stack)...)
		stack = append(append([]*types.Func{}, stack...), h.Obj)
	}
}

// tailBody: parameters bound, body copied, returns kept.
func (st *inlineState) tailBody(pk *packagesPkg, call *ast.CallExpr, h *FuncInfo, stack []*types.Func) []ast.Stmt {
	info := pk.TypesInfo
	pos := call.Pos()
	mapping := map[ast.Node]ast.Node{}
	body := cloneNode(h.Decl.Body, mapping).(*ast.BlockStmt)
	copyInfo(info, mapping)
	delta := st.shift(h)
	shiftPos(reflect.ValueOf(body), delta)
	fresh := freshenLocals(pk, body, sigObjs(info, h), delta)
	freshSet := map[types.Object]bool{}
	for _, nv := range fresh {
		freshSet[nv] = true
	}
	for nv := range freshSet {
		inlineFresh[nv] = true
	}
	for _, nn := range mapping {
		inlinedNodes[nn] = true
	}
	lastFresh = freshSet
	lastParams = map[types.Object]bool{}
	addP := func(fl *ast.FieldList) {
		if fl == nil {
			return
		}
		for _, f := range fl.List {
			for _, nm := range f.Names {
				if o := info.Defs[nm]; o != nil && fresh[o] != nil {
					lastParams[fresh[o]] = true
				}
			}
		}
	}
	addP(h.Decl.Recv)
	addP(h.Decl.Type.Params)
	var pre []ast.Stmt
	bind := func(names []*ast.Ident, arg ast.Expr) {
		if len(names) == 0 || names[0].Name == "_" {
			return
		}
		orig := info.Defs[names[0]]
		obj := orig
		if f := fresh[orig]; f != nil {
			obj = f
		}
		if obj != nil && pureExpr(arg) && !assignedOrAddressed(info, h.Decl.Body, orig) {
			substituteObj(info, body, obj, arg)
			return
		}
		id := st.newIdent(pk, names[0].Name, pos, obj, true)
		pre = append(pre, &ast.AssignStmt{Lhs: []ast.Expr{id}, TokPos: pos, Tok: token.DEFINE, Rhs: []ast.Expr{arg}})
	}
	if h.Decl.Recv != nil && len(h.Decl.Recv.List) == 1 {
		if sel, ok := ast.Unparen(call.Fun).(*ast.SelectorExpr); ok {
			bind(h.Decl.Recv.List[0].Names, sel.X)
		}
	}
	ai := 0
	for _, fld := range h.Decl.Type.Params.List {
		if len(fld.Names) == 0 {
			ai++
			continue
		}
		for _, nm := range fld.Names {
			bind([]*ast.Ident{nm}, call.Args[ai])
			ai++
		}
	}
	st.registerLitArgs(pk, h, call, body, fresh)
	st.funcBody(pk, body, append(append([]*types.Func{}, stack...), h.Obj))
	st.notes = append(st.notes, "new helper "+h.Name()+" in return position at "+st.p.Pos(call.Pos())+" read in place")
	st.p.noteInlinedCall(call)
	st.p.noteInlinedHelper(h.Obj)
	return append(pre, body.List...)
}

func (st *inlineState) stmts(pk *packagesPkg, list []ast.Stmt, stack []*types.Func) []ast.Stmt {
	var out []ast.Stmt
	for i, s := range list {
		// a helper with defer whose call is followed only by `return <names>`: its deferred calls run where the
		// caller's return runs
		st.quasiTail = false
		if i+2 == len(list) {
			if ret, isRet := list[i+1].(*ast.ReturnStmt); isRet {
				pure := true
				for _, e := range ret.Results {
					pure = pure && pureExpr(e)
				}
				st.quasiTail = pure
			}
		}
		out = append(out, st.stmt(pk, s, stack, 0)...)
	}
	st.quasiTail = false
	return out
}

func (st *inlineState) block(pk *packagesPkg, b *ast.BlockStmt, stack []*types.Func) {
	if b != nil {
		b.List = st.stmts(pk, b.List, stack)
	}
}

// stmt returns the statements that replace s.
func (st *inlineState) stmt(pk *packagesPkg, s ast.Stmt, stack []*types.Func, round int) []ast.Stmt {
	if s == nil {
		return nil
	}
	// nested statement lists first
	if round == 0 {
		switch x := s.(type) {
		case *ast.BlockStmt:
			st.block(pk, x, stack)
		case *ast.IfStmt:
			st.block(pk, x.Body, stack)
			switch e := x.Else.(type) {
			case *ast.BlockStmt:
				st.block(pk, e, stack)
			case *ast.IfStmt:
				r := st.stmt(pk, e, stack, 0)
				if len(r) != 1 || r[0] != ast.Stmt(e) {
					x.Else = &ast.BlockStmt{Lbrace: e.Pos(), List: r, Rbrace: e.End()}
				}
			}
		case *ast.ForStmt:
			st.block(pk, x.Body, stack)
		case *ast.RangeStmt:
			st.block(pk, x.Body, stack)
		case *ast.SwitchStmt:
			st.clauses(pk, x.Body, stack)
		case *ast.TypeSwitchStmt:
			st.clauses(pk, x.Body, stack)
		case *ast.SelectStmt:
			st.clauses(pk, x.Body, stack)
		case *ast.LabeledStmt:
			r := st.stmt(pk, x.Stmt, stack, 0)
			if len(r) == 1 {
				x.Stmt = r[0]
			} else if len(r) > 1 {
				// the hoisted part goes in front of the label's statement; the label stays on the statement itself
				x.Stmt = r[len(r)-1]
				return append(r[:len(r)-1:len(r)-1], x)
			}
			return []ast.Stmt{s}
		}
	}
	if round > 12 {
		return []ast.Stmt{s}
	}
	info := pk.TypesInfo
	_ = info
	// go / defer of a helper
	switch x := s.(type) {
	case *ast.GoStmt:
		if h := st.eligibleT(pk, x.Call, stack, true); h != nil {
			x.Call = st.asLiteralCall(pk, x.Call, h, stack)
			return []ast.Stmt{s}
		}
	case *ast.ReturnStmt:
		// `return helper(…)`: the helper's returns are the caller's returns – also for helpers with defer
		if len(x.Results) == 1 {
			if call, isCall := ast.Unparen(x.Results[0]).(*ast.CallExpr); isCall {
				if h := st.eligibleT(pk, call, stack, true); h != nil {
					return st.restmts(pk, st.tailBody(pk, call, h, stack), stack, round)
				}
			}
		}
	case *ast.DeferStmt:
		if h := st.eligibleT(pk, x.Call, stack, true); h != nil {
			x.Call = st.asLiteralCall(pk, x.Call, h, stack)
			return []ast.Stmt{s}
		}
	}
	// header expressions in which a call may be hoisted
	var headers []ast.Node
	wrap := false // the statement has its own scope for the hoisted part (if / switch with init)
	switch x := s.(type) {
	case *ast.ExprStmt:
		headers = []ast.Node{x}
	case *ast.AssignStmt, *ast.ReturnStmt, *ast.IncDecStmt, *ast.SendStmt, *ast.DeclStmt:
		headers = []ast.Node{x}
	case *ast.GoStmt:
		for _, a := range x.Call.Args {
			headers = append(headers, a)
		}
	case *ast.DeferStmt:
		for _, a := range x.Call.Args {
			headers = append(headers, a)
		}
	case *ast.IfStmt:
		if x.Init != nil {
			headers = append(headers, x.Init)
		}
		headers = append(headers, x.Cond)
		wrap = true
	case *ast.SwitchStmt:
		if x.Init != nil {
			headers = append(headers, x.Init)
		}
		if x.Tag != nil {
			headers = append(headers, x.Tag)
		}
		wrap = true
	case *ast.RangeStmt:
		headers = []ast.Node{x.X}
	}
	for _, h := range headers {
		call, helper := st.findCall(pk, h, stack)
		if call == nil {
			continue
		}
		// `x, y := helper(…)` / `x, y = helper(…)` with plain names on the left: the helper's returns assign x and y directly
		var lhsObjs []types.Object
		if as, isAs := h.(*ast.AssignStmt); isAs && len(as.Rhs) == 1 && ast.Unparen(as.Rhs[0]) == ast.Expr(call) && helper.Obj.Type().(*types.Signature).Results().Len() == len(as.Lhs) && len(as.Lhs) > 0 && (s == ast.Stmt(as) || initOf(s) == ast.Stmt(as)) {
			all := true
			for _, l := range as.Lhs {
				id, isID := ast.Unparen(l).(*ast.Ident)
				if !isID {
					all = false
					break
				}
				if id.Name == "_" {
					lhsObjs = append(lhsObjs, nil)
					continue
				}
				o := info.Defs[id]
				if o == nil {
					o = info.Uses[id]
				}
				if _, isVar := o.(*types.Var); !isVar {
					all = false
					break
				}
				lhsObjs = append(lhsObjs, o)
			}
			if !all {
				lhsObjs = nil
			}
		}
		pre, results, ok := st.instantiate(pk, call, helper, stack, lhsObjs)
		if !ok {
			continue
		}
		if lhsObjs != nil && results == nil {
			// the assignment is expressed by the copy's returns
			if initOf(s) == h {
				switch x := s.(type) {
				case *ast.IfStmt:
					x.Init = nil
				case *ast.SwitchStmt:
					x.Init = nil
				}
				inner := st.stmt(pk, s, stack, round+1)
				return []ast.Stmt{&ast.BlockStmt{Lbrace: s.Pos(), List: append(st.restmts(pk, pre, stack, round), inner...), Rbrace: s.End()}}
			}
			return st.restmts(pk, pre, stack, round)
		}
		nres := len(results)
		// `x, y := helper()` where the helper ends in `return a, b` with a, b locals of the helper: a and b ARE x and y
		if as, isAs := h.(*ast.AssignStmt); isAs && len(as.Rhs) == 1 && ast.Unparen(as.Rhs[0]) == ast.Expr(call) && len(as.Lhs) == nres && nres > 0 {
			if unifyResults(info, as, results, helper, pre) {
				return st.restmts(pk, pre, stack, round)
			}
		}
		var repl []ast.Stmt
		switch {
		case nres == 0:
			es, isES := s.(*ast.ExprStmt)
			if !isES || ast.Unparen(es.X) != ast.Expr(call) {
				continue
			}
			repl = pre
			return st.restmts(pk, repl, stack, round)
		case nres == 1:
			if es, isES := s.(*ast.ExprStmt); isES && ast.Unparen(es.X) == ast.Expr(call) {
				return st.restmts(pk, pre, stack, round)
			}
			replaceExpr(s, call, results[0])
		default:
			done := false
			switch x := h.(type) {
			case *ast.AssignStmt:
				if len(x.Rhs) == 1 && ast.Unparen(x.Rhs[0]) == ast.Expr(call) {
					x.Rhs = results
					done = true
				}
			case *ast.ReturnStmt:
				if len(x.Results) == 1 && ast.Unparen(x.Results[0]) == ast.Expr(call) {
					x.Results = results
					done = true
				}
			case *ast.DeclStmt:
				if gd, isGD := x.Decl.(*ast.GenDecl); isGD {
					for _, sp := range gd.Specs {
						if vs, isVS := sp.(*ast.ValueSpec); isVS && len(vs.Values) == 1 && ast.Unparen(vs.Values[0]) == ast.Expr(call) {
							vs.Values = results
							done = true
						}
					}
				}
			case *ast.ExprStmt:
				if ast.Unparen(x.X) == ast.Expr(call) {
					return st.restmts(pk, pre, stack, round)
				}
			}
			if !done {
				continue
			}
		}
		_ = info
		if wrap {
			// keep the statement's own variables scoped: { pre…; if … }
			inner := st.stmt(pk, s, stack, round+1)
			blk := &ast.BlockStmt{Lbrace: s.Pos(), List: append(st.restmts(pk, pre, stack, round), inner...), Rbrace: s.End()}
			return []ast.Stmt{blk}
		}
		return append(st.restmts(pk, pre, stack, round), st.stmt(pk, s, stack, round+1)...)
	}
	return []ast.Stmt{s}
}

// restmts re-processes freshly inserted statements (arguments bound to parameters may contain helper calls).
func (st *inlineState) restmts(pk *packagesPkg, list []ast.Stmt, stack []*types.Func, round int) []ast.Stmt {
	var out []ast.Stmt
	for _, s := range list {
		out = append(out, st.stmt(pk, s, stack, round+1)...)
	}
	return out
}

func (st *inlineState) clauses(pk *packagesPkg, body *ast.BlockStmt, stack []*types.Func) {
	if body == nil {
		return
	}
	for _, cl := range body.List {
		switch c := cl.(type) {
		case *ast.CaseClause:
			c.Body = st.stmts(pk, c.Body, stack)
		case *ast.CommClause:
			c.Body = st.stmts(pk, c.Body, stack)
		}
	}
}

// eligible: the helper a call resolves to, if it may be inlined here.
func (st *inlineState) eligible(pk *packagesPkg, call *ast.CallExpr, stack []*types.Func) *FuncInfo {
	return st.eligibleT(pk, call, stack, st.quasiTail)
}

func (st *inlineState) eligibleT(pk *packagesPkg, call *ast.CallExpr, stack []*types.Func, tail bool) *FuncInfo {
	fn := callee(pk.TypesInfo, call)
	if fn == nil {
		if id, isID := ast.Unparen(call.Fun).(*ast.Ident); isID && st.localLit != nil {
			fn = st.localLit[pk.TypesInfo.Uses[id]]
		}
	}
	if fn == nil {
		return nil
	}
	h := st.isNew[fn]
	if h == nil || h.Pkg != pk {
		return nil
	}
	if st.tailOnly[fn] && !tail {
		return nil
	}
	for _, s := range stack {
		if s == fn {
			return nil
		}
	}
	if len(stack) > 5 {
		return nil
	}
	sig := fn.Type().(*types.Signature)
	if len(call.Args) != sig.Params().Len() || call.Ellipsis.IsValid() {
		return nil
	}
	if sig.Recv() != nil {
		sel, ok := ast.Unparen(call.Fun).(*ast.SelectorExpr)
		if !ok {
			return nil
		}
		if s := pk.TypesInfo.Selections[sel]; s == nil || s.Kind() != types.MethodVal {
			return nil
		}
	}
	return h
}

// findCall: the first helper call in n that can be hoisted (pre-order; not inside a function literal, not in the
// right operand of && / ||).
func (st *inlineState) findCall(pk *packagesPkg, n ast.Node, stack []*types.Func) (*ast.CallExpr, *FuncInfo) {
	var found *ast.CallExpr
	var helper *FuncInfo
	var walk func(x ast.Node)
	walk = func(x ast.Node) {
		ast.Inspect(x, func(y ast.Node) bool {
			if found != nil {
				return false
			}
			switch e := y.(type) {
			case *ast.FuncLit:
				return false
			case *ast.BinaryExpr:
				if e.Op == token.LAND || e.Op == token.LOR {
					walk(e.X)
					return false
				}
			case *ast.CallExpr:
				if h := st.eligible(pk, e, stack); h != nil {
					found, helper = e, h
					return false
				}
			}
			return true
		})
	}
	walk(n)
	return found, helper
}

func (st *inlineState) newIdent(pk *packagesPkg, name string, pos token.Pos, obj types.Object, def bool) *ast.Ident {
	id := &ast.Ident{NamePos: pos, Name: name}
	if def {
		pk.TypesInfo.Defs[id] = obj
	} else {
		pk.TypesInfo.Uses[id] = obj
	}
	if obj != nil {
		pk.TypesInfo.Types[id] = types.TypeAndValue{Type: obj.Type()}
	}
	return id
}

// instantiate copies the helper's body for one call site.
func (st *inlineState) instantiate(pk *packagesPkg, call *ast.CallExpr, h *FuncInfo, stack []*types.Func, lhsObjs []types.Object) (pre []ast.Stmt, results []ast.Expr, ok bool) {
	info := pk.TypesInfo
	st.n++
	n := st.n
	label := fmt.Sprintf("_inl%d_end", n)
	pos := call.Pos()
	mapping := map[ast.Node]ast.Node{}
	body := cloneNode(h.Decl.Body, mapping).(*ast.BlockStmt)
	copyInfo(info, mapping)
	delta := st.shift(h)
	shiftPos(reflect.ValueOf(body), delta)
	fresh := freshenLocals(pk, body, sigObjs(info, h), delta)
	freshSet := map[types.Object]bool{}
	for _, nv := range fresh {
		freshSet[nv] = true
	}
	for nv := range freshSet {
		inlineFresh[nv] = true
	}
	for _, nn := range mapping {
		inlinedNodes[nn] = true
	}
	lastFresh = freshSet
	lastParams = map[types.Object]bool{}
	addP := func(fl *ast.FieldList) {
		if fl == nil {
			return
		}
		for _, f := range fl.List {
			for _, nm := range f.Names {
				if o := info.Defs[nm]; o != nil && fresh[o] != nil {
					lastParams[fresh[o]] = true
				}
			}
		}
	}
	addP(h.Decl.Recv)
	addP(h.Decl.Type.Params)
	st.registerLitArgs(pk, h, call, body, fresh)
	// nested helpers inside the copy
	st.funcBody(pk, body, append(append([]*types.Func{}, stack...), h.Obj))

	bind := func(names []*ast.Ident, arg ast.Expr) {
		if len(names) == 0 || names[0].Name == "_" {
			if !pureExpr(arg) {
				blank := &ast.Ident{NamePos: pos, Name: "_"}
				pre = append(pre, &ast.AssignStmt{Lhs: []ast.Expr{blank}, TokPos: pos, Tok: token.ASSIGN, Rhs: []ast.Expr{arg}})
			}
			return
		}
		orig := info.Defs[names[0]]
		obj := orig
		if f := fresh[orig]; f != nil {
			obj = f
		}
		// a parameter that the helper never assigns and whose argument is a plain name / selector / address stands for
		// that argument: the copy then speaks about the caller's own objects
		if obj != nil && pureExpr(arg) && !assignedOrAddressed(info, h.Decl.Body, orig) {
			substituteObj(info, body, obj, arg)
			return
		}
		id := st.newIdent(pk, names[0].Name, pos, obj, true)
		pre = append(pre, &ast.AssignStmt{Lhs: []ast.Expr{id}, TokPos: pos, Tok: token.DEFINE, Rhs: []ast.Expr{arg}})
	}
	if h.Decl.Recv != nil && len(h.Decl.Recv.List) == 1 {
		sel := ast.Unparen(call.Fun).(*ast.SelectorExpr)
		bind(h.Decl.Recv.List[0].Names, sel.X)
	}
	ai := 0
	for _, fld := range h.Decl.Type.Params.List {
		if len(fld.Names) == 0 {
			bind(nil, call.Args[ai])
			ai++
			continue
		}
		for _, nm := range fld.Names {
			bind([]*ast.Ident{nm}, call.Args[ai])
			ai++
		}
	}
	// result variables
	var resObjs []types.Object
	sig := h.Obj.Type().(*types.Signature)
	if h.Decl.Type.Results != nil {
		j := 0
		for _, fld := range h.Decl.Type.Results.List {
			if len(fld.Names) == 0 {
				resObjs = append(resObjs, types.NewVar(pos, pk.Types, fmt.Sprintf("_inl%d_r%d", n, j), sig.Results().At(j).Type()))
				j++
				continue
			}
			for _, nm := range fld.Names {
				if o := info.Defs[nm]; o != nil && nm.Name != "_" {
					if f := fresh[o]; f != nil {
						o = f
					}
					resObjs = append(resObjs, o)
				} else {
					resObjs = append(resObjs, types.NewVar(pos, pk.Types, fmt.Sprintf("_inl%d_r%d", n, j), sig.Results().At(j).Type()))
				}
				j++
			}
		}
	}
	direct := false
	if lhsObjs != nil && len(lhsObjs) == len(resObjs) && len(resObjs) > 0 {
		direct = true
		// a helper local that is the only non-zero value ever returned in a position IS the caller's variable
		cands := make([]map[types.Object]bool, len(resObjs))
		bad := make([]bool, len(resObjs))
		inspectNoLit(body, func(x ast.Node) bool {
			ret, isRet := x.(*ast.ReturnStmt)
			if !isRet {
				return true
			}
			if len(ret.Results) != len(resObjs) {
				if len(ret.Results) != 0 {
					for j := range bad {
						bad[j] = true
					}
				}
				return true
			}
			for j, e := range ret.Results {
				e = ast.Unparen(e)
				if tv, has := info.Types[e]; has && (tv.IsNil() || tv.Value != nil) {
					continue // nil / a constant
				}
				if cl, isCL := e.(*ast.CompositeLit); isCL && len(cl.Elts) == 0 {
					continue // zero struct
				}
				id, isID := e.(*ast.Ident)
				if !isID {
					bad[j] = true
					continue
				}
				y, isVar := info.Uses[id].(*types.Var)
				if !isVar || y.IsField() || !freshSet[y] || isParamObj(info, h, fresh, y) {
					bad[j] = true
					continue
				}
				if cands[j] == nil {
					cands[j] = map[types.Object]bool{}
				}
				cands[j][y] = true
			}
			return true
		})
		used := map[types.Object]bool{}
		rename := func(y, x types.Object) {
			ast.Inspect(body, func(nn ast.Node) bool {
				if id, isID := nn.(*ast.Ident); isID {
					if info.Uses[id] == y {
						info.Uses[id] = x
						id.Name = x.Name()
					}
					if info.Defs[id] == y {
						info.Defs[id] = x
						id.Name = x.Name()
					}
				}
				return true
			})
		}
		for j := range resObjs {
			if lhsObjs[j] == nil {
				continue
			}
			if freshSet[resObjs[j]] && !used[resObjs[j]] {
				// a named result of the helper IS the caller's variable of that position
				used[resObjs[j]] = true
				rename(resObjs[j], lhsObjs[j])
			}
			resObjs[j] = lhsObjs[j]
			if bad[j] || len(cands[j]) != 1 {
				continue
			}
			for y := range cands[j] {
				if used[y] {
					continue
				}
				used[y] = true
				x := lhsObjs[j]
				ast.Inspect(body, func(nn ast.Node) bool {
					if id, isID := nn.(*ast.Ident); isID {
						if info.Uses[id] == y {
							info.Uses[id] = x
							id.Name = x.Name()
						}
						if info.Defs[id] == y {
							info.Defs[id] = x
							id.Name = x.Name()
						}
					}
					return true
				})
			}
		}
	}
	useRes := func() []ast.Expr {
		var out []ast.Expr
		for _, o := range resObjs {
			out = append(out, st.newIdent(pk, o.Name(), pos, o, false))
		}
		return out
	}
	jump := func(at token.Pos) ast.Stmt {
		return &ast.BranchStmt{TokPos: at, Tok: token.GOTO, Label: &ast.Ident{NamePos: at, Name: label}}
	}
	// a helper whose only return is its last statement needs no result variables and no jump
	nret := 0
	inspectNoLit(body, func(x ast.Node) bool {
		if _, isRet := x.(*ast.ReturnStmt); isRet {
			nret++
		}
		return true
	})
	if nret == 1 && len(body.List) > 0 && !direct {
		if ret, isRet := body.List[len(body.List)-1].(*ast.ReturnStmt); isRet && (len(ret.Results) == len(resObjs)) {
			pre = append(pre, body.List[:len(body.List)-1]...)
			st.notes = append(st.notes, "new helper "+h.Name()+" inlined at "+st.p.Pos(call.Pos()))
	st.p.noteInlinedCall(call)
	st.p.noteInlinedHelper(h.Obj)
			return pre, ret.Results, true
		}
	}
	// returns of the copy (not those of nested literals)
	astutil.Apply(body, func(c *astutil.Cursor) bool {
		switch x := c.Node().(type) {
		case *ast.FuncLit:
			return false
		case *ast.ReturnStmt:
			var repl []ast.Stmt
			if len(x.Results) > 0 && len(resObjs) > 0 {
				lhs := useRes()
				if len(x.Results) != len(lhs) && len(x.Results) != 1 {
					panic("return arity")
				}
				// `x, err = x, err` (a result variable unified with the caller's) says nothing
				var l2, r2 []ast.Expr
				if len(lhs) == len(x.Results) {
					for k := range lhs {
						lo := info.Uses[lhs[k].(*ast.Ident)]
						if rid, isID := ast.Unparen(x.Results[k]).(*ast.Ident); isID && info.Uses[rid] == lo && lo != nil {
							continue
						}
						l2, r2 = append(l2, lhs[k]), append(r2, x.Results[k])
					}
				} else {
					l2, r2 = lhs, x.Results
				}
				if len(l2) > 0 {
					repl = append(repl, &ast.AssignStmt{Lhs: l2, TokPos: x.Pos(), Tok: token.ASSIGN, Rhs: r2})
				}
			}
			repl = append(repl, jump(x.Pos()))
			c.Replace(&ast.BlockStmt{Lbrace: x.Pos(), List: repl, Rbrace: x.End()})
			return false
		}
		return true
	}, nil)
	// deferred calls that can be written out at the end of the copy
	var moved []ast.Stmt
	{
		mv := movableDefers(body)
		var kept []ast.Stmt
		for _, bs := range body.List {
			if ds, isDefer := bs.(*ast.DeferStmt); isDefer && mv[ds] {
				moved = append([]ast.Stmt{&ast.ExprStmt{X: ds.Call}}, moved...)
				continue
			}
			kept = append(kept, bs)
		}
		body.List = kept
	}
	pre = append(pre, body.List...)
	// a jump to the label that directly follows it says nothing; a label nobody jumps to is dropped
	if n := len(pre); n > 0 {
		if blk, isBlk := pre[n-1].(*ast.BlockStmt); isBlk && len(blk.List) > 0 {
			if br, isBr := blk.List[len(blk.List)-1].(*ast.BranchStmt); isBr && br.Tok == token.GOTO && br.Label != nil && br.Label.Name == label {
				blk.List = blk.List[:len(blk.List)-1]
				if len(blk.List) == 0 {
					pre = pre[:n-1]
				}
			}
		}
	}
	jumps := false
	for _, ps := range pre {
		ast.Inspect(ps, func(x ast.Node) bool {
			if br, isBr := x.(*ast.BranchStmt); isBr && br.Tok == token.GOTO && br.Label != nil && br.Label.Name == label {
				jumps = true
			}
			return !jumps
		})
	}
	if jumps {
		pre = append(pre, &ast.LabeledStmt{Label: &ast.Ident{NamePos: pos, Name: label}, Colon: pos, Stmt: &ast.EmptyStmt{Semicolon: pos, Implicit: true}})
	}
	pre = append(pre, moved...)
	st.notes = append(st.notes, "new helper "+h.Name()+" inlined at "+st.p.Pos(call.Pos()))
	st.p.noteInlinedCall(call)
	st.p.noteInlinedHelper(h.Obj)
	if direct {
		return pre, nil, true
	}
	return pre, useRes(), true
}

// asLiteralCall: `go h(a)` → `go func(){ p := a; …body… }()`.
func (st *inlineState) asLiteralCall(pk *packagesPkg, call *ast.CallExpr, h *FuncInfo, stack []*types.Func) *ast.CallExpr {
	info := pk.TypesInfo
	pos := call.Pos()
	mapping := map[ast.Node]ast.Node{}
	body := cloneNode(h.Decl.Body, mapping).(*ast.BlockStmt)
	copyInfo(info, mapping)
	delta := st.shift(h)
	shiftPos(reflect.ValueOf(body), delta)
	fresh := freshenLocals(pk, body, sigObjs(info, h), delta)
	freshSet := map[types.Object]bool{}
	for _, nv := range fresh {
		freshSet[nv] = true
	}
	for nv := range freshSet {
		inlineFresh[nv] = true
	}
	for _, nn := range mapping {
		inlinedNodes[nn] = true
	}
	lastFresh = freshSet
	lastParams = map[types.Object]bool{}
	addP := func(fl *ast.FieldList) {
		if fl == nil {
			return
		}
		for _, f := range fl.List {
			for _, nm := range f.Names {
				if o := info.Defs[nm]; o != nil && fresh[o] != nil {
					lastParams[fresh[o]] = true
				}
			}
		}
	}
	addP(h.Decl.Recv)
	addP(h.Decl.Type.Params)
	var pre []ast.Stmt
	bind := func(names []*ast.Ident, arg ast.Expr) {
		if len(names) == 0 || names[0].Name == "_" {
			return
		}
		orig := info.Defs[names[0]]
		po := orig
		if f := fresh[po]; f != nil {
			po = f
		}
		// the address of a variable is the same whenever it is evaluated, and so is a variable the enclosing function
		// defines once and never assigns again: the parameter stands for the argument itself
		if po != nil && !assignedOrAddressed(info, h.Decl.Body, orig) && st.stableArg(pk, arg, stack) {
			substituteObj(info, body, po, arg)
			return
		}
		id := st.newIdent(pk, names[0].Name, pos, po, true)
		pre = append(pre, &ast.AssignStmt{Lhs: []ast.Expr{id}, TokPos: pos, Tok: token.DEFINE, Rhs: []ast.Expr{arg}})
	}
	if h.Decl.Recv != nil && len(h.Decl.Recv.List) == 1 {
		if sel, ok := ast.Unparen(call.Fun).(*ast.SelectorExpr); ok {
			bind(h.Decl.Recv.List[0].Names, sel.X)
		}
	}
	ai := 0
	for _, fld := range h.Decl.Type.Params.List {
		if len(fld.Names) == 0 {
			ai++
			continue
		}
		for _, nm := range fld.Names {
			bind([]*ast.Ident{nm}, call.Args[ai])
			ai++
		}
	}
	// returns lose their values
	astutil.Apply(body, func(c *astutil.Cursor) bool {
		switch x := c.Node().(type) {
		case *ast.FuncLit:
			return false
		case *ast.ReturnStmt:
			var keep []ast.Stmt
			for _, e := range x.Results {
				keep = append(keep, &ast.ExprStmt{X: e})
			}
			x.Results = nil
			if len(keep) > 0 {
				c.Replace(&ast.BlockStmt{Lbrace: x.Pos(), List: append(keep, x), Rbrace: x.End()})
			}
			return false
		}
		return true
	}, nil)
	body.List = append(pre, body.List...)
	lit := &ast.FuncLit{Type: &ast.FuncType{Func: pos, Params: &ast.FieldList{}}, Body: body}
	st.funcBody(pk, body, append(append([]*types.Func{}, stack...), h.Obj))
	st.notes = append(st.notes, "new helper "+h.Name()+" started with go/defer at "+st.p.Pos(call.Pos())+" read as a function literal")
	st.p.noteInlinedCall(call)
	st.p.noteInlinedHelper(h.Obj)
	return &ast.CallExpr{Fun: lit, Lparen: pos, Rparen: pos}
}

func replaceExpr(root ast.Node, old ast.Expr, repl ast.Expr) {
	astutil.Apply(root, func(c *astutil.Cursor) bool {
		if c.Node() == ast.Node(old) {
			c.Replace(repl)
			return false
		}
		if _, isLit := c.Node().(*ast.FuncLit); isLit {
			return false
		}
		return true
	}, nil)
}

// cloneNode deep-copies a syntax tree, recording old→new.
func cloneNode(n ast.Node, mapping map[ast.Node]ast.Node) ast.Node {
	v := cloneValue(reflect.ValueOf(n), mapping)
	return v.Interface().(ast.Node)
}

var (
	objPtrType   = reflect.TypeOf((*ast.Object)(nil))
	scopePtrType = reflect.TypeOf((*ast.Scope)(nil))
)

func cloneValue(v reflect.Value, mapping map[ast.Node]ast.Node) reflect.Value {
	switch v.Kind() {
	case reflect.Interface:
		if v.IsNil() {
			return v
		}
		c := cloneValue(v.Elem(), mapping)
		out := reflect.New(v.Type()).Elem()
		out.Set(c)
		return out
	case reflect.Ptr:
		if v.IsNil() {
			return v
		}
		if v.Type() == objPtrType || v.Type() == scopePtrType {
			return reflect.Zero(v.Type())
		}
		out := reflect.New(v.Type().Elem())
		src := v.Elem()
		for i := 0; i < src.NumField(); i++ {
			f := src.Field(i)
			if !out.Elem().Field(i).CanSet() {
				continue
			}
			out.Elem().Field(i).Set(cloneValue(f, mapping))
		}
		if on, ok := v.Interface().(ast.Node); ok {
			mapping[on] = out.Interface().(ast.Node)
		}
		return out
	case reflect.Slice:
		if v.IsNil() {
			return v
		}
		out := reflect.MakeSlice(v.Type(), v.Len(), v.Len())
		for i := 0; i < v.Len(); i++ {
			out.Index(i).Set(cloneValue(v.Index(i), mapping))
		}
		return out
	case reflect.Struct:
		out := reflect.New(v.Type()).Elem()
		for i := 0; i < v.NumField(); i++ {
			if out.Field(i).CanSet() {
				out.Field(i).Set(cloneValue(v.Field(i), mapping))
			}
		}
		return out
	}
	return v
}

func copyInfo(info *types.Info, mapping map[ast.Node]ast.Node) {
	for o, n := range mapping {
		if id, ok := o.(*ast.Ident); ok {
			nid := n.(*ast.Ident)
			if obj, has := info.Uses[id]; has {
				info.Uses[nid] = obj
			}
			if obj, has := info.Defs[id]; has {
				info.Defs[nid] = obj
			}
		}
		if e, ok := o.(ast.Expr); ok {
			if tv, has := info.Types[e]; has {
				info.Types[n.(ast.Expr)] = tv
			}
		}
		if s, ok := o.(*ast.SelectorExpr); ok {
			if sel, has := info.Selections[s]; has {
				info.Selections[n.(*ast.SelectorExpr)] = sel
			}
		}
		if obj, has := info.Implicits[o]; has {
			info.Implicits[n] = obj
		}
		if sc, has := info.Scopes[o]; has {
			info.Scopes[n] = sc
		}
		if ce, ok := o.(*ast.CallExpr); ok && info.Instances != nil {
			if id, isID := ce.Fun.(*ast.Ident); isID {
				if inst, has := info.Instances[id]; has {
					info.Instances[mapping[id].(*ast.Ident)] = inst
				}
			}
		}
	}
}

// pureExpr: a name, a selector chain on one, its address or dereference, a basic literal, nil/true/false.
func pureExpr(e ast.Expr) bool {
	switch x := ast.Unparen(e).(type) {
	case *ast.Ident, *ast.BasicLit:
		return true
	case *ast.SelectorExpr:
		return pureExpr(x.X)
	case *ast.StarExpr:
		return pureExpr(x.X)
	case *ast.UnaryExpr:
		return x.Op == token.AND && pureExpr(x.X)
	}
	return false
}

func assignedOrAddressed(info *types.Info, body ast.Node, obj types.Object) bool {
	found := false
	ast.Inspect(body, func(n ast.Node) bool {
		switch x := n.(type) {
		case *ast.AssignStmt:
			for _, l := range x.Lhs {
				if id, ok := ast.Unparen(l).(*ast.Ident); ok && (info.Uses[id] == obj || info.Defs[id] == obj) {
					found = true
				}
			}
		case *ast.IncDecStmt:
			if id, ok := ast.Unparen(x.X).(*ast.Ident); ok && info.Uses[id] == obj {
				found = true
			}
		case *ast.RangeStmt:
			for _, e := range []ast.Expr{x.Key, x.Value} {
				if id, ok := e.(*ast.Ident); ok && (info.Uses[id] == obj || info.Defs[id] == obj) {
					found = true
				}
			}
		case *ast.UnaryExpr:
			if id, ok := ast.Unparen(x.X).(*ast.Ident); ok && x.Op == token.AND && info.Uses[id] == obj {
				found = true
			}
		}
		return !found
	})
	return found
}

// substituteObj replaces every use of obj in root by a fresh copy of repl.
func substituteObj(info *types.Info, root ast.Node, obj types.Object, repl ast.Expr) {
	astutil.Apply(root, func(c *astutil.Cursor) bool {
		// `*p` with p standing for `&x` is x
		if star, isStar := c.Node().(*ast.StarExpr); isStar {
			if pid, isID := ast.Unparen(star.X).(*ast.Ident); isID && info.Uses[pid] == obj {
				if u, isU := ast.Unparen(repl).(*ast.UnaryExpr); isU && u.Op == token.AND {
					m := map[ast.Node]ast.Node{}
					cp := cloneNode(u.X, m).(ast.Expr)
					copyInfo(info, m)
					setPos(reflect.ValueOf(cp), star.Pos())
					c.Replace(cp)
					return false
				}
			}
		}
		id, ok := c.Node().(*ast.Ident)
		if !ok || info.Uses[id] != obj {
			return true
		}
		// not the Sel of a selector, not a key of a composite literal field
		if sel, isSel := c.Parent().(*ast.SelectorExpr); isSel && sel.Sel == id {
			return true
		}
		if kv, isKV := c.Parent().(*ast.KeyValueExpr); isKV && kv.Key == ast.Expr(id) {
			if _, isField := info.Uses[id].(*types.Var); isField && info.Uses[id].(*types.Var).IsField() {
				return true
			}
		}
		// `p.f` with p standing for `&x` is x.f
		if sel, isSel := c.Parent().(*ast.SelectorExpr); isSel && sel.X == ast.Expr(id) {
			if u, isU := ast.Unparen(repl).(*ast.UnaryExpr); isU && u.Op == token.AND {
				m := map[ast.Node]ast.Node{}
				cp := cloneNode(u.X, m).(ast.Expr)
				copyInfo(info, m)
				setPos(reflect.ValueOf(cp), id.Pos())
				if _, isName := cp.(*ast.Ident); isName {
					c.Replace(cp)
					return false
				}
			}
		}
		m := map[ast.Node]ast.Node{}
		cp := cloneNode(repl, m).(ast.Expr)
		copyInfo(info, m)
		setPos(reflect.ValueOf(cp), id.Pos()) // the copy sits where the parameter's name stood
		_, isU := cp.(*ast.UnaryExpr)
		_, isS := cp.(*ast.StarExpr)
		if isU || isS { // names and selector chains need no parentheses
			cp = &ast.ParenExpr{Lparen: id.Pos(), X: cp, Rparen: id.End()}
			if tv, has := info.Types[repl]; has {
				info.Types[cp] = tv
			}
		}
		c.Replace(cp)
		return false
	}, nil)
}

// unifyResults: the statement `x1, x2 := helper(…)` whose inlined copy (pre) ends with the result expressions
// y1, y2 – distinct locals of the helper – is expressed by renaming y_i to x_i inside the copy.
func unifyResults(info *types.Info, as *ast.AssignStmt, results []ast.Expr, helper *FuncInfo, pre []ast.Stmt) bool {
	type pair struct{ y, x types.Object }
	var pairs []pair
	seen := map[types.Object]bool{}
	for i, r := range results {
		yid, ok := ast.Unparen(r).(*ast.Ident)
		if !ok {
			return false
		}
		y, isVar := info.Uses[yid].(*types.Var)
		if !isVar || y.IsField() || !lastFresh[y] || lastParams[y] || seen[y] {
			return false // not a local of the helper body (parameter, named result declared in the signature, global)
		}
		seen[y] = true
		xid, ok := ast.Unparen(as.Lhs[i]).(*ast.Ident)
		if !ok {
			return false
		}
		if xid.Name == "_" {
			continue
		}
		x := info.Defs[xid]
		if x == nil {
			x = info.Uses[xid]
		}
		if x == nil {
			return false
		}
		pairs = append(pairs, pair{y, x})
	}
	for _, s := range pre {
		ast.Inspect(s, func(n ast.Node) bool {
			id, ok := n.(*ast.Ident)
			if !ok {
				return true
			}
			for _, pr := range pairs {
				if info.Uses[id] == pr.y {
					info.Uses[id] = pr.x
					id.Name = pr.x.Name()
				}
				if info.Defs[id] == pr.y {
					info.Defs[id] = pr.x
					id.Name = pr.x.Name()
				}
			}
			return true
		})
	}
	return true
}

func initOf(s ast.Stmt) ast.Stmt {
	switch x := s.(type) {
	case *ast.IfStmt:
		return x.Init
	case *ast.SwitchStmt:
		return x.Init
	}
	return nil
}

// callsNew: the body contains a call of a new helper.
func (st *inlineState) callsNew(pk *packagesPkg, body ast.Node) bool {
	found := false
	ast.Inspect(body, func(n ast.Node) bool {
		if call, ok := n.(*ast.CallExpr); ok && !found {
			if fn := callee(pk.TypesInfo, call); fn != nil && st.isNew[fn] != nil {
				found = true
			}
		}
		return !found
	})
	return found
}

var posType = reflect.TypeOf(token.NoPos)

// setPos gives every valid position inside a (freshly cloned) subtree the value pos.
func setPos(v reflect.Value, pos token.Pos) {
	switch v.Kind() {
	case reflect.Interface, reflect.Ptr:
		if !v.IsNil() {
			if v.Kind() == reflect.Ptr && (v.Type() == objPtrType || v.Type() == scopePtrType) {
				return
			}
			setPos(v.Elem(), pos)
		}
	case reflect.Slice:
		for i := 0; i < v.Len(); i++ {
			setPos(v.Index(i), pos)
		}
	case reflect.Struct:
		for i := 0; i < v.NumField(); i++ {
			f := v.Field(i)
			if f.Type() == posType {
				if f.CanSet() && f.Int() != 0 {
					f.SetInt(int64(pos))
				}
				continue
			}
			setPos(f, pos)
		}
	}
}

// freshenLocals gives the variables DECLARED inside a cloned body (and the given parameter / result objects) new
// objects of their own, so that two copies of the same helper in one caller do not share variables (rules that look
// up "the definition of x" by object would otherwise see the definitions of both copies). Returns old→new.
func freshenLocals(pk *packagesPkg, body ast.Node, extra []types.Object, delta token.Pos) map[types.Object]types.Object {
	info := pk.TypesInfo
	m := map[types.Object]types.Object{}
	mk := func(o types.Object) {
		v, ok := o.(*types.Var)
		if !ok || v.IsField() || m[o] != nil {
			return
		}
		m[o] = types.NewVar(v.Pos()+delta, v.Pkg(), v.Name(), v.Type())
	}
	for _, o := range extra {
		if o != nil {
			mk(o)
		}
	}
	ast.Inspect(body, func(n ast.Node) bool {
		if id, ok := n.(*ast.Ident); ok {
			if o := info.Defs[id]; o != nil {
				mk(o)
			}
		}
		return true
	})
	ast.Inspect(body, func(n ast.Node) bool {
		switch x := n.(type) {
		case *ast.Ident:
			if o := info.Defs[x]; o != nil && m[o] != nil {
				info.Defs[x] = m[o]
			}
			if o := info.Uses[x]; o != nil && m[o] != nil {
				info.Uses[x] = m[o]
			}
		case *ast.CaseClause:
			if o := info.Implicits[x]; o != nil {
				if m[o] == nil {
					mk(o)
				}
				if m[o] != nil {
					info.Implicits[x] = m[o]
				}
			}
		}
		return true
	})
	// implicit objects of type-switch clauses are used by identifiers visited before the clause was seen
	ast.Inspect(body, func(n ast.Node) bool {
		if x, ok := n.(*ast.Ident); ok {
			if o := info.Uses[x]; o != nil && m[o] != nil {
				info.Uses[x] = m[o]
			}
		}
		return true
	})
	return m
}

// sigObjs: receiver, parameter and named result objects of a helper.
func sigObjs(info *types.Info, h *FuncInfo) []types.Object {
	var out []types.Object
	add := func(fl *ast.FieldList) {
		if fl == nil {
			return
		}
		for _, f := range fl.List {
			for _, nm := range f.Names {
				if o := info.Defs[nm]; o != nil {
					out = append(out, o)
				}
			}
		}
	}
	add(h.Decl.Recv)
	add(h.Decl.Type.Params)
	add(h.Decl.Type.Results)
	return out
}

// shift registers a fresh copy of the helper's source file in the file set and returns the distance to it: every
// inlined copy gets positions of its own (same file name and lines when printed), so that position-based look-ups
// (Flow.PtOf, fact keys that carry declaration positions) tell two copies of one helper apart.
func (st *inlineState) shift(h *FuncInfo) token.Pos {
	of := st.p.Fset.File(h.Decl.Pos())
	if of == nil {
		return 0
	}
	nf := st.p.Fset.AddFile(of.Name(), -1, of.Size())
	nf.SetLines(of.Lines())
	return token.Pos(nf.Base() - of.Base())
}

func shiftPos(v reflect.Value, delta token.Pos) {
	switch v.Kind() {
	case reflect.Interface, reflect.Ptr:
		if !v.IsNil() {
			if v.Kind() == reflect.Ptr && (v.Type() == objPtrType || v.Type() == scopePtrType) {
				return
			}
			shiftPos(v.Elem(), delta)
		}
	case reflect.Slice:
		for i := 0; i < v.Len(); i++ {
			shiftPos(v.Index(i), delta)
		}
	case reflect.Struct:
		for i := 0; i < v.NumField(); i++ {
			f := v.Field(i)
			if f.Type() == posType {
				if f.CanSet() && f.Int() != 0 {
					f.SetInt(f.Int() + int64(delta))
				}
				continue
			}
			shiftPos(f, delta)
		}
	}
}

// isSigObj: y is the fresh copy of a parameter / receiver / named result of h.
func isSigObj(info *types.Info, h *FuncInfo, fresh map[types.Object]types.Object, y types.Object) bool {
	for _, o := range sigObjs(info, h) {
		if fresh[o] == y {
			return true
		}
	}
	return false
}

// the fresh objects of the copy made last (for unifyResults, which runs right after instantiate)
var lastFresh, lastParams map[types.Object]bool


// isParamObj: y is the fresh copy of a parameter or of the receiver of h (not of a named result).
func isParamObj(info *types.Info, h *FuncInfo, fresh map[types.Object]types.Object, y types.Object) bool {
	chk := func(fl *ast.FieldList) bool {
		if fl == nil {
			return false
		}
		for _, f := range fl.List {
			for _, nm := range f.Names {
				if o := info.Defs[nm]; o != nil && fresh[o] == y {
					return true
				}
			}
		}
		return false
	}
	return chk(h.Decl.Recv) || chk(h.Decl.Type.Params)
}

// stableArg: the argument of a deferred / go-started call has the same value whether it is evaluated at the statement or
// when the callee runs: `&x` of a variable, or a plain variable (parameter, receiver, local) that the outermost
// enclosing function assigns at most where it defines it.
func (st *inlineState) stableArg(pk *packagesPkg, arg ast.Expr, stack []*types.Func) bool {
	info := pk.TypesInfo
	e := ast.Unparen(arg)
	if u, isU := e.(*ast.UnaryExpr); isU && u.Op == token.AND {
		_, isID := ast.Unparen(u.X).(*ast.Ident)
		return isID
	}
	id, isID := e.(*ast.Ident)
	if !isID {
		return false
	}
	v, isVar := info.Uses[id].(*types.Var)
	if !isVar || v.IsField() || (v.Pkg() != nil && v.Parent() == v.Pkg().Scope()) {
		return false
	}
	if len(stack) == 0 || stack[0] == nil {
		return false
	}
	outer := st.p.DeclOf(stack[0])
	if outer == nil || outer.Decl.Body == nil {
		return false
	}
	n := 0
	ast.Inspect(outer.Decl.Body, func(x ast.Node) bool {
		switch y := x.(type) {
		case *ast.AssignStmt:
			for _, l := range y.Lhs {
				if lid, ok := ast.Unparen(l).(*ast.Ident); ok && (info.Uses[lid] == v || info.Defs[lid] == v) {
					n++
				}
			}
		case *ast.IncDecStmt:
			if lid, ok := ast.Unparen(y.X).(*ast.Ident); ok && info.Uses[lid] == v {
				n += 2
			}
		case *ast.RangeStmt:
			for _, l := range []ast.Expr{y.Key, y.Value} {
				if lid, ok := l.(*ast.Ident); ok && (info.Uses[lid] == v || info.Defs[lid] == v) {
					n += 2
				}
			}
		case *ast.UnaryExpr:
			if lid, ok := ast.Unparen(y.X).(*ast.Ident); ok && y.Op == token.AND && info.Uses[lid] == v {
				n += 2
			}
		}
		return true
	})
	isParam := false
	sig := stack[0].Type().(*types.Signature)
	for i := 0; i < sig.Params().Len(); i++ {
		isParam = isParam || sig.Params().At(i) == v
	}
	isParam = isParam || sig.Recv() == v
	if isParam {
		return n == 0
	}
	return n <= 1
}

// movableDefers: deferred calls of a helper that can be written out at the end of its inlined copy. Every return of
// the copy becomes a jump to one end label, so a deferred call that is registered unconditionally, before any return of
// the helper, with a plain receiver and without arguments (`mu.Lock(); defer mu.Unlock()`, `defer f.Close()`,
// `defer task.End()`) runs exactly there – after the label, in reverse order of registration.
func movableDefers(body *ast.BlockStmt) map[*ast.DeferStmt]bool {
	out := map[*ast.DeferStmt]bool{}
	if body == nil {
		return out
	}
	seenReturn := false
	for _, st := range body.List {
		if ds, ok := st.(*ast.DeferStmt); ok {
			if _, isLit := ds.Call.Fun.(*ast.FuncLit); !isLit && len(ds.Call.Args) == 0 && !seenReturn && pureExpr(ds.Call.Fun) {
				out[ds] = true
			}
			continue
		}
		ast.Inspect(st, func(x ast.Node) bool {
			switch x.(type) {
			case *ast.ReturnStmt:
				seenReturn = true
			case *ast.FuncLit:
				return false
			}
			return true
		})
	}
	return out
}

// registerLocalClosures: `name := func(…) {…}` whose variable is never reassigned and only ever called is a helper
// written inside its caller; its calls are read in place like those of a new helper function. (Captured variables are
// the caller's own objects already, only the parameters have to be bound.)
func (st *inlineState) registerLocalClosures(pk *packagesPkg, body *ast.BlockStmt) {
	info := pk.TypesInfo
	if st.localLit == nil {
		st.localLit = map[types.Object]*types.Func{}
	}
	type cand struct {
		obj types.Object
		fl  *ast.FuncLit
		id  *ast.Ident
	}
	var cands []cand
	ast.Inspect(body, func(n ast.Node) bool {
		as, ok := n.(*ast.AssignStmt)
		if !ok || as.Tok != token.DEFINE || len(as.Lhs) != 1 || len(as.Rhs) != 1 {
			return true
		}
		id, isID := as.Lhs[0].(*ast.Ident)
		fl, isLit := ast.Unparen(as.Rhs[0]).(*ast.FuncLit)
		if !isID || !isLit || info.Defs[id] == nil || st.localLit[info.Defs[id]] != nil {
			return true
		}
		cands = append(cands, cand{info.Defs[id], fl, id})
		return true
	})
	for _, c := range cands {
		st.registerLit(pk, body, c.obj, c.fl, c.id)
	}
}

// registerLit: the function literal fl is the value of variable obj (declared at id); when obj is only ever called inside
// body, its calls are read in place.
func (st *inlineState) registerLit(pk *packagesPkg, body *ast.BlockStmt, obj types.Object, fl *ast.FuncLit, cid *ast.Ident) {
	info := pk.TypesInfo
	if st.localLit == nil {
		st.localLit = map[types.Object]*types.Func{}
	}
	type cand struct {
		obj types.Object
		fl  *ast.FuncLit
		id  *ast.Ident
	}
	for _, c := range []cand{{obj, fl, cid}} {
		onlyCalled, nCalls := true, 0
		var stack []ast.Node
		ast.Inspect(body, func(n ast.Node) bool {
			if n == nil {
				stack = stack[:len(stack)-1]
				return true
			}
			stack = append(stack, n)
			id, ok := n.(*ast.Ident)
			if !ok || info.Uses[id] != c.obj {
				return true
			}
			if len(stack) >= 2 {
				if call, isCall := stack[len(stack)-2].(*ast.CallExpr); isCall && call.Fun == ast.Expr(id) {
					// not as the call of a go / defer statement
					if len(stack) >= 3 {
						switch stack[len(stack)-3].(type) {
						case *ast.GoStmt, *ast.DeferStmt:
							onlyCalled = false
						}
					}
					nCalls++
					return true
				}
			}
			onlyCalled = false
			return true
		})
		if !onlyCalled || nCalls == 0 || posIn(c.fl, c.id.Pos()) {
			continue
		}
		sig, isSig := info.TypeOf(c.fl).(*types.Signature)
		if !isSig || sig.Variadic() {
			continue
		}
		fn := types.NewFunc(c.fl.Pos(), pk.Types, c.id.Name, sig)
		fi := &FuncInfo{Obj: fn, Decl: &ast.FuncDecl{Name: &ast.Ident{NamePos: c.id.Pos(), Name: c.id.Name}, Type: c.fl.Type, Body: c.fl.Body}, Pkg: pk}
		ok, tail := inlinable(fi)
		if !ok || tail {
			continue
		}
		// recursion through the closure variable
		selfRef := false
		ast.Inspect(c.fl.Body, func(n ast.Node) bool {
			if id, isID := n.(*ast.Ident); isID && info.Uses[id] == c.obj {
				selfRef = true
			}
			return !selfRef
		})
		if selfRef {
			continue
		}
		st.isNew[fn] = fi
		st.tailOnly[fn] = false
		st.localLit[c.obj] = fn
	}
}

// noteInlinedCall records where a call of a new helper stood before it was replaced by the helper's body (the compiler
// reports the bounds checks of a function it inlined at the call's position – bounds.go reads these as echoes).
func (p *Prog) noteInlinedCall(call *ast.CallExpr) {
	if p.inlinedAt == nil {
		p.inlinedAt = map[string]bool{}
	}
	ps, pe := p.Fset.Position(call.Pos()), p.Fset.Position(call.End())
	for l := ps.Line; l <= pe.Line; l++ {
		p.inlinedAt[ps.Filename+":"+itoa(l)] = true
	}
}

func (p *Prog) noteInlinedHelper(fn *types.Func) {
	if p.inlinedN == nil {
		p.inlinedN = map[*types.Func]int{}
	}
	p.inlinedN[fn]++
}

// registerLitArgs: a function literal handed to the helper as an argument is read in place where the copy of the helper's
// body calls the parameter (`c.transmit(func() (io.WriteCloser, error) { return c.cl.LMTPData(cb) }, hdr, body)`).
func (st *inlineState) registerLitArgs(pk *packagesPkg, h *FuncInfo, call *ast.CallExpr, body *ast.BlockStmt, fresh map[types.Object]types.Object) {
	info := pk.TypesInfo
	ai := 0
	for _, fld := range h.Decl.Type.Params.List {
		if len(fld.Names) == 0 {
			ai++
			continue
		}
		for _, nm := range fld.Names {
			if ai < len(call.Args) && nm.Name != "_" {
				if fl, isLit := ast.Unparen(call.Args[ai]).(*ast.FuncLit); isLit {
					o := info.Defs[nm]
					if o != nil && !assignedOrAddressed(info, h.Decl.Body, o) {
						if f := fresh[o]; f != nil {
							o = f
						}
						st.registerLit(pk, body, o, fl, nm)
					}
				}
			}
			ai++
		}
	}
}
