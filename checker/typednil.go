package main

import (
	"go/ast"
	"go/token"
	"go/types"
	"sort"
)

// E8 typed nil. Go's classic: an interface value that holds a nil *T is not nil. When a place of interface type is
// tested against nil somewhere in the module (`if q.dsnPipeline == nil { return }` – "nothing configured"), storing a
// pointer variable that may still be nil into it defeats that test: the guard passes and the first method call
// dereferences nil. The rule: a local pointer variable declared without a value (or assigned nil) does not reach, still
// possibly nil, an assignment into an interface-typed field or package variable that the module compares with nil.

var nilComparedCache = map[*Prog]map[types.Object]token.Pos{}

// nilComparedPlaces: fields and package-level variables of interface type that some function compares with nil.
func nilComparedPlaces(p *Prog) map[types.Object]token.Pos {
	if m, ok := nilComparedCache[p]; ok {
		return m
	}
	m := map[types.Object]token.Pos{}
	p.AllFuncs(p.ServerPkgs(), func(fi *FuncInfo) {
		if fi.Decl.Body == nil {
			return
		}
		info := fi.Info()
		ast.Inspect(fi.Decl.Body, func(x ast.Node) bool {
			be, ok := x.(*ast.BinaryExpr)
			if !ok || (be.Op != token.EQL && be.Op != token.NEQ) {
				return true
			}
			var other ast.Expr
			if isNilIdent(info, be.Y) {
				other = be.X
			} else if isNilIdent(info, be.X) {
				other = be.Y
			}
			if other == nil {
				return true
			}
			if t := info.TypeOf(other); t == nil || !types.IsInterface(t) {
				return true
			}
			var o types.Object
			if fv := fieldOf(info, other); fv != nil {
				o = fv
			} else if v, isVar := objOf(info, other).(*types.Var); isVar && v.Pkg() != nil && v.Parent() == v.Pkg().Scope() {
				o = v
			}
			if o != nil {
				if _, has := m[o]; !has {
					m[o] = be.Pos()
				}
			}
			return true
		})
	})
	nilComparedCache[p] = m
	return m
}

func typedNilSeen(c *Check, fis []*FuncInfo) {
	c.Rule("E8", "a pointer variable that may still be nil is not stored into an interface-typed field or package variable that the module compares with nil (the interface would hold a typed nil: the `== nil` guard passes and the first method call dereferences nil)", 0)
	places := nilComparedPlaces(c.P)
	seen := map[*types.Func]bool{}
	defer func() { c.HoldConst("E8", "stores-examined", token.NoPos, true, "") }()
	for _, fi := range fis {
		if fi == nil || seen[fi.Obj] || fi.Decl.Body == nil {
			continue
		}
		seen[fi.Obj] = true
		info := fi.Info()
		var r *RuleCtx
		obs := map[string]string{}
		pos := map[string]token.Pos{}
		var flowPts []Pt
		// quick syntactic pre-filter before the flow graph is built
		cand := false
		ast.Inspect(fi.Decl.Body, func(x ast.Node) bool {
			if as, ok := x.(*ast.AssignStmt); ok && len(as.Lhs) == len(as.Rhs) {
				for i, l := range as.Lhs {
					if lt, rt := info.TypeOf(l), info.TypeOf(as.Rhs[i]); lt != nil && rt != nil && types.IsInterface(lt) {
						if _, isPtr := rt.Underlying().(*types.Pointer); isPtr {
							if _, isID := ast.Unparen(as.Rhs[i]).(*ast.Ident); isID {
								cand = true
							}
						}
					}
				}
			}
			return true
		})
		if !cand {
			continue
		}
		r = &RuleCtx{C: c, FI: fi, F: c.P.FlowOfFunc(fi), Info: info}
		flowPts = r.F.Points()
		for _, pt := range flowPts {
			as, ok := pt.Node().(*ast.AssignStmt)
			if !ok || len(as.Lhs) != len(as.Rhs) {
				continue
			}
			for i, l := range as.Lhs {
				lt, rt := info.TypeOf(l), info.TypeOf(as.Rhs[i])
				if lt == nil || rt == nil || !types.IsInterface(lt) {
					continue
				}
				if _, isPtr := rt.Underlying().(*types.Pointer); !isPtr {
					continue
				}
				v, isVar := objOf(info, as.Rhs[i]).(*types.Var)
				if !isVar || v.IsField() || v.Pkg() == nil || v.Parent() == v.Pkg().Scope() {
					continue
				}
				var place types.Object
				if fv := fieldOf(info, l); fv != nil {
					place = fv
				} else if pv, ok := objOf(info, l).(*types.Var); ok && pv.Pkg() != nil && pv.Parent() == pv.Pkg().Scope() {
					place = pv
				}
				if place == nil {
					continue
				}
				cmpAt, compared := places[place]
				if !compared {
					continue
				}
				c.sites++
				// sources: `var v *T` without a value, `v = nil`
				for _, sp := range flowPts {
					src := false
					switch n := sp.Node().(type) {
					case *ast.ValueSpec:
						for j, nm := range n.Names {
							if info.Defs[nm] == types.Object(v) && (len(n.Values) == 0 || (j < len(n.Values) && isNilIdent(info, n.Values[j]))) {
								src = true
							}
						}
					case *ast.AssignStmt:
						if len(n.Lhs) == len(n.Rhs) {
							for j, ll := range n.Lhs {
								if objOf(info, ll) == types.Object(v) && isNilIdent(info, n.Rhs[j]) {
									src = true
								}
							}
						}
					}
					if !src {
						continue
					}
					target := pt
					path, found := r.F.ReachRefined(sp, v, true, false, func(q Pt) bool { return q == target }, func(q Pt) bool {
						return q != target && q != sp && q.Node() != nil && assignsObj(info, q.Node(), v)
					})
					if found {
						key := fi.Pkg.Types.Name() + "." + refName(fi.Obj) + ":" + place.Name()
						obs[key] = "the pointer variable " + v.Name() + " can still be nil when it is stored into the interface-typed " + place.Name() + ", which " + c.P.Pos(cmpAt) + " compares with nil: the interface then holds a typed nil, the guard passes and the first method call dereferences nil: " + r.F.Describe(path)
						pos[key] = as.Pos()
					}
				}
			}
		}
		var keys []string
		for k := range obs {
			keys = append(keys, k)
		}
		sort.Strings(keys)
		for _, k := range keys {
			c.Hold("E8", k, pos[k], false, obs[k])
		}
	}
}
