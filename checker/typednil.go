package main

import (
	"go/ast"
	"go/token"
	"go/types"
	"sort"
)

// E8 typed nil. Go's classic: an interface value that holds a nil *T is not nil. When a place of interface type is
// tested against nil somewhere in the module (`if q.dsnPipeline == nil { return }` – "nothing configured"), storing a
// pointer variable that may still be nil into it defeats that test: the guard passes and the first method call
// dereferences nil. The rule: a local pointer variable declared without a value (or assigned nil) does not reach, still
// possibly nil, an assignment into an interface-typed field or package variable that the module compares with nil.

var nilComparedCache = map[*Prog]map[types.Object]token.Pos{}

// nilComparedPlaces: fields and package-level variables of interface type that some function compares with nil.
func nilComparedPlaces(p *Prog) map[types.Object]token.Pos {
	if m, ok := nilComparedCache[p]; ok {
		return m
	}
	m := map[types.Object]token.Pos{}
	p.AllFuncs(p.ServerPkgs(), func(fi *FuncInfo) {
		if fi.Decl.Body == nil {
			return
		}
		info := fi.Info()
		ast.Inspect(fi.Decl.Body, func(x ast.Node) bool {
			be, ok := x.(*ast.BinaryExpr)
			if !ok || (be.Op != token.EQL && be.Op != token.NEQ) {
				return true
			}
			var other ast.Expr
			if isNilIdent(info, be.Y) {
				other = be.X
			} else if isNilIdent(info, be.X) {
				other = be.Y
			}
			if other == nil {
				return true
			}
			if t := info.TypeOf(other); t == nil || !types.IsInterface(t) {
				return true
			}
			var o types.Object
			if fv := fieldOf(info, other); fv != nil {
				o = fv
			} else if v, isVar := objOf(info, other).(*types.Var); isVar && v.Pkg() != nil && v.Parent() == v.Pkg().Scope() {
				o = v
			}
			if o != nil {
				if _, has := m[o]; !has {
					m[o] = be.Pos()
				}
			}
			return true
		})
	})
	nilComparedCache[p] = m
	return m
}

func typedNilSeen(c *Check, fis []*FuncInfo) {
	c.Rule("E8", "a pointer variable that may still be nil is not stored into an interface-typed field or package variable that the module compares with nil (the interface would hold a typed nil: the `== nil` guard passes and the first method call dereferences nil)", 0)
	places := nilComparedPlaces(c.P)
	seen := map[*types.Func]bool{}
	defer func() { c.HoldConst("E8", "stores-examined", token.NoPos, true, "") }()
	for _, fi := range fis {
		if fi == nil || seen[fi.Obj] || fi.Decl.Body == nil {
			continue
		}
		seen[fi.Obj] = true
		info := fi.Info()
		var r *RuleCtx
		obs := map[string]string{}
		pos := map[string]token.Pos{}
		var flowPts []Pt
		// quick syntactic pre-filter before the flow graph is built
		cand := false
		ast.Inspect(fi.Decl.Body, func(x ast.Node) bool {
			if as, ok := x.(*ast.AssignStmt); ok && len(as.Lhs) == len(as.Rhs) {
				for i, l := range as.Lhs {
					if lt, rt := info.TypeOf(l), info.TypeOf(as.Rhs[i]); lt != nil && rt != nil && types.IsInterface(lt) {
						if _, isPtr := rt.Underlying().(*types.Pointer); isPtr {
							if _, isID := ast.Unparen(as.Rhs[i]).(*ast.Ident); isID {
								cand = true
							}
						}
					}
				}
			}
			return true
		})
		if !cand {
			continue
		}
		r = &RuleCtx{C: c, FI: fi, F: c.P.FlowOfFunc(fi), Info: info}
		flowPts = r.F.Points()
		for _, pt := range flowPts {
			as, ok := pt.Node().(*ast.AssignStmt)
			if !ok || len(as.Lhs) != len(as.Rhs) {
				continue
			}
			for i, l := range as.Lhs {
				lt, rt := info.TypeOf(l), info.TypeOf(as.Rhs[i])
				if lt == nil || rt == nil || !types.IsInterface(lt) {
					continue
				}
				if _, isPtr := rt.Underlying().(*types.Pointer); !isPtr {
					continue
				}
				v, isVar := objOf(info, as.Rhs[i]).(*types.Var)
				if !isVar || v.IsField() || v.Pkg() == nil || v.Parent() == v.Pkg().Scope() {
					continue
				}
				var place types.Object
				if fv := fieldOf(info, l); fv != nil {
					place = fv
				} else if pv, ok := objOf(info, l).(*types.Var); ok && pv.Pkg() != nil && pv.Parent() == pv.Pkg().Scope() {
					place = pv
				}
				if place == nil {
					continue
				}
				cmpAt, compared := places[place]
				if !compared {
					continue
				}
				c.sites++
				// sources: `var v *T` without a value, `v = nil`
				for _, sp := range flowPts {
					src := false
					switch n := sp.Node().(type) {
					case *ast.ValueSpec:
						for j, nm := range n.Names {
							if info.Defs[nm] == types.Object(v) && (len(n.Values) == 0 || (j < len(n.Values) && isNilIdent(info, n.Values[j]))) {
								src = true
							}
						}
					case *ast.AssignStmt:
						if len(n.Lhs) == len(n.Rhs) {
							for j, ll := range n.Lhs {
								if objOf(info, ll) == types.Object(v) && isNilIdent(info, n.Rhs[j]) {
									src = true
								}
							}
						}
					}
					if !src {
						continue
					}
					target := pt
					path, found := r.F.ReachRefined(sp, v, true, false, func(q Pt) bool { return q == target }, func(q Pt) bool {
						return q != target && q != sp && q.Node() != nil && assignsObj(info, q.Node(), v)
					})
					if found {
						key := fi.Pkg.Types.Name() + "." + refName(fi.Obj) + ":" + place.Name()
						obs[key] = "the pointer variable " + v.Name() + " can still be nil when it is stored into the interface-typed " + place.Name() + ", which " + c.P.Pos(cmpAt) + " compares with nil: the interface then holds a typed nil, the guard passes and the first method call dereferences nil: " + r.F.Describe(path)
						pos[key] = as.Pos()
					}
				}
			}
		}
		var keys []string
		for k := range obs {
			keys = append(keys, k)
		}
		sort.Strings(keys)
		for _, k := range keys {
			c.Hold("E8", k, pos[k], false, obs[k])
		}
	}
}

// E11 result used on the failure path. `info, err := os.Stat(p); if err != nil { log(err) }; info.ModTime()`: when the
// step failed its other result is the zero value – a nil pointer or interface – and the first method call or field
// access on it panics. The rule: from a call that returns (v, err) with v of pointer or interface type, no use of v
// through a method call or field selection is reachable on the path on which err is non-nil (v and err not reassigned).
func failedResultSeen(c *Check, fis []*FuncInfo) {
	c.Rule("E11", "the pointer / interface result of a step is not dereferenced (method call, field access) on the path on which the error that came with it is non-nil – there it is nil (a failure that is only logged and then falls through panics on the next line)", 0)
	seen := map[*types.Func]bool{}
	defer func() { c.HoldConst("E11", "steps-examined", token.NoPos, true, "") }()
	for _, fi := range fis {
		if fi == nil || seen[fi.Obj] || fi.Decl.Body == nil {
			continue
		}
		seen[fi.Obj] = true
		info := fi.Info()
		bodies := []*ast.BlockStmt{fi.Decl.Body}
		ast.Inspect(fi.Decl.Body, func(x ast.Node) bool {
			if fl, ok := x.(*ast.FuncLit); ok {
				bodies = append(bodies, fl.Body)
			}
			return true
		})
		ord := map[string]int{}
		for bi, body := range bodies {
			// pre-filter
			cand := false
			inspectNoLitTop(body, func(x ast.Node) bool {
				if as, ok := x.(*ast.AssignStmt); ok && len(as.Lhs) >= 2 && len(as.Rhs) == 1 {
					if _, isCall := ast.Unparen(as.Rhs[0]).(*ast.CallExpr); isCall {
						cand = true
					}
				}
				return true
			})
			if !cand {
				continue
			}
			f := c.P.FlowOf(info, body, fi.Name())
			for _, pt := range f.Points() {
				as, ok := pt.Node().(*ast.AssignStmt)
				if !ok || len(as.Lhs) < 2 || len(as.Rhs) != 1 {
					continue
				}
				call, isCall := ast.Unparen(as.Rhs[0]).(*ast.CallExpr)
				if !isCall {
					continue
				}
				errV, _ := objOf(info, as.Lhs[len(as.Lhs)-1]).(*types.Var)
				if errV == nil || !isErrorType(errV.Type()) {
					continue
				}
				for _, l := range as.Lhs[:len(as.Lhs)-1] {
					v, _ := objOf(info, l).(*types.Var)
					if v == nil || v.IsField() {
						continue
					}
					switch v.Type().Underlying().(type) {
					case *types.Pointer, *types.Interface:
					default:
						continue
					}
					c.sites++
					callee := methodName(call)
					if callee == "" {
						callee = exprStr(call.Fun)
					}
					ord[callee]++
					key := fi.Pkg.Types.Name() + "." + refName(fi.Obj)
					if bi > 0 {
						key += "$lit" + itoa(bi)
					}
					key += ":" + callee + itoa(ord[callee]) + ":" + v.Name()
					uses := func(q Pt) bool {
						if q == pt || q.Node() == nil {
							return false
						}
						hit := false
						inspectNoLit(q.Node(), func(x ast.Node) bool {
							if sel, ok := x.(*ast.SelectorExpr); ok && objOf(info, sel.X) == types.Object(v) {
								// a method value / call or a field access through the nil value
								if s := info.Selections[sel]; s != nil {
									if s.Kind() == types.FieldVal {
										hit = true
									} else if _, isIface := v.Type().Underlying().(*types.Interface); isIface || s.Kind() == types.MethodVal {
										// methods with pointer receivers may tolerate nil; interface methods never do
										if isIface {
											hit = true
										} else if fn, ok := s.Obj().(*types.Func); ok && (fn.Pkg() == nil || !isServerPkg(fn.Pkg().Path())) {
											hit = true
										}
									}
								}
							}
							return true
						})
						return hit
					}
					redef := func(q Pt) bool {
						// (the step itself, met again on the next way round a loop, assigns both anew)
						return q.Node() != nil && (assignsObj(info, q.Node(), v) || assignsObj(info, q.Node(), errV))
					}
					path, found := f.ReachRefined(pt, errV, false, false, uses, redef)
					if why, isEx := errLookedAtExceptions["E11 "+key]; isEx {
						c.Except("E11 " + key + ": " + why)
						continue
					}
					if found {
						c.Hold("E11", key, as.Pos(), false, "when "+callee+" fails its result "+v.Name()+" is nil, and the function goes on to use it ("+f.Describe(path)+"): a nil dereference – e.g. a Stat that fails with anything but 'not found' is logged and the next line calls a method on the nil FileInfo; the panic ends the goroutine that keeps the table up to date")
					}
				}
			}
		}
	}
}
