// maddyverif: repository-specific static checker for foxcpp/maddy (see /verif/DESIGN.md).
//
// Nothing here executes maddy code. Every run re-loads and re-type-checks the current working tree of -repo.
package main

import (
	"flag"
	"fmt"
	"os"
	"path/filepath"
	"sort"
	"strconv"
	"strings"
	"time"
)

type propFn func(c *Check)

var registry = map[string]propFn{}

var mutFuncs = map[string]bool{}

func register(id string, f propFn) { registry[id] = f }

func main() {
	repo := flag.String("repo", "/repo", "repository to analyse")
	prop := flag.String("property", "", "property id (C01…), or 'all'")
	tier := flag.String("tier", "quick", "quick|thorough")
	verif := flag.String("verif", "", "verification directory (default: parent of the binary's directory)")
	only := flag.String("only", "", "re-decide a single obligation rule|key and print it")
	overlayArg := flag.String("overlay", "", "analyse a variant: <file in repo>=<replacement file> (sensitivity measurements only)")
	mutgen := flag.String("mutgen", "", "write syntactic mutants of the functions the property's rules looked at into this directory and exit (sensitivity measurements only)")
	flag.Parse()
	var overlay map[string][]byte
	if *overlayArg != "" {
		kv := strings.SplitN(*overlayArg, "=", 2)
		data, err := os.ReadFile(kv[1])
		if len(kv) != 2 || err != nil {
			fmt.Fprintln(os.Stderr, "bad -overlay:", err)
			os.Exit(2)
		}
		overlay = map[string][]byte{kv[0]: data}
	}
	if *verif == "" {
		exe, _ := os.Executable()
		*verif = filepath.Dir(filepath.Dir(exe))
	}
	seed := 0
	if s := os.Getenv("VERIF_SEED"); s != "" {
		seed, _ = strconv.Atoi(s)
	}
	if t := os.Getenv("VERIF_TIER"); t != "" && *tier == "" {
		*tier = t
	}
	var ids []string
	if *prop == "all" {
		for id := range registry {
			if strings.HasPrefix(id, "C") {
				ids = append(ids, id)
			}
		}
		sort.Strings(ids)
	} else {
		for _, id := range strings.Split(*prop, ",") {
			if _, ok := registry[id]; !ok {
				fmt.Fprintf(os.Stderr, "unknown property %q\n", id)
				os.Exit(2)
			}
			ids = append(ids, id)
		}
	}
	findings, err := loadFindings(filepath.Join(*verif, "known_findings.json"))
	if err != nil {
		fmt.Println("cannot read known_findings.json:", err)
		os.Exit(2)
	}

	configs := []string{""}
	if *tier == "thorough" {
		// the default configuration runs last so that the evidence left on disk describes it
		configs = []string{"debugflags", ""}
	}
	exit := 0
	for ci, tags := range configs {
		t0 := time.Now()
		p, problems := loadProg(*repo, tags, overlay)
		if p == nil {
			for _, id := range ids {
				fmt.Printf("load failed: %v\n", problems)
				fmt.Printf("VIOLATION property=%s replay=%s\n", id, filepath.Join(*verif, "evidence", id+".report.txt"))
			}
			os.Exit(1)
		}
		label := "default"
		if tags != "" {
			label = "tags=" + tags
		}
		fmt.Printf("loaded %d maddy packages (%d total) from %s [%s] in %.1fs\n", len(p.Pkgs), len(p.ByPath), *repo, label, p.LoadS)
		for _, id := range ids {
			tc := time.Now()
			if len(ids) == 1 {
				tc = t0
			}
			c := newCheck(id, p, *tier)
			func() {
				defer func() {
					if r := recover(); r != nil {
						c.Rule("internal", "the checker itself completes", 0)
						c.Fail("internal", "panic", 0, fmt.Sprint("checker panic: ", r))
						if os.Getenv("VERIF_DEBUG") != "" {
							panic(r)
						}
					}
				}()
				registry[id](c)
				if len(id) == 3 && id[0] == 'C' {
					errDisciplineSeen(c)
				}
			}()
			cfgNames := []string{label}
			if *tier == "thorough" {
				cfgNames = []string{"tags=debugflags", "default"}
				if ci == len(configs)-1 && *only == "" {
					c.selftest = selfTest(*repo, *verif, id, c.violatedKeys())
				}
			}
			if *mutgen != "" {
				// the union of the functions all requested properties looked at, written once after the last one
				for f := range c.funcs {
					mutFuncs[f] = true
				}
				if id == ids[len(ids)-1] {
					c.funcs = mutFuncs
					n, err := writeMutants(c, *mutgen)
					fmt.Println("mutants written:", n, err)
				}
				continue
			}
			if rc := c.finish(*verif, findings, seed, tc, problems, cfgNames, *only); rc != 0 {
				exit = 1
			}
		}
	}
	os.Exit(exit)
}
