package main

import (
	"go/ast"
	"go/constant"
	"go/token"
	"go/types"
	"strings"
)

func init() { register("C19", checkC19) }

const poolRel = "internal/smtpconn/pool"

// timeWorld evaluates conditions over time stamps in a model world: stamps = 1000, now = 1000 + age, every
// configured duration/limit = 100. time.Time values are modelled as seconds.
// timeWorldProg gives the evaluator access to function bodies (set by the checks that use it).
var timeWorldProg *Prog

// singleReturnExpr: call resolves to a function of the same package (same types.Info) whose body is one return
// statement with one result; that result, else nil.
func singleReturnExpr(p *Prog, info *types.Info, call *ast.CallExpr) ast.Expr {
	if p == nil {
		return nil
	}
	fn := callee(info, call)
	if fn == nil {
		return nil
	}
	d := p.DeclOf(fn)
	if d == nil || d.Decl.Body == nil || d.Info() != info || len(d.Decl.Body.List) != 1 {
		return nil
	}
	if rs, ok := d.Decl.Body.List[0].(*ast.ReturnStmt); ok && len(rs.Results) == 1 {
		return rs.Results[0]
	}
	return nil
}

func timeWorldEval(info *types.Info, cond ast.Expr, age int64) (bool, bool) {
	var lookup func(e ast.Expr) (constant.Value, bool)
	ev := func(e ast.Expr) (constant.Value, bool) { return evalExpr(info, e, lookup) }
	lookup = func(e ast.Expr) (constant.Value, bool) {
		e = ast.Unparen(e)
		switch x := e.(type) {
		case *ast.CallExpr:
			switch {
			case isCall(info, x, "time.Now"):
				return constant.MakeInt64(1000 + age), true
			case isCall(info, x, "time.Time.Unix", "time.Time.UnixNano"):
				return ev(callRecv(x))
			case isCall(info, x, "time.Since"):
				if v, ok := ev(x.Args[0]); ok {
					return constant.BinaryOp(constant.MakeInt64(1000+age), token.SUB, v), true
				}
			case isCall(info, x, "time.Time.Add"):
				a, ok1 := ev(callRecv(x))
				b, ok2 := ev(x.Args[0])
				if ok1 && ok2 {
					return constant.BinaryOp(a, token.ADD, b), true
				}
			case isCall(info, x, "time.Time.Sub"):
				a, ok1 := ev(callRecv(x))
				b, ok2 := ev(x.Args[0])
				if ok1 && ok2 {
					return constant.BinaryOp(a, token.SUB, b), true
				}
			case isCall(info, x, "time.Time.Before"), isCall(info, x, "time.Time.After"):
				a, ok1 := ev(callRecv(x))
				b, ok2 := ev(x.Args[0])
				if ok1 && ok2 {
					op := token.LSS
					if isCall(info, x, "time.Time.After") {
						op = token.GTR
					}
					return constant.MakeBool(constant.Compare(a, op, b)), true
				}
			default:
				// a one-line predicate of the package (`func (p *P) keyIsFresh(b slot) bool { return … }`): its expression
				if re := singleReturnExpr(timeWorldProg, info, x); re != nil {
					return ev(re)
				}
				// stamp getters (LastUseAt() and the like): methods returning time.Time / int64 named *Use*
				if m := methodName(x); m != "" && len(x.Args) == 0 && (containsFold(m, "lastuse") || containsFold(m, "stamp")) {
					return constant.MakeInt64(1000), true
				}
				// conversions time.Duration(x)
				if tv, ok := info.Types[x.Fun]; ok && tv.IsType() && len(x.Args) == 1 {
					return ev(x.Args[0])
				}
			}
		case *ast.Ident:
			// a local defined once (`maxLifetime := time.Duration(cfg.MaxConnLifetimeSec) * time.Second`) stands for its definition
			if v, isVar := info.Uses[x].(*types.Var); isVar && !v.IsField() && v.Pkg() != nil && v.Parent() != v.Pkg().Scope() && timeWorldProg != nil {
				if pk := timeWorldProg.ByPath[v.Pkg().Path()]; pk != nil && pk.TypesInfo == info {
					var def ast.Expr
					timeWorldProg.AllFuncs([]*packagesPkg{pk}, func(fi *FuncInfo) {
						if def == nil && fi.Decl.Body != nil {
							if d, n := localDef(info, fi.Decl.Body, v); n == 1 && d != nil {
								def = d
							}
						}
					})
					if def != nil {
						return ev(def)
					}
				}
			}
		case *ast.SelectorExpr:
			if fv := fieldOf(info, x); fv != nil {
				if containsFold(objName(fv), "lastuse") {
					return constant.MakeInt64(1000), true
				}
				// configured durations / lifetimes
				if containsFold(objName(fv), "lifetime") || containsFold(objName(fv), "interval") || containsFold(objName(fv), "timeout") {
					return constant.MakeInt64(100), true
				}
			}
			// time.Second etc.
			if o := info.Uses[x.Sel]; o != nil && o.Pkg() != nil && o.Pkg().Path() == "time" {
				if _, isConst := o.(*types.Const); isConst {
					return constant.MakeInt64(1), true
				}
			}
		}
		return nil, false
	}
	v, ok := evalExpr(info, cond, lookup)
	if !ok || v.Kind() != constant.Bool {
		return false, false
	}
	return constant.BoolVal(v), true
}

// timeWorldEvalPartial evaluates cond in the stale (wantStale) or fresh world. Atoms the time model cannot
// evaluate (`ok`, `!closed`) are tried with both truth values; an assignment is usable if it makes cond differ
// between the two worlds; all usable assignments must agree.
func timeWorldEvalPartial(info *types.Info, cond ast.Expr, staleAge, freshAge int64, wantStale bool) (bool, bool) {
	age := freshAge
	if wantStale {
		age = staleAge
	}
	if v, ok := timeWorldEval(info, cond, age); ok {
		return v, true
	}
	// collect unknown atoms
	var atoms []ast.Expr
	var collect func(e ast.Expr)
	collect = func(e ast.Expr) {
		e = ast.Unparen(e)
		switch x := e.(type) {
		case *ast.UnaryExpr:
			if x.Op == token.NOT {
				collect(x.X)
				return
			}
		case *ast.BinaryExpr:
			if x.Op == token.LAND || x.Op == token.LOR {
				collect(x.X)
				collect(x.Y)
				return
			}
		}
		if _, ok := timeWorldEval(info, e, age); !ok {
			atoms = append(atoms, e)
		}
	}
	collect(cond)
	if len(atoms) == 0 || len(atoms) > 3 {
		return false, false
	}
	var eval func(e ast.Expr, asg map[ast.Expr]bool, age int64) (bool, bool)
	eval = func(e ast.Expr, asg map[ast.Expr]bool, age int64) (bool, bool) {
		e = ast.Unparen(e)
		if v, ok := asg[e]; ok {
			return v, true
		}
		switch x := e.(type) {
		case *ast.UnaryExpr:
			if x.Op == token.NOT {
				v, ok := eval(x.X, asg, age)
				return !v, ok
			}
		case *ast.BinaryExpr:
			if x.Op == token.LAND || x.Op == token.LOR {
				a, ok1 := eval(x.X, asg, age)
				b, ok2 := eval(x.Y, asg, age)
				if !ok1 || !ok2 {
					return false, false
				}
				if x.Op == token.LAND {
					return a && b, true
				}
				return a || b, true
			}
		}
		return timeWorldEval(info, e, age)
	}
	res, have := false, false
	for m := 0; m < 1<<len(atoms); m++ {
		asg := map[ast.Expr]bool{}
		for i, a := range atoms {
			asg[ast.Unparen(a)] = m&(1<<i) != 0
		}
		vs, ok1 := eval(cond, asg, staleAge)
		vf, ok2 := eval(cond, asg, freshAge)
		if !ok1 || !ok2 || vs == vf {
			continue
		}
		v := vf
		if wantStale {
			v = vs
		}
		if have && v != res {
			return false, false
		}
		res, have = v, true
	}
	return res, have
}

func containsFold(s, sub string) bool {
	ls, lsub := []byte(s), []byte(sub)
	for i := range ls {
		if ls[i] >= 'A' && ls[i] <= 'Z' {
			ls[i] += 32
		}
	}
	return bytesContains(ls, lsub)
}

func bytesContains(a, b []byte) bool {
	for i := 0; i+len(b) <= len(a); i++ {
		if string(a[i:i+len(b)]) == string(b) {
			return true
		}
	}
	return false
}

func checkC19(c *Check) {
	p := c.P
	timeWorldProg = p
	c.explain = "C19 (pooled connection used by one delivery at a time, closed once): lockset rule for the key table and for sends/closes of bucket channels; every connection received from a bucket is, on all paths, either handed to the caller or closed (never both, never neither), drains close every element; " +
		"the hand-out is dominated by the usability test and by a lifetime test whose direction is evaluated in a 'fresh' and a 'stale' model world; a bucket is unlinked from the table in the critical section that closes it and is only (re)inserted in the critical section that read or created it; shutdown sets the marker Return tests, under the same lock; the remote target is the only user."
	c.notCover = "liveness (eventually closed), fairness, blocking; the interleaving space is not explored."

	c.Rule("L1", "pool lock: every mutex the package's functions take is released on every path to a return, and nothing unlocks a mutex it does not hold (immediate or deferred; function literals separately)", 4)
	lockBalance(c, "L1", []string{poolRel}, nil)

	pk := p.Pkg(poolRel)
	if pk == nil {
		c.Rule("R1", "lock discipline", 1)
		c.Fail("R1", "package", token.NoPos, "anchor unresolved")
		return
	}
	info := pk.TypesInfo
	var pT *types.Named
	if o := pk.Types.Scope().Lookup("P"); o != nil {
		pT, _ = o.Type().(*types.Named)
	}
	var keysF, lockF *types.Var
	if pT != nil {
		st := pT.Underlying().(*types.Struct)
		for i := 0; i < st.NumFields(); i++ {
			f := st.Field(i)
			if _, isMap := f.Type().Underlying().(*types.Map); isMap {
				keysF = f
			}
			if typeIs(f.Type(), "sync", "Mutex") || typeIs(f.Type(), "sync", "RWMutex") {
				lockF = f
			}
		}
	}
	if keysF == nil || lockF == nil {
		c.Rule("R1", "lock discipline", 1)
		c.Fail("R1", "pool.P", token.NoPos, "anchor unresolved: key table / mutex")
		return
	}
	var funcs []*FuncInfo
	p.AllFuncs([]*packagesPkg{pk}, func(fi *FuncInfo) {
		if strings.HasSuffix(p.Fset.Position(fi.Decl.Pos()).Filename, "_test.go") {
			return
		}
		funcs = append(funcs, fi)
		c.SawFunc(fi.Name())
	})
	// a bucket channel: any expression (field, parameter, local) whose type is a channel of connections
	isBucketChan := func(e ast.Expr) bool {
		tv, ok := info.Types[e]
		if !ok || tv.Type == nil {
			return false
		}
		ch, isChan := tv.Type.Underlying().(*types.Chan)
		if !isChan {
			return false
		}
		nt := namedOf(ch.Elem())
		return nt != nil && objName(nt.Obj()) == "Conn" && nt.Obj().Pkg() == pk.Types
	}

	// ---- R1
	c.Rule("R1", "every access to the key table and every send on / close of a bucket channel holds the pool's mutex", 8)
	for _, fi := range funcs {
		ast.Inspect(fi.Decl.Body, func(n ast.Node) bool {
			switch x := n.(type) {
			case *ast.SelectorExpr:
				if fieldOf(info, x) == keysF {
					held := locksHeldAtNode(p, fi, x)
					c.Hold("R1", fi.Name()+":keys", x.Pos(), held[lockF], "the key table is accessed without holding the mutex")
				}
			case *ast.SendStmt:
				if isBucketChan(x.Chan) {
					held := locksHeldAtNode(p, fi, x)
					c.Hold("R1", fi.Name()+":send", x.Pos(), held[lockF], "a connection is put into a bucket without holding the mutex (it can race with the close of that bucket: send on closed channel)")
				}
			case *ast.CallExpr:
				if id, ok := x.Fun.(*ast.Ident); ok && id.Name == "close" && len(x.Args) == 1 && isBucketChan(x.Args[0]) {
					held := locksHeldAtNode(p, fi, x)
					c.Hold("R1", fi.Name()+":close", x.Pos(), held[lockF], "a bucket channel is closed without holding the mutex")
				}
			}
			return true
		})
	}

	// ---- R2 ownership of received connections
	c.Rule("R2", "every connection received from a bucket is, on every path, handed to the caller or closed - not both, not neither; drain loops close every element", 4)
	for _, fi := range funcs {
		r := &RuleCtx{C: c, FI: fi, F: p.FlowOfFunc(fi), Info: info}
		// drain loops
		ast.Inspect(fi.Decl.Body, func(n ast.Node) bool {
			rs, ok := n.(*ast.RangeStmt)
			if !ok || !isBucketChan(rs.X) || rs.Key == nil {
				return true
			}
			v := objOf(info, rs.Key)
			closes := func(pt Pt) bool {
				nd := pt.Node()
				if g, ok := nd.(*ast.GoStmt); ok && methodName(g.Call) == "Close" && recvObj(info, g.Call) == v {
					return true
				}
				for _, call := range callsAt(nd) {
					if methodName(call) == "Close" && recvObj(info, call) == v {
						return true
					}
				}
				return false
			}
			var bodyStart []Pt
			for _, b := range r.F.G.Blocks {
				if b.Kind == kindRangeBody && b.Stmt == ast.Stmt(rs) {
					bodyStart = append(bodyStart, Pt{b, 0})
				}
			}
			iterEnd := func(pt Pt) bool {
				return (pt.B.Stmt == ast.Stmt(rs) && (pt.B.Kind == kindRangeLoop || pt.B.Kind == kindRangeDone) && pt.I == 0) || r.F.IsExitPt(pt)
			}
			// ownership may also be handed to a local list that is closed element by element later on
			handsOver := func(pt Pt) bool {
				as, ok := pt.Node().(*ast.AssignStmt)
				if !ok || len(as.Lhs) != 1 || len(as.Rhs) != 1 {
					return false
				}
				lst, args := appendTarget(info, as.Lhs[0], as.Rhs[0])
				if lst == nil || len(args) != 1 || objOf(info, args[0]) != v {
					return false
				}
				closedLater := false
				for _, rs2 := range rangesIn(fi.Decl.Body, func(rs2 *ast.RangeStmt) bool { return objOf(info, rs2.X) == lst && rs2.Pos() > rs.End() }) {
					ast.Inspect(rs2.Body, func(x ast.Node) bool {
						if call, ok := x.(*ast.CallExpr); ok && methodName(call) == "Close" && rs2.Value != nil && recvObj(info, call) == objOf(info, rs2.Value) {
							closedLater = true
						}
						return true
					})
				}
				return closedLater
			}
			path, f := r.F.Reach(Query{From: bodyStart, Inclusive: true, Target: iterEnd, Avoid: orPt(closes, handsOver)})
			msg := ""
			if f {
				msg = "a connection drained from a closed bucket is not closed: " + r.F.Describe(path)
			}
			// the drain must be complete: the bucket is already unlinked, nobody else can reach what is left in it
			inspectNoLit(rs.Body, func(x ast.Node) bool {
				switch st := x.(type) {
				case *ast.ReturnStmt:
					msg = "the drain of an unlinked bucket is left by `return` (line " + itoa(p.Fset.Position(st.Pos()).Line) + "): the connections still in the bucket can never be reached again – neither handed out nor closed"
				case *ast.BranchStmt:
					if st.Tok == token.BREAK || st.Tok == token.GOTO {
						msg = "the drain of an unlinked bucket is left early: the remaining connections are never closed"
					}
				}
				return true
			})
			c.Hold("R2", fi.Name()+":drain", rs.Pos(), msg == "", msg)
			return true
		})
		// a closed bucket is drained: every path from close(X) to the function's exit passes a range over X or a call of
		// a package function that ranges over the parameter X is bound to
		rangeX := map[token.Pos]bool{}
		for _, rs := range rangesIn(fi.Decl.Body, func(rs *ast.RangeStmt) bool { return isBucketChan(rs.X) }) {
			rangeX[rs.X.Pos()] = true
		}
		drainsParam := func(call *ast.CallExpr, argIdx int) bool {
			fn := callee(info, call)
			if fn == nil {
				return false
			}
			d := p.DeclOf(fn)
			if d == nil || d.Decl.Body == nil || d.Info() != info {
				return false
			}
			var pobjs []types.Object
			for _, f := range d.Decl.Type.Params.List {
				for _, nm := range f.Names {
					pobjs = append(pobjs, info.Defs[nm])
				}
			}
			if argIdx >= len(pobjs) {
				return false
			}
			found := false
			for range rangesIn(d.Decl.Body, func(rs *ast.RangeStmt) bool { return objOf(info, rs.X) == pobjs[argIdx] && pobjs[argIdx] != nil }) {
				found = true
			}
			return found
		}
		for _, pt := range r.F.Points() {
			for _, call := range callsAt(pt.Node()) {
				id, ok := call.Fun.(*ast.Ident)
				if !ok || id.Name != "close" || len(call.Args) != 1 || !isBucketChan(call.Args[0]) {
					continue
				}
				what := exprStr(call.Args[0])
				drains := func(q Pt) bool {
					if e, ok := q.Node().(ast.Expr); ok && rangeX[e.Pos()] && exprStr(e) == what {
						return true
					}
					for _, c2 := range callsAt(q.Node()) {
						for ai, a := range c2.Args {
							if exprStr(a) == what && drainsParam(c2, ai) {
								return true
							}
						}
					}
					return false
				}
				path, f := r.F.Reach(Query{From: []Pt{pt}, Target: r.F.IsExitPt, Avoid: drains})
				c.Hold("R2", fi.Name()+":close-then-drain:"+what, call.Pos(), !f, "a bucket is closed but the connections queued in it are not closed on every path: "+r.F.Describe(path))
			}
		}
		// receive in select / assignment
		for _, pt := range r.F.Points() {
			var v types.Object
			var okObj types.Object
			nd := pt.Node()
			// go/cfg adds the comm statement of a select clause as a node (AssignStmt `conn, ok = <-ch`)
			if as, ok := nd.(*ast.AssignStmt); ok && len(as.Rhs) == 1 {
				if u, ok := ast.Unparen(as.Rhs[0]).(*ast.UnaryExpr); ok && u.Op == token.ARROW && isBucketChan(u.X) {
					v = objOf(info, as.Lhs[0])
					if len(as.Lhs) == 2 {
						okObj = objOf(info, as.Lhs[1])
					}
				}
			}
			if v == nil {
				continue
			}
			// go/cfg evaluates the comm statements of a select before branching; the value is only received on the
			// clause's own body: start there
			start := pt
			ast.Inspect(fi.Decl.Body, func(x ast.Node) bool {
				if cc, ok := x.(*ast.CommClause); ok && cc.Comm == ast.Stmt(nd.(*ast.AssignStmt)) {
					for _, b := range r.F.G.Blocks {
						if b.Kind == kindSelectCaseBody && b.Stmt == ast.Stmt(cc) {
							start = Pt{b, 0}
						}
					}
				}
				return true
			})
			closes := func(q Pt) bool {
				n2 := q.Node()
				if g, ok := n2.(*ast.GoStmt); ok && methodName(g.Call) == "Close" && recvObj(info, g.Call) == v {
					return true
				}
				for _, call := range callsAt(n2) {
					if methodName(call) == "Close" && recvObj(info, call) == v {
						return true
					}
				}
				return false
			}
			handsOut := func(q Pt) bool {
				_, ret := r.F.Exit(q)
				return ret != nil && len(ret.Results) >= 1 && objOf(info, ret.Results[0]) == v
			}
			reRecv := func(q Pt) bool { return q == pt }
			msg := ""
			// neither: reach an exit or the next receive without close / hand-out (on the ok=true side)
			var path []Pt
			var f bool
			if okObj != nil {
				path, f = r.F.ReachRefined(start, okObj, false, true, orPt(func(q Pt) bool { return r.F.IsExitPt(q) && !handsOut(q) }, reRecv), closes)
			} else {
				path, f = r.F.Reach(Query{From: []Pt{start}, Target: orPt(func(q Pt) bool { return r.F.IsExitPt(q) && !handsOut(q) }, reRecv), Avoid: closes})
			}
			if f {
				msg = "a connection taken out of the pool can be dropped without being closed or handed out: " + r.F.Describe(path)
			}
			// both: closed and then handed out
			for _, cp := range r.F.Find(func(n ast.Node) bool { return closes(ptOfNode(r.F, n)) }) {
				if path, f := r.F.Reach(Query{From: []Pt{cp}, Target: handsOut, Avoid: reRecv}); f {
					msg = "a connection is closed and then handed out: " + r.F.Describe(path)
				}
				if path, f := r.F.Reach(Query{From: []Pt{cp}, Target: closes, Avoid: reRecv}); f {
					msg = "a connection can be closed twice: " + r.F.Describe(path)
				}
			}
			c.Hold("R2", fi.Name()+":received", r.Pos(pt), msg == "", msg)
		}
	}
	// Return: the parameter is sent or closed on every path on which the pool is live
	if r := c.need("R2", poolRel, "P", "Return"); r != nil {
		var prm types.Object
		for _, o := range paramObjs(r.FI) {
			if typeIs(o.Type(), modPath+"/"+poolRel, "Conn") {
				prm = o
			}
		}
		disposed := func(pt Pt) bool {
			nd := pt.Node()
			found := false
			inspectNoLit(nd, func(x ast.Node) bool {
				switch s := x.(type) {
				case *ast.SendStmt:
					if objOf(info, s.Value) == prm {
						found = true
					}
				case *ast.CallExpr:
					if methodName(s) == "Close" && recvObj(info, s) == prm {
						found = true
					}
				}
				return true
			})
			return found
		}
		live := r.F.AvoidImplying(func(atom ast.Expr) (bool, bool) {
			if be, ok := ast.Unparen(atom).(*ast.BinaryExpr); ok && (be.Op == token.EQL || be.Op == token.NEQ) && isNilIdent(info, be.Y) && fieldOf(info, be.X) == keysF {
				return be.Op == token.EQL, true // remove "pool is shut down" edges
			}
			return false, false
		})
		path, f := r.F.Reach(Query{From: r.Entry(), Inclusive: true, Target: r.F.IsExitPt, Avoid: disposed, AvoidEdge: live})
		c.Hold("R2", "Return:param", r.FI.Decl.Pos(), !f && prm != nil, "a connection returned to a live pool can be neither stored nor closed: "+r.F.Describe(path))
	}

	// ---- R3 hand-out guard
	c.Rule("R3", "Get hands a pooled connection out only after Usable() returned true and the lifetime test (evaluated in a fresh and a stale model world) found it fresh; stale buckets are evicted, fresh ones kept", 5)
	if r := c.need("R3", poolRel, "P", "Get"); r != nil {
		handOut := func(pt Pt) bool {
			_, ret := r.F.Exit(pt)
			if ret == nil || len(ret.Results) != 2 {
				return false
			}
			o := objOf(info, ret.Results[0])
			_, isVar := o.(*types.Var)
			return isVar && isNilIdent(info, ret.Results[1])
		}
		usable := r.F.AvoidImplying(func(atom ast.Expr) (bool, bool) {
			if call, ok := ast.Unparen(atom).(*ast.CallExpr); ok && methodName(call) == "Usable" {
				return true, true
			}
			return false, false
		})
		path, f := r.F.Reach(Query{From: r.Entry(), Inclusive: true, Target: handOut, AvoidEdge: usable})
		c.Hold("R3", "Get:usable", r.FI.Decl.Pos(), !f, "a pooled connection can be handed out without the usability test: "+r.F.Describe(path))
		world := func(age int64) func(b *cfgBlock, i int) bool {
			return func(b *cfgBlock, i int) bool {
				cond, isCase := r.F.Cond(b)
				if cond == nil || isCase {
					return false
				}
				// only conditions over connection stamps (not the bucket's lastUse)
				isConnStamp := false
				ast.Inspect(cond, func(n ast.Node) bool {
					if call, ok := n.(*ast.CallExpr); ok && containsFold(methodName(call), "lastuse") {
						isConnStamp = true
					}
					return true
				})
				if !isConnStamp {
					return false
				}
				v, ok := timeWorldEval(info, cond, age)
				if !ok {
					return false
				}
				return v != (i == 0)
			}
		}
		hasStampTest := false
		ast.Inspect(r.FI.Decl.Body, func(n ast.Node) bool {
			if call, ok := n.(*ast.CallExpr); ok && containsFold(methodName(call), "lastuse") {
				hasStampTest = true
			}
			return true
		})
		_, fStale := r.F.Reach(Query{From: r.Entry(), Inclusive: true, Target: handOut, AvoidEdge: world(250)})
		_, fFresh := r.F.Reach(Query{From: r.Entry(), Inclusive: true, Target: handOut, AvoidEdge: world(5)})
		msg := ""
		if !hasStampTest {
			msg = "no lifetime test on the connection before it is handed out"
		} else if fStale {
			msg = "a connection that exceeded its idle lifetime (model: 2.5x the limit) can still be handed out (the lifetime comparison is missing or inverted)"
		} else if !fFresh {
			msg = "a fresh connection (model: 5% of the limit) can never be handed out (the lifetime comparison is inverted)"
		}
		c.Hold("R3", "Get:lifetime", r.FI.Decl.Pos(), msg == "", msg)
	}
	// bucket staleness comparisons in all pool functions: in the stale world the bucket is evicted, in the fresh world kept
	namedDir := map[types.Object]*struct {
		key        string
		pos        token.Pos
		evicts, no bool
	}{}
	var namedOrder []types.Object
	defer func() {
		for _, o := range namedOrder {
			g := namedDir[o]
			c.Hold("R3", g.key, g.pos, g.evicts && !g.no, "staleness comparison has the wrong direction: the stale bucket is kept and/or the fresh one is evicted")
		}
	}()
	for _, fi := range funcs {
		r := &RuleCtx{C: c, FI: fi, F: p.FlowOfFunc(fi), Info: info}
		for _, b := range r.F.G.Blocks {
			cond, isCase := r.F.Cond(b)
			if cond == nil || isCase || !b.Live {
				continue
			}
			// a named boolean stands for its definition (`expired := ok && now-b.lastUse > max; if expired {`)
			negate := false
			var named types.Object
			{
				ce := ast.Unparen(cond)
				if raw := r.F.condRaw(b); raw != nil {
					ce = ast.Unparen(raw) // as written: an expanded named boolean is still grouped by its name
				}
				if u, ok := ce.(*ast.UnaryExpr); ok && u.Op == token.NOT {
					ce, negate = ast.Unparen(u.X), true
				}
				if id, ok := ce.(*ast.Ident); ok {
					if o, ok := info.Uses[id].(*types.Var); ok && !o.IsField() && isBoolType(o.Type()) {
						if def, n := localDef(info, fi.Decl.Body, o); n == 1 && def != nil && isBoolType(info.TypeOf(def)) {
							cond = def
							named = o
						} else {
							negate = false
						}
					} else {
						negate = false
					}
				} else {
					negate = false
				}
			}
			mentionsBucketStamp := false
			var scan func(e ast.Node, depth int)
			scan = func(e ast.Node, depth int) {
				ast.Inspect(e, func(n ast.Node) bool {
					switch s := n.(type) {
					case *ast.SelectorExpr:
						if fv := fieldOf(info, s); fv != nil && containsFold(objName(fv), "lastuse") {
							mentionsBucketStamp = true
						}
					case *ast.CallExpr:
						if re := singleReturnExpr(p, info, s); re != nil && depth < 2 {
							scan(re, depth+1)
						}
					}
					return true
				})
			}
			scan(cond, 0)
			if !mentionsBucketStamp {
				continue
			}
			vs, ok1 := timeWorldEvalPartial(info, cond, 250, 5, true)
			vf, ok2 := timeWorldEvalPartial(info, cond, 250, 5, false)
			key := fi.Name() + ":" + exprStr(cond)
			if !ok1 || !ok2 {
				c.Hold("R3", key, cond.Pos(), false, "undecided: staleness comparison could not be evaluated")
				continue
			}
			if vs == vf {
				c.Hold("R3", key, cond.Pos(), false, "the staleness comparison has the same outcome for a fresh and a stale bucket")
				continue
			}
			if negate {
				vs, vf = !vs, !vf
			}
			// the edge taken in the stale world must reach a close of the bucket channel before the loop continues; the fresh edge must not
			staleSucc, freshSucc := 1, 0
			if vs {
				staleSucc, freshSucc = 0, 1
			}
			closesBucket := func(pt Pt) bool {
				for _, call := range callsAt(pt.Node()) {
					if id, ok := call.Fun.(*ast.Ident); ok && id.Name == "close" && len(call.Args) == 1 && isBucketChan(call.Args[0]) {
						return true
					}
				}
				return false
			}
			reachesClose := func(succ int) bool {
				start := Pt{b.Succs[succ], 0}
				// stop at the next evaluation of this condition (next loop iteration)
				_, f := r.F.Reach(Query{From: []Pt{start}, Inclusive: true, Target: closesBucket, Avoid: func(pt Pt) bool { return pt.B == b && pt.I == len(b.Nodes)-1 }})
				return f
			}
			okDir := reachesClose(staleSucc) && !reachesClose(freshSucc)
			if named != nil {
				// several branches may test the same name (evict under the lock, drain after it): one of them must evict on
				// the stale edge, none may evict on the fresh edge
				g := namedDir[named]
				if g == nil {
					g = &struct {
						key        string
						pos        token.Pos
						evicts, no bool
					}{key: key, pos: cond.Pos()}
					namedDir[named] = g
					namedOrder = append(namedOrder, named)
				}
				if okDir {
					g.evicts = true
				}
				if reachesClose(freshSucc) {
					g.no = true
				}
				continue
			}
			c.Hold("R3", key, cond.Pos(), okDir, "staleness comparison has the wrong direction: the stale bucket is kept and/or the fresh one is evicted")
		}
	}

	// ---- R4 shutdown marker
	c.Rule("R4", "Close establishes, under the mutex and on every path, the shutdown marker that Return tests under the same mutex (so nothing is stored into a dead pool)", 2)
	if rc := c.need("R4", poolRel, "P", "Close"); rc != nil {
		setNil := rc.Assigns(func(l, rhs ast.Expr) bool { return fieldOf(info, l) == keysF && rhs != nil && isNilIdent(info, rhs) })
		ok, w := rc.MustPass(rc.Entry(), true, rc.IsNormalExit, isPt(setNil))
		held := true
		for _, pt := range setNil {
			if !locksHeldAt(p, rc.FI, rc.Pos(pt))[lockF] {
				held = false
			}
		}
		c.Hold("R4", "Close:marker", rc.FI.Decl.Pos(), ok && held && len(setNil) > 0, "shutdown does not (always) set the key table to nil under the mutex - the only marker Return tests: a connection returned after shutdown is stored in the dead pool and can be handed out again: "+w)
	}
	if rr := c.need("R4", poolRel, "P", "Return"); rr != nil {
		// the nil test dominates every store/send
		stores := rr.F.Find(func(n ast.Node) bool {
			hit := false
			ast.Inspect(n, func(x ast.Node) bool {
				if s, ok := x.(*ast.SendStmt); ok && isBucketChan(s.Chan) {
					hit = true
				}
				if as, ok := x.(*ast.AssignStmt); ok {
					for _, l := range as.Lhs {
						if ix, ok := ast.Unparen(l).(*ast.IndexExpr); ok && fieldOf(info, ix.X) == keysF {
							hit = true
						}
					}
				}
				return true
			})
			return hit
		})
		live := rr.F.AvoidImplying(func(atom ast.Expr) (bool, bool) {
			if be, ok := ast.Unparen(atom).(*ast.BinaryExpr); ok && (be.Op == token.EQL || be.Op == token.NEQ) && isNilIdent(info, be.Y) && fieldOf(info, be.X) == keysF {
				return be.Op == token.NEQ, true // remove "pool is live" edges: stores must become unreachable
			}
			return false, false
		})
		path, f := rr.F.Reach(Query{From: rr.Entry(), Inclusive: true, Target: isPt(stores), AvoidEdge: live})
		c.Hold("R4", "Return:tests-marker", rr.FI.Decl.Pos(), !f && len(stores) > 0, "Return can store a connection without having tested the shutdown marker: "+rr.F.Describe(path))
	}

	// ---- R5 unlink with close; (re)insert only within the critical section that read/created the slot
	c.Rule("R5", "a bucket whose channel is closed is removed from the table in the same critical section; a slot value is stored into the table only in the critical section that read or created it", 5)
	for _, fi := range funcs {
		r := &RuleCtx{C: c, FI: fi, F: p.FlowOfFunc(fi), Info: info}
		isUnlock := func(pt Pt) bool {
			for _, call := range callsAt(pt.Node()) {
				if isCall(info, call, "sync.Mutex.Unlock", "sync.RWMutex.Unlock") && fieldOf(info, callRecv(call)) == lockF {
					return true
				}
			}
			return false
		}
		unlinks := func(pt Pt) bool {
			nd := pt.Node()
			hit := false
			inspectNoLit(nd, func(x ast.Node) bool {
				if call, ok := x.(*ast.CallExpr); ok {
					if id, ok := call.Fun.(*ast.Ident); ok && id.Name == "delete" && len(call.Args) == 2 && fieldOf(info, call.Args[0]) == keysF {
						hit = true
					}
					if id, ok := call.Fun.(*ast.Ident); ok && id.Name == "clear" && len(call.Args) == 1 && fieldOf(info, call.Args[0]) == keysF {
						hit = true
					}
				}
				if as, ok := x.(*ast.AssignStmt); ok {
					for i, l := range as.Lhs {
						if fieldOf(info, l) == keysF && i < len(as.Rhs) && isNilIdent(info, as.Rhs[i]) {
							hit = true
						}
					}
				}
				return true
			})
			return hit
		}
		for _, pt := range r.F.Points() {
			for _, call := range callsAt(pt.Node()) {
				if id, ok := call.Fun.(*ast.Ident); ok && id.Name == "close" && len(call.Args) == 1 && isBucketChan(call.Args[0]) {
					// either an unlink precedes in the same section (no Unlock between) or follows before the next Unlock/exit
					_, fAfter := r.F.Reach(Query{From: []Pt{pt}, Target: orPt(isUnlock, r.F.IsExitPt), Avoid: unlinks})
					before := false
					for _, up := range r.F.Find(func(n ast.Node) bool { return unlinks(ptOfNode(r.F, n)) }) {
						if _, f := r.F.Reach(Query{From: []Pt{up}, Target: isPt([]Pt{pt}), Avoid: isUnlock}); f {
							before = true
						}
					}
					// inside a loop that unlinks each element (delete in the same iteration) fAfter is false already
					c.Hold("R5", fi.Name()+":close-unlinks", call.Pos(), !fAfter || before, "a bucket channel is closed but the bucket stays reachable through the table after the critical section (a later Return sends on the closed channel)")
				}
			}
		}
		// inserts
		for _, pt := range r.F.Points() {
			as, ok := pt.Node().(*ast.AssignStmt)
			if !ok {
				continue
			}
			for i, l := range as.Lhs {
				ix, ok := ast.Unparen(l).(*ast.IndexExpr)
				if !ok || fieldOf(info, ix.X) != keysF || i >= len(as.Rhs) {
					continue
				}
				v := objOf(info, as.Rhs[i])
				msg := ""
				if v == nil {
					if _, isLit := ast.Unparen(as.Rhs[i]).(*ast.CompositeLit); !isLit {
						msg = "undecided: stored slot is neither a local nor a literal"
					}
				} else {
					// definitions of v
					defs := r.F.Find(func(n ast.Node) bool {
						return nodeAssigns(n, func(l2, _ ast.Expr) bool { return objOf(info, l2) == v })
					})
					for _, d := range defs {
						if d == pt {
							continue
						}
						// def → Unlock → store without redefinition ⇒ stale copy
						for _, u := range r.F.Find(func(n ast.Node) bool { return isUnlock(ptOfNode(r.F, n)) }) {
							_, f1 := r.F.Reach(Query{From: []Pt{d}, Target: isPt([]Pt{u}), Avoid: isPt(defs)})
							_, f2 := r.F.Reach(Query{From: []Pt{u}, Target: isPt([]Pt{pt}), Avoid: isPt(defs)})
							if f1 && f2 {
								msg = "a slot copied from the table in an earlier critical section is written back after the mutex was released: if the bucket was evicted or the pool shut down in between, a closed channel is re-inserted (send on / close of closed channel, assignment to nil map)"
							}
						}
					}
				}
				// a freshly made slot replaces nothing: the insert is reachable only on the miss edge of a lookup of the same
				// key (an existing bucket that is overwritten is never closed or drained – its connections leak)
				if msg == "" {
					fresh := false
					if _, isLit := ast.Unparen(as.Rhs[i]).(*ast.CompositeLit); isLit {
						fresh = true
					} else if v != nil {
						if defs, okD := r.ReachingDefs(v, pt, nil); okD {
							for _, d := range defs {
								if _, isLit := ast.Unparen(d).(*ast.CompositeLit); isLit {
									fresh = true
								}
							}
						}
					}
					if fresh {
						var okVars []types.Object
						for _, q := range r.F.Points() {
							if a2, ok := q.Node().(*ast.AssignStmt); ok && len(a2.Lhs) == 2 && len(a2.Rhs) == 1 {
								if ix2, ok := ast.Unparen(a2.Rhs[0]).(*ast.IndexExpr); ok && fieldOf(info, ix2.X) == keysF && sameExpr(ix2.Index, ix.Index) {
									if o := objOf(info, a2.Lhs[1]); o != nil {
										okVars = append(okVars, o)
									}
								}
							}
						}
						if len(okVars) == 0 {
							msg = "a new bucket is stored without looking whether the key already has one (the old bucket's connections are never closed)"
						} else {
							w := r.F.World(func(atom ast.Expr) (bool, bool) {
								for _, o := range okVars {
									if objOf(info, atom) == o {
										return true, true // the key is present
									}
								}
								return false, false
							})
							// only the definitions that are fresh literals matter: is the store of a fresh slot reachable in that world?
							if path, f := r.F.Reach(Query{From: r.Entry(), Inclusive: true, Target: isPt([]Pt{pt}), AvoidEdge: w}); f {
								// the stored value on that path may be the looked-up slot itself (write-back in the same section): fine
								stale := true
								if v != nil {
									if defs, okD := r.ReachingDefs(v, pt, w); okD {
										stale = false
										for _, d := range defs {
											if _, isLit := ast.Unparen(d).(*ast.CompositeLit); isLit {
												stale = true
											}
										}
									}
								}
								if stale {
									msg = "a new bucket replaces an existing one for the same key (the connections queued in the old bucket are never handed out or closed): " + r.F.Describe(path)
								}
							}
						}
					}
				}
				c.Hold("R5", fi.Name()+":insert", as.Pos(), msg == "", msg)
			}
		}
	}

	// ---- R6 the remote target is the only user and returns connections only from Close
	c.Rule("R6", "pooled connections are taken only in connectionForDomain and given back only from remoteDelivery.Close", 1)
	// (call sites are counted by source position: a helper the reference tree did not have is read in place in each of
	// its callers; the terminal methods of the delivery – Close, and Abort / Commit, which end the delivery through
	// it – are where a connection may go back)
	okUsers := true
	gets, rets := map[token.Pos]bool{}, map[token.Pos]bool{}
	retOwners := map[string]bool{"remote.(*remoteDelivery).Close": true, "remote.(*remoteDelivery).Abort": true, "remote.(*remoteDelivery).Commit": true}
	for _, spk := range p.ServerPkgs() {
		if spk.PkgPath == pk.PkgPath {
			continue
		}
		p.AllFuncs([]*packagesPkg{spk}, func(fi *FuncInfo) {
			if inlinedAwayNow[fi.Obj] {
				return // judged where it is read in place
			}
			ast.Inspect(fi.Decl.Body, func(x ast.Node) bool {
				if call, ok := x.(*ast.CallExpr); ok {
					if isCall(fi.Info(), call, "~/"+poolRel+".P.Return") {
						rets[call.Pos()] = true
						if !retOwners[objName(fi)] {
							okUsers = false
						}
					}
					if isCall(fi.Info(), call, "~/"+poolRel+".P.Get") {
						gets[call.Pos()] = true
						if objName(fi) != "remote.(*remoteDelivery).connectionForDomain" {
							okUsers = false
						}
					}
				}
				return true
			})
		})
	}
	n := 0
	if len(gets) >= 1 && len(rets) >= 1 {
		n = 2
	}
	c.Hold("R6", "pool:users", token.NoPos, okUsers && n == 2, "the pool is used from unexpected places (a connection could be shared by two deliveries)")

	// ---- R2b a receive from a bucket that reports "closed" yields no connection
	c.Rule("R2b", "a two-valued receive from a bucket channel uses the received connection only where the channel was open (ok is true): a closed bucket yields nil", 1)
	for _, fi := range funcs {
		f := p.FlowOfFunc(fi)
		n := 0
		for _, pt := range f.Points() {
			as, ok := pt.Node().(*ast.AssignStmt)
			if !ok || len(as.Lhs) != 2 || len(as.Rhs) != 1 {
				continue
			}
			u, ok := ast.Unparen(as.Rhs[0]).(*ast.UnaryExpr)
			if !ok || u.Op != token.ARROW || !isBucketChan(u.X) {
				continue
			}
			n++
			cv, okv := objOf(info, as.Lhs[0]), objOf(info, as.Lhs[1])
			uses := func(q Pt) bool {
				if q == pt || q.Node() == nil {
					return false
				}
				hit := false
				inspectNoLit(q.Node(), func(x ast.Node) bool {
					if call, ok := x.(*ast.CallExpr); ok && recvObj(info, call) == cv {
						hit = true
					}
					if g, ok := x.(*ast.GoStmt); ok && recvObj(info, g.Call) == cv {
						hit = true
					}
					if ret, ok := x.(*ast.ReturnStmt); ok {
						for _, e := range ret.Results {
							if objOf(info, e) == cv {
								hit = true
							}
						}
					}
					return true
				})
				return hit
			}
			redef := func(q Pt) bool { return q != pt && q.Node() != nil && assignsObj(info, q.Node(), cv) }
			path, found := f.ReachRefined(pt, okv, true, true, uses, redef)
			c.Hold("R2b", fi.Name()+":recv"+itoa(n), as.Pos(), !found, "the value received from a closed bucket (nil) is used as a connection: "+f.Describe(path))
		}
	}

	// ---- R2c: the one-valued form. Bucket channels are closed (sweep, shutdown, eviction): a receive without the ok
	// flag cannot tell "a connection" from "closed" – it yields nil, and a method call on it panics (in a goroutine of
	// its own that takes the process down). `for v := range ch` is the safe one-valued form.
	c.Rule("R2c", "a receive from a bucket channel whose value is used takes the ok flag (or is a range loop): bucket channels are closed by sweeps and at shutdown, and a one-valued receive from a closed channel yields a nil connection", 0)
	{
		n := 0
		for _, fi := range funcs {
			if fi.Decl.Body == nil {
				continue
			}
			ast.Inspect(fi.Decl.Body, func(x ast.Node) bool {
				var recv *ast.UnaryExpr
				var val ast.Expr
				switch s := x.(type) {
				case *ast.AssignStmt:
					if len(s.Lhs) == 1 && len(s.Rhs) == 1 {
						if u, ok := ast.Unparen(s.Rhs[0]).(*ast.UnaryExpr); ok && u.Op == token.ARROW {
							recv, val = u, s.Lhs[0]
						}
					}
				case *ast.CallExpr:
					// (<-ch).Close()
					if sel, ok := s.Fun.(*ast.SelectorExpr); ok {
						if u, ok := ast.Unparen(sel.X).(*ast.UnaryExpr); ok && u.Op == token.ARROW && isBucketChan(u.X) {
							n++
							c.Hold("R2c", fi.Name()+":recv"+itoa(n), s.Pos(), false, "a method is called on the value of a one-valued receive from a bucket channel: when the bucket has been closed meanwhile (sweep, shutdown) the value is nil and the call panics")
						}
					}
				}
				if recv == nil || !isBucketChan(recv.X) {
					return true
				}
				if id, ok := val.(*ast.Ident); ok && id.Name == "_" {
					return true
				}
				n++
				c.Hold("R2c", fi.Name()+":recv"+itoa(n), recv.Pos(), false, "the connection is received from a bucket channel without the ok flag: when the bucket is closed meanwhile (a clean-up sweep, Close of the pool, eviction of the key) the receive yields nil and the first method call on it panics – in a goroutine of its own, which ends the process")
				return true
			})
		}
		if n == 0 {
			c.HoldConst("R2c", "no-one-valued-receive", token.NoPos, true, "")
		}
	}

	// ---- R7 the user side: what Get returned is used only when there is something, and a connection that was taken
	// or opened is owned by somebody on every path
	c.Rule("R7", "connectionForDomain: the value the pool returned is asserted / used only when it is non-nil; a connection taken from the pool or newly opened is, on every path, either recorded in the delivery's table (whose Close returns or closes it) or closed", 2)
	if r := c.need("R7", remoteRel, "remoteDelivery", "connectionForDomain"); r != nil {
		ri := r.Info
		getPred := calling("~/" + poolRel + ".P.Get")
		gets := r.Calls(getPred)
		msg := ""
		var pooled types.Object
		if len(gets) != 1 {
			msg = "undecided: expected one pool.Get"
		} else if as, ok := gets[0].Node().(*ast.AssignStmt); !ok || len(as.Lhs) != 2 {
			msg = "undecided: pool.Get result shape"
		} else {
			pooled = objOf(ri, as.Lhs[0])
			uses := func(q Pt) bool {
				hit := false
				if q.Node() == nil {
					return false
				}
				inspectNoLit(q.Node(), func(x ast.Node) bool {
					switch e := x.(type) {
					case *ast.TypeAssertExpr:
						if objOf(ri, e.X) == pooled {
							hit = true
						}
					case *ast.CallExpr:
						if recvObj(ri, e) == pooled {
							hit = true
						}
					}
					return true
				})
				return hit
			}
			if path, f := r.F.ReachRefined(gets[0], pooled, true, false, uses, nil); f {
				msg = "the value the pool returned is asserted / used although it is nil (no pooled connection): the attempt panics: " + r.F.Describe(path)
			}
		}
		c.Hold("R7", "connectionForDomain:pooled-used-only-if-present", r.FI.Decl.Pos(), msg == "", msg)

		// … and a connection the pool did hand out is taken over or closed: it is not dropped in favour of a new one
		// (the pool has forgotten it; nobody would ever close it)
		if pooled != nil && len(gets) == 1 {
			taken := func(q Pt) bool {
				if q.Node() == nil {
					return false
				}
				hit := false
				ast.Inspect(q.Node(), func(x ast.Node) bool {
					switch e := x.(type) {
					case *ast.TypeAssertExpr:
						if objOf(ri, e.X) == pooled {
							hit = true
						}
					case *ast.CallExpr:
						if recvObj(ri, e) == pooled && methodName(e) == "Close" {
							hit = true
						}
						if isCall(ri, e, "~/"+poolRel+".P.Return") {
							for _, a := range e.Args {
								if objOf(ri, a) == pooled {
									hit = true
								}
							}
						}
					}
					return true
				})
				return hit
			}
			var getErr types.Object
			if as, ok := gets[0].Node().(*ast.AssignStmt); ok && len(as.Lhs) == 2 {
				getErr = objOf(ri, as.Lhs[1])
			}
			gone := func(q Pt) bool {
				if r.F.IsExitPt(q) {
					// the failure return of Get itself: no connection was handed out
					if getErr != nil {
						if r.F.KnownNonNil(getErr) {
							return false
						}
						if is, ok := q.B.Stmt.(*ast.IfStmt); ok && q.B.Kind == kindIfThen {
							if be, ok := ast.Unparen(is.Cond).(*ast.BinaryExpr); ok && be.Op == token.NEQ && isNilIdent(ri, be.Y) && objOf(ri, be.X) == getErr {
								return false
							}
						}
					}
					return true
				}
				if q.Node() != nil {
					for _, call := range callsAt(q.Node()) {
						if isCall(ri, call, "~/"+remoteRel+".remoteDelivery.newConn") {
							return true
						}
					}
				}
				return false
			}
			path, f := r.F.ReachRefined(gets[0], pooled, false, false, gone, taken)
			c.Hold("R7", "connectionForDomain:pooled-not-dropped", r.FI.Decl.Pos(), !f, "a connection the pool handed out can be left behind – neither taken over nor closed – while a new one is opened (for a REQUIRETLS message the pooled connection is ignored after it has been taken out of the pool): the pool has forgotten it and nobody closes it: "+r.F.Describe(path))
		}

		// ownership of conn
		msg = ""
		var connObj types.Object
		var defs []Pt
		var newConnPt Pt
		hasNew := false
		for _, pt := range r.F.Points() {
			as, ok := pt.Node().(*ast.AssignStmt)
			if !ok {
				continue
			}
			for i, l := range as.Lhs {
				o := objOf(ri, l)
				if o == nil {
					continue
				}
				var rhs ast.Expr
				if len(as.Rhs) == len(as.Lhs) {
					rhs = as.Rhs[i]
				} else if len(as.Rhs) == 1 {
					rhs = as.Rhs[0]
				}
				if ta, ok := ast.Unparen(rhs).(*ast.TypeAssertExpr); ok && pooled != nil && objOf(ri, ta.X) == pooled {
					connObj = o
					defs = append(defs, pt)
				}
				if cc, ok := ast.Unparen(rhs).(*ast.CallExpr); ok && i == 0 && isCall(ri, cc, "~/"+remoteRel+".remoteDelivery.newConn") {
					connObj = o
					newConnPt, hasNew = pt, true
				}
			}
		}
		if connObj == nil || len(defs) == 0 || !hasNew {
			msg = "undecided: the connection variable (from the pool / from newConn) was not found"
		} else {
			owned := func(q Pt) bool {
				n := q.Node()
				if n == nil {
					return false
				}
				for _, call := range callsAt(n) {
					if methodName(call) == "Close" && recvObj(ri, call) == connObj {
						return true
					}
				}
				return nodeAssigns(n, func(l, rhs ast.Expr) bool {
					ix, ok := ast.Unparen(l).(*ast.IndexExpr)
					return ok && rhs != nil && objOf(ri, rhs) == connObj && fieldOf(ri, ix.X) != nil
				})
			}
			// a helper of the package that is handed the connection and closes it on each of its failure returns owns it
			// on the failure edge of its result
			var closedOnErr []types.Object
			for _, pt := range r.F.Points() {
				for _, call := range callsAt(pt.Node()) {
					ai := -1
					for i, a := range call.Args {
						if objOf(ri, a) == connObj {
							ai = i
						}
					}
					fn := callee(ri, call)
					if ai < 0 || fn == nil || fn.Pkg() != r.FI.Pkg.Types {
						continue
					}
					d := c.P.DeclOf(fn)
					if d == nil || d.Decl.Body == nil {
						continue
					}
					g := c.CtxOf(d)
					sig := fn.Type().(*types.Signature)
					if ai >= sig.Params().Len() {
						continue
					}
					prm := sig.Params().At(ai)
					closesPrm := func(q Pt) bool {
						for _, cc := range callsAt(q.Node()) {
							if methodName(cc) == "Close" && recvObj(g.Info, cc) == types.Object(prm) {
								return true
							}
						}
						return false
					}
					failure := func(q Pt) bool {
						k, ret := g.F.Exit(q)
						return k != NotExit && g.F.IsNormalExit(q) && ret != nil && len(ret.Results) > 0 && !g.IsSuccessReturn(q)
					}
					if _, leak := g.F.Reach(Query{From: g.Entry(), Inclusive: true, Target: failure, Avoid: closesPrm}); !leak {
						if eo := errVarAssigned(ri, pt.Node(), call); eo != nil {
							closedOnErr = append(closedOnErr, eo)
						}
					}
				}
			}
			helperFailed := func(b *cfgBlock, i int) bool {
				cond, isCase := r.F.Cond(b)
				if cond == nil || isCase {
					return false
				}
				for _, fact := range atomsOnEdge(cond, i) {
					for _, eo := range closedOnErr {
						if ns, ok := nilTest(ri, fact.E, eo); ok && (ns == 0) != fact.T {
							return true
						}
					}
				}
				return false
			}
			for _, d := range defs {
				// (the connection variable was just assigned the assertion of a non-nil pooled value: it is not nil, a
				// following `if conn == nil { conn, err = newConn() }` is not taken)
				if path, f := r.F.ReachRefined2(d, connObj, false, false, r.F.IsNormalExit, owned, helperFailed); f {
					msg = "a connection taken from the pool can be dropped (neither recorded for Close nor closed): " + r.F.Describe(path)
				}
			}
			call := r.CallAt(newConnPt, calling("~/"+remoteRel+".remoteDelivery.newConn"))
			eoNew := errVarAssigned(ri, newConnPt.Node(), call)
			if eoNew == nil {
				msg = "the error of newConn is dropped"
			} else if path, found := r.F.ReachRefined2(newConnPt, eoNew, true, false, r.F.IsNormalExit, owned, helperFailed); found {
				msg = "a newly opened connection can be dropped (neither recorded for Close nor closed): " + r.F.Describe(path)
			}
			if false {
				if found, w, decided := r.OnErr(newConnPt, call, true, r.F.IsNormalExit, owned); !decided {
					msg = "the error of newConn is dropped"
				} else if found {
					msg = "a newly opened connection can be dropped (neither recorded for Close nor closed): " + w
				}
			}
		}
		c.Hold("R7", "connectionForDomain:connection-owned", r.FI.Decl.Pos(), msg == "", msg)
	}
	c19NonBlocking(c)
	c19UsablePure(c)
	c19Configured(c)
	c19CloseClosesSocket(c, "R11")
	c19StampIsOwnEnd(c, "R12")
	c19NilMapGuard(c, "R13", poolRel)
	c.Rule("R14", "the queue ends each downstream delivery exactly once (C01.R1): remoteDelivery.Close hands its connections to the pool – a second Abort returns the same connection twice and two deliveries share one SMTP session", 2)
	importRules(c, "C01", c01Deliver, map[string]bool{"R1": true}, "R14")
	c19ConfigNotRewritten(c, "R15")
	c19ReturnOwnsConn(c, "R16")
	c19ClosedNotReturned(c, "R17")
	c19CommittedNotAborted(c, "R18")
	c19UsableRefusesClosed(c, "R19")
	c19BucketCapacityNotNegative(c, "R20")
}

// R8: the pool never waits on a bucket. A bucket channel is bounded (the idle-count limit, possibly 0); a send that
// waits for room or a receive that waits for an element – inside the critical section or not – waits for another
// goroutine that may need the pool's mutex first: Get, Return, CleanUp and Close then hang behind it for ever. Every
// send and every receive on a bucket channel is therefore a case of a select with a default branch; the only plain
// form is the drain `for conn := range ch` of a channel the same function has closed.
func c19NonBlocking(c *Check) {
	p := c.P
	c.Rule("R8", "pool: no operation on a bucket channel can block – a send or receive is a case of a select that has a default branch, a range over a bucket follows the close of that channel in the same function", 3)
	pk := p.Pkg(poolRel)
	if pk == nil {
		c.Fail("R8", "package", token.NoPos, "anchor unresolved")
		return
	}
	info := pk.TypesInfo
	isBucket := func(e ast.Expr) bool {
		t := info.TypeOf(e)
		if t == nil {
			return false
		}
		ch, ok := t.Underlying().(*types.Chan)
		if !ok {
			return false
		}
		n := namedOf(ch.Elem())
		return n != nil && objName(n.Obj()) == "Conn"
	}
	n := 0
	p.AllFuncs([]*packagesPkg{pk}, func(fi *FuncInfo) {
		if strings.HasSuffix(p.Fset.Position(fi.Decl.Pos()).Filename, "_test.go") {
			return
		}
		// comm statements of selects with a default
		safe := map[ast.Node]bool{}
		ast.Inspect(fi.Decl.Body, func(x ast.Node) bool {
			sel, ok := x.(*ast.SelectStmt)
			if !ok {
				return true
			}
			hasDefault := false
			for _, cl := range sel.Body.List {
				if cc := cl.(*ast.CommClause); cc.Comm == nil {
					hasDefault = true
				}
			}
			if hasDefault {
				for _, cl := range sel.Body.List {
					if cc := cl.(*ast.CommClause); cc.Comm != nil {
						ast.Inspect(cc.Comm, func(y ast.Node) bool {
							if y != nil {
								safe[y] = true
							}
							return true
						})
					}
				}
			}
			return true
		})
		var closed []string
		ast.Inspect(fi.Decl.Body, func(x ast.Node) bool {
			if call, ok := x.(*ast.CallExpr); ok {
				if id, isID := call.Fun.(*ast.Ident); isID && id.Name == "close" && len(call.Args) == 1 {
					closed = append(closed, exprStr(call.Args[0]))
				}
			}
			return true
		})
		ast.Inspect(fi.Decl.Body, func(x ast.Node) bool {
			bad := ""
			var pos token.Pos
			switch s := x.(type) {
			case *ast.SendStmt:
				if isBucket(s.Chan) {
					n++
					pos = s.Pos()
					if !safe[s] {
						bad = "a send on a bucket channel that waits for room (" + exprStr(s.Chan) + " <- …)"
					}
				}
			case *ast.UnaryExpr:
				if s.Op == token.ARROW && isBucket(s.X) {
					n++
					pos = s.Pos()
					if !safe[s] {
						bad = "a receive from a bucket channel that waits for an element (<-" + exprStr(s.X) + ")"
					}
				}
			case *ast.RangeStmt:
				if isBucket(s.X) {
					n++
					pos = s.Pos()
					ok := false
					for _, cl := range closed {
						if cl == exprStr(s.X) {
							ok = true
						}
					}
					if !ok {
						bad = "a range over a bucket channel this function does not close (it waits for elements for ever)"
					}
				}
			}
			if pos.IsValid() {
				c.SawFunc(fi.Name())
				c.Hold("R8", refName(fi.Obj)+":chanop"+itoa(n), pos, bad == "", bad+": the goroutine that would make it proceed may be waiting for the pool's mutex – every later Get, Return, CleanUp and Close hangs, the connection is neither stored nor closed")
			}
			return true
		})
	})
	if n == 0 {
		c.Fail("R8", "ops", token.NoPos, "undecided: no bucket channel operation found")
	}
}

// R9: Usable is a question. The pool (Get) and the delivery (Close) close a connection that answers "no" themselves;
// an implementation that also closes it – to get rid of a dead socket early – makes that the second close: the
// client is nil by then and Close dereferences it, in a goroutine nobody recovers.
func c19UsablePure(c *Check) {
	p := c.P
	c.Rule("R9", "implementations of the pool's Conn.Usable only answer: nothing they call closes the connection (the callers close an unusable connection themselves – exactly once)", 1)
	n := 0
	closes := func(info *types.Info, call *ast.CallExpr) bool {
		switch methodName(call) {
		case "Close", "DirectClose", "Quit":
			return true
		}
		return false
	}
	p.AllFuncs(p.ServerPkgs(), func(fi *FuncInfo) {
		sig := fi.Obj.Type().(*types.Signature)
		if refName(fi.Obj) != "Usable" || sig.Recv() == nil || sig.Params().Len() != 0 || sig.Results().Len() != 1 || !isBoolType(sig.Results().At(0).Type()) {
			return
		}
		n++
		c.SawFunc(fi.Name())
		bad := p.MayCall(fi, closes, 2, nil)
		c.Hold("R9", fi.Pkg.Types.Name()+"."+recvTypeName(fi.Decl)+".Usable", fi.Decl.Pos(), !bad, "Usable closes the connection it was asked about: pool.Get and remoteDelivery.Close close an unusable connection again – the second Close runs on a connection whose client is already nil (nil dereference, in pool.Get on a bare goroutine: the server process dies)")
	})
	if n == 0 {
		c.Fail("R9", "Usable", token.NoPos, "undecided: no implementation of Usable found")
	}
}

// R10: the limits the pool enforces are the configured ones. Target.Init registers the pool's settings with the
// configuration map (`cfg.Int64("conn_max_idle_time", …, &poolCfg.MaxConnLifetimeSec)`); they have their values only
// after cfg.Process() ran. pool.New takes the settings by value: built before Process it keeps the defaults for good –
// "never handed out after it exceeded its idle lifetime" then holds for 150 s, whatever the administrator wrote.
// Decided for every variable whose address is registered with the map: it is not read before Process.
func c19Configured(c *Check) {
	c.Rule("R10", "remote.Target.Init: nothing registered with the configuration map (conn_max_idle_time, conn_max_idle_count, …) is read before cfg.Process() has filled it – the pool is built from the processed settings", 1)
	r := c.need("R10", remoteRel, "Target", "Init")
	if r == nil {
		return
	}
	msg, n := configReadBeforeProcess(r)
	if n == 0 && msg == "" {
		msg = "undecided: no setting is registered with the configuration map"
	}
	c.Hold("R10", "Target.Init:processed-before-use", r.FI.Decl.Pos(), msg == "", msg)
}

// configReadBeforeProcess: in an Init(cfg *config.Map) function, a variable whose address was handed to a method of the
// map is read at a point that can execute before the map's Process call. Returns the number of registered variables.
func configReadBeforeProcess(r *RuleCtx) (string, int) {
	info := r.Info
	var cfgObj types.Object
	sig := r.FI.Obj.Type().(*types.Signature)
	for i := 0; i < sig.Params().Len(); i++ {
		if pt, ok := sig.Params().At(i).Type().(*types.Pointer); ok {
			if nt := namedOf(pt.Elem()); nt != nil && objName(nt.Obj()) == "Map" {
				cfgObj = sig.Params().At(i)
			}
		}
	}
	if cfgObj == nil {
		return "undecided: no configuration map parameter", 0
	}
	process := r.Calls(func(info *types.Info, call *ast.CallExpr) bool {
		return (methodName(call) == "Process" || methodName(call) == "ProcessWith") && objOf(info, callRecv(call)) == cfgObj
	})
	if len(process) == 0 {
		return "", 0
	}
	// registered roots: &x or &x.f passed to a method of the map
	registered := map[types.Object]bool{}
	regSites := map[ast.Node]bool{}
	ast.Inspect(r.FI.Decl.Body, func(x ast.Node) bool {
		call, ok := x.(*ast.CallExpr)
		if !ok || objOf(info, callRecv(call)) != cfgObj {
			return true
		}
		for _, a := range call.Args {
			if u, isU := ast.Unparen(a).(*ast.UnaryExpr); isU && u.Op == token.AND {
				e := ast.Unparen(u.X)
				for {
					if sel, isSel := e.(*ast.SelectorExpr); isSel {
						e = ast.Unparen(sel.X)
						continue
					}
					break
				}
				if id, isID := e.(*ast.Ident); isID {
					if v, isVar := info.Uses[id].(*types.Var); isVar && !v.IsField() {
						// locals only: a field of the receiver reached through the receiver is judged by its selector below
						if v.Pos() >= r.FI.Decl.Body.Pos() && v.Pos() < r.FI.Decl.Body.End() {
							registered[v] = true
							regSites[u] = true
						}
					}
				}
			}
		}
		return true
	})
	if len(registered) == 0 {
		return "", 0
	}
	isProcess := isPt(process)
	msg := ""
	for _, pt := range r.F.Points() {
		n := pt.Node()
		if n == nil || isProcess(pt) {
			continue
		}
		// does the node read a registered variable other than by taking its address for the map?
		reads := ""
		var stack []ast.Node
		ast.Inspect(n, func(x ast.Node) bool {
			if x == nil {
				stack = stack[:len(stack)-1]
				return true
			}
			stack = append(stack, x)
			if _, isLit := x.(*ast.FuncLit); isLit {
				return false // closures run later
			}
			id, ok := x.(*ast.Ident)
			if !ok {
				return true
			}
			v, isVar := info.Uses[id].(*types.Var)
			if !isVar || !registered[v] {
				return true
			}
			// under an & that is a registration, or an assignment target (a default stored before Process)
			for k := len(stack) - 1; k >= 0; k-- {
				if u, isU := stack[k].(*ast.UnaryExpr); isU && u.Op == token.AND {
					return true
				}
				if as, isAs := stack[k].(*ast.AssignStmt); isAs {
					for _, l := range as.Lhs {
						if posIn(l, id.Pos()) {
							return true
						}
					}
				}
			}
			reads = id.Name
			return true
		})
		if reads == "" {
			continue
		}
		if _, early := r.F.Reach(Query{From: r.Entry(), Inclusive: true, Target: func(q Pt) bool { return q == pt }, Avoid: isProcess}); early {
			msg = "line " + itoa(r.Line(pt)) + ": " + reads + " is read before the configuration was processed (its address was registered with the map, the value arrives in Process): what is built from it keeps the built-in defaults – the configured idle lifetime / idle count of the pool is ignored and a connection idle longer than the configured limit is handed out"
		}
	}
	return msg, len(registered)
}
