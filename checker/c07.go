package main

import (
	"go/ast"
	"go/constant"
	"go/token"
	"go/types"
	"strings"
)

func init() { register("C07", checkC07) }

const msgauthDMARC = "github.com/emersion/go-msgauth/dmarc"

func checkC07(c *Check) {
	p := c.P
	c.explain = "C07 (DMARC), enforcement plumbing only: the action switch in applyResults has a case for every published action other than 'none', the reject case returns an error on every path (temporary code exactly on the temporary-error branch), the quarantine case flags the message on every path; " +
		"Verifier.Apply returns 'none' on every path when no record exists and fails closed (reject) under a temporariness test when the policy lookup failed; the errors FetchRecord returns for lookup failures reach that test in the form it recognises (reader/writer agreement on the error type)."
	c.notCover = "the verdict table itself: alignment (strict/relaxed, organizational domains), pct, subdomain policy selection, From-header shapes. A change inside EvaluateAlignment / isAligned / ExtractFromDomain is NOT detected by this check."

	// ---- R1
	c.Rule("R1", "applyResults: every published action other than none has a case; reject returns an error on all paths; quarantine flags the message on all paths", 3)
	r := c.need("R1", pipelineRel, "checkRunner", "applyResults")
	if r != nil {
		info := r.Info
		// constants of dmarc.Policy
		var consts []string
		if dp := p.ByPath[msgauthDMARC]; dp != nil {
			var polT types.Type
			if o := dp.Types.Scope().Lookup("Policy"); o != nil {
				polT = o.Type()
			}
			for _, n := range dp.Types.Scope().Names() {
				// upstream declares only the first constant with the Policy type, the others are untyped strings of
				// the same const block: take every string constant named Policy*
				if cst, ok := dp.Types.Scope().Lookup(n).(*types.Const); ok && polT != nil && strings.HasPrefix(n, "Policy") && cst.Val().Kind() == constant.String {
					consts = append(consts, constant.StringVal(cst.Val()))
				}
			}
		}
		// The action taken for each published policy value, decided in model worlds (policy == v) on the flow graph –
		// whatever the form of the dispatch (switch, if-chain).
		applyPts := r.Calls(calling("~/internal/dmarc.Verifier.Apply"))
		var polVar types.Object
		if len(applyPts) == 1 {
			if as, ok := applyPts[0].Node().(*ast.AssignStmt); ok && len(as.Lhs) == 2 {
				polVar = objOf(info, as.Lhs[1])
			}
		}
		if polVar == nil || len(consts) < 3 {
			c.Fail("R1", "applyResults:switch", r.FI.Decl.Pos(), "undecided: the policy returned by the DMARC verifier is not kept in a variable / policy constants not found")
		} else {
			worldFor := func(v string) func(b *cfgBlock, i int) bool {
				return r.F.ValueWorld(func(e ast.Expr) (constant.Value, bool) {
					if id, ok := ast.Unparen(e).(*ast.Ident); ok && objOf(info, id) == polVar {
						return constant.MakeString(v), true
					}
					return nil, false
				})
			}
			sets := func(pt Pt) bool {
				return nodeAssigns(pt.Node(), func(l, rhs ast.Expr) bool {
					if !isField(info, l, "MsgMetadata", "Quarantine") || rhs == nil {
						return false
					}
					tv, ok := info.Types[rhs]
					return ok && tv.Value != nil && tv.Value.String() == "true"
				})
			}
			acceptExit := func(pt Pt) bool {
				if !r.F.IsExitPt(pt) {
					return false
				}
				k, ret := r.F.Exit(pt)
				if k == ExitPanic {
					return false
				}
				return ret == nil || len(ret.Results) != 1 || isNilIdent(info, ret.Results[0]) || r.IsSuccessReturn(pt)
			}
			refuses := func(v string) (bool, string) {
				path, f := r.F.Reach(Query{From: applyPts, Target: acceptExit, AvoidEdge: worldFor(v)})
				return !f, r.F.Describe(path)
			}
			flags := func(v string) (bool, string) {
				path, f := r.F.Reach(Query{From: applyPts, Target: r.F.IsExitPt, Avoid: sets, AvoidEdge: worldFor(v)})
				return !f, r.F.Describe(path)
			}
			missing := []string{}
			for _, v := range consts {
				if v == "none" || v == "" {
					continue
				}
				ok1, _ := refuses(v)
				ok2, _ := flags(v)
				if !ok1 && !ok2 {
					missing = append(missing, v)
				}
			}
			c.Hold("R1", "applyResults:exhaustive", r.Pos(applyPts[0]), len(missing) == 0, "published DMARC action(s) without a handler: "+strings.Join(missing, ", ")+" (the message is accepted as if the policy were none)")
			okR, wR := refuses("reject")
			c.Hold("R1", "applyResults:reject-refuses", r.Pos(applyPts[0]), okR, "the reject action can fall through without refusing the message: "+wR)
			okQ, wQ := flags("quarantine")
			c.Hold("R1", "applyResults:quarantine-flags", r.Pos(applyPts[0]), okQ, "the quarantine action can complete without flagging the message: "+wQ)
			// and "none" does neither (the world machinery distinguishes the values at all)
			noneR, _ := refuses("none")
			noneQ, _ := flags("none")
			if noneR || noneQ {
				c.Fail("R1", "applyResults:none-accepts", r.Pos(applyPts[0]), "undecided: the model worlds do not separate policy none from reject/quarantine")
			}
		}
		// ---- R1d: with DMARC enabled the policy is evaluated on every path (no other verdict makes it optional)
		c.Rule("R1d", "applyResults: when DMARC is enabled the verifier's verdict is obtained on every path – no other condition (e.g. the message is already quarantined) skips the policy", 1)
		{
			apply := r.Calls(calling("~/internal/dmarc.Verifier.Apply"))
			world := r.F.World(func(atom ast.Expr) (bool, bool) {
				if fv := fieldOf(info, atom); fv != nil && objName(fv) == "doDMARC" {
					return true, true
				}
				return false, false
			})
			path, f := r.F.Reach(Query{From: r.Entry(), Inclusive: true, Target: r.F.IsExitPt, Avoid: isPt(apply), AvoidEdge: world})
			c.Hold("R1d", "applyResults:always-evaluated", r.FI.Decl.Pos(), !f && len(apply) == 1, "with DMARC enabled the policy evaluation can be skipped: a message that another check merely quarantined escapes a published reject policy (or a temporary lookup failure is ignored): "+r.F.Describe(path))
		}
		// ---- R2b: temporary code exactly on the temporary-error branch
		c.Rule("R2b", "applyResults: the reject reply is 4yz exactly when the DMARC result is a temporary error, 5yz otherwise", 1)
		var lit *ast.CompositeLit
		ast.Inspect(r.FI.Decl.Body, func(n ast.Node) bool {
			if cl, ok := n.(*ast.CompositeLit); ok && isSMTPErrorType(info.TypeOf(cl)) {
				lit = cl
			}
			return true
		})
		if lit == nil {
			c.Fail("R2b", "applyResults:reject-code", r.FI.Decl.Pos(), "undecided: no SMTP error literal in applyResults")
		} else {
			var codeE ast.Expr
			for _, el := range lit.Elts {
				if kv, ok := el.(*ast.KeyValueExpr); ok {
					if id, ok := kv.Key.(*ast.Ident); ok && id.Name == "Code" {
						codeE = kv.Value
					}
				}
			}
			target, _ := r.F.PtOf(lit.Pos())
			tracked := map[types.Object]bool{}
			if o := objOf(info, codeE); o != nil {
				tracked[o] = true
			}
			trk := func(l ast.Expr) (string, bool) {
				if o := objOf(info, ast.Unparen(l)); o != nil && tracked[o] {
					return o.Name(), true
				}
				return "", false
			}
			pe := &pathEvaluator{f: r.F, budget: 20000, tracked: trk}
			ev := c16Evaluator(p, info)
			pe.eval = func(e ast.Expr, env map[string]absVal) absVal { return ev(e, envLookup(info, trk, env)) }
			msg := ""
			n := 0
			pe.run(func(pt Pt) bool { return pt == target }, nil, func(pt Pt, env map[string]absVal, dec []decision) {
				temp := -1
				for _, d := range dec {
					for _, af := range atomsOnEdge(d.Cond, d.Succ) {
						if be, ok := ast.Unparen(af.E).(*ast.BinaryExpr); ok && be.Op == token.EQL {
							if s, ok := ast.Unparen(be.Y).(*ast.SelectorExpr); ok && s.Sel.Name == "ResultTempError" {
								if af.T {
									temp = 1
								} else {
									temp = 0
								}
							}
						}
					}
					// a false edge of `x == ResultTempError` gives no atom facts for ==; handle directly
					if be, ok := ast.Unparen(d.Cond).(*ast.BinaryExpr); ok && be.Op == token.EQL {
						if s, ok := ast.Unparen(be.Y).(*ast.SelectorExpr); ok && s.Sel.Name == "ResultTempError" {
							if d.Succ == 0 {
								temp = 1
							} else {
								temp = 0
							}
						}
					}
				}
				v := pe.eval(codeE, env)
				n++
				if temp < 0 || v.K != absConst {
					msg = "undecided: the reject code is not decided by the temporary-error test"
					return
				}
				want := int64(5)
				if temp == 1 {
					want = 4
				}
				if v.N/100 != want {
					msg = "the DMARC reject reply is " + v.String() + " on the temporary-error=" + itoa(temp) + " branch (a temporary lookup problem must defer with 4yz, a policy reject must be permanent)"
				}
			})
			if n < 2 && msg == "" {
				msg = "undecided: fewer than two paths to the reject reply"
			}
			c.Hold("R2b", "applyResults:reject-code", lit.Pos(), msg == "", msg)
		}
	}

	// ---- R2 / R3 on Verifier.Apply
	c.Rule("R2", "Verifier.Apply fails closed: when the policy lookup failed, a reject is returned under a temporariness test of that error; lookup errors reach that test in the form it recognises", 2)
	c.Rule("R3", "Verifier.Apply: no record ⇒ action none on every path", 1)
	ra := c.need("R2", "internal/dmarc", "Verifier", "Apply")
	if ra == nil {
		return
	}
	info := ra.Info
	polOf := func(ret *ast.ReturnStmt) string {
		if ret == nil || len(ret.Results) != 2 {
			return ""
		}
		if s, ok := ast.Unparen(ret.Results[1]).(*ast.SelectorExpr); ok {
			return s.Sel.Name
		}
		return "var"
	}
	isErrTest := func(atom ast.Expr) (bool, bool) {
		if be, ok := ast.Unparen(atom).(*ast.BinaryExpr); ok && (be.Op == token.NEQ || be.Op == token.EQL) && isNilIdent(info, be.Y) {
			if s, ok := ast.Unparen(be.X).(*ast.SelectorExpr); ok && s.Sel.Name == "recordErr" {
				return be.Op == token.NEQ, true
			}
		}
		return false, false
	}
	// world: recordErr != nil (remove edges establishing nil). The failure branch may be written in Apply itself or in
	// a function of the package Apply returns the result of (`return lookupFailed(data)`): such a delegation is followed.
	tempTest := func(atom ast.Expr) (bool, bool) {
		found := false
		ast.Inspect(atom, func(n ast.Node) bool {
			if call, ok := n.(*ast.CallExpr); ok && (methodName(call) == "Temporary" || methodName(call) == "Timeout" || isCall(info, call, exterrPkg+".IsTemporary")) {
				found = true
			}
			return true
		})
		return true, found
	}
	var errWorld func(b *cfgBlock, i int) bool
	var rejectRet func(pt Pt) bool
	var failClosed func(g *RuleCtx, depth int) (hasReject, rejectWithoutTemp bool)
	failClosed = func(g *RuleCtx, depth int) (bool, bool) {
		ew := g.F.AvoidImplying(func(atom ast.Expr) (bool, bool) { w, ok := isErrTest(atom); return !w, ok })
		// a reject: `return …, PolicyReject`, or `policy = PolicyReject` on a local that a return hands back unchanged
		rejAssign := map[Pt]bool{}
		for _, pt := range g.F.Points() {
			as, ok := pt.Node().(*ast.AssignStmt)
			if !ok || len(as.Lhs) != len(as.Rhs) {
				continue
			}
			for i, l := range as.Lhs {
				sel, isSel := ast.Unparen(as.Rhs[i]).(*ast.SelectorExpr)
				v, isVar := objOf(g.Info, l).(*types.Var)
				if !isSel || sel.Sel.Name != "PolicyReject" || !isVar || v.IsField() {
					continue
				}
				returnsV := func(q Pt) bool {
					_, ret := g.F.Exit(q)
					return ret != nil && len(ret.Results) == 2 && objOf(g.Info, ret.Results[1]) == v
				}
				if _, f := g.F.Reach(Query{From: []Pt{pt}, Target: returnsV, Avoid: func(q Pt) bool { return q != pt && q.Node() != nil && assignsObj(g.Info, q.Node(), v) }}); f {
					rejAssign[pt] = true
				}
			}
		}
		rr := func(pt Pt) bool {
			if rejAssign[pt] {
				return true
			}
			_, ret := g.F.Exit(pt)
			return polOf(ret) == "PolicyReject"
		}
		_, hasReject := g.F.Reach(Query{From: g.Entry(), Inclusive: true, Target: rr, AvoidEdge: ew})
		noTemp := func(b *cfgBlock, i int) bool {
			if ew(b, i) {
				return true
			}
			cond, isCase := g.F.Cond(b)
			if cond == nil || isCase {
				return false
			}
			return edgeImplies(cond, i, tempTest) || (i == 0 && func() bool { _, m := tempTest(cond); return m }())
		}
		_, rejectWithoutTemp := g.F.Reach(Query{From: g.Entry(), Inclusive: true, Target: rr, AvoidEdge: noTemp})
		if depth < 2 {
			// delegations reachable in the failure world
			for _, blk := range g.F.G.Blocks {
				pt := Pt{blk, len(blk.Nodes)}
				_, ret := g.F.Exit(pt)
				if ret == nil || len(ret.Results) != 1 {
					continue
				}
				call, ok := ast.Unparen(ret.Results[0]).(*ast.CallExpr)
				if !ok {
					continue
				}
				fn := callee(g.Info, call)
				if fn == nil || fn.Pkg() != g.FI.Obj.Pkg() {
					continue
				}
				d := c.P.DeclOf(fn)
				if d == nil || d.Decl.Body == nil {
					continue
				}
				if _, reach := g.F.Reach(Query{From: g.Entry(), Inclusive: true, Target: func(q Pt) bool { return q == pt }, AvoidEdge: ew}); !reach {
					continue
				}
				hr, rw := failClosed(c.CtxOf(d), depth+1)
				hasReject = hasReject || hr
				rejectWithoutTemp = rejectWithoutTemp || rw
			}
		}
		return hasReject, rejectWithoutTemp
	}
	errWorld = ra.F.AvoidImplying(func(atom ast.Expr) (bool, bool) { w, ok := isErrTest(atom); return !w, ok })
	rejectRet = func(pt Pt) bool { _, ret := ra.F.Exit(pt); return polOf(ret) == "PolicyReject" }
	_, _ = errWorld, rejectRet
	hasReject, rejectWithoutTemp := failClosed(ra, 0)
	msg := ""
	if !hasReject {
		msg = "a temporary failure of the policy lookup does not lead to a reject (fail open): the message is accepted although the sender's policy could not be fetched"
	} else if rejectWithoutTemp {
		msg = "a failed policy lookup leads to reject without a temporariness test"
	}
	c.Hold("R2", "Verifier.Apply:fail-closed", ra.FI.Decl.Pos(), msg == "", msg)
	// reader/writer agreement on the error form
	usesAs := false
	var assertedT types.Type
	var scanBodies []ast.Node
	scanBodies = append(scanBodies, ra.FI.Decl.Body)
	for _, call := range callsIn(ra.FI.Decl.Body) {
		if fn := callee(info, call); fn != nil && fn.Pkg() == ra.FI.Obj.Pkg() && fn != ra.FI.Obj {
			if d := c.P.DeclOf(fn); d != nil && d.Decl.Body != nil {
				scanBodies = append(scanBodies, d.Decl.Body)
			}
		}
	}
	for _, sb := range scanBodies {
		ast.Inspect(sb, func(n ast.Node) bool {
			switch x := n.(type) {
			case *ast.CallExpr:
				if isCall(info, x, "errors.As", "errors.Is") {
					usesAs = true
				}
			case *ast.TypeAssertExpr:
				if x.Type != nil {
					if s, ok := ast.Unparen(x.X).(*ast.SelectorExpr); ok && s.Sel.Name == "recordErr" {
						assertedT = info.TypeOf(x.Type)
					}
				}
			}
			return true
		})
	}
	ast.Inspect(&ast.BlockStmt{}, func(n ast.Node) bool {
		switch x := n.(type) {
		case *ast.CallExpr:
			if isCall(info, x, "errors.As", "errors.Is") {
				usesAs = true
			}
		case *ast.TypeAssertExpr:
			if x.Type != nil {
				if s, ok := ast.Unparen(x.X).(*ast.SelectorExpr); ok && s.Sel.Name == "recordErr" {
					assertedT = info.TypeOf(x.Type)
				}
			}
		}
		return true
	})
	msg = ""
	if !usesAs && assertedT != nil {
		// every error FetchRecord returns from a resolver call must be returned as is
		if fr := c.In("internal/dmarc", "", "FetchRecord"); fr != nil {
			fi := fr.Info
			ast.Inspect(fr.FI.Decl.Body, func(n ast.Node) bool {
				ret, ok := n.(*ast.ReturnStmt)
				if !ok || len(ret.Results) == 0 {
					return true
				}
				last := ret.Results[len(ret.Results)-1]
				if isNilIdent(fi, last) {
					return true
				}
				if call, ok := ast.Unparen(last).(*ast.CallExpr); ok {
					for _, a := range call.Args {
						if isErrorType(fi.TypeOf(a)) {
							msg = "FetchRecord wraps a lookup error (" + exprStr(call.Fun) + ") but Verifier.Apply recognises temporary failures with a plain type assertion on " + types.TypeString(assertedT, nil) + ": a wrapped temporary DNS failure is treated as permanent and the message is accepted (fail open)"
						}
					}
				}
				return true
			})
		} else {
			msg = "anchor unresolved: dmarc.FetchRecord"
		}
	}
	c.Hold("R2", "Verifier.Apply:error-form", ra.FI.Decl.Pos(), msg == "", msg)
	// R3: record == nil world
	nilRec := ra.F.AvoidImplying(func(atom ast.Expr) (bool, bool) {
		if be, ok := ast.Unparen(atom).(*ast.BinaryExpr); ok && (be.Op == token.NEQ || be.Op == token.EQL) && isNilIdent(info, be.Y) {
			if s, ok := ast.Unparen(be.X).(*ast.SelectorExpr); ok && s.Sel.Name == "record" {
				return be.Op == token.NEQ, true // remove "record present" edges
			}
			if w, ok := isErrTest(atom); ok {
				return w, true // and we are in the "no lookup error" world
			}
		}
		return false, false
	})
	notNone := func(pt Pt) bool {
		k, ret := ra.F.Exit(pt)
		if k == NotExit || k == ExitPanic {
			return false
		}
		return polOf(ret) != "PolicyNone"
	}
	path, f := ra.F.Reach(Query{From: ra.Entry(), Inclusive: true, Target: notNone, AvoidEdge: nilRec})
	c.Hold("R3", "Verifier.Apply:no-record-no-action", ra.FI.Decl.Pos(), !f, "without a published record an action other than none can be returned: "+ra.F.Describe(path))

	// ---- R4: which policy applies. RFC 7489 §6.3: the record's sp= is the requested policy when the record was found at
	// another (the organizational) domain than the From domain and sp is present; p= otherwise.
	c.Rule("R4", "Verifier.Apply: the policy returned is the record's subdomain policy exactly in the world 'record found at a domain other than the From domain, and sp present' – the record's policy otherwise (reaching definitions of the returned value per world)", 2)
	{
		msg4 := ""
		{
			isDomCmp := func(atom ast.Expr) (truthWhenSame bool, ok bool) {
				// strings.EqualFold(data.policyDomain, data.fromDomain) or ==
				var a, b ast.Expr
				neg := false
				switch x := ast.Unparen(atom).(type) {
				case *ast.CallExpr:
					if isCall(info, x, "strings.EqualFold") && len(x.Args) == 2 {
						a, b = x.Args[0], x.Args[1]
					}
				case *ast.BinaryExpr:
					if x.Op == token.EQL || x.Op == token.NEQ {
						a, b, neg = x.X, x.Y, x.Op == token.NEQ
					}
				}
				if a == nil {
					return false, false
				}
				fa, fb := fieldOf(info, a), fieldOf(info, b)
				if fa == nil || fb == nil {
					return false, false
				}
				na, nb := objName(fa), objName(fb)
				if (na == "policyDomain" && nb == "fromDomain") || (na == "fromDomain" && nb == "policyDomain") {
					return !neg, true
				}
				return false, false
			}
			world := func(same, spPresent bool) func(b *cfgBlock, i int) bool {
				return ra.F.World(func(atom ast.Expr) (bool, bool) {
					if t, ok := isDomCmp(atom); ok {
						return t == same, true
					}
					if be, ok := ast.Unparen(atom).(*ast.BinaryExpr); ok && (be.Op == token.EQL || be.Op == token.NEQ) {
						if fv := fieldOf(info, be.X); fv != nil && objName(fv) == "SubdomainPolicy" {
							if sv, ok := constString(info, be.Y); ok && sv == "" {
								return (be.Op == token.NEQ) == spPresent, true
							}
						}
					}
					// a record was fetched
					if w, ok := isErrTest(atom); ok {
						return !w, true
					}
					return false, false
				})
			}
			// classify what a world can return as the policy: the record's p=, its sp=, or something else (constants
			// such as PolicyNone – "nothing to enforce / sampled out" – are not a choice between the two)
			classify := func(same, sp bool) (p, spDef, other bool) {
				w := world(same, sp)
				kind := func(e ast.Expr) {
					e = ast.Unparen(e)
					if fv := fieldOf(info, e); fv != nil {
						switch objName(fv) {
						case "Policy":
							p = true
						case "SubdomainPolicy":
							spDef = true
						default:
							other = true
						}
						return
					}
					if sx, ok := e.(*ast.SelectorExpr); ok {
						if _, isConst := info.Uses[sx.Sel].(*types.Const); isConst {
							return
						}
					}
					other = true
				}
				for _, blk := range ra.F.G.Blocks {
					pt := Pt{blk, len(blk.Nodes)}
					_, ret := ra.F.Exit(pt)
					if ret == nil || len(ret.Results) != 2 {
						continue
					}
					if _, f := ra.F.Reach(Query{From: ra.Entry(), Inclusive: true, Target: func(q Pt) bool { return q == pt }, AvoidEdge: w}); !f {
						continue
					}
					if v, ok := objOf(info, ret.Results[1]).(*types.Var); ok && !v.IsField() && localIn(ra.FI.Decl.Body, v) {
						defs, okD := ra.ReachingDefs(v, Pt{blk, len(blk.Nodes) - 1}, w)
						if !okD {
							other = true
						}
						for _, d := range defs {
							kind(d)
						}
						continue
					}
					kind(ret.Results[1])
				}
				return
			}
			for _, wld := range []struct {
				same, sp, wantSP bool
				what             string
			}{
				{true, true, false, "the record was found at the From domain itself"},
				{false, false, false, "the record was found at another domain but has no sp="},
				{false, true, true, "the record was found at another domain and has sp="},
			} {
				p, spd, oth := classify(wld.same, wld.sp)
				switch {
				case oth:
					msg4 = "the returned policy can be something other than the record's p= / sp="
				case wld.wantSP && (p || !spd):
					msg4 = "when " + wld.what + " the subdomain policy is not (only) what is returned"
				case !wld.wantSP && (spd || !p):
					msg4 = "when " + wld.what + " the record's p= is not (only) what is returned: the choice between p= and sp= does not depend on where the record was found"
				}
			}
		}
		c.Hold("R4", "Verifier.Apply:policy-selection", ra.FI.Decl.Pos(), msg4 == "", msg4)
	}
	// … and "where the record was found" is what FetchRecord reports: the domain returned together with a record is
	// the domain used in the lookup that produced it
	if fr := c.In("internal/dmarc", "", "FetchRecord"); fr != nil {
		fi := fr.Info
		isLookup := func(info *types.Info, call *ast.CallExpr) bool { return methodName(call) == "LookupTXT" }
		lookups := fr.Calls(isLookup)
		domOf := func(call *ast.CallExpr) types.Object {
			var dom types.Object
			if len(call.Args) >= 2 {
				ast.Inspect(call.Args[1], func(n ast.Node) bool {
					if id, ok := n.(*ast.Ident); ok {
						if v, ok := fi.Uses[id].(*types.Var); ok && isStringType(v.Type()) {
							dom = v
						}
					}
					return true
				})
			}
			return dom
		}
		// the return that hands a record back: first result is a local, second is not the nil literal
		var retPt Pt
		var pd *types.Var
		for _, blk := range fr.F.G.Blocks {
			pt := Pt{blk, len(blk.Nodes)}
			_, ret := fr.F.Exit(pt)
			if ret != nil && len(ret.Results) == 3 && !isNilIdent(fi, ret.Results[1]) {
				if v, ok := objOf(fi, ret.Results[0]).(*types.Var); ok {
					pd, retPt = v, Pt{blk, len(blk.Nodes) - 1}
				}
			}
		}
		msg5 := ""
		if pd == nil || len(lookups) < 2 {
			msg5 = "undecided: expected two TXT lookups and a return of (domain, record, error)"
		} else {
			isDef := func(q Pt) bool { return q.Node() != nil && assignsObj(fi, q.Node(), pd) }
			for _, lp := range lookups {
				dom := domOf(fr.CallAt(lp, isLookup))
				others := func(q Pt) bool { return q != lp && isPt(lookups)(q) }
				// is this lookup the last one on some path to the return?
				if _, last := fr.F.Reach(Query{From: []Pt{lp}, Target: func(q Pt) bool { return q == retPt }, Avoid: others}); !last {
					continue
				}
				sawDef := false
				for _, dp := range fr.F.Points() {
					if !isDef(dp) {
						continue
					}
					_, before := fr.F.Reach(Query{From: []Pt{dp}, Target: func(q Pt) bool { return q == lp }, Avoid: func(q Pt) bool { return q != lp && isDef(q) }})
					reaches := false
					if before {
						_, reaches = fr.F.Reach(Query{From: []Pt{lp}, Target: func(q Pt) bool { return q == retPt }, Avoid: func(q Pt) bool { return isDef(q) || others(q) }})
					} else if _, after := fr.F.Reach(Query{From: []Pt{lp}, Target: func(q Pt) bool { return q == dp }, Avoid: others}); after {
						_, reaches = fr.F.Reach(Query{From: []Pt{dp}, Target: func(q Pt) bool { return q == retPt }, Avoid: func(q Pt) bool { return isDef(q) || others(q) }})
					}
					if !reaches {
						continue
					}
					var rhs ast.Expr
					if as, ok := dp.Node().(*ast.AssignStmt); ok {
						for i, l := range as.Lhs {
							if objOf(fi, l) == pd && len(as.Rhs) == len(as.Lhs) {
								rhs = as.Rhs[i]
							}
						}
					}
					sawDef = true
					if rhs == nil || objOf(fi, rhs) != dom || dom == nil {
						msg5 = "the domain returned with a record can differ from the domain whose lookup produced it (the choice between p= and sp= is made for the wrong domain)"
					}
				}
				if !sawDef {
					msg5 = "a record can be returned without the domain it was found at having been set (the zero value is returned)"
				}
			}
		}
		c.Hold("R4", "FetchRecord:domain-of-the-record", fr.FI.Decl.Pos(), msg5 == "", msg5)
	}

	// ---- R6: the verdict does not depend on the order of the DKIM results. A message may carry several signatures;
	// RFC 7489 decides on the set of aligned results. Structurally: every variable that the DKIM branch of the results
	// loop assigns and that a decision after the loop reads is a sticky flag (only ever set to the constant true there).
	c.Rule("R6", "EvaluateAlignment: the decisions taken after the results loop read, of what the DKIM branch of the loop assigns, only sticky flags (set to constant true): the verdict is independent of the order of the signatures", 1)
	if ea := c.need("R6", "internal/dmarc", "", "EvaluateAlignment"); ea != nil {
		ei := ea.Info
		msg := "undecided: the loop over the results / its DKIM branch was not found"
		var loop *ast.RangeStmt
		ast.Inspect(ea.FI.Decl.Body, func(n ast.Node) bool {
			if rs, ok := n.(*ast.RangeStmt); ok && loop == nil {
				if o := objOf(ei, rs.X); o != nil {
					if _, isParam := paramObjs(ea.FI)[o.Name()]; isParam {
						loop = rs
					}
				}
			}
			return true
		})
		if loop != nil {
			// DKIM branch: an if whose init asserts *authres.DKIMResult (or a type-switch case of that type)
			var branches []ast.Node
			ast.Inspect(loop.Body, func(n ast.Node) bool {
				switch x := n.(type) {
				case *ast.IfStmt:
					if as, ok := x.Init.(*ast.AssignStmt); ok && len(as.Rhs) == 1 {
						if ta, ok := ast.Unparen(as.Rhs[0]).(*ast.TypeAssertExpr); ok && ta.Type != nil {
							if p, ok := ei.TypeOf(ta.Type).(*types.Pointer); ok && typeIs(p.Elem(), "github.com/emersion/go-msgauth/authres", "DKIMResult") {
								branches = append(branches, x.Body)
							}
						}
					}
				case *ast.CaseClause:
					for _, t := range x.List {
						if p, ok := ei.TypeOf(t).(*types.Pointer); ok && typeIs(p.Elem(), "github.com/emersion/go-msgauth/authres", "DKIMResult") {
							for _, st := range x.Body {
								branches = append(branches, st)
							}
						}
					}
				}
				return true
			})
			if len(branches) > 0 {
				msg = ""
				// cells: a local variable, or a field path of a local struct (`st.tempFail`)
				cellOf := func(e ast.Expr) (string, bool) {
					e = ast.Unparen(e)
					path := ""
					for {
						if se, ok := e.(*ast.SelectorExpr); ok && fieldOf(ei, se) != nil {
							path = "." + se.Sel.Name + path
							e = ast.Unparen(se.X)
							continue
						}
						break
					}
					id, ok := e.(*ast.Ident)
					if !ok {
						return "", false
					}
					v, isVar := objOf(ei, id).(*types.Var)
					if !isVar || v.IsField() {
						return "", false
					}
					return itoa(int(v.Pos())) + ":" + v.Name() + path, true
				}
				nonSticky := map[string]string{}
				assigned := map[string]bool{}
				for _, br := range branches {
					ast.Inspect(br, func(n ast.Node) bool {
						as, ok := n.(*ast.AssignStmt)
						if !ok {
							if inc, isInc := n.(*ast.IncDecStmt); isInc {
								if k, ok := cellOf(inc.X); ok {
									assigned[k] = true
									nonSticky[k] = exprStr(inc.X) + " is counted"
								}
							}
							return true
						}
						for i, l := range as.Lhs {
							k, ok := cellOf(l)
							if !ok || as.Tok == token.DEFINE {
								continue
							}
							assigned[k] = true
							sticky := false
							if len(as.Rhs) == len(as.Lhs) && as.Tok == token.ASSIGN {
								if tv, ok := ei.Types[as.Rhs[i]]; ok && tv.Value != nil && tv.Value.Kind() == constant.Bool && constant.BoolVal(tv.Value) {
									sticky = true
								}
							}
							if !sticky {
								nonSticky[k] = exprStr(l) + " is overwritten per signature"
							}
						}
						return true
					})
				}
				// decisions after the loop
				inLoop := map[ast.Node]bool{}
				ast.Inspect(loop, func(n ast.Node) bool {
					if n != nil {
						inLoop[n] = true
					}
					return true
				})
				for _, b := range ea.F.G.Blocks {
					cond := ea.F.condRaw(b)
					if cond == nil || !b.Live || inLoop[cond] {
						continue
					}
					// before the loop?
					if _, after := ea.F.Reach(Query{From: ea.F.LoopDone(&ElemLoop{Stmt: loop}), Inclusive: true, Target: func(q Pt) bool { return q.B == b }, NoCorr: true}); !after {
						continue
					}
					var visit func(n ast.Node) bool
					visit = func(n ast.Node) bool {
						e, isExpr := n.(ast.Expr)
						if !isExpr {
							return true
						}
						if k, ok := cellOf(e); ok {
							// the cell itself, or a cell below / above it
							for nk, why := range nonSticky {
								if nk == k || strings.HasPrefix(nk, k+".") || strings.HasPrefix(k, nk+".") {
									msg = "a decision after the loop (" + exprStr(cond) + ") reads " + exprStr(e) + ", which " + why + " in the DKIM branch: with several signatures the verdict depends on their order (a temp-failed aligned signature is forgotten when another one follows)"
								}
							}
							return false
						}
						return true
					}
					ast.Inspect(cond, visit)
				}
				if len(assigned) == 0 {
					msg = "undecided: the DKIM branch assigns nothing"
				}
			}
		}
		c.Hold("R6", "EvaluateAlignment:order-independent", ea.FI.Decl.Pos(), msg == "", msg)
	}

	// ---- R5: FetchRecord fails closed. A failed TXT lookup counts as "no record here" only when it is a DNS error that
	// says the name does not exist; every other failure (time-out, SERVFAIL, a foreign error type) is returned, so that
	// Verifier.Apply can refuse temporarily (R2) instead of accepting a message whose policy could not be read.
	c.Rule("R5", "FetchRecord: after a failed TXT lookup the records are looked at only in the world 'the error is a DNS error and says not-found'; in the worlds 'another error type' and 'a DNS error other than not-found' the function returns before using them", 2)
	if fr := c.In("internal/dmarc", "", "FetchRecord"); fr != nil {
		fi := fr.Info
		look := func(info *types.Info, call *ast.CallExpr) bool { return methodName(call) == "LookupTXT" }
		for i, pt := range fr.Calls(look) {
			key := "FetchRecord:lookup" + itoa(i+1)
			call := fr.CallAt(pt, look)
			as, ok := pt.Node().(*ast.AssignStmt)
			eo := errVarAssigned(fi, pt.Node(), call)
			if !ok || eo == nil || len(as.Lhs) != 2 {
				c.Hold("R5", key, call.Pos(), false, "the error of the TXT lookup is not looked at")
				continue
			}
			txts := objOf(fi, as.Lhs[0])
			usesTxts := func(q Pt) bool { return q != pt && q.Node() != nil && readsObj(fi, q.Node(), txts) }
			world := func(isDNSErr, notFound bool) func(b *cfgBlock, i int) bool {
				return fr.F.World(func(atom ast.Expr) (bool, bool) {
					if id, isID := ast.Unparen(atom).(*ast.Ident); isID {
						if v, isVar := fi.Uses[id].(*types.Var); isVar && isBoolType(v.Type()) {
							// the ok of `dnsErr, ok := err.(*net.DNSError)`
							if def, _ := localDef(fi, fr.FI.Decl.Body, v); def != nil {
								if ta, isTA := ast.Unparen(def).(*ast.TypeAssertExpr); isTA && objOf(fi, ta.X) != nil && isErrorType(objOf(fi, ta.X).Type()) {
									return isDNSErr, true
								}
							}
						}
					}
					if sel, isSel := ast.Unparen(atom).(*ast.SelectorExpr); isSel && sel.Sel.Name == "IsNotFound" {
						return notFound, true
					}
					if call, isC := ast.Unparen(atom).(*ast.CallExpr); isC && isCall(fi, call, "~/framework/dns.IsNotFound") {
						return isDNSErr && notFound, true
					}
					return false, false
				})
			}
			msg := ""
			if path, f := fr.F.ReachRefined2(pt, eo, false, false, usesTxts, nil, world(false, false)); f {
				msg = "a lookup failure that is not a DNS error is treated as 'no record' (the message is judged without the policy): " + fr.F.Describe(path)
			} else if path, f := fr.F.ReachRefined2(pt, eo, false, false, usesTxts, nil, world(true, false)); f {
				msg = "a DNS failure other than 'not found' (time-out, SERVFAIL) is treated as 'no record' – fail open: " + fr.F.Describe(path)
			} else if _, f := fr.F.ReachRefined2(pt, eo, false, false, usesTxts, nil, world(true, true)); !f {
				msg = "a name that does not exist is reported as a lookup failure instead of 'no record here' (mail from every domain without a DMARC record is refused temporarily)"
			}
			c.Hold("R5", key, call.Pos(), msg == "", msg)
		}
	}
	c07DomainComparisons(c)
	c07Inputs(c)
}

// R8, R9: the verdict is computed from the policy record and from the results of ALL checks.
//
// R8 – the policy record is fetched asynchronously: checkBody starts FetchRecord and applyResults collects the
// answer later. The context the fetch runs under must outlive the function that starts it: a context obtained from
// context.WithTimeout / WithCancel / WithDeadline whose cancel function is deferred in the starting function is
// cancelled the moment that function returns – a lookup still in flight fails with "operation was canceled", which is
// no temporary error: the message of a p=reject domain is judged as "no policy" and accepted.
//
// R9 – DMARC needs the SPF and DKIM results the body checks produce. applyResults (which asks the verifier) comes after
// the body checks of every scope – global, source block, every recipient block – on the SMTP path and on the
// per-recipient (LMTP) path alike. That is the stage-sequence agreement of C06.R1, a clause of this property too.
func c07Inputs(c *Check) {
	p := c.P
	c.Rule("R8", "the context handed to the asynchronous policy fetch (Verifier.FetchRecord) is not derived from a context whose cancel function the calling function defers", 1)
	fetch := calling("~/internal/dmarc.Verifier.FetchRecord")
	n := 0
	p.AllFuncs(p.ServerPkgs(), func(fi *FuncInfo) {
		info := fi.Info()
		for _, call := range callsIn(fi.Decl.Body) {
			if !fetch(info, call) || len(call.Args) < 1 {
				continue
			}
			n++
			c.SawFunc(fi.Name())
			ctxObj := objOf(info, call.Args[0])
			msg := ""
			if ctxObj != nil {
				// every definition of that variable in the function
				ast.Inspect(fi.Decl.Body, func(x ast.Node) bool {
					as, ok := x.(*ast.AssignStmt)
					if !ok || len(as.Rhs) != 1 || len(as.Lhs) != 2 || objOf(info, as.Lhs[0]) != ctxObj {
						return true
					}
					dc, ok := ast.Unparen(as.Rhs[0]).(*ast.CallExpr)
					if !ok || !isCall(info, dc, "context.WithTimeout", "context.WithCancel", "context.WithDeadline", "context.WithTimeoutCause", "context.WithDeadlineCause", "context.WithCancelCause") {
						return true
					}
					cancel := objOf(info, as.Lhs[1])
					ast.Inspect(fi.Decl.Body, func(y ast.Node) bool {
						if ds, isDefer := y.(*ast.DeferStmt); isDefer && cancel != nil && mentions(info, ds, cancel) {
							msg = "line " + itoa(p.Fset.Position(as.Pos()).Line) + ": the policy fetch is started under a context that " + refName(fi.Obj) + " cancels when it returns (defer " + cancel.Name() + "()): a DNS lookup still in flight fails with 'operation was canceled', the verdict becomes 'no policy' and a message that fails DMARC for a p=reject domain is accepted"
						}
						return true
					})
					return true
				})
			}
			c.Hold("R8", refName(fi.Obj)+":fetch-context", call.Pos(), msg == "", msg)
		}
	})
	if n == 0 {
		c.Fail("R8", "FetchRecord", token.NoPos, "undecided: the policy fetch is never started")
	}
	c.Rule("R9", "applyResults (the DMARC verdict) comes after the body checks of every scope on both body paths of the pipeline (C06.R1)", 1)
	sub := newCheck("C06", c.P, c.Tier)
	c06StageOrder(sub)
	for _, o := range sub.obs {
		if o.Rule == "R1" {
			c.Hold("R9", o.Key, o.posRaw, o.OK, o.Msg)
		}
	}
	// the SPF / DKIM results DMARC evaluates are part of the check results: none is dropped on the way to the merge
	c06ResultsKept(c, "R9b")
	c07PublicSuffixInputs(c)
	c07FromFieldCount(c)
	c07AuthResultsAccumulate(c, "R11")
	c07FromFieldRaw(c)
	c07RawLookupError(c, "R13")
	c07FromDomainALabels(c, "R14")
	noTransitionalIDNA(c, "R15", []string{"internal/dmarc", "framework/address", "framework/dns"})
	c07FallbackOnFilteredRecords(c, "R16")
	c07VersionFilterIsPrefix(c, "R16")
	c06BodyBlockListNeverShrinks(c, "R17")
	c07ReportedIdentityNotFQDN(c, "R18")
	c07AlignmentOnALabels(c, "R19")
	// the quarantine action of the DMARC verdict is a flag on the message metadata: every target must hold the object it is set on
	c.Rule("R9c", "the quarantine action reaches the targets: targets keep, and the pipeline hands them, the metadata object the verdict is written to (C06.R5, C06.R5c)", 2)
	{
		sub := newCheck("C06", c.P, c.Tier)
		c06MetadataIdentity(sub)
		for _, o := range sub.obs {
			if o.Rule == "R5" || o.Rule == "R5c" {
				c.Hold("R9c", o.Rule+":"+o.Key, o.posRaw, o.OK, o.Msg)
			}
		}
		for f := range sub.funcs {
			c.SawFunc(f)
		}
	}
	for f := range sub.funcs {
		c.SawFunc(f)
	}
}

// R7: names of domains are compared without regard to case, whole name against whole name.
//
// DMARC decides on three comparisons of domain names: the From domain against the authenticated identifier (strict),
// their organizational domains (relaxed), and the domain the record was found at against the From domain (p= or sp=).
// The names come from a header, from DKIM / SPF results and from the DNS walk, in whatever spelling the sender chose:
// a byte-wise `==`, or a prefix / suffix test without a label boundary, gives a different verdict for `Example.COM`
// or `notexample.org` than for the name it is. Decided structurally in package internal/dmarc: (a) no `==` / `!=`
// between two non-constant strings (unless both sides are lower-cased), no HasPrefix / HasSuffix / Contains with a
// non-constant pattern; (b) isAligned returns the constant false or an EqualFold of its two parameters – both
// as given, or both reduced to their organizational domain by the same function.
func c07DomainComparisons(c *Check) {
	p := c.P
	c.Rule("R7", "internal/dmarc: domain names are compared case-insensitively and whole (EqualFold; no byte-wise == between two computed strings, no prefix / suffix match with a computed pattern); isAligned answers true only as EqualFold(from, auth) or EqualFold(org(from), org(auth))", 4)
	pk := p.Pkg("internal/dmarc")
	if pk == nil {
		c.Fail("R7", "package", token.NoPos, "anchor unresolved")
		return
	}
	info := pk.TypesInfo
	isConstStr := func(e ast.Expr) bool {
		tv, ok := info.Types[e]
		return ok && tv.Value != nil
	}
	lowered := func(body ast.Node, e ast.Expr) bool {
		e = resolveLocal(info, body, e)
		call, ok := ast.Unparen(e).(*ast.CallExpr)
		return ok && isCall(info, call, "strings.ToLower", "strings.ToUpper")
	}
	p.AllFuncs([]*packagesPkg{pk}, func(fi *FuncInfo) {
		if strings.HasSuffix(p.Fset.Position(fi.Decl.Pos()).Filename, "_test.go") {
			return
		}
		n := 0
		ast.Inspect(fi.Decl.Body, func(x ast.Node) bool {
			switch e := x.(type) {
			case *ast.BinaryExpr:
				if e.Op != token.EQL && e.Op != token.NEQ {
					return true
				}
				tx, ty := info.TypeOf(e.X), info.TypeOf(e.Y)
				if tx == nil || ty == nil || !isStringType(tx) || !isStringType(ty) || isConstStr(e.X) || isConstStr(e.Y) {
					return true
				}
				n++
				ok := lowered(fi.Decl.Body, e.X) && lowered(fi.Decl.Body, e.Y)
				c.SawFunc(fi.Name())
				c.Hold("R7", refName(fi.Obj)+":cmp"+itoa(n), e.Pos(), ok, "two computed strings are compared byte-wise ("+exprStr(e)+"): a domain name spelled with other letter case (From: user@Example.COM) is taken for a different domain – e.g. for a subdomain, which selects sp= instead of p=")
			case *ast.CallExpr:
				if isCall(info, e, "strings.EqualFold") {
					n++
					c.SawFunc(fi.Name())
					c.Hold("R7", refName(fi.Obj)+":cmp"+itoa(n), e.Pos(), true, "")
					return true
				}
				if isCall(info, e, "strings.HasSuffix", "strings.HasPrefix", "strings.Contains", "strings.Index", "strings.LastIndex") && len(e.Args) == 2 && !isConstStr(e.Args[1]) {
					n++
					c.SawFunc(fi.Name())
					c.Hold("R7", refName(fi.Obj)+":cmp"+itoa(n), e.Pos(), false, "a computed string is used as a prefix / suffix / substring pattern ("+exprStr(e)+"): without a label boundary `notexample.org` matches `example.org` and counts as the same organization")
				}
			}
			return true
		})
	})
	ia := c.In("internal/dmarc", "", "isAligned")
	if ia == nil {
		c.Fail("R7", "isAligned", token.NoPos, "anchor unresolved")
		return
	}
	sig := ia.FI.Obj.Type().(*types.Signature)
	var params []types.Object
	for i := 0; i < sig.Params().Len(); i++ {
		if types.Identical(sig.Params().At(i).Type(), types.Typ[types.String]) {
			params = append(params, sig.Params().At(i))
		}
	}
	// an operand is a parameter as given ("id") or the result of a reducing function applied to one ("fn name")
	classify := func(e ast.Expr) (kind string, prm types.Object) {
		e = resolveLocal(info, ia.FI.Decl.Body, e)
		if o := objOf(info, e); o != nil {
			for _, q := range params {
				if q == o {
					return "id", q
				}
			}
		}
		if call, ok := ast.Unparen(e).(*ast.CallExpr); ok && len(call.Args) == 1 {
			if fn := callee(info, call); fn != nil {
				if o := objOf(info, call.Args[0]); o != nil {
					for _, q := range params {
						if q == o {
							return qname(fn), q
						}
					}
				}
			}
		}
		return "", nil
	}
	msg, nret := "", 0
	inspectNoLit(ia.FI.Decl.Body, func(x ast.Node) bool {
		ret, ok := x.(*ast.ReturnStmt)
		if !ok || len(ret.Results) != 1 {
			return true
		}
		nret++
		r0 := ast.Unparen(ret.Results[0])
		if tv, ok := info.Types[r0]; ok && tv.Value != nil && tv.Value.Kind() == constant.Bool && !constant.BoolVal(tv.Value) {
			return true
		}
		call, ok := r0.(*ast.CallExpr)
		if !ok || !isCall(info, call, "strings.EqualFold") || len(call.Args) != 2 {
			msg = "line " + itoa(p.Fset.Position(ret.Pos()).Line) + ": the answer is not an EqualFold comparison of the two names (or the constant false)"
			return true
		}
		k1, p1 := classify(call.Args[0])
		k2, p2 := classify(call.Args[1])
		if k1 == "" || k2 == "" || k1 != k2 || p1 == p2 {
			msg = "line " + itoa(p.Fset.Position(ret.Pos()).Line) + ": EqualFold does not compare the From domain and the authenticated identifier under the same reduction (" + exprStr(call.Args[0]) + " vs " + exprStr(call.Args[1]) + "): relaxed alignment compares the organizational domain of both"
		}
		return true
	})
	if len(params) != 2 || nret < 2 {
		msg = "undecided: expected two name parameters and at least two returns"
	}
	c.Hold("R7", "isAligned:answers", ia.FI.Decl.Pos(), msg == "", msg)
}


// R7b: golang.org/x/net/publicsuffix is case-sensitive: for "victim.CO.UK" it knows no suffix "UK" rule other than the
// default and answers "CO.UK" as the organizational domain – for every name under co.uk written in upper case. Two
// unrelated registrations are then "aligned" in relaxed mode (dmarc=pass for a forged From), and the policy lookup
// falls back to _dmarc.CO.UK. Every name handed to the package is therefore lower-cased first.
func c07PublicSuffixInputs(c *Check) {
	c.Rule("R7b", "internal/dmarc: every name handed to publicsuffix.PublicSuffix / EffectiveTLDPlusOne is the result of a lower-casing call on every path (the list is case-sensitive; an upper-case spelling gives every name under a multi-label suffix the same organizational domain)", 3)
	p := c.P
	pk := p.Pkg("internal/dmarc")
	if pk == nil {
		c.Fail("R7b", "package", token.NoPos, "anchor unresolved")
		return
	}
	n := 0
	for _, fi := range funcsOfPkgs(p, "internal/dmarc") {
		info := fi.Info()
		var r *RuleCtx
		ord := 0
		for _, call := range callsIn(fi.Decl.Body) {
			fn := callee(info, call)
			if fn == nil || fn.Pkg() == nil || fn.Pkg().Path() != "golang.org/x/net/publicsuffix" || len(call.Args) != 1 {
				continue
			}
			n++
			ord++
			c.SawFunc(fi.Name())
			if r == nil {
				r = c.CtxOf(fi)
			}
			key := fi.Name() + ":" + fn.Name() + itoa(ord)
			at, found := r.F.PtOfNode(call)
			lowered := func(e ast.Expr) bool {
				lc, ok := ast.Unparen(e).(*ast.CallExpr)
				if !ok {
					return false
				}
				return isCall(info, lc, "strings.ToLower", "~/framework/dns.LowerASCII", "~/framework/dns.ForLookup", "~/framework/address.ForLookup") || containsFold(exprStr(lc.Fun), "tolower") || containsFold(exprStr(lc.Fun), "lowerascii")
			}
			var judge func(e ast.Expr, pt Pt, depth int) string
			judge = func(e ast.Expr, pt Pt, depth int) string {
				if lowered(e) {
					return ""
				}
				if v, ok := objOf(info, e).(*types.Var); ok && !v.IsField() && depth < 3 && found {
					defs, okD := r.ReachingDefs(v, pt, nil)
					if okD && len(defs) > 0 && !(isParamOrResult(fi, v) && func() bool {
						// a parameter is also "defined" by the call: only if every path passes one of the definitions
						_, skip := r.F.Reach(Query{From: r.Entry(), Inclusive: true, Target: func(q Pt) bool { return q == pt }, Avoid: func(q Pt) bool { return q != pt && q.Node() != nil && assignsObj(info, q.Node(), v) }})
						return skip
					}()) {
						for _, d := range defs {
							dp, okP := r.F.PtOfNode(d)
							if !okP {
								dp = pt
							}
							if m := judge(d, dp, depth+1); m != "" {
								return m
							}
						}
						return ""
					}
				}
				return exprStr(e)
			}
			bad := judge(call.Args[0], at, 0)
			c.Hold("R7b", key, call.Pos(), bad == "", "publicsuffix."+fn.Name()+" is given "+bad+" as the caller spelled it: for `victim.CO.UK` the case-sensitive list answers CO.UK – every name under co.uk written in upper case gets the same organizational domain, so `From: ceo@victim.CO.UK` authenticated only by attacker.CO.UK is 'aligned' (dmarc=pass), and the policy is looked up at _dmarc.CO.UK")
		}
	}
	if n < 3 {
		c.Fail("R7b", "calls", token.NoPos, "undecided: fewer than three uses of the public suffix list in internal/dmarc")
	}
}

// R10: "several From fields never obtain a pass". ExtractFromDomain walks the From fields and refuses the second one.
// Whether a field was already seen must not be read off the value collected so far: an empty first field
// (`From:` CRLF `From: <x@attacker.example>`) would leave the collector empty and the second field would be taken for
// the first. The state that distinguishes "first" from "further" is a flag or counter set to a constant / incremented.
func c07FromFieldCount(c *Check) {
	c.Rule("R10", "ExtractFromDomain: inside the loop over the From fields, whether a field was seen before is decided by a flag or counter assigned a constant (or incremented) for every field – not by comparing the collected field value with the empty string", 1)
	r := c.need("R10", "internal/dmarc", "", "ExtractFromDomain")
	if r == nil {
		return
	}
	info := r.Info
	msg := "undecided: no loop over the From fields found"
	ast.Inspect(r.FI.Decl.Body, func(x ast.Node) bool {
		var body *ast.BlockStmt
		switch l := x.(type) {
		case *ast.ForStmt:
			body = l.Body
		case *ast.RangeStmt:
			body = l.Body
		default:
			return true
		}
		// a loop that reads field values
		reads := false
		for _, call := range callsIn(body) {
			if methodName(call) == "Value" || methodName(call) == "Raw" {
				reads = true
			}
		}
		if !reads {
			return true
		}
		msg = ""
		// variables assigned in the loop from the field's value
		fromValue := map[types.Object]bool{}
		ast.Inspect(body, func(y ast.Node) bool {
			if as, ok := y.(*ast.AssignStmt); ok && len(as.Lhs) == len(as.Rhs) {
				for i, l := range as.Lhs {
					if call, ok := ast.Unparen(as.Rhs[i]).(*ast.CallExpr); ok && (methodName(call) == "Value" || methodName(call) == "Raw") {
						if o := objOf(info, l); o != nil {
							fromValue[o] = true
						}
					}
				}
			}
			return true
		})
		ast.Inspect(body, func(y ast.Node) bool {
			is, ok := y.(*ast.IfStmt)
			if !ok {
				return true
			}
			ast.Inspect(is.Cond, func(z ast.Node) bool {
				be, ok := z.(*ast.BinaryExpr)
				if !ok || (be.Op != token.EQL && be.Op != token.NEQ) {
					return true
				}
				for _, side := range [][2]ast.Expr{{be.X, be.Y}, {be.Y, be.X}} {
					if o := objOf(info, side[0]); o != nil && fromValue[o] {
						if s, isConst := constString(info, side[1]); isConst && s == "" {
							msg = "whether a From field was already seen is decided by `" + exprStr(be) + "`, i.e. by the value of the fields read so far: an empty first From field leaves it true, the second field is taken for the first and a header with two From fields gets a verdict (even a pass) for the second one's domain"
						}
					}
				}
				// len(v) == 0
				if call, ok := ast.Unparen(be.X).(*ast.CallExpr); ok && len(call.Args) == 1 {
					if id, isID := call.Fun.(*ast.Ident); isID && id.Name == "len" {
						if o := objOf(info, call.Args[0]); o != nil && fromValue[o] {
							msg = "whether a From field was already seen is decided by the length of the value read so far (" + exprStr(be) + "): an empty first From field hides the second one"
						}
					}
				}
				return true
			})
			return true
		})
		return false
	})
	c.Hold("R10", "ExtractFromDomain:seen-state", r.FI.Decl.Pos(), msg == "", msg)
}


// R12: the author address is taken from the From field as transmitted. RFC 2047 words are decoded AFTER the structure
// of the field is parsed (net/mail does that for display names); a field decoded beforehand turns characters hidden in
// an encoded word (`@ ( ) , <`) into address syntax: `=?utf-8?q?x=40attacker.example_=28?= <ceo@victim.example> (…)`
// parses as x@attacker.example, and DMARC evaluates the wrong domain.
func c07FromFieldRaw(c *Check) {
	c.Rule("R12", "ExtractFromDomain: the string handed to the address-list parser is the From field's value as read from the header on every path – no decoding or rewriting step in between", 1)
	r := c.need("R12", "internal/dmarc", "", "ExtractFromDomain")
	if r == nil {
		return
	}
	info := r.Info
	msg := "undecided: no call of the address-list parser"
	for _, pt := range r.F.Points() {
		for _, call := range callsAt(pt.Node()) {
			if !isCall(info, call, "net/mail.ParseAddressList", "net/mail.ParseAddress", "net/mail.AddressParser.ParseList") || len(call.Args) < 1 {
				continue
			}
			msg = ""
			arg := call.Args[len(call.Args)-1]
			raw := func(e ast.Expr) bool {
				cc, ok := ast.Unparen(e).(*ast.CallExpr)
				return ok && (methodName(cc) == "Value" || methodName(cc) == "Get") && len(cc.Args) <= 1
			}
			if raw(arg) {
				continue
			}
			v, isVar := objOf(info, arg).(*types.Var)
			if !isVar || v.IsField() {
				msg = "the address-list parser is given " + exprStr(arg) + ", not the field value as read"
				continue
			}
			defs, ok := r.ReachingDefs(v, pt, nil)
			for _, d := range defs {
				if !raw(d) {
					msg = "the From field is rewritten (" + exprStr(d) + ") before its structure is parsed: characters hidden in an RFC 2047 encoded word become address syntax – a crafted display name makes DMARC evaluate another domain than the one shown to the recipient, or hides a second author address"
				}
			}
			if !ok && msg == "" && len(defs) == 0 {
				msg = "undecided: the definitions of " + v.Name() + " are not simple assignments"
			}
		}
	}
	c.Hold("R12", "ExtractFromDomain:raw-field-parsed", r.FI.Decl.Pos(), msg == "", msg)
}
