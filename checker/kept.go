package main

import (
	"encoding/json"
	"go/ast"
	"go/token"
	"go/types"
	"os"
	"path/filepath"
	"sort"
	"strings"
)

// E5 "kept effects" – a cross-check through time.
//
// The property-specific rules pair constructs they know about. What they do not know about is the bookkeeping around
// them: the flag a stage function sets for a later replay, the append that puts an accepted recipient on the pending
// list, the store of the future a later step waits on. A change that returns early in front of such a statement, or
// deletes it, still compiles, still passes the tests (which take the common path) and breaks the property for the
// input that takes the new path. The rule: every *effect* – a store to a struct field, a call into maddy, the
// operating system, the synchronisation or the mail libraries, a channel send – that EVERY successful path of a
// function performed in the reference tree is still performed on every successful path. The reference inventory
// (checker/mustpass_index.json, regenerated with `./check KEPT quick` after a fix: commit) lists, per function, the
// effects that are must-pass on the reference tree; on the tree being analysed the must-pass query is repeated for
// exactly those. It is applied, like E1–E4, to the functions a property's own rules looked at.
//
// An effect is keyed by what it touches (owner type and field, or callee), never by position; helper extraction is
// handled by the inliner (a new helper is read in place), renames by the rename index. An effect that is inside a
// loop or under a condition in the reference tree is not must-pass there and therefore not in the inventory.

type keptIndex map[string][]string // function key -> effects that are must-pass on success

// keptFile is the on-disk inventory: must-pass effects (E5), implications between effects (E5b: on every successful
// path that performs A, B is performed too) and loop-local accumulators (E6).
type keptFile struct {
	Effects    keptIndex `json:"effects"`
	Implies    keptIndex `json:"implies"`
	LoopLocals keptIndex `json:"loop_locals"`
}

var keptCache keptIndex
var keptAll *keptFile

func keptIndexPath() string {
	if alt := os.Getenv("VERIF_KEPT_IN"); alt != "" {
		return alt
	}
	exe, err := os.Executable()
	if err == nil {
		p := filepath.Join(filepath.Dir(filepath.Dir(exe)), "checker", "mustpass_index.json")
		if _, e := os.Stat(p); e == nil {
			return p
		}
	}
	return "/verif/checker/mustpass_index.json"
}

func loadKeptIndex() keptIndex {
	if keptCache != nil {
		return keptCache
	}
	keptCache = keptIndex{}
	keptAll = &keptFile{Effects: keptIndex{}, Implies: keptIndex{}, LoopLocals: keptIndex{}}
	if data, err := os.ReadFile(keptIndexPath()); err == nil {
		_ = json.Unmarshal(data, keptAll)
		if keptAll.Effects != nil {
			keptCache = keptAll.Effects
		}
	}
	return keptCache
}

func keptFuncKey(fi *FuncInfo) string {
	rel := strings.TrimPrefix(strings.TrimPrefix(fi.Pkg.PkgPath, modPath), "/")
	name := refName(fi.Obj)
	if name == "init" && theProg != nil {
		// a package may have one init per file
		name += "@" + filepath.Base(theProg.Fset.Position(fi.Decl.Pos()).Filename)
	}
	return rel + "|" + recvTypeNameRef(fi) + "|" + name
}

// recvTypeNameRef: the receiver's type name under its reference name
func recvTypeNameRef(fi *FuncInfo) string {
	sig, _ := fi.Obj.Type().(*types.Signature)
	if sig == nil || sig.Recv() == nil {
		return ""
	}
	if n := namedOf(sig.Recv().Type()); n != nil {
		return objName(n.Obj())
	}
	return recvTypeName(fi.Decl)
}

var keptCallPkgs = map[string]bool{
	"sync": true, "sync/atomic": true, "os": true, "io": true, "container/list": true, "encoding/json": true,
	"bufio": true, "crypto/tls": true, "context": true,
}

// keptEffects: the effects node n performs (not looking into function literals).
func keptEffects(p *Prog, info *types.Info, n ast.Node) []string {
	var out []string
	add := func(s string) {
		for _, o := range out {
			if o == s {
				return
			}
		}
		out = append(out, s)
	}
	ownerOf := func(fv *types.Var) string {
		if fv.Pkg() == nil || !strings.HasPrefix(fv.Pkg().Path(), modPath) {
			return "" // a value of a library type being filled in (net.TCPAddr, tls.Config): not maddy's state
		}
		if o := fieldOwner(p, fv); o != nil {
			if types.Implements(o, errorIface()) || types.Implements(types.NewPointer(o), errorIface()) {
				return "" // building an error value is not a state change
			}
			return o.Obj().Pkg().Name() + "." + objName(o.Obj())
		}
		if fv.Pkg() != nil {
			return fv.Pkg().Name()
		}
		return "?"
	}
	storeKey := func(l ast.Expr, rhs ast.Expr) {
		l = ast.Unparen(l)
		flavour := "store"
		if ix, ok := l.(*ast.IndexExpr); ok {
			l = ast.Unparen(ix.X)
			flavour = "store[]"
		}
		if st, ok := l.(*ast.StarExpr); ok {
			l = ast.Unparen(st.X)
		}
		fv := fieldOf(info, l)
		if fv == nil {
			return
		}
		if rhs != nil {
			if call, ok := ast.Unparen(rhs).(*ast.CallExpr); ok {
				if id, isID := call.Fun.(*ast.Ident); isID && id.Name == "append" && len(call.Args) >= 1 && fieldOf(info, call.Args[0]) == fv {
					flavour = "append"
				}
			}
		}
		if ow := ownerOf(fv); ow != "" {
			add(flavour + ":" + ow + "." + objName(fv))
		}
	}
	callKey := func(prefix string, call *ast.CallExpr) {
		if id, ok := call.Fun.(*ast.Ident); ok {
			if _, isB := info.Uses[id].(*types.Builtin); isB {
				if id.Name == "close" || id.Name == "delete" {
					if len(call.Args) >= 1 {
						if fv := fieldOf(info, call.Args[0]); fv != nil {
							add(prefix + id.Name + ":" + ownerOf(fv) + "." + objName(fv))
						}
					}
				}
				return
			}
		}
		fn := callee(info, call)
		if fn == nil || fn.Pkg() == nil {
			return
		}
		path := fn.Pkg().Path()
		switch {
		case strings.HasPrefix(path, modPath):
			rel := strings.TrimPrefix(strings.TrimPrefix(path, modPath), "/")
			if rel == "framework/log" || rel == "framework/exterrors" || strings.HasPrefix(rel, "framework/config") || rel == "framework/address" || rel == "framework/dns" {
				return // logging, error construction, parsing helpers, pure normalisers: no state of the transaction
			}
		case keptCallPkgs[path], strings.Contains(path, "go-smtp"), strings.Contains(path, "go-message"), strings.Contains(path, "go-sasl"):
		default:
			return
		}
		q := qname(fn)
		// reference name of maddy functions
		if strings.HasPrefix(path, modPath) {
			q = strings.TrimSuffix(q, fn.Name()) + refName(fn)
		}
		add(prefix + "call:" + strings.TrimPrefix(q, modPath+"/"))
	}
	switch s := n.(type) {
	case *ast.DeferStmt:
		// a deferred call that is registered on every successful path runs on every successful path: same effect as the
		// plain call (`mu.Lock(); defer mu.Unlock()` ⇔ explicit unlocks before every return)
		callKey("", s.Call)
		for _, a := range s.Call.Args {
			for _, c2 := range callsIn(a) {
				callKey("", c2)
			}
		}
		return out
	case *ast.GoStmt:
		callKey("go ", s.Call)
		for _, a := range s.Call.Args {
			for _, c2 := range callsIn(a) {
				callKey("", c2)
			}
		}
		return out
	}
	inspectNoLit(n, func(x ast.Node) bool {
		switch s := x.(type) {
		case *ast.AssignStmt:
			for i, l := range s.Lhs {
				var rhs ast.Expr
				if len(s.Rhs) == len(s.Lhs) {
					rhs = s.Rhs[i]
				}
				storeKey(l, rhs)
			}
		case *ast.IncDecStmt:
			storeKey(s.X, nil)
		case *ast.CompositeLit:
			// a field set in a literal is the same effect as a store to it (`x := &T{}; x.f = v` ⇔ `x := &T{f: v}`)
			if tv, ok := info.Types[s]; ok {
				if st, isStruct := tv.Type.Underlying().(*types.Struct); isStruct {
					for i, el := range s.Elts {
						var fv *types.Var
						if kv, isKV := el.(*ast.KeyValueExpr); isKV {
							if id, isID := kv.Key.(*ast.Ident); isID {
								fv, _ = info.Uses[id].(*types.Var)
							}
						} else if i < st.NumFields() {
							fv = st.Field(i)
						}
						if fv != nil && fv.IsField() {
							if ow := ownerOf(fv); ow != "" {
								add("store:" + ow + "." + objName(fv))
							}
						}
					}
				}
			}
		case *ast.SendStmt:
			if fv := fieldOf(info, s.Chan); fv != nil {
				add("send:" + ownerOf(fv) + "." + objName(fv))
			}
		case *ast.CallExpr:
			callKey("", s)
		}
		return true
	})
	return out
}

// keptMustPass computes, for the function, the effects every successful path performs.
func keptMustPass(c *Check, fi *FuncInfo) (must []string, occ map[string][]Pt, r *RuleCtx) {
	p := c.P
	r = &RuleCtx{C: c, FI: fi, F: p.FlowOfFunc(fi), Info: fi.Info()}
	occ = map[string][]Pt{}
	for _, pt := range r.F.Points() {
		n := pt.Node()
		if n == nil {
			continue
		}
		for _, e := range keptEffects(p, r.Info, n) {
			occ[e] = append(occ[e], pt)
		}
	}
	keptLift(r, occ)
	var keys []string
	for e := range occ {
		keys = append(keys, e)
	}
	sort.Strings(keys)
	success := keptSuccess(r)
	for _, e := range keys {
		if _, found := r.F.Reach(Query{From: r.Entry(), Inclusive: true, Target: success, Avoid: isPt(occ[e])}); !found {
			must = append(must, e)
		}
	}
	return must, occ, r
}

func keptSuccess(r *RuleCtx) func(Pt) bool {
	sig, _ := r.FI.Obj.Type().(*types.Signature)
	hasErr := sig != nil && sig.Results().Len() > 0 && isErrorType(sig.Results().At(sig.Results().Len()-1).Type())
	if hasErr {
		// `return f(…)` hands on whatever f says – possibly nil: for the inventory it counts as a successful exit (a
		// function whose only returns are tail calls would otherwise have no successful path at all and every effect in
		// it would be must-pass vacuously)
		return func(pt Pt) bool {
			if r.IsSuccessReturn(pt) {
				return true
			}
			k, ret := r.F.Exit(pt)
			if k != ExitReturn || ret == nil || len(ret.Results) == 0 {
				return false
			}
			last := ast.Unparen(ret.Results[len(ret.Results)-1])
			if call, isCall := last.(*ast.CallExpr); isCall && !nonNilErrExpr(r.Info, last) {
				// `return u.moduleError(err)` under `if err != nil`: the wrapper returns nil only for a nil argument
				if i := nilPreservingErrFunc(callee(r.Info, call)); i >= 0 && i < len(call.Args) && r.F.Body == r.FI.Decl.Body {
					if v, ok := objOf(r.Info, call.Args[i]).(*types.Var); ok && !v.IsField() && v.Parent() != nil && v.Pkg() != nil && v.Parent() != v.Pkg().Scope() {
						if r.F.KnownNonNil(v) || !r.mayReturnNil(pt, v) {
							return false
						}
					}
				}
				return true
			}
			return false
		}
	}
	return r.F.IsNormalExit
}

// writeKeptIndex regenerates the inventory from the tree being analysed (the reference tree).
func writeKeptIndex(c *Check, path string) (int, int, error) {
	p := c.P
	idx := keptIndex{}
	out := keptFile{Effects: idx, Implies: keptIndex{}, LoopLocals: keptIndex{}}
	nItems := 0
	p.AllFuncs(p.ServerPkgs(), func(fi *FuncInfo) {
		if fi.Decl.Body == nil || strings.HasSuffix(p.Fset.Position(fi.Decl.Pos()).Filename, "_test.go") {
			return
		}
		func() {
			defer func() { _ = recover() }()
			must, occ, r := keptMustPass(c, fi)
			if len(must) > 0 {
				idx[keptFuncKey(fi)] = must
				nItems += len(must)
			}
			if imp := keptImplications(r, occ, must); len(imp) > 0 {
				out.Implies[keptFuncKey(fi)] = imp
				nItems += len(imp)
			}
			if ll := keptLoopLocals(fi); len(ll) > 0 {
				out.LoopLocals[keptFuncKey(fi)] = ll
				nItems += len(ll)
			}
		}()
	})
	data, err := json.MarshalIndent(out, "", " ")
	if err != nil {
		return 0, 0, err
	}
	return len(idx), nItems, os.WriteFile(path, append(data, '\n'), 0o644)
}

// keptFloor: items of the inventory that belong to the functions each property's rules look at on the reference tree,
// halved (a restructuring moves functions in and out of a property's set; the floor only guards against a vacuous pass).
var keptFloor = map[string]int{}

// keptEffectsSeen applies E5 to the functions the property's rules looked at.
func keptEffectsSeen(c *Check, fis []*FuncInfo) {
	p := c.P
	idx := loadKeptIndex()
	c.Rule("E5", "kept effects: every store to a struct field, call into maddy / the operating system / the synchronisation and mail libraries, or channel send that every successful path of the function performed in the reference tree (checker/mustpass_index.json) is still performed on every successful path – no early return or deleted statement skips a step the rest of the system relies on", keptFloor[c.ID])
	c.Rule("E5b", "kept implications: on every successful path on which the function performs effect A it also performs effect B, for the pairs (A, B) of conditional effects for which that holds in the reference tree (the bookkeeping that follows an action is not skipped by a new early return between the two)", 0)
	c.Rule("E6", "loop-local state stays loop-local: a variable that the reference tree declares inside a loop body and updates there (an accumulator that starts afresh for every message / recipient / entry) is still declared inside that loop", 0)
	if len(idx) == 0 {
		c.Fail("E5", "inventory", token.NoPos, "the reference inventory checker/mustpass_index.json is missing or empty")
		return
	}
	for _, fi0 := range fis {
		fi := p.DeclOf(fi0.Obj) // the body with new helpers read in place
		if fi == nil || fi.Decl.Body == nil {
			continue
		}
		want := idx[keptFuncKey(fi)]
		if len(want) == 0 {
			continue
		}
		var occ map[string][]Pt
		var r *RuleCtx
		func() {
			defer func() {
				if rec := recover(); rec != nil {
					r = nil
				}
			}()
			_, occ, r = keptMustPass0(c, fi)
		}()
		if r == nil {
			c.Fail("E5", fi.Pkg.Types.Name()+"."+recvPrefix(fi)+refName(fi.Obj), fi.Decl.Pos(), "undecided: the function could not be analysed")
			continue
		}
		success := keptSuccess(r)
		for _, e := range want {
			key := fi.Pkg.Types.Name() + "." + recvPrefix(fi) + refName(fi.Obj) + ":" + e
			if why, ok := errLookedAtExceptions["E5 "+key]; ok {
				c.Except("E5 " + key + ": " + why)
				continue
			}
			pts := occ[e]
			if len(pts) == 0 {
				// performed one call down now? A function of the server that this function calls performs the effect on every
				// one of its own successful paths (delegation to an existing function: NewDispenser → NewDispenserTokens)
				pts = keptDelegated(c, r, fi, e)
			}
			if len(pts) == 0 && strings.HasPrefix(e, "call:") && keptCalleeGone(p, e) {
				c.Except("E5 " + key + ": the called function no longer exists in the tree (merged into its callers); nothing to compare")
				continue
			}
			if len(pts) == 0 && strings.HasPrefix(e, "call:") {
				// the callee's body was merged into this function (both now call the same new helper, or the call was
				// inlined): every effect the callee itself performed on all successful paths in the reference tree is
				// performed here on all successful paths
				q := strings.TrimPrefix(e, "call:")
				// "internal/target/remote.remoteDelivery.Close" → inventory key "internal/target/remote|remoteDelivery|Close"
				slash := strings.LastIndex(q, "/")
				rest := q[slash+1:]
				parts := strings.Split(rest, ".")
				switch len(parts) {
				case 2:
					q = q[:slash+1] + parts[0] + "||" + parts[1]
				case 3:
					q = q[:slash+1] + parts[0] + "|" + parts[1] + "|" + parts[2]
				}
				if ce := idx[q]; len(ce) > 0 {
					all := true
					for _, x := range ce {
						xp := occ[x]
						if len(xp) == 0 {
							all = false
							break
						}
						if _, skips := r.F.Reach(Query{From: r.Entry(), Inclusive: true, Target: success, Avoid: isPt(xp)}); skips {
							all = false
							break
						}
					}
					if all {
						c.HoldConst("E5", key, fi.Decl.Pos(), true, "")
						continue
					}
				}
			}
			if len(pts) == 0 {
				c.Hold("E5", key, fi.Decl.Pos(), false, "the function no longer performs `"+e+"`, which every successful path performed in the reference tree")
				continue
			}
			path, found := r.F.Reach(Query{From: r.Entry(), Inclusive: true, Target: success, Avoid: isPt(pts)})
			c.Hold("E5", key, fi.Decl.Pos(), !found, "a successful path skips `"+e+"`, which every successful path performed in the reference tree (an early return or a new condition in front of it): "+r.F.Describe(path))
		}
		// E5b: implications
		for _, imp := range keptAll.Implies[keptFuncKey(fi)] {
			parts := strings.SplitN(imp, " => ", 2)
			if len(parts) != 2 {
				continue
			}
			e1, e2 := parts[0], parts[1]
			if len(occ[e1]) == 0 {
				continue // the premise does not occur any more: nothing is promised
			}
			key := fi.Pkg.Types.Name() + "." + recvPrefix(fi) + refName(fi.Obj) + ":" + imp
			if why, ok := errLookedAtExceptions["E5b "+key]; ok {
				c.Except("E5b " + key + ": " + why)
				continue
			}
			path, bad := keptCounterexample(r, occ[e1], occ[e2], success)
			c.Hold("E5b", key, fi.Decl.Pos(), !bad, "a successful path performs `"+e1+"` without `"+e2+"`; in the reference tree every successful path that performed the first also performed the second (an early return, a new condition or a deleted statement between them): "+r.F.Describe(path))
		}
		// E6: loop-local accumulators
		for _, ll := range keptAll.LoopLocals[keptFuncKey(fi)] {
			parts := strings.SplitN(ll, " | ", 2)
			if len(parts) != 2 {
				continue
			}
			if msg, decided := keptLoopLocalStill(fi, parts[0], parts[1]); decided {
				key := fi.Pkg.Types.Name() + "." + recvPrefix(fi) + refName(fi.Obj) + ":" + ll
				c.Hold("E6", key, fi.Decl.Pos(), msg == "", msg)
			}
		}
	}
}

// keptCounterexample: a successful path through an occurrence of the premise that avoids every occurrence of the
// conclusion.
func keptCounterexample(r *RuleCtx, prem, concl []Pt, success func(Pt) bool) ([]Pt, bool) {
	avoid := isPt(concl)
	for _, p1 := range prem {
		if avoid(p1) {
			continue // the same statement performs both
		}
		p1 := p1
		a, ok1 := r.F.Reach(Query{From: r.Entry(), Inclusive: true, Target: func(q Pt) bool { return q == p1 }, Avoid: avoid})
		if !ok1 {
			continue
		}
		b, ok2 := r.F.Reach(Query{From: []Pt{p1}, Inclusive: true, Target: success, Avoid: avoid})
		if ok2 {
			return append(a, b...), true
		}
	}
	return nil, false
}

// keptImplications: pairs (A, B) of effects of the function, neither must-pass on its own, such that every successful
// path that performs A performs B.
func keptImplications(r *RuleCtx, occ map[string][]Pt, must []string) []string {
	if r == nil {
		return nil
	}
	isMust := map[string]bool{}
	for _, m := range must {
		isMust[m] = true
	}
	var keys []string
	for e := range occ {
		if !isMust[e] {
			keys = append(keys, e)
		}
	}
	sort.Strings(keys)
	if len(keys) > 24 {
		return nil // a function with that many conditional effects: the pair set says little, skip it
	}
	success := keptSuccess(r)
	var out []string
	for _, e1 := range keys {
		// the premise must be able to occur on a successful path at all
		reach := false
		for _, p1 := range occ[e1] {
			p1 := p1
			if _, ok := r.F.Reach(Query{From: []Pt{p1}, Inclusive: true, Target: success}); ok {
				reach = true
			}
		}
		if !reach {
			continue
		}
		// only the shape "an action is followed by its bookkeeping": the premise is a call, the conclusion a store into
		// a field (plain, indexed, append). Pairs of other shapes hold on the reference tree for incidental reasons and
		// break under behaviour-preserving restructuring (measured on the refactoring corpus).
		if !(strings.HasPrefix(e1, "call:")) {
			continue
		}
		for _, e2 := range keys {
			if e1 == e2 {
				continue
			}
			if !(strings.HasPrefix(e2, "store:") || strings.HasPrefix(e2, "store[]:") || strings.HasPrefix(e2, "append:")) {
				continue
			}
			if _, bad := keptCounterexample(r, occ[e1], occ[e2], success); !bad {
				out = append(out, e1+" => "+e2)
			}
		}
	}
	return out
}

// loopHeader: a position-free description of a loop (what it ranges over / its condition)
func loopHeader(n ast.Node) string {
	switch l := n.(type) {
	case *ast.RangeStmt:
		return "range " + exprStr(l.X)
	case *ast.ForStmt:
		h := "for"
		if l.Init != nil {
			if as, ok := l.Init.(*ast.AssignStmt); ok && len(as.Rhs) == 1 {
				h += " " + exprStr(as.Rhs[0])
			}
		}
		if l.Cond != nil {
			h += " ; " + exprStr(l.Cond)
		}
		return h
	}
	return ""
}

// keptLoopLocals: variables declared in a loop body with an initial value and assigned again later in that body –
// state that is meant to start afresh in every iteration.
func keptLoopLocals(fi *FuncInfo) []string {
	info := fi.Info()
	var out []string
	seen := map[string]bool{}
	ast.Inspect(fi.Decl.Body, func(x ast.Node) bool {
		var body *ast.BlockStmt
		switch l := x.(type) {
		case *ast.RangeStmt:
			body = l.Body
		case *ast.ForStmt:
			body = l.Body
		default:
			return true
		}
		hdr := loopHeader(x)
		if hdr == "" || hdr == "for" {
			return true
		}
		// declared directly in the loop body (not in nested function literals)
		for _, st := range body.List {
			var decl []*ast.Ident
			switch d := st.(type) {
			case *ast.AssignStmt:
				if d.Tok == token.DEFINE {
					for _, l := range d.Lhs {
						if id, ok := l.(*ast.Ident); ok && info.Defs[id] != nil {
							decl = append(decl, id)
						}
					}
				}
			case *ast.DeclStmt:
				if gd, ok := d.Decl.(*ast.GenDecl); ok {
					for _, sp := range gd.Specs {
						if vs, ok := sp.(*ast.ValueSpec); ok {
							decl = append(decl, vs.Names...)
						}
					}
				}
			}
			for _, id := range decl {
				obj := info.Defs[id]
				if obj == nil || id.Name == "_" || id.Name == "err" || id.Name == "ok" {
					continue
				}
				// assigned again in the body after its declaration?
				again := false
				inspectNoLit(body, func(y ast.Node) bool {
					switch a := y.(type) {
					case *ast.AssignStmt:
						if a.Pos() > id.Pos() {
							for _, l := range a.Lhs {
								if lid, ok := ast.Unparen(l).(*ast.Ident); ok && info.Uses[lid] == obj {
									again = true
								}
							}
						}
					case *ast.IncDecStmt:
						if lid, ok := ast.Unparen(a.X).(*ast.Ident); ok && info.Uses[lid] == obj {
							again = true
						}
					}
					return true
				})
				k := id.Name + " | " + hdr
				if again && !seen[k] {
					seen[k] = true
					out = append(out, k)
				}
			}
		}
		return true
	})
	sort.Strings(out)
	return out
}

// keptLoopLocalStill: in the function, a loop with that header still uses a variable of that name – is it still
// declared inside the loop? decided=false when the loop or the variable cannot be found (renamed, restructured).
func keptLoopLocalStill(fi *FuncInfo, name, hdr string) (msg string, decided bool) {
	info := fi.Info()
	ast.Inspect(fi.Decl.Body, func(x ast.Node) bool {
		var body *ast.BlockStmt
		switch l := x.(type) {
		case *ast.RangeStmt:
			body = l.Body
		case *ast.ForStmt:
			body = l.Body
		default:
			return true
		}
		if loopHeader(x) != hdr {
			return true
		}
		judge := func(id *ast.Ident) {
			if id == nil || id.Name != name {
				return
			}
			obj := info.Uses[id]
			if obj == nil {
				obj = info.Defs[id]
			}
			v, isVar := obj.(*types.Var)
			if !isVar || v.IsField() {
				return
			}
			decided = true
			declaredInBody := false
			ast.Inspect(body, func(z ast.Node) bool {
				if did, ok := z.(*ast.Ident); ok && info.Defs[did] == types.Object(v) {
					declaredInBody = true
				}
				return !declaredInBody
			})
			if !declaredInBody && !(v.Pos() >= body.Pos() && v.Pos() < body.End()) {
				msg = "variable " + name + " updated in the loop `" + hdr + "` is declared outside it: in the reference tree it started afresh in every iteration, now what one iteration (one message, one recipient, one entry) left in it is seen by the next"
			}
		}
		// the updates of the variable inside the loop (not mere reads, not a shadowing re-declaration's right-hand side)
		inspectNoLit(body, func(y ast.Node) bool {
			switch a := y.(type) {
			case *ast.AssignStmt:
				if a.Tok != token.DEFINE {
					for _, l := range a.Lhs {
						if lid, ok := ast.Unparen(l).(*ast.Ident); ok {
							judge(lid)
						}
					}
				}
			case *ast.IncDecStmt:
				if lid, ok := ast.Unparen(a.X).(*ast.Ident); ok {
					judge(lid)
				}
			}
			return true
		})
		_ = func(y ast.Node) bool {
			id, ok := y.(*ast.Ident)
			if !ok || id.Name != name {
				return true
			}
			obj := info.Uses[id]
			if obj == nil {
				obj = info.Defs[id]
			}
			v, isVar := obj.(*types.Var)
			if !isVar || v.IsField() {
				return true
			}
			if !(v.Pos() >= body.Pos() && v.Pos() < body.End()) {
				msg = "variable " + name + " (unused)"
			}
			return true
		}
		return true
	})
	return msg, decided
}

// keptMustPass0: occurrences only (the must-pass set is taken from the inventory)
func keptMustPass0(c *Check, fi *FuncInfo) ([]string, map[string][]Pt, *RuleCtx) {
	p := c.P
	r := &RuleCtx{C: c, FI: fi, F: p.FlowOfFunc(fi), Info: fi.Info()}
	occ := map[string][]Pt{}
	for _, pt := range r.F.Points() {
		n := pt.Node()
		if n == nil {
			continue
		}
		for _, e := range keptEffects(p, r.Info, n) {
			occ[e] = append(occ[e], pt)
		}
	}
	keptLift(r, occ)
	return nil, occ, r
}

// keptLift: a range loop over a list that is certainly not empty (an array, a non-empty literal – the table-driven form
// of a repeated statement) runs its body at least once: an effect that every iteration performs also occurs where the
// loop starts.
func keptLift(r *RuleCtx, occ map[string][]Pt) {
	info := r.Info
	for _, pt := range r.F.Points() {
		rs := r.F.RangeOfX(pt.Node())
		if rs == nil || !surelyNonEmpty(info, r.FI.Decl.Body, rs.X) {
			continue
		}
		// first point of the body, and the loop head the iteration returns to
		var bodyStart []Pt
		var head *cfgBlock
		for _, b := range r.F.G.Blocks {
			if b.Stmt != ast.Stmt(rs) || !b.Live {
				continue
			}
			switch b.Kind {
			case kindRangeBody:
				bodyStart = append(bodyStart, Pt{b, 0})
			case kindRangeLoop:
				head = b
			}
		}
		if len(bodyStart) == 0 || head == nil {
			continue
		}
		endOfIter := func(q Pt) bool {
			return (q.B == head && q.I == 0) || r.F.IsExitPt(q) || (q.B.Stmt == ast.Stmt(rs) && q.B.Kind == kindRangeDone && q.I == 0)
		}
		for e, pts := range occ {
			inBody := false
			for _, q := range pts {
				if n := q.Node(); n != nil && posIn(rs.Body, n.Pos()) {
					inBody = true
				}
			}
			if !inBody {
				continue
			}
			if _, found := r.F.Reach(Query{From: bodyStart, Inclusive: true, Target: endOfIter, Avoid: isPt(pts)}); !found {
				occ[e] = append(occ[e], pt)
			}
		}
	}
}

// surelyNonEmpty: the expression is an array, or a (local bound once to a) composite literal with at least one element.
func surelyNonEmpty(info *types.Info, body ast.Node, e ast.Expr) bool {
	if t := info.TypeOf(e); t != nil {
		if at, ok := t.Underlying().(*types.Array); ok && at.Len() > 0 {
			return true
		}
	}
	e = resolveLocal(info, body, e)
	if cl, ok := ast.Unparen(e).(*ast.CompositeLit); ok && len(cl.Elts) > 0 {
		if t := info.TypeOf(cl); t != nil {
			switch t.Underlying().(type) {
			case *types.Slice, *types.Array:
				return true
			}
		}
	}
	return false
}

func recvPrefix(fi *FuncInfo) string {
	if rn := recvTypeNameRef(fi); rn != "" {
		return rn + "."
	}
	return ""
}

// keptDelegated: call points of fi whose callee (a function of the server, with a body) performs effect e on every one
// of its own successful paths.
func keptDelegated(c *Check, r *RuleCtx, fi *FuncInfo, e string) []Pt {
	p := c.P
	var out []Pt
	for _, pt := range r.F.Points() {
		n := pt.Node()
		if n == nil {
			continue
		}
		for _, call := range callsAt(n) {
			fn := calleeFn(r.Info, call)
			if fn == nil || fn == fi.Obj || fn.Pkg() == nil || !isServerPkg(fn.Pkg().Path()) {
				continue
			}
			d := p.DeclOf(fn)
			if d == nil || d.Decl.Body == nil {
				continue
			}
			ok := false
			func() {
				defer func() { _ = recover() }()
				must, _, _ := keptMustPass(c, d)
				for _, m := range must {
					if m == e {
						ok = true
					}
				}
			}()
			if ok {
				out = append(out, pt)
				continue
			}
			// thunk argument: the effect sits in a function literal (or is the method value itself) handed to a helper
			// that calls that parameter on every one of its successful paths (`c.transmit(func() … { return c.cl.LMTPData(cb) }, …)`)
			sig, _ := fn.Type().(*types.Signature)
			for ai, a := range call.Args {
				if sig == nil || ai >= sig.Params().Len() || (sig.Variadic() && ai >= sig.Params().Len()-1) {
					break
				}
				performs := false
				switch x := ast.Unparen(a).(type) {
				case *ast.FuncLit:
					for _, st := range x.Body.List {
						switch st.(type) {
						case *ast.ExprStmt, *ast.AssignStmt, *ast.ReturnStmt, *ast.DeclStmt, *ast.DeferStmt:
							for _, ee := range keptEffects(p, r.Info, st) {
								if ee == e {
									performs = true
								}
							}
						}
					}
				case *ast.SelectorExpr, *ast.Ident:
					if mf, isFn := objOf(r.Info, x).(*types.Func); isFn {
						// the method value stands for a call of that method
						if name := keptCallName(mf); name != "" && "call:"+name == e {
							performs = true
						}
					}
				}
				if performs && keptParamMustBeCalled(c, d, sig.Params().At(ai)) {
					out = append(out, pt)
					break
				}
			}
		}
	}
	return out
}

// keptCallName: the name under which a call of fn is recorded as an effect ("" when calls of fn are not effects).
func keptCallName(fn *types.Func) string {
	if fn == nil || fn.Pkg() == nil {
		return ""
	}
	path := fn.Pkg().Path()
	switch {
	case strings.HasPrefix(path, modPath):
		rel := strings.TrimPrefix(strings.TrimPrefix(path, modPath), "/")
		if rel == "framework/log" || rel == "framework/exterrors" || strings.HasPrefix(rel, "framework/config") || rel == "framework/address" || rel == "framework/dns" {
			return ""
		}
	case keptCallPkgs[path], strings.Contains(path, "go-smtp"), strings.Contains(path, "go-message"), strings.Contains(path, "go-sasl"):
	default:
		return ""
	}
	q := qname(fn)
	if strings.HasPrefix(path, modPath) {
		q = strings.TrimSuffix(q, fn.Name()) + refName(fn)
	}
	return strings.TrimPrefix(q, modPath+"/")
}

// keptParamMustBeCalled: every successful path of d calls its function-typed parameter pv.
func keptParamMustBeCalled(c *Check, d *FuncInfo, pv *types.Var) bool {
	if _, isSig := pv.Type().Underlying().(*types.Signature); !isSig {
		return false
	}
	must := false
	func() {
		defer func() { _ = recover() }()
		r := &RuleCtx{C: c, FI: d, F: c.P.FlowOfFunc(d), Info: d.Info()}
		var pts []Pt
		for _, pt := range r.F.Points() {
			n := pt.Node()
			if n == nil {
				continue
			}
			hit := false
			inspectNoLit(n, func(x ast.Node) bool {
				if call, ok := x.(*ast.CallExpr); ok {
					if id, isID := ast.Unparen(call.Fun).(*ast.Ident); isID && r.Info.Uses[id] == pv {
						hit = true
					}
				}
				return true
			})
			if hit {
				pts = append(pts, pt)
			}
		}
		if len(pts) == 0 {
			return
		}
		_, skips := r.F.Reach(Query{From: r.Entry(), Inclusive: true, Target: keptSuccess(r), Avoid: isPt(pts)})
		must = !skips
	}()
	return must
}

// keptCalleeGone: the effect is a call of a maddy function that the analysed tree does not have any more.
func keptCalleeGone(p *Prog, e string) bool {
	q := strings.TrimPrefix(e, "call:")
	if strings.Contains(q, "github.com/") || !strings.Contains(q, "/") {
		return false
	}
	// "rel/path.Recv.Name" or "rel/path.Name"
	i := strings.LastIndex(q, "/")
	rest := q[i+1:]
	parts := strings.Split(rest, ".")
	rel := q[:i+1] + parts[0]
	pk := p.Pkg(rel)
	if pk == nil {
		return false
	}
	recv, name := "", ""
	switch len(parts) {
	case 2:
		name = parts[1]
	case 3:
		recv, name = parts[1], parts[2]
	default:
		return false
	}
	return p.Func(rel, recv, name) == nil
}
