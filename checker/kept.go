package main

import (
	"encoding/json"
	"go/ast"
	"go/token"
	"go/types"
	"os"
	"path/filepath"
	"sort"
	"strings"
)

// E5 "kept effects" – a cross-check through time.
//
// The property-specific rules pair constructs they know about. What they do not know about is the bookkeeping around
// them: the flag a stage function sets for a later replay, the append that puts an accepted recipient on the pending
// list, the store of the future a later step waits on. A change that returns early in front of such a statement, or
// deletes it, still compiles, still passes the tests (which take the common path) and breaks the property for the
// input that takes the new path. The rule: every *effect* – a store to a struct field, a call into maddy, the
// operating system, the synchronisation or the mail libraries, a channel send – that EVERY successful path of a
// function performed in the reference tree is still performed on every successful path. The reference inventory
// (checker/mustpass_index.json, regenerated with `./check KEPT quick` after a fix: commit) lists, per function, the
// effects that are must-pass on the reference tree; on the tree being analysed the must-pass query is repeated for
// exactly those. It is applied, like E1–E4, to the functions a property's own rules looked at.
//
// An effect is keyed by what it touches (owner type and field, or callee), never by position; helper extraction is
// handled by the inliner (a new helper is read in place), renames by the rename index. An effect that is inside a
// loop or under a condition in the reference tree is not must-pass there and therefore not in the inventory.

type keptIndex map[string][]string // function key -> effects that are must-pass on success

var keptCache keptIndex

func keptIndexPath() string {
	exe, err := os.Executable()
	if err == nil {
		p := filepath.Join(filepath.Dir(filepath.Dir(exe)), "checker", "mustpass_index.json")
		if _, e := os.Stat(p); e == nil {
			return p
		}
	}
	return "/verif/checker/mustpass_index.json"
}

func loadKeptIndex() keptIndex {
	if keptCache != nil {
		return keptCache
	}
	keptCache = keptIndex{}
	if data, err := os.ReadFile(keptIndexPath()); err == nil {
		_ = json.Unmarshal(data, &keptCache)
	}
	return keptCache
}

func keptFuncKey(fi *FuncInfo) string {
	rel := strings.TrimPrefix(strings.TrimPrefix(fi.Pkg.PkgPath, modPath), "/")
	return rel + "|" + recvTypeNameRef(fi) + "|" + refName(fi.Obj)
}

// recvTypeNameRef: the receiver's type name under its reference name
func recvTypeNameRef(fi *FuncInfo) string {
	sig, _ := fi.Obj.Type().(*types.Signature)
	if sig == nil || sig.Recv() == nil {
		return ""
	}
	if n := namedOf(sig.Recv().Type()); n != nil {
		return objName(n.Obj())
	}
	return recvTypeName(fi.Decl)
}

var keptCallPkgs = map[string]bool{
	"sync": true, "sync/atomic": true, "os": true, "io": true, "net": true, "container/list": true, "encoding/json": true,
	"bufio": true, "crypto/tls": true, "context": true,
}

// keptEffects: the effects node n performs (not looking into function literals).
func keptEffects(p *Prog, info *types.Info, n ast.Node) []string {
	var out []string
	add := func(s string) {
		for _, o := range out {
			if o == s {
				return
			}
		}
		out = append(out, s)
	}
	ownerOf := func(fv *types.Var) string {
		if o := fieldOwner(p, fv); o != nil {
			if types.Implements(o, errorIface()) || types.Implements(types.NewPointer(o), errorIface()) {
				return "" // building an error value is not a state change
			}
			return o.Obj().Pkg().Name() + "." + objName(o.Obj())
		}
		if fv.Pkg() != nil {
			return fv.Pkg().Name()
		}
		return "?"
	}
	storeKey := func(l ast.Expr, rhs ast.Expr) {
		l = ast.Unparen(l)
		flavour := "store"
		if ix, ok := l.(*ast.IndexExpr); ok {
			l = ast.Unparen(ix.X)
			flavour = "store[]"
		}
		if st, ok := l.(*ast.StarExpr); ok {
			l = ast.Unparen(st.X)
		}
		fv := fieldOf(info, l)
		if fv == nil {
			return
		}
		if rhs != nil {
			if call, ok := ast.Unparen(rhs).(*ast.CallExpr); ok {
				if id, isID := call.Fun.(*ast.Ident); isID && id.Name == "append" && len(call.Args) >= 1 && fieldOf(info, call.Args[0]) == fv {
					flavour = "append"
				}
			}
		}
		if ow := ownerOf(fv); ow != "" {
			add(flavour + ":" + ow + "." + objName(fv))
		}
	}
	callKey := func(prefix string, call *ast.CallExpr) {
		if id, ok := call.Fun.(*ast.Ident); ok {
			if _, isB := info.Uses[id].(*types.Builtin); isB {
				if id.Name == "close" || id.Name == "delete" {
					if len(call.Args) >= 1 {
						if fv := fieldOf(info, call.Args[0]); fv != nil {
							add(prefix + id.Name + ":" + ownerOf(fv) + "." + objName(fv))
						}
					}
				}
				return
			}
		}
		fn := callee(info, call)
		if fn == nil || fn.Pkg() == nil {
			return
		}
		path := fn.Pkg().Path()
		switch {
		case strings.HasPrefix(path, modPath):
			rel := strings.TrimPrefix(strings.TrimPrefix(path, modPath), "/")
			if rel == "framework/log" || rel == "framework/exterrors" || strings.HasPrefix(rel, "framework/config") || rel == "framework/address" || rel == "framework/dns" {
				return // logging, error construction, parsing helpers, pure normalisers: no state of the transaction
			}
		case keptCallPkgs[path], strings.Contains(path, "go-smtp"), strings.Contains(path, "go-message"), strings.Contains(path, "go-sasl"):
		default:
			return
		}
		q := qname(fn)
		// reference name of maddy functions
		if strings.HasPrefix(path, modPath) {
			q = strings.TrimSuffix(q, fn.Name()) + refName(fn)
		}
		add(prefix + "call:" + strings.TrimPrefix(q, modPath+"/"))
	}
	switch s := n.(type) {
	case *ast.DeferStmt:
		callKey("defer ", s.Call)
		for _, a := range s.Call.Args {
			for _, c2 := range callsIn(a) {
				callKey("", c2)
			}
		}
		return out
	case *ast.GoStmt:
		callKey("go ", s.Call)
		for _, a := range s.Call.Args {
			for _, c2 := range callsIn(a) {
				callKey("", c2)
			}
		}
		return out
	}
	inspectNoLit(n, func(x ast.Node) bool {
		switch s := x.(type) {
		case *ast.AssignStmt:
			for i, l := range s.Lhs {
				var rhs ast.Expr
				if len(s.Rhs) == len(s.Lhs) {
					rhs = s.Rhs[i]
				}
				storeKey(l, rhs)
			}
		case *ast.IncDecStmt:
			storeKey(s.X, nil)
		case *ast.CompositeLit:
			// a field set in a literal is the same effect as a store to it (`x := &T{}; x.f = v` ⇔ `x := &T{f: v}`)
			if tv, ok := info.Types[s]; ok {
				if st, isStruct := tv.Type.Underlying().(*types.Struct); isStruct {
					for i, el := range s.Elts {
						var fv *types.Var
						if kv, isKV := el.(*ast.KeyValueExpr); isKV {
							if id, isID := kv.Key.(*ast.Ident); isID {
								fv, _ = info.Uses[id].(*types.Var)
							}
						} else if i < st.NumFields() {
							fv = st.Field(i)
						}
						if fv != nil && fv.IsField() {
							if ow := ownerOf(fv); ow != "" {
								add("store:" + ow + "." + objName(fv))
							}
						}
					}
				}
			}
		case *ast.SendStmt:
			if fv := fieldOf(info, s.Chan); fv != nil {
				add("send:" + ownerOf(fv) + "." + objName(fv))
			}
		case *ast.CallExpr:
			callKey("", s)
		}
		return true
	})
	return out
}

// keptMustPass computes, for the function, the effects every successful path performs.
func keptMustPass(c *Check, fi *FuncInfo) (must []string, occ map[string][]Pt, r *RuleCtx) {
	p := c.P
	r = &RuleCtx{C: c, FI: fi, F: p.FlowOfFunc(fi), Info: fi.Info()}
	occ = map[string][]Pt{}
	for _, pt := range r.F.Points() {
		n := pt.Node()
		if n == nil {
			continue
		}
		for _, e := range keptEffects(p, r.Info, n) {
			occ[e] = append(occ[e], pt)
		}
	}
	keptLift(r, occ)
	var keys []string
	for e := range occ {
		keys = append(keys, e)
	}
	sort.Strings(keys)
	success := keptSuccess(r)
	for _, e := range keys {
		if _, found := r.F.Reach(Query{From: r.Entry(), Inclusive: true, Target: success, Avoid: isPt(occ[e])}); !found {
			must = append(must, e)
		}
	}
	return must, occ, r
}

func keptSuccess(r *RuleCtx) func(Pt) bool {
	sig, _ := r.FI.Obj.Type().(*types.Signature)
	hasErr := sig != nil && sig.Results().Len() > 0 && isErrorType(sig.Results().At(sig.Results().Len()-1).Type())
	if hasErr {
		return r.IsSuccessReturn
	}
	return r.F.IsNormalExit
}

// writeKeptIndex regenerates the inventory from the tree being analysed (the reference tree).
func writeKeptIndex(c *Check, path string) (int, int, error) {
	p := c.P
	idx := keptIndex{}
	nItems := 0
	p.AllFuncs(p.ServerPkgs(), func(fi *FuncInfo) {
		if fi.Decl.Body == nil || strings.HasSuffix(p.Fset.Position(fi.Decl.Pos()).Filename, "_test.go") {
			return
		}
		func() {
			defer func() { _ = recover() }()
			must, _, _ := keptMustPass(c, fi)
			if len(must) > 0 {
				idx[keptFuncKey(fi)] = must
				nItems += len(must)
			}
		}()
	})
	data, err := json.MarshalIndent(idx, "", " ")
	if err != nil {
		return 0, 0, err
	}
	return len(idx), nItems, os.WriteFile(path, append(data, '\n'), 0o644)
}

// keptFloor: items of the inventory that belong to the functions each property's rules look at on the reference tree,
// halved (a restructuring moves functions in and out of a property's set; the floor only guards against a vacuous pass).
var keptFloor = map[string]int{}

// keptEffectsSeen applies E5 to the functions the property's rules looked at.
func keptEffectsSeen(c *Check, fis []*FuncInfo) {
	p := c.P
	idx := loadKeptIndex()
	c.Rule("E5", "kept effects: every store to a struct field, call into maddy / the operating system / the synchronisation and mail libraries, or channel send that every successful path of the function performed in the reference tree (checker/mustpass_index.json) is still performed on every successful path – no early return or deleted statement skips a step the rest of the system relies on", keptFloor[c.ID])
	if len(idx) == 0 {
		c.Fail("E5", "inventory", token.NoPos, "the reference inventory checker/mustpass_index.json is missing or empty")
		return
	}
	for _, fi0 := range fis {
		fi := p.DeclOf(fi0.Obj) // the body with new helpers read in place
		if fi == nil || fi.Decl.Body == nil {
			continue
		}
		want := idx[keptFuncKey(fi)]
		if len(want) == 0 {
			continue
		}
		var occ map[string][]Pt
		var r *RuleCtx
		func() {
			defer func() {
				if rec := recover(); rec != nil {
					r = nil
				}
			}()
			_, occ, r = keptMustPass0(c, fi)
		}()
		if r == nil {
			c.Fail("E5", fi.Pkg.Types.Name()+"."+recvPrefix(fi)+refName(fi.Obj), fi.Decl.Pos(), "undecided: the function could not be analysed")
			continue
		}
		success := keptSuccess(r)
		for _, e := range want {
			key := fi.Pkg.Types.Name() + "." + recvPrefix(fi) + refName(fi.Obj) + ":" + e
			if why, ok := errLookedAtExceptions["E5 "+key]; ok {
				c.Except("E5 " + key + ": " + why)
				continue
			}
			pts := occ[e]
			if len(pts) == 0 {
				c.Hold("E5", key, fi.Decl.Pos(), false, "the function no longer performs `"+e+"`, which every successful path performed in the reference tree")
				continue
			}
			path, found := r.F.Reach(Query{From: r.Entry(), Inclusive: true, Target: success, Avoid: isPt(pts)})
			c.Hold("E5", key, fi.Decl.Pos(), !found, "a successful path skips `"+e+"`, which every successful path performed in the reference tree (an early return or a new condition in front of it): "+r.F.Describe(path))
		}
	}
}

// keptMustPass0: occurrences only (the must-pass set is taken from the inventory)
func keptMustPass0(c *Check, fi *FuncInfo) ([]string, map[string][]Pt, *RuleCtx) {
	p := c.P
	r := &RuleCtx{C: c, FI: fi, F: p.FlowOfFunc(fi), Info: fi.Info()}
	occ := map[string][]Pt{}
	for _, pt := range r.F.Points() {
		n := pt.Node()
		if n == nil {
			continue
		}
		for _, e := range keptEffects(p, r.Info, n) {
			occ[e] = append(occ[e], pt)
		}
	}
	keptLift(r, occ)
	return nil, occ, r
}

// keptLift: a range loop over a list that is certainly not empty (an array, a non-empty literal – the table-driven form
// of a repeated statement) runs its body at least once: an effect that every iteration performs also occurs where the
// loop starts.
func keptLift(r *RuleCtx, occ map[string][]Pt) {
	info := r.Info
	for _, pt := range r.F.Points() {
		rs := r.F.RangeOfX(pt.Node())
		if rs == nil || !surelyNonEmpty(info, r.FI.Decl.Body, rs.X) {
			continue
		}
		// first point of the body, and the loop head the iteration returns to
		var bodyStart []Pt
		var head *cfgBlock
		for _, b := range r.F.G.Blocks {
			if b.Stmt != ast.Stmt(rs) || !b.Live {
				continue
			}
			switch b.Kind {
			case kindRangeBody:
				bodyStart = append(bodyStart, Pt{b, 0})
			case kindRangeLoop:
				head = b
			}
		}
		if len(bodyStart) == 0 || head == nil {
			continue
		}
		endOfIter := func(q Pt) bool {
			return (q.B == head && q.I == 0) || r.F.IsExitPt(q) || (q.B.Stmt == ast.Stmt(rs) && q.B.Kind == kindRangeDone && q.I == 0)
		}
		for e, pts := range occ {
			inBody := false
			for _, q := range pts {
				if n := q.Node(); n != nil && posIn(rs.Body, n.Pos()) {
					inBody = true
				}
			}
			if !inBody {
				continue
			}
			if _, found := r.F.Reach(Query{From: bodyStart, Inclusive: true, Target: endOfIter, Avoid: isPt(pts)}); !found {
				occ[e] = append(occ[e], pt)
			}
		}
	}
}

// surelyNonEmpty: the expression is an array, or a (local bound once to a) composite literal with at least one element.
func surelyNonEmpty(info *types.Info, body ast.Node, e ast.Expr) bool {
	if t := info.TypeOf(e); t != nil {
		if at, ok := t.Underlying().(*types.Array); ok && at.Len() > 0 {
			return true
		}
	}
	e = resolveLocal(info, body, e)
	if cl, ok := ast.Unparen(e).(*ast.CompositeLit); ok && len(cl.Elts) > 0 {
		if t := info.TypeOf(cl); t != nil {
			switch t.Underlying().(type) {
			case *types.Slice, *types.Array:
				return true
			}
		}
	}
	return false
}

func recvPrefix(fi *FuncInfo) string {
	if rn := recvTypeNameRef(fi); rn != "" {
		return rn + "."
	}
	return ""
}
