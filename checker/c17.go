package main

import (
	"go/ast"
	"go/constant"
	"go/token"
	"go/types"
	"strings"

	"golang.org/x/tools/go/ssa"
)

func init() { register("C17", checkC17) }

// callee classes accepted by C17.R4
var (
	c17IDNA  = map[string]bool{"golang.org/x/net/idna.ToUnicode": true, "golang.org/x/net/idna.Profile.ToUnicode": true}
	c17NFC   = map[string]bool{"golang.org/x/text/unicode/norm.Form.String": true}
	c17Lower = map[string]bool{"strings.ToLower": true, "golang.org/x/text/cases.Caser.String": true}
)

func checkC17(c *Check) {
	p := c.P
	c.explain = "C17 (address normalisation), structural part: the ASCII predicate is evaluated at its boundary; Equal is key equality by construction " +
		"(SSA shape a==b || F(a)==F(b) with F the package's ForLookup); the key functions read no mutable global / clock / environment; " +
		"the success value of the key functions has passed IDNA-decoding, NFC and lower-casing in that order; Split returns complementary slices."
	c.notCover = "idempotence and variant collapsing as facts about the IDNA/NFC/case tables, quoting round trips, ToASCII/ToUnicode round trips (value-level)."
	c.Assume("A2: idna.ToUnicode, norm.NFC.String, strings.ToLower behave as documented")

	// ---- R1
	c.Rule("R1", "address.IsASCII rejects exactly the characters >= U+0080 (predicate false at U+007F, true at U+0080)", 1)
	if fi := p.Func("framework/address", "", "IsASCII"); fi == nil {
		c.Fail("R1", "address.IsASCII", token.NoPos, "anchor unresolved")
	} else {
		c.SawFunc(fi.Name())
		checkASCIIPredicate(c, "R1", fi.Name(), fi.Info(), fi.Decl.Type, fi.Decl.Body, false)
	}

	// ---- R1g: every ASCII/non-ASCII decision on a character, anywhere in the server
	c.Rule("R1g", "every comparison of a character of a string with a constant next to the ASCII boundary (126..129) separates exactly U+007F from U+0080", 3)
	for _, pk := range p.ServerPkgs() {
		info := pk.TypesInfo
		eachFuncBody(pk, func(name string, fd *ast.FuncDecl, body *ast.BlockStmt) {
			ast.Inspect(body, func(n ast.Node) bool {
				rs, ok := n.(*ast.RangeStmt)
				if !ok || rs.Value == nil {
					return true
				}
				if tv, ok := info.Types[rs.X]; !ok || !isStringType(tv.Type) {
					return true
				}
				ch := objOf(info, rs.Value)
				ast.Inspect(rs.Body, func(x ast.Node) bool {
					be, ok := x.(*ast.BinaryExpr)
					if !ok {
						return true
					}
					switch be.Op {
					case token.GTR, token.GEQ, token.LSS, token.LEQ:
					default:
						return true
					}
					var other ast.Expr
					if objOf(info, be.X) == ch {
						other = be.Y
					} else if objOf(info, be.Y) == ch {
						other = be.X
					} else {
						return true
					}
					tv, ok := info.Types[other]
					if !ok || tv.Value == nil {
						return true
					}
					v, ok := constInt(tv)
					if !ok || v < 126 || v > 129 {
						return true
					}
					isChar := func(e ast.Expr) bool { return objOf(info, ast.Unparen(e)) == ch }
					at := func(val int64) bool {
						r, _ := evalExpr(info, be, func(e ast.Expr) (constant.Value, bool) {
							if isChar(e) {
								return constant.MakeInt64(val), true
							}
							return nil, false
						})
						return r != nil && constant.BoolVal(r)
					}
					lo, hi := at(0x7F), at(0x80)
					c.Hold("R1g", pk.Types.Name()+"."+strings.TrimPrefix(name, ".")+":"+exprStr(be), be.Pos(), lo != hi,
						"`"+exprStr(be)+"` has the same outcome for U+007F and U+0080: the first non-ASCII character is treated like ASCII (or the last ASCII one like non-ASCII)")
					return true
				})
				return true
			})
		})
	}

	// ---- R2
	c.Rule("R2", "Equal(a,b) has the shape a==b || F(a)==F(b) with one key function F on both sides", 2)
	for _, pr := range [][2]string{{"framework/address", "Equal"}, {"framework/dns", "Equal"}} {
		fi := p.Func(pr[0], "", pr[1])
		key := pr[0] + ".Equal"
		if fi == nil {
			c.Fail("R2", key, token.NoPos, "anchor unresolved")
			continue
		}
		c.SawFunc(fi.Name())
		fl := p.Func(pr[0], "", "ForLookup")
		if fl == nil {
			c.Fail("R2", key, fi.Decl.Pos(), "package has no ForLookup")
			continue
		}
		ok, msg := equalShape(p, fi, qname(fl.Obj))
		c.Hold("R2", key, fi.Decl.Pos(), ok, msg)
	}

	// ---- R3
	c.Rule("R3", "the key functions are pure: no mutable package-level state, no clock/random/environment in their cone inside maddy", 3)
	for _, pr := range [][2]string{{"framework/address", "ForLookup"}, {"framework/dns", "ForLookup"}, {"framework/address", "CleanDomain"}} {
		fi := p.Func(pr[0], "", pr[1])
		key := pr[0] + "." + pr[1]
		if fi == nil {
			c.Fail("R3", key, token.NoPos, "anchor unresolved")
			continue
		}
		c.SawFunc(fi.Name())
		ok, msg, pos := pureCone(c, fi)
		if pos == token.NoPos {
			pos = fi.Decl.Pos()
		}
		c.Hold("R3", key, pos, ok, msg)
	}

	// ---- R4
	c.Rule("R4", "every success value of the key functions has passed IDNA decoding (domain), NFC and lower-casing, NFC before case folding", 5)
	c17Chains(c)

	// ---- R4c: the decoder is particular about the ACE prefix. idna.ToUnicode (x/net/idna, plain Punycode profile)
	// decodes a label only when it starts with the lower-case "xn--"; DNS names and the ACE prefix are
	// case-insensitive, `user@XN--E1AYBC.example` is a spelling of `user@тест.example` a client may well send. A key
	// function that hands the raw domain to the decoder maps that spelling to a second key (`xn--e1aybc.example`), and is
	// not idempotent on it (the second application decodes what the first one lowered). Decided: in the key functions,
	// the argument of idna.ToUnicode has passed a function that lowers the ASCII letters (evaluated at 'A', 'Z', '@', '[').
	c.Rule("R4c", "key functions (dns.ForLookup, address.CleanDomain): the domain handed to idna.ToUnicode has its ASCII letters lowered first – the decoder recognises only the lower-case ACE prefix (A3)", 2)
	c.Assume("A3: idna.ToUnicode decodes only labels that begin with the lower-case ACE prefix \"xn--\" and leaves other labels as they are (demonstrated against the vendored x/net version: findings/C17_ace_prefix_case_test.go.txt)")
	for _, kf := range [][2]string{{"framework/dns", "ForLookup"}, {"framework/address", "CleanDomain"}} {
		fi := p.Func(kf[0], "", kf[1])
		if fi == nil {
			c.Fail("R4c", kf[1], token.NoPos, "anchor unresolved")
			continue
		}
		info := fi.Info()
		c.SawFunc(fi.Name())
		n := 0
		msg := ""
		ast.Inspect(fi.Decl.Body, func(x ast.Node) bool {
			call, ok := x.(*ast.CallExpr)
			if !ok || !isCall(info, call, "golang.org/x/net/idna.ToUnicode") || len(call.Args) != 1 {
				return true
			}
			n++
			arg := resolveLocal(info, fi.Decl.Body, call.Args[0])
			lowered := false
			if lc, isCall_ := ast.Unparen(arg).(*ast.CallExpr); isCall_ {
				if isCall(info, lc, "strings.ToLower") {
					lowered = true
				} else if isCall(info, lc, "strings.Map") && len(lc.Args) == 2 {
					if fl, isLit := ast.Unparen(lc.Args[0]).(*ast.FuncLit); isLit && lowersASCIIBody(info, fl.Body) {
						lowered = true
					}
				} else if fn := callee(info, lc); fn != nil {
					if d := p.DeclOf(fn); d != nil && d.Decl.Body != nil && lowersASCIIBody(d.Info(), d.Decl.Body) {
						lowered = true
					}
				}
			}
			// … and what is lowered letter by letter is a normalised string: lowering the ASCII letters of an
			// un-normalised string separates a letter from the combining mark it forms one character with ("I" +
			// U+0307 is U+0130): the NFD spelling gets another key than the NFC spelling
			if lowered {
				lc := ast.Unparen(arg).(*ast.CallExpr)
				if !isCall(info, lc, "strings.ToLower") && len(lc.Args) >= 1 {
					in := resolveLocal(info, fi.Decl.Body, lc.Args[len(lc.Args)-1])
					nfc := false
					if nc, ok := ast.Unparen(in).(*ast.CallExpr); ok {
						if sel, ok := ast.Unparen(nc.Fun).(*ast.SelectorExpr); ok && sel.Sel.Name == "String" && strings.Contains(exprStr(sel.X), "NFC") {
							nfc = true
						}
					}
					c.Hold("R4c", kf[1]+":lowered-after-normalisation", call.Pos(), nfc, "line "+itoa(p.Fset.Position(call.Pos()).Line)+": the ASCII letters of the domain are lowered before it is NFC-normalised ("+exprStr(in)+"): `I` followed by U+0307 becomes `i` + U+0307, while the precomposed U+0130 is folded later to `i` – canonically equivalent spellings of one domain get two keys and Equal answers false")
				}
			}
			if !lowered {
				msg = "line " + itoa(p.Fset.Position(call.Pos()).Line) + ": the domain reaches idna.ToUnicode as the caller spelled it (" + exprStr(call.Args[0]) + "): an A-label written with an upper-case ACE prefix (user@XN--E1AYBC.example) is not decoded, gets a key of its own (xn--e1aybc.example instead of тест.example) and the function is not idempotent on it"
			}
			return true
		})
		if n == 0 {
			msg = "undecided: no call of idna.ToUnicode"
		}
		c.Hold("R4c", kf[1]+":ace-prefix-case", fi.Decl.Pos(), msg == "", msg)
	}

	// ---- R9: the address helpers are total – "for all strings" includes the ones that make a slice empty
	c.Rule("R9", "framework/address: every index / slice operation the compiler could not prove in bounds is discharged by a dominating guard (the validators and converters are called on unvalidated input – a panic in them is a remote crash, or a check that silently 'passes')", 0)
	boundsRule(c, "R9", []string{"framework/address"})

	// ---- R6: ASCII/Unicode conversions are conversions, not key functions
	c.Rule("R6", "ToASCII / ToUnicode change only the encoding of the domain (IDNA, plus NFC for the Unicode form): no case folding, trimming or key normalisation, local part untouched – otherwise the conversions do not round-trip", 2)
	for _, name := range []string{"ToASCII", "ToUnicode"} {
		fi := p.Func("framework/address", "", name)
		if fi == nil {
			c.Fail("R6", "address."+name, token.NoPos, "anchor unresolved")
			continue
		}
		c.SawFunc(fi.Name())
		f := p.SSAFunc(fi.Obj)
		allowed := map[string]bool{}
		required := ""
		if name == "ToASCII" {
			allowed["golang.org/x/net/idna.ToASCII"] = true
			allowed["golang.org/x/net/idna.Profile.ToASCII"] = true
			required = "ToASCII"
		} else {
			for k := range c17IDNA {
				allowed[k] = true
			}
			for k := range c17NFC {
				allowed[k] = true
			}
			required = "ToUnicode"
		}
		msg := ""
		n := 0
		for _, r := range returnsOf(f) {
			if len(r.Results) != 2 || !isNilConst(r.Results[1]) {
				continue
			}
			for _, parts := range concatPartsAlts(r.Results[0]) {
				at := -1
				for i, pt := range parts {
					if cst, ok := pt.(*ssa.Const); ok && cst.Value != nil && cst.Value.ExactString() == `"@"` {
						at = i
					}
				}
				if at < 0 {
					continue // postmaster-style address without a domain
				}
				n++
				for _, lv := range parts[:at] {
					for _, ch := range stringChains(lv, 12) {
						if len(ch.Steps) != 0 {
							msg = "the local part is transformed by " + describeChain(ch.Steps)
						}
					}
				}
				for _, dv := range parts[at+1:] {
					for _, ch := range stringChains(dv, 12) {
						sawReq := false
						for _, st := range ch.Steps {
							if !allowed[st.Callee] {
								msg = "the domain passes through " + st.Callee[strings.LastIndex(st.Callee, "/")+1:] + ", which is not an encoding step (case folding / trimming / key normalisation changes the address: converting back does not return the original)"
							}
							if strings.HasSuffix(st.Callee, required) {
								sawReq = true
							}
						}
						if !sawReq {
							msg = "the domain is not passed through idna." + required
						}
					}
				}
			}
		}
		if n == 0 && msg == "" {
			msg = "undecided: no success return with a domain"
		}
		c.Hold("R6", "address."+name, fi.Decl.Pos(), msg == "", msg)
	}

	// ---- R5
	c.Rule("R5", "Split returns addr[:i] and addr[i+1:] for one index i of a one-byte separator", 1)
	if fi := p.Func("framework/address", "", "Split"); fi == nil {
		c.Fail("R5", "address.Split", token.NoPos, "anchor unresolved")
	} else {
		c.SawFunc(fi.Name())
		ok, msg := splitComplement(p, fi)
		c.Hold("R5", "address.Split", fi.Decl.Pos(), ok, msg)
		// what Split returns is the caller's spelling: the argument, a slice of it, or nothing – never other text
		// (`return "postmaster", "", nil` for <Postmaster> changes the address on its way through CleanDomain)
		ok, msg = splitReturnsSubstrings(p, fi)
		c.Hold("R5", "address.Split:substrings", fi.Decl.Pos(), ok, msg)
	}

	// ---- R7: bytes are not characters. Quoting and unquoting copy the characters of the local part one by one; the
	// two directions undo each other only if both take the string apart the same way – by decoding (range over the
	// string). A loop over bytes that converts each byte to a rune (or a one-character string) re-encodes every byte
	// >= 0x80 as a code point of its own: `é` comes back as `Ã©`, and the quoted form no longer unquotes to the input.
	c.Rule("R7", "framework/address, framework/dns: a byte of a string is never converted to a rune or to a string (rune(s[i]), string(s[i])); the functions that copy an address character by character range over the string", 2)
	nLoops := 0
	for _, rel := range []string{"framework/address", "framework/dns"} {
		pk := p.Pkg(rel)
		if pk == nil {
			c.Fail("R7", rel, token.NoPos, "anchor unresolved")
			continue
		}
		info := pk.TypesInfo
		p.AllFuncs([]*packagesPkg{pk}, func(fi *FuncInfo) {
			if strings.HasSuffix(p.Fset.Position(fi.Decl.Pos()).Filename, "_test.go") {
				return
			}
			msg := ""
			loops := 0
			ast.Inspect(fi.Decl.Body, func(n ast.Node) bool {
				switch x := n.(type) {
				case *ast.RangeStmt:
					if tv, ok := info.Types[x.X]; ok && isStringType(tv.Type) && x.Value != nil {
						loops++
					}
				case *ast.CallExpr:
					if len(x.Args) != 1 {
						return true
					}
					tv, ok := info.Types[x.Fun]
					if !ok || !tv.IsType() {
						return true
					}
					at := info.TypeOf(x.Args[0])
					ab, isB := at.(*types.Basic)
					if at == nil || !isB || ab.Kind() != types.Uint8 {
						if at == nil {
							return true
						}
						if ub, isUB := at.Underlying().(*types.Basic); !isUB || ub.Kind() != types.Uint8 {
							return true
						}
					}
					if atv, has := info.Types[x.Args[0]]; has && atv.Value != nil {
						return true // a constant
					}
					tb, isTB := tv.Type.Underlying().(*types.Basic)
					if isTB && (tb.Kind() == types.Int32 || tb.Kind() == types.String) {
						msg = "line " + itoa(p.Fset.Position(x.Pos()).Line) + ": a byte is converted to a character (" + exprStr(x) + "): for bytes >= 0x80 that is not the character the string contains at this place but U+0080..U+00FF – a non-ASCII local part is mangled (quote/unquote no longer round-trips, the lookup key differs from the address)"
					}
				}
				return true
			})
			nLoops += loops
			if loops > 0 || msg != "" {
				c.SawFunc(fi.Name())
				c.Hold("R7", pk.Types.Name()+"."+refName(fi.Obj)+":characters", fi.Decl.Pos(), msg == "", msg)
			}
		})
	}
	if nLoops == 0 {
		c.Fail("R7", "loops", token.NoPos, "undecided: no function that ranges over the characters of an address was found")
	}
	c17EscapeState(c)
	noTransitionalIDNA(c, "R10", nil)
	c17LowerASCIITotal(c, "R11")
	c17WholeCharacterCopied(c, "R12")
	c17AddressFunctionsStateless(c, "R13")
}

// R8: unquoting is a two-state scanner: a backslash (inside quotes, itself not escaped) escapes exactly the next
// character, after which the scanner is back in the plain state. The state is a flag that is raised in the backslash
// case only when it is down, and lowered at the end of every iteration that consumed a character. A state derived
// from the previous CHARACTER instead (`escaped := prev == '\\'`) takes the second backslash of `\\\\` for an escape
// of what follows: `a\\` quoted and unquoted again comes back as `a\\"`.
func c17EscapeState(c *Check) {
	c.Rule("R8", "UnquoteMbox: the escape state is a flag raised only in the backslash case while it is down and lowered at the end of every iteration that copied a character (an escape covers exactly one character)", 1)
	r := c.need("R8", "framework/address", "", "UnquoteMbox")
	if r == nil {
		return
	}
	info := r.Info
	// candidate flags: bool locals assigned the constant true somewhere
	var flags []types.Object
	ast.Inspect(r.FI.Decl.Body, func(x ast.Node) bool {
		as, ok := x.(*ast.AssignStmt)
		if !ok || len(as.Lhs) != len(as.Rhs) {
			return true
		}
		for i, l := range as.Lhs {
			o := objOf(info, l)
			tv, has := info.Types[as.Rhs[i]]
			if o == nil || !has || tv.Value == nil || tv.Value.String() != "true" || !isBoolType(o.Type()) {
				continue
			}
			flags = append(flags, o)
		}
		return true
	})
	msg := "no flag is raised in the backslash case: the escape state is not a flag of the scanner (derived from the previous character, an escaped backslash escapes the following character as well)"
	for _, fl := range flags {
		// raised only for a backslash met while the flag is down – whatever form the test has (switch case, if chain):
		// no raise is reachable in the world "the character is not a backslash", none in the world "the flag is up"
		raisedInBackslash := false
		{
			var chars []types.Object
			ast.Inspect(r.FI.Decl.Body, func(x ast.Node) bool {
				if rs, ok := x.(*ast.RangeStmt); ok && rs.Value != nil {
					if tv, ok := info.Types[rs.X]; ok && isStringType(tv.Type) {
						if o := objOf(info, rs.Value); o != nil {
							chars = append(chars, o)
						}
					}
				}
				return true
			})
			isChar := func(e ast.Expr) bool {
				o := objOf(info, e)
				for _, ch := range chars {
					if o == ch {
						return true
					}
				}
				return false
			}
			isBS := func(e ast.Expr) bool {
				tv, has := info.Types[e]
				if !has || tv.Value == nil {
					return false
				}
				n, isInt := constInt(tv)
				return isInt && n == '\\'
			}
			notBSWorld := r.F.World(func(atom ast.Expr) (bool, bool) {
				if be, ok := ast.Unparen(atom).(*ast.BinaryExpr); ok && (be.Op == token.EQL || be.Op == token.NEQ) {
					if (isChar(be.X) && isBS(be.Y)) || (isChar(be.Y) && isBS(be.X)) {
						return be.Op == token.NEQ, true
					}
				}
				return false, false
			})
			notBS := func(b *cfgBlock, i int) bool {
				if cond, isCase := r.F.Cond(b); cond != nil && isCase {
					if tag := r.F.CaseTag(b); tag != nil && isChar(tag) && isBS(cond) {
						return i == 0
					}
					return false
				}
				return notBSWorld(b, i)
			}
			flagUp := r.F.World(func(atom ast.Expr) (bool, bool) {
				if objOf(info, atom) == fl {
					return true, true
				}
				return false, false
			})
			raises := r.Assigns(func(l, rhs ast.Expr) bool {
				if objOf(info, l) != fl || rhs == nil {
					return false
				}
				tv, has := info.Types[rhs]
				return has && tv.Value != nil && tv.Value.String() == "true"
			})
			if len(raises) > 0 {
				_, f1 := r.F.Reach(Query{From: r.Entry(), Inclusive: true, Target: isPt(raises), AvoidEdge: notBS})
				_, f2 := r.F.Reach(Query{From: r.Entry(), Inclusive: true, Target: isPt(raises), AvoidEdge: flagUp})
				raisedInBackslash = !f1 && !f2
			}
		}
		if !raisedInBackslash {
			continue
		}
		// lowered on every path from a raised state to the point where a character is written
		writes := r.Calls(func(info *types.Info, call *ast.CallExpr) bool {
			return methodName(call) == "WriteRune" || methodName(call) == "WriteString" || methodName(call) == "WriteByte"
		})
		lowers := r.Assigns(func(l, rhs ast.Expr) bool {
			if objOf(info, l) != fl || rhs == nil {
				return false
			}
			tv, has := info.Types[rhs]
			return has && tv.Value != nil && tv.Value.String() == "false"
		})
		if len(writes) == 0 || len(lowers) == 0 {
			msg = "the escape flag is never lowered (or no character is ever copied)"
			continue
		}
		// every path from the loop head to a write passes the lowering, or the lowering follows the write before the next iteration
		okAll := true
		for _, w := range writes {
			if okMP, _ := r.MustPass(r.Entry(), true, func(q Pt) bool { return q == w }, isPt(lowers)); !okMP {
				// the lowering may come after the write: from the write, the next loop head is reached only through it
				okAll = false
			}
		}
		if okAll {
			msg = ""
		} else {
			msg = "a character can be copied while the escape flag stays raised for the next character"
		}
	}
	c.Hold("R8", "address.UnquoteMbox:escape-state", r.FI.Decl.Pos(), msg == "", msg)
}

// checkASCIIPredicate finds the character loop of body and the branch that classifies a character as non-ASCII,
// and evaluates its predicate at the boundary. If replaceMode, the branch is the one assigning/writing a
// replacement (used by C16.R6); otherwise the branch returning false.
func checkASCIIPredicate(c *Check, rule, key string, info *types.Info, ft *ast.FuncType, body *ast.BlockStmt, replaceMode bool) {
	// character operands: value variable of a range over a string, or s[i] over a string/[]byte
	var chars []types.Object
	var strs []types.Object
	ast.Inspect(body, func(n ast.Node) bool {
		if r, ok := n.(*ast.RangeStmt); ok {
			if tv, ok := info.Types[r.X]; ok && isStringType(tv.Type) && r.Value != nil {
				if o := objOf(info, r.Value); o != nil {
					chars = append(chars, o)
				}
			}
		}
		return true
	})
	if ft != nil && ft.Params != nil {
		for _, f := range ft.Params.List {
			for _, n := range f.Names {
				if o := info.Defs[n]; o != nil {
					strs = append(strs, o)
				}
			}
		}
	}
	isChar := func(e ast.Expr) bool {
		e = ast.Unparen(e)
		if o := objOf(info, e); o != nil {
			for _, ch := range chars {
				if o == ch {
					return true
				}
			}
		}
		if ix, ok := e.(*ast.IndexExpr); ok {
			if o := objOf(info, ix.X); o != nil {
				for _, s := range strs {
					if o == s {
						return true
					}
				}
			}
		}
		return false
	}
	mentionsChar := func(e ast.Expr) bool {
		m := false
		ast.Inspect(e, func(n ast.Node) bool {
			if x, ok := n.(ast.Expr); ok && isChar(x) {
				m = true
			}
			return !m
		})
		return m
	}
	var conds []*ast.IfStmt
	ast.Inspect(body, func(n ast.Node) bool {
		is, ok := n.(*ast.IfStmt)
		if !ok || !mentionsChar(is.Cond) {
			return true
		}
		conds = append(conds, is)
		return true
	})
	if len(conds) != 1 {
		c.Fail(rule, key, body.Pos(), "undecided: expected exactly one branch on the character, found "+itoa(len(conds)))
		return
	}
	is := conds[0]
	if !replaceMode {
		// then-branch must return the constant false
		retFalse := false
		for _, s := range is.Body.List {
			if r, ok := s.(*ast.ReturnStmt); ok && len(r.Results) == 1 {
				if tv, ok := info.Types[r.Results[0]]; ok && tv.Value != nil && tv.Value.String() == "false" {
					retFalse = true
				}
			}
		}
		if !retFalse {
			c.Fail(rule, key, is.Pos(), "undecided: the branch on the character does not return false")
			return
		}
	}
	ok, msg := asciiBoundary(info, is.Cond, isChar)
	c.Hold(rule, key, is.Cond.Pos(), ok, msg)
}

// equalShape: every Return of fi is either the constant true dominated by param0 == param1, or the comparison
// Extract#0(F(param_i)) == Extract#0(F(param_j)) with {i,j} = {0,1}.
func equalShape(p *Prog, fi *FuncInfo, keyFn string) (bool, string) {
	f := p.SSAFunc(fi.Obj)
	if f == nil || len(f.Params) != 2 {
		return false, "undecided: no SSA / unexpected parameters"
	}
	keyOf := func(v ssa.Value) int { // which parameter is v the key of? -1 none
		ex, ok := v.(*ssa.Extract)
		if !ok || ex.Index != 0 {
			return -1
		}
		call, ok := ex.Tuple.(*ssa.Call)
		if !ok || ssaCalleeName(&call.Call) != keyFn || len(call.Call.Args) != 1 {
			return -1
		}
		for i, prm := range f.Params {
			if call.Call.Args[0] == prm {
				return i
			}
		}
		return -1
	}
	sawCompare := false
	for _, r := range returnsOf(f) {
		if len(r.Results) != 1 {
			return false, "undecided: unexpected result count"
		}
		switch v := r.Results[0].(type) {
		case *ssa.Const:
			if v.Value == nil || v.Value.String() != "true" {
				return false, "returns the constant " + v.String() + " (comparison must be decided by key equality)"
			}
			// must be on the true edge of param0 == param1
			ok := false
			for _, pred := range r.Block().Preds {
				if ifi, isIf := pred.Instrs[len(pred.Instrs)-1].(*ssa.If); isIf && len(r.Block().Preds) == 1 {
					// the true edge of a == b, or the false edge of a != b
					if b, isB := ifi.Cond.(*ssa.BinOp); isB && ((b.Op == token.EQL && pred.Succs[0] == r.Block()) || (b.Op == token.NEQ && pred.Succs[1] == r.Block())) {
						if (b.X == f.Params[0] && b.Y == f.Params[1]) || (b.X == f.Params[1] && b.Y == f.Params[0]) {
							ok = true
						}
					}
				}
			}
			if !ok {
				return false, "returns true at " + p.Pos(r.Pos()) + " without being on the true edge of a == b"
			}
		case *ssa.BinOp:
			if v.Op != token.EQL {
				return false, "result is not an equality of keys"
			}
			i, j := keyOf(v.X), keyOf(v.Y)
			if i < 0 || j < 0 || i == j {
				return false, "result at " + p.Pos(r.Pos()) + " does not compare " + keyFn + "(a) with " + keyFn + "(b) (different or missing key function on one side)"
			}
			sawCompare = true
		default:
			return false, "undecided: result at " + p.Pos(r.Pos()) + " is neither true-under-a==b nor a key comparison"
		}
	}
	if !sawCompare {
		return false, "no return compares the lookup keys"
	}
	return true, ""
}

// pureCone checks the maddy part of the call cone of fi.
func pureCone(c *Check, fi *FuncInfo) (bool, string, token.Pos) {
	p := c.P
	seen := map[*ssa.Function]bool{}
	var bad string
	var badPos token.Pos
	var visit func(f *ssa.Function)
	visit = func(f *ssa.Function) {
		if f == nil || seen[f] || bad != "" {
			return
		}
		seen[f] = true
		c.SawFunc(f.String())
		for _, b := range f.Blocks {
			for _, ins := range b.Instrs {
				for _, op := range ins.Operands(nil) {
					if g, ok := (*op).(*ssa.Global); ok && g.Pkg != nil && strings.HasPrefix(g.Pkg.Pkg.Path(), modPath) {
						// a synchronised container or counter (sync.Map, sync.Mutex, atomic.*) is mutable state by its nature: a
						// cache in front of a normaliser makes its answer depend on what was asked before
						if pt, isPtr := g.Type().(*types.Pointer); isPtr {
							if nt := namedOf(pt.Elem()); nt != nil && nt.Obj().Pkg() != nil && (nt.Obj().Pkg().Path() == "sync" || nt.Obj().Pkg().Path() == "sync/atomic") {
								bad = "uses the package-level " + nt.Obj().Pkg().Name() + "." + nt.Obj().Name() + " " + g.Name() + " (mutable state shared by all callers: the result can depend on earlier calls)"
								badPos = ins.Pos()
								return
							}
						}
						// a maddy global: allowed only if never stored outside init
						if globalStoredOutsideInit(p, g) {
							bad = "reads package-level variable " + g.Name() + " which is assigned outside init"
							badPos = ins.Pos()
							return
						}
					}
				}
				call, ok := ins.(ssa.CallInstruction)
				if !ok {
					continue
				}
				cc := call.Common()
				if cc.IsInvoke() {
					continue // library interfaces (none in the cone today); trusted A2
				}
				callee := cc.StaticCallee()
				if callee == nil {
					if _, isB := cc.Value.(*ssa.Builtin); isB {
						continue
					}
					bad = "dynamic call in the cone of a key function"
					badPos = ins.Pos()
					return
				}
				pkg := ""
				if callee.Pkg != nil {
					pkg = callee.Pkg.Pkg.Path()
				} else if callee.Object() != nil && callee.Object().Pkg() != nil {
					pkg = callee.Object().Pkg().Path()
				}
				switch pkg {
				case "time", "math/rand", "math/rand/v2", "os", "crypto/rand", "net", "syscall", "os/user":
					bad = "calls " + callee.String() + " (clock/random/environment) in the cone of a key function"
					badPos = ins.Pos()
					return
				}
				if strings.HasPrefix(pkg, modPath) {
					visit(callee)
				}
			}
		}
	}
	visit(p.SSAFunc(fi.Obj))
	return bad == "", bad, badPos
}

func globalStoredOutsideInit(p *Prog, g *ssa.Global) bool {
	for _, f := range p.MaddyFuncs() {
		if objName(f) == "init" || strings.HasPrefix(f.Name(), "init#") {
			continue
		}
		for _, b := range f.Blocks {
			for _, ins := range b.Instrs {
				if s, ok := ins.(*ssa.Store); ok && s.Addr == g {
					return true
				}
			}
		}
	}
	return false
}

func chainHas(steps []chainStep, set map[string]bool) int {
	for i, s := range steps {
		cal := s.Callee
		if j := strings.Index(cal, "<"); j > 0 {
			cal = cal[:j]
		}
		if set[cal] {
			return i
		}
	}
	return -1
}

// foldedOK: steps are outermost-first. Requires lower-casing applied after (outer of) NFC; optionally IDNA innermost.
func foldedOK(steps []chainStep, needIDNA bool) (bool, string) {
	lo, nf := chainHas(steps, c17Lower), chainHas(steps, c17NFC)
	// lower-casing maps letter to letter; full case FOLDING (cases.Fold) is many-to-one on valid IDNA2008 letters
	// (ß → ss, ς → σ): straße.example and strasse.example are two registrable domains and would get one key
	for _, s := range steps {
		if strings.HasSuffix(s.Callee, "<cases.Fold>") {
			return false, "the key is made with full Unicode case folding (cases.Fold), which maps ß to ss and ς to σ: two different registrable domains (straße.example, strasse.example) get the same key – a user of one is entitled to addresses of the other"
		}
	}
	if nf < 0 {
		return false, "value is not NFC-normalised"
	}
	if lo < 0 {
		return false, "value is not case-folded"
	}
	// all positions (outermost first): the innermost lowering needs an NFC inside it, the outermost one an NFC outside it
	loInner, nfInner := lo, nf
	for i, s := range steps {
		cal := s.Callee
		if j := strings.Index(cal, "<"); j > 0 {
			cal = cal[:j]
		}
		if c17Lower[cal] {
			loInner = i
		}
		if c17NFC[cal] {
			nfInner = i
		}
	}
	if loInner > nfInner {
		return false, "case folding is applied before NFC normalisation"
	}
	if lo < nf {
		// lower-casing is not closed under NFC: `J` + U+030C has no precomposed form, its lower-case `j` + U+030C
		// composes to U+01F0 (likewise H+U+0331 → U+1E96, U+03AA+U+0301 → U+0390). A key whose last step is the
		// lowering is not in NFC: a second application changes it, and the upper-case spelling gets another key than
		// the (normalised) lower-case spelling of the same address
		return false, "lower-casing is the last normalisation step – it is not followed by NFC: the lower-case form of a letter + combining mark can have a precomposed form its upper-case form lacks (J + U+030C → U+01F0), so the key is not NFC, not idempotent, and the letter-case variants of one address get two keys"
	}
	if needIDNA {
		id := chainHas(steps, c17IDNA)
		if id < 0 {
			return false, "domain is not IDNA-decoded (A-label and U-label spellings get different keys)"
		}
		if id < nfInner && id < nf {
			return false, "IDNA decoding is applied after NFC"
		}
	}
	return true, ""
}

func describeChain(steps []chainStep) string {
	var s []string
	for _, st := range steps {
		s = append(s, st.Callee[strings.LastIndex(st.Callee, "/")+1:])
	}
	return "[" + strings.Join(s, " ∘ ") + "]"
}

func c17Chains(c *Check) {
	p := c.P
	dnsFL := rel("~/framework/dns.ForLookup")
	splitFn := rel("~/framework/address.Split")

	successReturns := func(f *ssa.Function) []*ssa.Return {
		var out []*ssa.Return
		for _, r := range returnsOf(f) {
			if len(r.Results) == 2 && isNilConst(r.Results[1]) {
				out = append(out, r)
			}
		}
		return out
	}
	// dns.ForLookup
	if fi := p.Func("framework/dns", "", "ForLookup"); fi == nil {
		c.Fail("R4", "dns.ForLookup", token.NoPos, "anchor unresolved")
	} else {
		f := p.SSAFunc(fi.Obj)
		rs := successReturns(f)
		if len(rs) == 0 {
			c.Fail("R4", "dns.ForLookup", fi.Decl.Pos(), "no success return found")
		}
		for _, r := range rs {
			for _, ch := range stringChains(r.Results[0], 12) {
				if ch.Origin != ssa.Value(f.Params[0]) {
					c.Hold("R4", "dns.ForLookup:result", r.Pos(), false, "success value does not derive from the argument through unary string transformations: "+ch.Origin.String())
					continue
				}
				ok, msg := foldedOK(ch.Steps, true)
				c.Hold("R4", "dns.ForLookup:result", r.Pos(), ok, msg+" "+describeChain(ch.Steps))
			}
		}
	}
	// address.ForLookup / CleanDomain
	for _, name := range []string{"ForLookup", "CleanDomain"} {
		fi := p.Func("framework/address", "", name)
		if fi == nil {
			c.Fail("R4", "address."+name, token.NoPos, "anchor unresolved")
			continue
		}
		f := p.SSAFunc(fi.Obj)
		for _, r := range successReturns(f) {
			v := r.Results[0]
			if cst, ok := v.(*ssa.Const); ok && cst.Value != nil && cst.Value.ExactString() == `""` {
				continue // null return path
			}
			for _, parts := range concatPartsAlts(v) {
				// split parts at the "@" constant
				at := -1
				for i, pt := range parts {
					if cst, ok := pt.(*ssa.Const); ok && cst.Value != nil && cst.Value.ExactString() == `"@"` {
						at = i
					}
				}
				var local, domain []ssa.Value
				if at >= 0 {
					local, domain = parts[:at], parts[at+1:]
				} else {
					local = parts
				}
				for _, lv := range local {
					for _, ch := range stringChains(lv, 12) {
						// origin must be Extract#0 of Split(param)
						okOrigin := false
						if ex, isEx := ch.Origin.(*ssa.Extract); isEx && ex.Index == 0 {
							if call, isCall := ex.Tuple.(*ssa.Call); isCall && ssaCalleeName(&call.Call) == splitFn {
								okOrigin = true
							}
						}
						if name == "CleanDomain" {
							// the local part is passed through untouched by design
							c.Hold("R4", "address.CleanDomain:local", r.Pos(), okOrigin && len(ch.Steps) == 0, "local part of CleanDomain is not the untouched mailbox of Split "+describeChain(ch.Steps))
							continue
						}
						if !okOrigin {
							c.Hold("R4", "address.ForLookup:local", r.Pos(), false, "local part does not derive from Split(addr)")
							continue
						}
						ok, msg := foldedOK(ch.Steps, false)
						c.Hold("R4", "address.ForLookup:local", r.Pos(), ok, "local part: "+msg+" "+describeChain(ch.Steps))
					}
				}
				for _, dv := range domain {
					for _, ch := range stringChains(dv, 12) {
						// origin must be Extract#1 of Split
						okOrigin := false
						if ex, isEx := ch.Origin.(*ssa.Extract); isEx && ex.Index == 1 {
							if call, isCall := ex.Tuple.(*ssa.Call); isCall && ssaCalleeName(&call.Call) == splitFn {
								okOrigin = true
							}
						}
						if !okOrigin {
							c.Hold("R4", "address."+name+":domain", r.Pos(), false, "domain part does not derive from Split(addr): "+ch.Origin.String())
							continue
						}
						if name == "ForLookup" {
							// delegation to dns.ForLookup (whose own chain is checked above)
							deleg := false
							for _, s := range ch.Steps {
								if s.Callee == dnsFL {
									deleg = true
								}
							}
							if deleg {
								c.Hold("R4", "address.ForLookup:domain", r.Pos(), true, "")
								continue
							}
						}
						ok, msg := foldedOK(ch.Steps, true)
						c.Hold("R4", "address."+name+":domain", r.Pos(), ok, "domain part: "+msg+" "+describeChain(ch.Steps))
					}
				}
			}
		}
	}
}

func splitComplement(p *Prog, fi *FuncInfo) (bool, string) {
	f := p.SSAFunc(fi.Obj)
	if f == nil || len(f.Params) != 1 {
		return false, "undecided: no SSA"
	}
	addr := f.Params[0]
	var slices []*ssa.Slice
	for _, b := range f.Blocks {
		for _, ins := range b.Instrs {
			if s, ok := ins.(*ssa.Slice); ok && s.X == ssa.Value(addr) {
				slices = append(slices, s)
			}
		}
	}
	var head, tail *ssa.Slice
	for _, s := range slices {
		if s.Low == nil && s.High != nil {
			head = s
		}
		if s.Low != nil && s.High == nil {
			tail = s
		}
	}
	if head == nil || tail == nil || len(slices) != 2 {
		return false, "undecided: expected exactly addr[:i] and addr[i+1:]"
	}
	idx := head.High
	add, ok := tail.Low.(*ssa.BinOp)
	if !ok || add.Op != token.ADD {
		return false, "tail does not start at i+1"
	}
	one := func(v ssa.Value) bool {
		cst, ok := v.(*ssa.Const)
		return ok && cst.Value != nil && cst.Value.ExactString() == "1"
	}
	if !((add.X == idx && one(add.Y)) || (add.Y == idx && one(add.X))) {
		return false, "tail does not start at i+1 for the i that ends the head (mailbox + sep + domain != addr)"
	}
	call, ok := idx.(*ssa.Call)
	if !ok {
		return false, "index is not the result of an index search"
	}
	switch ssaCalleeName(&call.Call) {
	case "strings.LastIndexByte", "strings.IndexByte":
	case "strings.LastIndex", "strings.Index":
		if cst, ok := call.Call.Args[1].(*ssa.Const); !ok || cst.Value == nil || len(cst.Value.ExactString()) != 3 {
			return false, "separator is not a one-byte constant"
		}
	default:
		return false, "index is not the result of strings.(Last)Index(Byte)"
	}
	if call.Call.Args[0] != ssa.Value(addr) {
		return false, "index is searched in another string"
	}
	return true, ""
}

func splitReturnsSubstrings(p *Prog, fi *FuncInfo) (bool, string) {
	f := p.SSAFunc(fi.Obj)
	if f == nil || len(f.Params) != 1 {
		return false, "undecided: no SSA"
	}
	addr := ssa.Value(f.Params[0])
	var bad string
	var walk func(v ssa.Value, seen map[ssa.Value]bool)
	walk = func(v ssa.Value, seen map[ssa.Value]bool) {
		if seen[v] {
			return
		}
		seen[v] = true
		switch x := v.(type) {
		case *ssa.Phi:
			for _, e := range x.Edges {
				walk(e, seen)
			}
			return
		case *ssa.Slice:
			walk(x.X, seen)
			return
		case *ssa.Const:
			if x.Value == nil || x.Value.ExactString() == `""` {
				return
			}
			bad = "the constant " + x.Value.ExactString()
			return
		}
		if v == addr {
			return
		}
		bad = v.String()
	}
	n := 0
	for _, r := range returnsOf(f) {
		if len(r.Results) != 3 {
			return false, "undecided: Split no longer returns (mailbox, domain, err)"
		}
		for _, v := range r.Results[:2] {
			n++
			walk(v, map[ssa.Value]bool{})
		}
	}
	if n == 0 {
		return false, "undecided: no return"
	}
	if bad != "" {
		return false, "Split returns text that is not part of its argument (" + bad + "): the address that leaves CleanDomain / ToASCII / ToUnicode is not the one the client wrote (e.g. <Postmaster> becomes <postmaster>)"
	}
	return true, ""
}

// lowersASCIIBody: the body lowers exactly the ASCII capitals: it compares a character with the constants 'A' and 'Z'
// and adds the distance to the lower-case letters.
func lowersASCIIBody(info *types.Info, body ast.Node) bool {
	hasA, hasZ, hasDelta := false, false, false
	ast.Inspect(body, func(x ast.Node) bool {
		e, ok := x.(ast.Expr)
		if !ok {
			return true
		}
		tv, has := info.Types[e]
		if !has || tv.Value == nil {
			return true
		}
		if n, isInt := constInt(tv); isInt {
			switch n {
			case 'A':
				hasA = true
			case 'Z':
				hasZ = true
			case 'a' - 'A':
				hasDelta = true
			}
		}
		return true
	})
	if hasA && hasZ && hasDelta {
		return true
	}
	// the mapping may be a named function (`strings.Map(lowerASCIIRune, s)`) or sit one helper down
	return lowersASCIIVia(info, body, 0)
}

func lowersASCIIVia(info *types.Info, body ast.Node, depth int) bool {
	if depth > 2 || theProg == nil {
		return false
	}
	found := false
	ast.Inspect(body, func(x ast.Node) bool {
		id, ok := x.(*ast.Ident)
		if !ok || found {
			return !found
		}
		fn, isFn := info.Uses[id].(*types.Func)
		if !isFn || fn.Pkg() == nil || !strings.HasPrefix(fn.Pkg().Path(), modPath) {
			return true
		}
		d := theProg.DeclOf(fn)
		if d == nil || d.Decl.Body == nil || d.Decl.Body == body {
			return true
		}
		hasA, hasZ, hasDelta := false, false, false
		ast.Inspect(d.Decl.Body, func(y ast.Node) bool {
			if e, ok := y.(ast.Expr); ok {
				if tv, has := d.Info().Types[e]; has && tv.Value != nil {
					if n, isInt := constInt(tv); isInt {
						switch n {
						case 'A':
							hasA = true
						case 'Z':
							hasZ = true
						case 'a' - 'A':
							hasDelta = true
						}
					}
				}
			}
			return true
		})
		if (hasA && hasZ && hasDelta) || lowersASCIIVia(d.Info(), d.Decl.Body, depth+1) {
			found = true
		}
		return !found
	})
	return found
}
