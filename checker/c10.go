package main

import (
	"go/ast"
	"go/token"
	"go/types"
	"reflect"
	"strings"
)

func init() { register("C10", checkC10) }

// jsonVisibleFields lists the fields of a struct that encoding/json would (de)serialise.
func jsonVisibleFields(st *types.Struct) []*types.Var {
	var out []*types.Var
	for i := 0; i < st.NumFields(); i++ {
		f := st.Field(i)
		if !f.Exported() && !f.Embedded() {
			continue
		}
		tag := reflect.StructTag(st.Tag(i)).Get("json")
		if tag == "-" {
			continue
		}
		out = append(out, f)
	}
	return out
}

// credentialPaths finds every JSON-visible field path from t to a struct that has a field named like a
// credential (AuthPassword). Paths are lists of field names.
func credentialPaths(t types.Type, path []string, seen map[types.Type]bool, out *[][]string) {
	t = derefAll(t)
	if seen[t] {
		return
	}
	seen[t] = true
	defer delete(seen, t)
	switch u := t.Underlying().(type) {
	case *types.Struct:
		for _, f := range jsonVisibleFields(u) {
			np := append(append([]string{}, path...), f.Name())
			if strings.Contains(strings.ToLower(f.Name()), "password") || strings.Contains(strings.ToLower(f.Name()), "secret") {
				*out = append(*out, np)
			}
			credentialPaths(f.Type(), np, seen, out)
		}
	case *types.Slice:
		credentialPaths(u.Elem(), path, seen, out)
	case *types.Array:
		credentialPaths(u.Elem(), path, seen, out)
	case *types.Map:
		credentialPaths(u.Elem(), path, seen, out)
	}
}

func derefAll(t types.Type) types.Type {
	for {
		if p, ok := t.Underlying().(*types.Pointer); ok {
			t = p.Elem()
			continue
		}
		return t
	}
}

// jsonRoundTrippable: no func/chan/unsafe pointer/non-empty interface anywhere in the JSON-visible type.
func jsonRoundTrippable(t types.Type, seen map[types.Type]bool) (bool, string) {
	t = derefAll(t)
	if seen[t] {
		return true, ""
	}
	seen[t] = true
	switch u := t.Underlying().(type) {
	case *types.Basic:
		if u.Kind() == types.UnsafePointer || u.Info()&types.IsComplex != 0 {
			return false, u.String()
		}
		return true, ""
	case *types.Struct:
		if nt, ok := t.(*types.Named); ok && nt.Obj().Pkg() != nil && nt.Obj().Pkg().Path() == "time" && objName(nt.Obj()) == "Time" {
			return true, ""
		}
		for _, f := range jsonVisibleFields(u) {
			if ok, why := jsonRoundTrippable(f.Type(), seen); !ok {
				return false, f.Name() + "." + why
			}
		}
		return true, ""
	case *types.Slice:
		return jsonRoundTrippable(u.Elem(), seen)
	case *types.Array:
		return jsonRoundTrippable(u.Elem(), seen)
	case *types.Map:
		if !isStringType(u.Key()) {
			if b, ok := u.Key().Underlying().(*types.Basic); !ok || b.Info()&types.IsInteger == 0 {
				return false, "map key " + u.Key().String()
			}
		}
		return jsonRoundTrippable(u.Elem(), seen)
	case *types.Interface, *types.Signature, *types.Chan:
		return false, t.String()
	}
	return true, ""
}

func checkC10(c *Check) {
	p := c.P
	c.explain = "C10 (spool preserves bytes and envelope, never stores credentials), structural part: every JSON encoding in the queue package whose operand can reach client credentials through JSON-visible fields is preceded on all paths by a fresh copy of the message metadata with the connection state cleared and no later store into it; " +
		"the only JSON-visible path from the spooled record to credentials is the connection-state field; the envelope fields the property names are exported, untagged and of round-trippable type; header, body and envelope are handed through unmodified (parameters reach the writer / the downstream target without intervening stores or mutating calls); writer and reader use the same file roles."
	c.notCover = "byte-exactness of textproto.WriteHeader∘ReadHeader and of io.Copy (library), size limits of the reader on very large headers are only covered by the 'no limiting reader' rule."
	c.Assume("A2: encoding/json omits unexported fields and fields tagged json:\"-\"")

	qpk := p.Pkg(queueRel)
	if qpk == nil {
		c.Rule("R1", "credentials never reach an encoder", 1)
		c.Fail("R1", "package", token.NoPos, "anchor unresolved: queue package")
		return
	}
	// ---- R1 type-level
	c.Rule("R1t", "the only JSON-visible path from the spooled record type to a credential field goes through MsgMetadata.Conn", 1)
	var qmeta types.Type
	if o := qpk.Types.Scope().Lookup("QueueMetadata"); o != nil {
		qmeta = o.Type()
	}
	if qmeta == nil {
		c.Fail("R1t", "queue.QueueMetadata", token.NoPos, "anchor unresolved")
		return
	}
	var paths [][]string
	credentialPaths(qmeta, nil, map[types.Type]bool{}, &paths)
	if len(paths) == 0 {
		c.Hold("R1t", "queue.QueueMetadata", token.NoPos, true, "")
	}
	for _, pa := range paths {
		ok := len(pa) >= 3 && pa[0] == "MsgMeta" && pa[1] == "Conn"
		c.Hold("R1t", "queue.QueueMetadata:"+strings.Join(pa, "."), token.NoPos, ok, "JSON-visible path to a credential that does not pass through the stripped connection state: "+strings.Join(pa, "."))
	}

	// ---- R1 flow-level: every json encode in package queue
	c.Rule("R1", "every JSON encoding of a record that can reach credentials is dominated by: fresh copy of the metadata, Conn = nil on the copy, and no later store to the copy's connection state", 1)
	c.Rule("R1c", "the persisted copy differs from the live record in nothing but the stripped connection state", 1)
	encSites := 0
	p.AllFuncs([]*packagesPkg{qpk}, func(fi *FuncInfo) {
		info := fi.Info()
		var encs []*ast.CallExpr
		ast.Inspect(fi.Decl.Body, func(n ast.Node) bool {
			if call, ok := n.(*ast.CallExpr); ok && isCall(info, call, "encoding/json.Encoder.Encode", "encoding/json.Marshal", "encoding/json.MarshalIndent") && len(call.Args) >= 1 {
				encs = append(encs, call)
			}
			return true
		})
		if len(encs) == 0 {
			return
		}
		c.SawFunc(fi.Name())
		r := &RuleCtx{C: c, FI: fi, F: p.FlowOfFunc(fi), Info: info}
		for _, call := range encs {
			opT := info.TypeOf(call.Args[0])
			var cp [][]string
			credentialPaths(opT, nil, map[types.Type]bool{}, &cp)
			if len(cp) == 0 {
				continue // operand cannot reach credentials
			}
			encSites++
			key := fi.Name() + ":encode"
			opObj := objOf(info, call.Args[0])
			if u, ok := ast.Unparen(call.Args[0]).(*ast.UnaryExpr); ok && u.Op == token.AND {
				opObj = objOf(info, u.X)
			}
			encPt, found := r.F.PtOf(call.Pos())
			if opObj == nil || !found {
				c.Hold("R1", key, call.Pos(), false, "undecided: encoded operand is not a local variable")
				continue
			}
			isOnCopy := func(e ast.Expr, fields ...string) bool {
				// e == opObj.f1.f2…
				cur := ast.Unparen(e)
				for i := len(fields) - 1; i >= 0; i-- {
					s, ok := cur.(*ast.SelectorExpr)
					if !ok || s.Sel.Name != fields[i] {
						return false
					}
					cur = ast.Unparen(s.X)
				}
				return objOf(info, cur) == opObj
			}
			// the operand must be a value copy (struct), not the pointer to the live record
			if _, isPtr := info.TypeOf(call.Args[0]).Underlying().(*types.Pointer); isPtr {
				c.Hold("R1", key, call.Pos(), false, "the live record (pointer) is encoded, not a stripped copy")
				continue
			}
			fresh := r.Assigns(func(lhs, rhs ast.Expr) bool {
				if !isOnCopy(lhs, "MsgMeta") || rhs == nil {
					return false
				}
				cc, ok := ast.Unparen(rhs).(*ast.CallExpr)
				return ok && methodName(cc) == "DeepCopy"
			})
			strip := r.Assigns(func(lhs, rhs ast.Expr) bool {
				return isOnCopy(lhs, "MsgMeta", "Conn") && rhs != nil && isNilIdent(info, rhs)
			})
			// any other store that can put a connection state (back) into the copy
			restore := r.Assigns(func(lhs, rhs ast.Expr) bool {
				if rhs != nil && isNilIdent(info, rhs) {
					return false
				}
				if isOnCopy(lhs, "MsgMeta", "Conn") || isOnCopy(lhs) {
					return true
				}
				if isOnCopy(lhs, "MsgMeta") {
					cc, ok := ast.Unparen(rhs).(*ast.CallExpr)
					return !(ok && methodName(cc) == "DeepCopy")
				}
				// stores through the Conn pointer (copy.MsgMeta.Conn.X = …) – Conn is nil afterwards, would panic; ignore
				return false
			})
			isEnc := isPt([]Pt{encPt})
			msg := ""
			if len(fresh) == 0 {
				msg = "the encoded record shares its metadata with the live message (no DeepCopy into the copy): clearing Conn would clear it for the running delivery, not clearing it stores credentials"
			} else if ok, w := r.MustPass(r.Entry(), true, isEnc, isPt(fresh)); !ok {
				msg = "the record can be encoded without a fresh metadata copy: " + w
			} else if len(strip) == 0 {
				msg = "the connection state (with AuthPassword) is not cleared before encoding"
			} else if ok, w := r.MustPass(fresh, false, isEnc, isPt(strip)); !ok {
				msg = "the record can be encoded with the connection state still attached: " + w
			} else if f, w := r.Reachable(strip, false, isEnc, nil); f {
				// between strip and encode: no restoring store
				if f2, w2 := r.Reachable(strip, false, isPt(restore), nil); f2 {
					if f3, _ := r.Reachable(restore, false, isEnc, nil); f3 {
						msg = "after clearing, a connection state is stored into the copy again before it is encoded: " + w2
					}
				}
				_ = w
			}
			c.Hold("R1", key, call.Pos(), msg == "", msg)
			// R1c: the persisted copy differs from the live record in nothing but the stripped connection state
			other := r.Assigns(func(lhs, rhs ast.Expr) bool {
				if !mentions(info, lhs, opObj) {
					return false
				}
				root := lhs
				for {
					switch y := ast.Unparen(root).(type) {
					case *ast.SelectorExpr:
						root = y.X
						continue
					case *ast.IndexExpr:
						root = y.X
						continue
					}
					break
				}
				if objOf(info, root) != opObj {
					return false
				}
				if isOnCopy(lhs) {
					return false // the initial value copy `metaCopy := *meta`
				}
				if isOnCopy(lhs, "MsgMeta") {
					cc, ok := ast.Unparen(rhs).(*ast.CallExpr)
					return !(ok && methodName(cc) == "DeepCopy")
				}
				if isOnCopy(lhs, "MsgMeta", "Conn") {
					return !(rhs != nil && isNilIdent(info, rhs))
				}
				return true
			})
			msg2 := ""
			for _, o := range other {
				if f, _ := r.Reachable([]Pt{o}, false, isEnc, nil); f {
					msg2 = "the record written to the spool is altered before encoding (" + exprStr(o.Node().(*ast.AssignStmt).Lhs[0]) + "): what a retry or a restart reads back is not the envelope that was accepted"
				}
			}
			c.Hold("R1c", fi.Name()+":encode:only-conn-stripped", call.Pos(), msg2 == "", msg2)
		}
	})
	if encSites == 0 {
		c.Fail("R1", "queue:encode", token.NoPos, "undecided: no JSON encoding of the spool record found")
	}

	// ---- R2
	c.Rule("R2", "the envelope fields the property names are JSON-visible and of a round-trippable type; writer and reader use the same record type", 9)
	var msgMeta types.Type
	if mp := p.Pkg("framework/module"); mp != nil {
		if o := mp.Types.Scope().Lookup("MsgMetadata"); o != nil {
			msgMeta = o.Type()
		}
	}
	need := []struct {
		t     types.Type
		tn    string
		field string
	}{
		{qmeta, "QueueMetadata", "From"}, {qmeta, "QueueMetadata", "To"}, {qmeta, "QueueMetadata", "MsgMeta"},
		{msgMeta, "MsgMetadata", "SMTPOpts"}, {msgMeta, "MsgMetadata", "TLSRequireOverride"}, {msgMeta, "MsgMetadata", "OriginalRcpts"},
		{msgMeta, "MsgMetadata", "OriginalFrom"}, {msgMeta, "MsgMetadata", "ID"},
	}
	for _, nf := range need {
		key := nf.tn + "." + nf.field
		if nf.t == nil {
			c.Fail("R2", key, token.NoPos, "anchor unresolved: type")
			continue
		}
		st, _ := nf.t.Underlying().(*types.Struct)
		var fv *types.Var
		if st != nil {
			for _, f := range jsonVisibleFields(st) {
				if f.Name() == nf.field {
					fv = f
				}
			}
		}
		if fv == nil {
			c.HoldConst("R2", key, token.NoPos, false, "field is missing, unexported or tagged json:\"-\" (it would not survive a restart)")
			continue
		}
		if nf.field == "MsgMeta" {
			// its envelope fields are judged one by one below; its connection state is stripped (R1)
			c.HoldConst("R2", key, fv.Pos(), true, "")
			continue
		}
		ok, why := jsonRoundTrippable(fv.Type(), map[types.Type]bool{})
		c.Hold("R2", key, fv.Pos(), ok, "field type does not round-trip through JSON: "+why)
	}
	// the field-by-field judgement above describes encoding/json's default treatment of the struct; a hand-written
	// marshaller on a record type replaces it and must itself carry every needed field, in both directions
	for _, rt := range []struct {
		t  types.Type
		tn string
	}{{qmeta, "QueueMetadata"}, {msgMeta, "MsgMetadata"}} {
		if rt.t == nil {
			continue
		}
		var wanted []string
		for _, nf := range need {
			if nf.tn == rt.tn {
				wanted = append(wanted, nf.field)
			}
		}
		for _, mname := range []string{"MarshalJSON", "UnmarshalJSON", "MarshalText", "UnmarshalText"} {
			var m *types.Func
			for _, t := range []types.Type{rt.t, types.NewPointer(rt.t)} {
				ms := types.NewMethodSet(t)
				for i := 0; i < ms.Len(); i++ {
					if f, ok := ms.At(i).Obj().(*types.Func); ok && f.Name() == mname {
						m = f
					}
				}
			}
			if m == nil {
				continue
			}
			key := rt.tn + "." + mname
			d := p.DeclOf(m)
			if mname != "MarshalJSON" || d == nil || d.Decl.Body == nil || d.Decl.Recv == nil || len(d.Decl.Recv.List) != 1 || len(d.Decl.Recv.List[0].Names) != 1 {
				c.Fail("R2", key, m.Pos(), "undecided: the record type has a hand-written "+mname+"; which envelope fields survive a restart is no longer decided by the struct definition")
				continue
			}
			c.SawFunc(d.Name())
			recv := d.Info().Defs[d.Decl.Recv.List[0].Names[0]]
			read := map[string]bool{}
			ast.Inspect(d.Decl.Body, func(x ast.Node) bool {
				if sel, ok := x.(*ast.SelectorExpr); ok && objOf(d.Info(), sel.X) == recv {
					read[sel.Sel.Name] = true
				}
				return true
			})
			var missing []string
			for _, f := range wanted {
				if !read[f] {
					missing = append(missing, f)
				}
			}
			c.Hold("R2", key, m.Pos(), len(missing) == 0, "the hand-written "+mname+" of "+rt.tn+" does not write "+strings.Join(missing, ", ")+": what the client asked for at MAIL/DATA is in memory for the first attempt but not in the spool – every retry and every attempt after a restart runs without it")
		}
	}
	// SMTPOpts must carry UTF8 and RequireTLS
	if msgMeta != nil {
		st := msgMeta.Underlying().(*types.Struct)
		for i := 0; i < st.NumFields(); i++ {
			if objName(st.Field(i)) == "SMTPOpts" {
				if ost, ok := st.Field(i).Type().Underlying().(*types.Struct); ok {
					have := map[string]bool{}
					for _, f := range jsonVisibleFields(ost) {
						have[f.Name()] = true
					}
					c.HoldConst("R2", "MailOptions.UTF8+RequireTLS", st.Field(i).Pos(), have["UTF8"] && have["RequireTLS"], "SMTPUTF8 / REQUIRETLS options are not JSON-visible")
				}
			}
		}
	}
	// writer/reader type agreement
	if rr := c.need("R2", queueRel, "Queue", "readMessageMeta"); rr != nil {
		okT := false
		ast.Inspect(rr.FI.Decl.Body, func(n ast.Node) bool {
			if call, ok := n.(*ast.CallExpr); ok && isCall(rr.Info, call, "encoding/json.Decoder.Decode", "encoding/json.Unmarshal") {
				a := call.Args[len(call.Args)-1]
				if types.Identical(derefAll(rr.Info.TypeOf(a)), qmeta) {
					okT = true
				}
			}
			return true
		})
		c.Hold("R2", "readMessageMeta:type", rr.FI.Decl.Pos(), okT, "the reader decodes into a type other than the one the writer encodes")
	}

	c10EnvelopeReadOnly(c, "R8")
	c10NoMetaStoreAfterBody(c, "R9")
	c10NoPooledBuffer(c, "R10")
	c10EnvelopeIsValidUTF8(c, "R11")
	c02ReportID(c, "R13")
	c10CopyIsDeepForTables(c, "R14")

	// ---- R3e: per-message flags are finalised after MAIL (TLS-Required override at DATA, quarantine by the checks), so
	// every layer down to the spool must keep the very metadata object it was given
	c.Rule("R3e", "because the endpoint and the checks write per-message flags after the delivery was started, the pipeline and the queue keep the metadata object they were given (no copy at Start)", 3)
	lateWriters := 0
	for _, a := range [][3]string{{smtpEndpRel, "Session", "Data"}, {smtpEndpRel, "Session", "LMTPData"}, {pipelineRel, "checkRunner", "applyResults"}} {
		if lw := c.In(a[0], a[1], a[2]); lw != nil {
			lateWriters += len(lw.Assigns(func(l, _ ast.Expr) bool {
				return isField(lw.Info, l, "MsgMetadata", "TLSRequireOverride") || isField(lw.Info, l, "MsgMetadata", "Quarantine")
			}))
		}
	}
	if lateWriters == 0 {
		c.HoldConst("R3e", "no-late-writers", token.NoPos, true, "")
	} else {
		sameObj := func(r *RuleCtx, key string, want func(e ast.Expr) bool, where string) {
			ok := false
			ast.Inspect(r.FI.Decl.Body, func(n ast.Node) bool {
				if kv, isKV := n.(*ast.KeyValueExpr); isKV {
					if id, isID := kv.Key.(*ast.Ident); isID && (id.Name == "MsgMeta" || id.Name == "msgMeta") && want(kv.Value) {
						ok = true
					}
				}
				return true
			})
			c.Hold("R3e", key, r.FI.Decl.Pos(), ok, where+" stores a copy of the message metadata instead of the object it was given: flags set later in the transaction (TLS-Required: No at DATA, quarantine) never reach the spool / the downstream target")
		}
		if r := c.need("R3e", queueRel, "Queue", "Start"); r != nil {
			prm := paramObjs(r.FI)["msgMeta"]
			sameObj(r, "Queue.Start:same-object", func(e ast.Expr) bool { return prm != nil && objOf(r.Info, e) == prm }, "the queue's Start")
		}
		if r := c.need("R3e", pipelineRel, "MsgPipeline", "Start"); r != nil {
			prm := paramObjs(r.FI)["msgMeta"]
			sameObj(r, "MsgPipeline.Start:same-object", func(e ast.Expr) bool { return prm != nil && objOf(r.Info, e) == prm }, "the pipeline's Start")
		}
		if r := c.need("R3e", pipelineRel, "msgpipelineDelivery", "getDelivery"); r != nil {
			ok := false
			ast.Inspect(r.FI.Decl.Body, func(n ast.Node) bool {
				if call, isCall2 := n.(*ast.CallExpr); isCall2 && qname(callee(r.Info, call)) == modulePkg+".DeliveryTarget.Start" && len(call.Args) == 3 {
					ok = isField(r.Info, call.Args[1], "msgpipelineDelivery", "msgMeta")
				}
				return true
			})
			c.Hold("R3e", "getDelivery:passes-same-object", r.FI.Decl.Pos(), ok, "the pipeline starts its targets with something other than the metadata object it holds")
		}
	}

	// ---- R3
	c.Rule("R3", "header, body and envelope pass through the queue unmodified: parameters reach the file writer / the downstream target with no intervening store or mutating call; reader and writer use the same file roles; no size-limiting reader on the way back", 8)
	c10Bytes(c)
	c10FirstAttempt(c)
	c10Recipients(c)
	c10Location(c)
}

type packagesPkg = packagesPackage

func c10Bytes(c *Check) {
	// storeNewMessage: WriteHeader(file, header) with header = parameter; io.Copy(bodyFile, reader) with reader = body.Open()
	if r := c.need("R3", queueRel, "Queue", "storeNewMessage"); r != nil {
		info := r.Info
		params := paramObjs(r.FI)
		hdr, body := params["header"], params["body"]
		if hdr == nil || body == nil {
			// by type
			for _, o := range params {
				if typeIs(o.Type(), "github.com/emersion/go-message/textproto", "Header") {
					hdr = o
				}
				if typeIs(o.Type(), modPath+"/framework/buffer", "Buffer") {
					body = o
				}
			}
		}
		wh := r.Calls(calling("github.com/emersion/go-message/textproto.WriteHeader"))
		okH := len(wh) == 1 && hdr != nil
		if okH {
			call := r.CallAt(wh[0], calling("github.com/emersion/go-message/textproto.WriteHeader"))
			okH = len(call.Args) == 2 && objOf(info, call.Args[1]) == hdr
		}
		c.Hold("R3", "storeNewMessage:header-written", r.FI.Decl.Pos(), okH, "the header written to the spool is not the header parameter")
		if okH {
			mut := r.F.Find(func(n ast.Node) bool { return mutates(info, n, hdr) })
			f, w := r.Reachable(r.Entry(), true, isPt(wh), nil)
			_ = f
			bad, wb := false, ""
			for _, m := range mut {
				if f2, w2 := r.Reachable([]Pt{m}, false, isPt(wh), nil); f2 || m == wh[0] {
					bad, wb = true, w2
				}
			}
			_ = w
			c.Hold("R3", "storeNewMessage:header-unmodified", r.FI.Decl.Pos(), !bad, "the header is modified before it is written: "+wb)
		}
		cp := r.Calls(calling("io.Copy", "io.CopyBuffer", "io.CopyN"))
		okB := len(cp) == 1 && body != nil
		if okB {
			call := r.CallAt(cp[0], calling("io.Copy", "io.CopyBuffer", "io.CopyN"))
			if isCall(info, call, "io.CopyN") {
				okB = false
			} else {
				src := objOf(info, call.Args[1])
				def, n := localDef(info, r.FI.Decl.Body, src)
				dc, isCall2 := ast.Unparen(def).(*ast.CallExpr)
				okB = src != nil && n == 1 && isCall2 && methodName(dc) == "Open" && recvObj(info, dc) == body
			}
		}
		c.Hold("R3", "storeNewMessage:body-copied", r.FI.Decl.Pos(), okB, "the body stored is not an unbounded copy of body.Open() of the body parameter")
	}
	// openMessage: reads .header/.body/.meta; no limiting/transforming reader
	if r := c.need("R3", queueRel, "Queue", "openMessage"); r != nil {
		info := r.Info
		roles := map[string]bool{}
		ast.Inspect(r.FI.Decl.Body, func(n ast.Node) bool {
			if call, ok := n.(*ast.CallExpr); ok && isCall(info, call, "path/filepath.Join") {
				if s, ok := pathSuffix(info, r.FI.Decl.Body, call, 0); ok {
					roles[s] = true
				}
			}
			return true
		})
		wroles := map[string]bool{}
		if w := c.In(queueRel, "Queue", "storeNewMessage"); w != nil {
			ast.Inspect(w.FI.Decl.Body, func(n ast.Node) bool {
				if call, ok := n.(*ast.CallExpr); ok && isCreate(w.Info, call) {
					if s, ok := pathSuffix(w.Info, w.FI.Decl.Body, call.Args[0], 0); ok {
						wroles[s] = true
					}
				}
				return true
			})
		}
		okRoles := len(wroles) >= 2
		for s := range wroles {
			if !roles[s] {
				okRoles = false
			}
		}
		c.HoldConst("R3", "openMessage:file-roles", r.FI.Decl.Pos(), okRoles, "the reader does not open the same file roles the writer created")
		lim := r.Calls(calling("io.LimitReader", "io.NewSectionReader", "bufio.NewReaderSize", "io.CopyN"))
		// ReadHeader argument chain: bufio.NewReader(file) where file = os.Open(headerPath)
		okChain := false
		ast.Inspect(r.FI.Decl.Body, func(n ast.Node) bool {
			call, ok := n.(*ast.CallExpr)
			if !ok || !isCall(info, call, "github.com/emersion/go-message/textproto.ReadHeader") || len(call.Args) != 1 {
				return true
			}
			src := call.Args[0]
			for depth := 0; depth < 4; depth++ {
				if o := objOf(info, src); o != nil {
					def, n := localDef(info, r.FI.Decl.Body, o)
					if n != 1 || def == nil {
						return true
					}
					src = def
					continue
				}
				cc, ok := ast.Unparen(src).(*ast.CallExpr)
				if !ok {
					return true
				}
				if isCall(info, cc, "bufio.NewReader") && len(cc.Args) == 1 {
					src = cc.Args[0]
					continue
				}
				if isCall(info, cc, "os.Open") {
					if s, ok := pathSuffix(info, r.FI.Decl.Body, cc.Args[0], 0); ok && s == ".header" {
						okChain = true
					}
				}
				return true
			}
			return true
		})
		c.Hold("R3", "openMessage:header-read-whole", r.FI.Decl.Pos(), okChain && len(lim) == 0, "the stored header is not parsed from the whole .header file (a bounded or transformed reader sits in between: a long header would be cut silently)")
	}
	// deliver: hands its parameters on
	if r := c.need("R3", queueRel, "Queue", "deliver"); r != nil {
		info := r.Info
		params := paramObjs(r.FI)
		var metaP, hdrP, bodyP types.Object
		for _, o := range params {
			switch {
			case typeIs(o.Type(), modPath+"/"+queueRel, "QueueMetadata"):
				metaP = o
			case typeIs(o.Type(), "github.com/emersion/go-message/textproto", "Header"):
				hdrP = o
			case typeIs(o.Type(), modPath+"/framework/buffer", "Buffer"):
				bodyP = o
			}
		}
		okBody, okFrom, okRcpt := true, false, false
		nBody := 0
		ast.Inspect(r.FI.Decl.Body, func(n ast.Node) bool {
			call, ok := n.(*ast.CallExpr)
			if !ok {
				return true
			}
			switch qname(callee(info, call)) {
			case modulePkg + ".Delivery.Body":
				nBody++
				if len(call.Args) != 3 || objOf(info, call.Args[1]) != hdrP || objOf(info, call.Args[2]) != bodyP {
					okBody = false
				}
			case modulePkg + ".PartialDelivery.BodyNonAtomic":
				nBody++
				if len(call.Args) != 4 || objOf(info, call.Args[2]) != hdrP || objOf(info, call.Args[3]) != bodyP {
					okBody = false
				}
			case modulePkg + ".DeliveryTarget.Start":
				if len(call.Args) == 3 && isField(info, call.Args[2], "QueueMetadata", "From") {
					if s := ast.Unparen(call.Args[2]).(*ast.SelectorExpr); objOf(info, s.X) == metaP {
						okFrom = true
					}
				}
			case modulePkg + ".Delivery.AddRcpt":
				// the argument is the range value over meta.To
				for _, rs := range rangesIn(r.FI.Decl.Body, func(rs *ast.RangeStmt) bool {
					return isField(info, rs.X, "QueueMetadata", "To") && within(rs.Body, call)
				}) {
					if rs.Value != nil && len(call.Args) >= 2 && objOf(info, call.Args[1]) == objOf(info, rs.Value) {
						okRcpt = true
					}
				}
			}
			return true
		})
		c.Hold("R3", "deliver:body-args", r.FI.Decl.Pos(), okBody && nBody >= 2 && hdrP != nil && bodyP != nil, "Body/BodyNonAtomic do not receive exactly the header and body the queue was given")
		c.Hold("R3", "deliver:sender", r.FI.Decl.Pos(), okFrom, "the downstream Start does not receive the stored sender")
		c.Hold("R3", "deliver:recipients", r.FI.Decl.Pos(), okRcpt, "the downstream AddRcpt does not receive the elements of the pending-recipient list")
		// header/body parameters are never reassigned or mutated
		mutated := false
		for _, o := range []types.Object{hdrP, bodyP} {
			if o == nil {
				continue
			}
			if len(r.F.Find(func(n ast.Node) bool { return mutates(info, n, o) })) > 0 {
				mutated = true
			}
		}
		c.Hold("R3", "deliver:unmodified", r.FI.Decl.Pos(), !mutated, "deliver modifies the header or body before handing it on")
		// the copy of the metadata handed to the target: only ID is stored into
		var copyObj types.Object
		ast.Inspect(r.FI.Decl.Body, func(n ast.Node) bool {
			if as, ok := n.(*ast.AssignStmt); ok && len(as.Lhs) == 1 && len(as.Rhs) == 1 {
				if cc, ok := ast.Unparen(as.Rhs[0]).(*ast.CallExpr); ok && methodName(cc) == "DeepCopy" {
					copyObj = objOf(info, as.Lhs[0])
				}
			}
			return true
		})
		badStore := ""
		if copyObj == nil {
			badStore = "the target is not given a copy of the metadata"
		} else {
			ast.Inspect(r.FI.Decl.Body, func(n ast.Node) bool {
				if as, ok := n.(*ast.AssignStmt); ok {
					for _, l := range as.Lhs {
						if s, ok := ast.Unparen(l).(*ast.SelectorExpr); ok && mentions(info, s.X, copyObj) && fieldOf(info, s) != nil {
							if !(objOf(info, s.X) == copyObj && s.Sel.Name == "ID") {
								badStore = "the metadata copy handed to the target is modified in field " + exprStr(l)
							}
						}
					}
				}
				return true
			})
		}
		c.Hold("R3", "deliver:meta-copy", r.FI.Decl.Pos(), badStore == "", badStore)
	}
}

// c10FirstAttempt: the hand-over of the first attempt. The message accepted by queueDelivery.Body is not re-read
// from the spool for the first attempt: the in-memory header / stored body / metadata travel
// Body -> (fields of the delivery) -> Commit -> queueSlot -> dispatch -> tryDelivery -> deliver.
func c10FirstAttempt(c *Check) {
	c.Rule("R3f", "the first attempt sees what was accepted: Body keeps the header it was given and the stored body on its success path; Commit puts exactly those (and the metadata) into the slot; dispatch hands the slot's three parts - or, for a slot read from disk, the three results of openMessage - to tryDelivery, which hands its parameters to deliver", 4)
	hdrT := func(t types.Type) bool { return typeIs(t, "github.com/emersion/go-message/textproto", "Header") }
	bufT := func(t types.Type) bool { return typeIs(t, modPath+"/framework/buffer", "Buffer") }
	metaT := func(t types.Type) bool { return typeIs(t, modPath+"/"+queueRel, "QueueMetadata") }
	// (a) Body
	if r := c.need("R3f", queueRel, "queueDelivery", "Body"); r != nil {
		info := r.Info
		var hdrP types.Object
		for _, o := range paramObjs(r.FI) {
			if hdrT(o.Type()) {
				hdrP = o
			}
		}
		store := calling("~/" + queueRel + ".Queue.storeNewMessage")
		sites := r.Calls(store)
		msg := ""
		if len(sites) != 1 || hdrP == nil {
			msg = "undecided: expected one storeNewMessage call and a header parameter"
		} else {
			as, _ := sites[0].Node().(*ast.AssignStmt)
			var stored types.Object
			if as != nil && len(as.Lhs) == 2 {
				stored = objOf(info, as.Lhs[0])
			}
			call := r.CallAt(sites[0], store)
			isCopyOfParam := func(rhs ast.Expr) bool {
				call, ok := ast.Unparen(rhs).(*ast.CallExpr)
				return ok && methodName(call) == "Copy" && len(call.Args) == 0 && objOf(info, callRecv(call)) == hdrP
			}
			sharesStorage := false
			keepsHdr := r.Assigns(func(l, rhs ast.Expr) bool {
				fv := fieldOf(info, l)
				if fv == nil || !hdrT(fv.Type()) || rhs == nil {
					return false
				}
				if objOf(info, rhs) == hdrP {
					sharesStorage = true
					return true
				}
				return isCopyOfParam(rhs)
			})
			// textproto.Header is a struct of a slice and a map: a copy made by assignment shares its storage with the
			// caller's value, which the caller (a pipeline that hands one header to several deliveries) goes on using
			c.Hold("R3f", "queueDelivery.Body:header-copied", r.FI.Decl.Pos(), !sharesStorage, "Body keeps the header value it was given, which shares its storage with the caller's: a field added later by a sibling delivery of the same pipeline (a second nested pipeline signing the message) lands in the header the first attempt sends, while the spool – and every retry – has the header that was accepted")
			keepsBody := r.Assigns(func(l, rhs ast.Expr) bool {
				fv := fieldOf(info, l)
				return fv != nil && bufT(fv.Type()) && rhs != nil && stored != nil && objOf(info, rhs) == stored
			})
			// … and nothing but the stored body: the caller's buffer is the caller's – the SMTP endpoint removes it right
			// after Commit, and a buffer whose storage is recycled is rewritten by the next message while the first attempt
			// (which runs later, on the queue's own goroutine) still reads it
			foreign := r.Assigns(func(l, rhs ast.Expr) bool {
				fv := fieldOf(info, l)
				if fv == nil || !bufT(fv.Type()) || rhs == nil || isNilIdent(info, rhs) {
					return false
				}
				return stored == nil || objOf(info, rhs) != stored
			})
			c.Hold("R3f", "queueDelivery.Body:body-is-the-stored-one", r.FI.Decl.Pos(), len(foreign) == 0, "Body keeps a buffer other than the one storeNewMessage returned for the first attempt (line "+func() string {
				if len(foreign) > 0 && foreign[0].Node() != nil {
					return itoa(p0(c.P, foreign[0].Node().Pos()))
				}
				return "?"
			}()+"): the caller's buffer is removed by the caller after Commit (the endpoint calls Remove; a recycled in-memory buffer is overwritten by the next message) while the first attempt runs later – its recipients can receive another message's body; retries read the spool and are right")
			if stored == nil {
				msg = "the stored body returned by storeNewMessage is dropped"
			} else if len(keepsHdr) == 0 || len(keepsBody) == 0 {
				msg = "Body does not keep the header it was given / the stored body for the first attempt"
			} else {
				for _, keep := range [][]Pt{keepsHdr, keepsBody} {
					if found, w, decided := r.OnErr(sites[0], call, true, r.F.IsNormalExit, isPt(keep)); !decided {
						msg = "the error of storeNewMessage is dropped"
					} else if found {
						msg = "Body can succeed without keeping the header / stored body for the first attempt (it would be delivered empty): " + w
					}
				}
			}
		}
		c.Hold("R3f", "queueDelivery.Body:keeps-header-and-body", r.FI.Decl.Pos(), msg == "", msg)
	}
	// (b) Commit
	if r := c.need("R3f", queueRel, "queueDelivery", "Commit"); r != nil {
		info := r.Info
		msg := "undecided: no slot literal handed to the wheel"
		ast.Inspect(r.FI.Decl.Body, func(n ast.Node) bool {
			cl, ok := n.(*ast.CompositeLit)
			if !ok {
				return true
			}
			nt := namedOf(info.TypeOf(cl))
			if nt == nil || objName(nt.Obj()) != "queueSlot" {
				return true
			}
			msg = ""
			seen := map[string]bool{}
			for _, el := range cl.Elts {
				kv, ok := el.(*ast.KeyValueExpr)
				if !ok {
					msg = "undecided: positional slot literal"
					return false
				}
				v := ast.Unparen(kv.Value)
				if u, ok := v.(*ast.UnaryExpr); ok && u.Op == token.AND {
					v = ast.Unparen(u.X)
				}
				fv := fieldOf(info, v)
				if fv == nil {
					continue
				}
				// a field of the delivery itself (receiver), selected by type
				if sel, ok := v.(*ast.SelectorExpr); !ok || objOf(info, sel.X) == nil || objOf(info, sel.X) != recvObjOf(r.FI) {
					continue
				}
				switch {
				case hdrT(fv.Type()):
					seen["hdr"] = true
				case bufT(fv.Type()):
					seen["body"] = true
				case metaT(fv.Type()):
					seen["meta"] = true
				}
			}
			if !seen["hdr"] || !seen["body"] || !seen["meta"] {
				msg = "the slot of the first attempt is not built from the delivery's own header, stored body and metadata"
			}
			return false
		})
		c.Hold("R3f", "queueDelivery.Commit:slot-carries-the-message", r.FI.Decl.Pos(), msg == "", msg)
	}
	// (c) dispatch
	if r := c.need("R3f", queueRel, "Queue", "dispatch"); r != nil {
		info := r.Info
		try := calling("~/" + queueRel + ".Queue.tryDelivery")
		msg := "undecided: no call of tryDelivery in dispatch"
		// the attempt body: a function literal of dispatch, or a method started with `go`
		var bodies []*ast.BlockStmt
		ast.Inspect(r.FI.Decl.Body, func(n ast.Node) bool {
			switch x := n.(type) {
			case *ast.FuncLit:
				bodies = append(bodies, x.Body)
			case *ast.GoStmt:
				if _, isLit := x.Call.Fun.(*ast.FuncLit); !isLit {
					if d := c.P.DeclOf(callee(info, x.Call)); d != nil && d.Decl.Body != nil && d.Pkg == r.FI.Pkg {
						bodies = append(bodies, d.Decl.Body)
						c.SawFunc(d.Name())
					}
				}
			}
			return true
		})
		for _, ab := range bodies {
			lr := &RuleCtx{C: c, FI: r.FI, F: c.P.FlowOf(info, ab, r.FI.Name()+"$attempt"), Info: info}
			sites := lr.Calls(try)
			if len(sites) == 0 {
				continue
			}
			msg = ""
			for _, pt := range sites {
				call := lr.CallAt(pt, try)
				if len(call.Args) != 3 {
					msg = "undecided: tryDelivery shape"
					continue
				}
				// worlds: the slot carries the message (Meta != nil) / it was read from disk (Meta == nil)
				for _, inMem := range []bool{true, false} {
					world := lr.F.World(func(atom ast.Expr) (bool, bool) {
						be, ok := ast.Unparen(atom).(*ast.BinaryExpr)
						if !ok || (be.Op != token.EQL && be.Op != token.NEQ) {
							return false, false
						}
						fv := fieldOf(info, be.X)
						if fv == nil || !metaT(fv.Type()) || !isNilIdent(info, be.Y) {
							return false, false
						}
						return (be.Op == token.EQL) == !inMem, true
					})
					// a site that cannot be reached in this world says nothing about it (`if slot.Meta != nil { tryDelivery(slot.Meta, …); return }`)
					if _, reach := lr.F.Reach(Query{From: lr.Entry(), Inclusive: true, Target: func(q Pt) bool { return q == pt }, AvoidEdge: world}); !reach {
						continue
					}
					for ai, a := range call.Args {
						// the slot's part handed over directly
						da := ast.Unparen(a)
						if st, isStar := da.(*ast.StarExpr); isStar {
							da = ast.Unparen(st.X)
						}
						if sel, isSel := da.(*ast.SelectorExpr); isSel && fieldOf(info, sel) != nil {
							want := [](func(types.Type) bool){metaT, hdrT, bufT}[ai]
							nt := namedOf(info.TypeOf(sel.X))
							if inMem && want(fieldOf(info, sel).Type()) && nt != nil && objName(nt.Obj()) == "queueSlot" {
								continue
							}
							if inMem {
								msg = "with the message in the slot, argument " + itoa(ai+1) + " of tryDelivery is " + exprStr(a) + ", not the slot's part"
							} else {
								msg = "for a slot read from disk, argument " + itoa(ai+1) + " of tryDelivery is " + exprStr(a) + ", not a result of openMessage"
							}
							continue
						}
						o := objOf(info, a)
						if o == nil {
							msg = "tryDelivery is not handed plain variables"
							continue
						}
						defs, ok := lr.ReachingDefsDeep(o, pt, world, 0)
						if inMem {
							if !ok || len(defs) != 1 {
								msg = "with the message in the slot, argument " + itoa(ai+1) + " of tryDelivery is not uniquely the slot's part"
								continue
							}
							d := ast.Unparen(defs[0])
							if st, isStar := d.(*ast.StarExpr); isStar {
								d = ast.Unparen(st.X)
							}
							fv := fieldOf(info, d)
							want := [](func(types.Type) bool){metaT, hdrT, bufT}[ai]
							if fv == nil || !want(fv.Type()) {
								msg = "with the message in the slot, argument " + itoa(ai+1) + " of tryDelivery is " + exprStr(defs[0]) + ", not the slot's part (the first attempt would deliver something else than was accepted)"
							} else if nt := namedOf(info.TypeOf(d.(*ast.SelectorExpr).X)); nt == nil || objName(nt.Obj()) != "queueSlot" {
								msg = "argument " + itoa(ai+1) + " of tryDelivery does not come from the slot"
							}
						} else {
							// read from disk: a tuple assignment from openMessage (no usable single right-hand side)
							if ok && len(defs) > 0 {
								msg = "for a slot read from disk, argument " + itoa(ai+1) + " of tryDelivery is " + exprStr(defs[0]) + ", not a result of openMessage"
							}
						}
					}
				}
			}
			break
		}
		c.Hold("R3f", "Queue.dispatch:hands-over-the-slot", r.FI.Decl.Pos(), msg == "", msg)
	}
	// (d) tryDelivery -> deliver
	if r := c.need("R3f", queueRel, "Queue", "tryDelivery"); r != nil {
		info := r.Info
		dlv := calling("~/" + queueRel + ".Queue.deliver")
		sig := r.FI.Obj.Type().(*types.Signature)
		msg := ""
		sites := r.Calls(dlv)
		if len(sites) != 1 {
			msg = "undecided: expected one call of deliver"
		} else {
			call := r.CallAt(sites[0], dlv)
			if len(call.Args) != 3 || sig.Params().Len() != 3 {
				msg = "undecided: deliver shape"
			} else {
				for i := 0; i < 3; i++ {
					p := sig.Params().At(i)
					if objOf(info, call.Args[i]) != types.Object(p) {
						msg = "deliver is not handed tryDelivery's own parameter " + p.Name()
					} else if i > 0 && len(r.F.Find(func(n ast.Node) bool { return assignsObj(info, n, p) })) > 0 {
						msg = "tryDelivery reassigns " + p.Name() + " before handing it on"
					}
				}
			}
		}
		c.Hold("R3f", "Queue.tryDelivery:hands-on-its-parameters", r.FI.Decl.Pos(), msg == "", msg)
	}
}

// recvObjOf: the receiver variable of a method declaration.
func recvObjOf(fi *FuncInfo) types.Object {
	if fi.Decl.Recv == nil || len(fi.Decl.Recv.List) == 0 || len(fi.Decl.Recv.List[0].Names) == 0 {
		return nil
	}
	return fi.Info().Defs[fi.Decl.Recv.List[0].Names[0]]
}

func paramObjs(fi *FuncInfo) map[string]types.Object {
	out := map[string]types.Object{}
	sig := fi.Obj.Type().(*types.Signature)
	for i := 0; i < sig.Params().Len(); i++ {
		v := sig.Params().At(i)
		out[v.Name()] = v
	}
	return out
}

// mutates: node n assigns obj, stores through it, or calls a mutating-looking method on it (Add/Set/Del/…).
func mutates(info *types.Info, n ast.Node, obj types.Object) bool {
	found := false
	inspectNoLit(n, func(x ast.Node) bool {
		switch s := x.(type) {
		case *ast.AssignStmt:
			for _, l := range s.Lhs {
				root := l
				for {
					switch y := ast.Unparen(root).(type) {
					case *ast.SelectorExpr:
						root = y.X
						continue
					case *ast.IndexExpr:
						root = y.X
						continue
					case *ast.StarExpr:
						root = y.X
						continue
					}
					break
				}
				if objOf(info, root) == obj {
					found = true
				}
			}
		case *ast.CallExpr:
			if recvObj(info, s) == obj {
				switch methodName(s) {
				case "Add", "AddRaw", "Set", "Del", "Remove", "SetMap", "Write", "Truncate":
					found = true
				}
			}
		}
		return true
	})
	return found
}

// c10Recipients: "the recipients still pending" start as the recipients the queue said yes to. queueDelivery.AddRcpt
// answers 250 by returning nil: every such return comes after the append of exactly the address it was given – a
// de-duplication by an equivalence (address.Equal folds the case of the local part, which is significant for foreign
// domains) drops a recipient that was acknowledged. And the per-recipient failures of an attempt are looked up by the
// queue under the very string it passed to the target: partialError.SetStatus files the error under the key it was
// called with, unmodified – under any other spelling the failure is not found and the recipient counts as delivered.
func c10Recipients(c *Check) {
	c.Rule("R5", "queueDelivery.AddRcpt: every accepting return is preceded by the append of the unmodified recipient parameter to the pending list", 1)
	if r := c.need("R5", queueRel, "queueDelivery", "AddRcpt"); r != nil {
		info := r.Info
		var rcpt types.Object
		sig := r.FI.Obj.Type().(*types.Signature)
		for i := 0; i < sig.Params().Len(); i++ {
			if types.Identical(sig.Params().At(i).Type(), types.Typ[types.String]) {
				rcpt = sig.Params().At(i)
			}
		}
		app := r.Assigns(func(l, rhs ast.Expr) bool {
			fv := fieldOf(info, l)
			if fv == nil || objName(fv) != "To" || rhs == nil {
				return false
			}
			call, ok := ast.Unparen(rhs).(*ast.CallExpr)
			if !ok || len(call.Args) != 2 {
				return false
			}
			id, isID := call.Fun.(*ast.Ident)
			return isID && id.Name == "append" && fieldOf(info, call.Args[0]) == fv && rcpt != nil && objOf(info, call.Args[1]) == rcpt
		})
		msg := ""
		if len(app) == 0 {
			msg = "the recipient parameter is not appended to the pending list"
		} else if ok, w := r.MustPass(r.Entry(), true, r.IsSuccessReturn, isPt(app)); !ok {
			msg = "AddRcpt can accept a recipient (return nil) without putting it on the pending list: the client got 250, the address is in no attempt, not in the spool and in no failure report: " + w
		} else if rcpt != nil && assignedAnywhere(info, r.FI.Decl.Body, rcpt) {
			msg = "the recipient parameter is modified before it is stored"
		}
		c.Hold("R5", "queueDelivery.AddRcpt:stored", r.FI.Decl.Pos(), msg == "", msg)
	}
	c.Rule("R6", "partialError.SetStatus files a failure under exactly the key it was called with (tryDelivery looks the recipient up by the string it handed to the target)", 1)
	if r := c.need("R6", queueRel, "partialError", "SetStatus"); r != nil {
		info := r.Info
		sig := r.FI.Obj.Type().(*types.Signature)
		var key types.Object
		if sig.Params().Len() >= 1 {
			key = sig.Params().At(0)
		}
		msg := ""
		n := 0
		ast.Inspect(r.FI.Decl.Body, func(x ast.Node) bool {
			as, ok := x.(*ast.AssignStmt)
			if !ok {
				return true
			}
			for _, l := range as.Lhs {
				ix, ok := ast.Unparen(l).(*ast.IndexExpr)
				if !ok {
					continue
				}
				if fv := fieldOf(info, ix.X); fv == nil || objName(fv) != "Errs" {
					continue
				}
				n++
				if objOf(info, ix.Index) != key {
					msg = "the failure is filed under " + exprStr(ix.Index) + ", not under the key parameter"
				}
			}
			return true
		})
		if n == 0 {
			msg = "undecided: no store into the error table"
		} else if key != nil && assignedAnywhere(info, r.FI.Decl.Body, key) {
			msg = "the key parameter is rewritten (normalised, converted) before the failure is filed: tryDelivery looks the recipient up under the spelling it passed to the target, does not find the failure and counts the recipient as delivered – no retry, no failure report"
		}
		c.Hold("R6", "partialError.SetStatus:key", r.FI.Decl.Pos(), msg == "", msg)
	}
}

// assignedAnywhere: obj is the target of an assignment, inc/dec or range clause somewhere in body, or its address is taken.
func assignedAnywhere(info *types.Info, body ast.Node, obj types.Object) bool {
	found := false
	ast.Inspect(body, func(x ast.Node) bool {
		switch y := x.(type) {
		case *ast.AssignStmt:
			for _, l := range y.Lhs {
				if id, ok := ast.Unparen(l).(*ast.Ident); ok && (info.Uses[id] == obj || info.Defs[id] == obj) {
					found = true
				}
			}
		case *ast.IncDecStmt:
			if id, ok := ast.Unparen(y.X).(*ast.Ident); ok && info.Uses[id] == obj {
				found = true
			}
		case *ast.RangeStmt:
			for _, e := range []ast.Expr{y.Key, y.Value} {
				if id, ok := e.(*ast.Ident); ok && (info.Uses[id] == obj || info.Defs[id] == obj) {
					found = true
				}
			}
		case *ast.UnaryExpr:
			if id, ok := ast.Unparen(y.X).(*ast.Ident); ok && y.Op == token.AND && info.Uses[id] == obj {
				found = true
			}
		}
		return !found
	})
	return found
}

// R7: every queue instance has a spool of its own. The default location is derived from the INSTANCE name (the name
// the block was declared with) – the module name is the same for every instance, and two queues that share a directory
// load each other's messages after a restart (queue B hands its target what queue A accepted: delivered twice, to the
// wrong target). Also evaluated here: C02.R1d (the commit record is written last).
func c10Location(c *Check) {
	p := c.P
	c.Rule("R7", "Queue.Init: the default spool directory is built from the instance name (what InstanceName returns), never from the module name", 1)
	ini := c.need("R7", queueRel, "Queue", "Init")
	if ini == nil {
		return
	}
	// the field InstanceName returns
	var instField *types.Var
	if in := p.Func(queueRel, "Queue", "InstanceName"); in != nil {
		inspectNoLit(in.Decl.Body, func(x ast.Node) bool {
			if ret, ok := x.(*ast.ReturnStmt); ok && len(ret.Results) == 1 {
				instField = fieldOf(in.Info(), ret.Results[0])
			}
			return true
		})
	}
	info := ini.Info
	msg := "undecided: no default for the spool location"
	ast.Inspect(ini.FI.Decl.Body, func(x ast.Node) bool {
		as, ok := x.(*ast.AssignStmt)
		if !ok || len(as.Lhs) != 1 || len(as.Rhs) != 1 {
			return true
		}
		if fv := fieldOf(info, as.Lhs[0]); fv == nil || objName(fv) != "location" {
			return true
		}
		call, ok := ast.Unparen(as.Rhs[0]).(*ast.CallExpr)
		if !ok || !isCall(info, call, "path/filepath.Join") {
			return true
		}
		msg = "the default spool directory does not contain the instance name: every queue block without an explicit location shares one directory, and after a restart each instance loads – and delivers – the others' messages"
		for _, a := range call.Args {
			if fv := fieldOf(info, a); fv != nil && instField != nil && fv == instField {
				msg = ""
			}
		}
		return true
	})
	if instField == nil {
		msg = "undecided: InstanceName does not return a field"
	}
	c.Hold("R7", "Queue.Init:location-per-instance", ini.FI.Decl.Pos(), msg == "", msg)

	c.Rule("R7b", "the spool's commit record is written after header and body were synced (C02.R1d): a stop during acceptance never leaves a deliverable, truncated message", 1)
	sub := newCheck("C02", c.P, c.Tier)
	c02CommitLast(sub)
	for _, o := range sub.obs {
		if o.Rule == "R1d" {
			c.Hold("R7b", o.Key, o.posRaw, o.OK, o.Msg)
		}
	}
}
