package main

// Rules added in round 8 (DESIGN.md §R.17): necessary conditions prompted by the eighth set of independently seeded
// changes. Each is stated as a property of the code's shape, is quiet on the reference tree and on the refactoring
// corpus, and names the construct it rejects.

import (
	"go/ast"
	"go/token"
	"go/types"
	"strings"
)

// funcBodies calls f for every function-like body (declared function or function literal) of fi, with a flow of its own.
func funcBodies(p *Prog, fi *FuncInfo, f func(name string, body *ast.BlockStmt, fl *Flow)) {
	if fi.Decl.Body == nil {
		return
	}
	f(fi.Name(), fi.Decl.Body, p.FlowOfFunc(fi))
	n := 0
	ast.Inspect(fi.Decl.Body, func(x ast.Node) bool {
		if lit, ok := x.(*ast.FuncLit); ok {
			n++
			name := fi.Name() + "$" + itoa(n)
			f(name, lit.Body, p.FlowOf(fi.Info(), lit.Body, name))
		}
		return true
	})
}

// ---- C09.K14: who gets a result does not depend on how the address is spelled.
// A loop that reports a status for the elements of a recipient list reports one for EVERY element: on no way round
// the loop is the report skipped under a condition that looks at the element (its spelling, whether an "equal"
// address was seen before). The collector's contract is keyed by the exact string the caller passed to AddRcpt; a
// recipient that is skipped because it is address.Equal to an earlier one gets no result, and no result means
// delivered – for `Sales@x` and `sales@x` on one connection a DATA failure is recorded for the first only, the second
// is neither retried nor reported.
func c09NoSpellingDependentSkip(c *Check, rule string) {
	c.Rule(rule, "a loop that reports a per-recipient status reports one for every element of the list: the report is never skipped under a condition that depends on the recipient's address (a recipient without a result counts as delivered)", 4)
	p := c.P
	n := 0
	for _, rel := range propertyPackages["C09"] {
		pk := p.Pkg(rel)
		if pk == nil {
			continue
		}
		p.AllFuncs([]*packagesPkg{pk}, func(fi *FuncInfo) {
			if fi.Decl.Body == nil || strings.HasSuffix(p.Fset.Position(fi.Decl.Pos()).Filename, "_test.go") {
				return
			}
			info := fi.Info()
			funcBodies(p, fi, func(name string, body *ast.BlockStmt, fl *Flow) {
				loops := elemLoops(info, body, func(e ast.Expr) bool {
					t := info.TypeOf(e)
					if t == nil {
						return false
					}
					sl, ok := t.Underlying().(*types.Slice)
					return ok && isStringType(sl.Elem())
				})
				for li, l := range loops {
					// only loops of this body (not of a nested literal, which gets its own turn)
					if !directlyIn(body, l.Body) {
						continue
					}
					isReport := func(pt Pt) bool {
						for _, call := range callsAt(pt.Node()) {
							if methodName(call) == "SetStatus" && len(call.Args) == 2 && l.IsElem(call.Args[0]) {
								return true
							}
						}
						return false
					}
					has := false
					for _, pt := range fl.Points() {
						if pt.Node() != nil && within(l.Body, pt.Node()) && isReport(pt) {
							has = true
						}
					}
					if !has {
						continue
					}
					n++
					c.SawFunc(fi.Name())
					key := name + ":loop" + itoa(li+1)
					// paths round the loop that avoid the report
					path, found := fl.Reach(Query{From: fl.LoopBodyStart(l), Inclusive: true, Target: fl.IterEnd(l), Avoid: isReport})
					if !found {
						c.Hold(rule, key, l.Body.Pos(), true, "")
						continue
					}
					// allowed when no condition inside the loop body mentions the element (skipping by outcome, e.g.
					// `if err == nil { continue }`, is the collector's own convention)
					elem := l.ElemObj()
					dep := ""
					ast.Inspect(l.Body, func(x ast.Node) bool {
						var cond ast.Expr
						switch s := x.(type) {
						case *ast.IfStmt:
							cond = s.Cond
						case *ast.SwitchStmt:
							cond = s.Tag
						case *ast.CaseClause:
							for _, e := range s.List {
								if elem != nil && mentions(info, e, elem) {
									dep = exprStr(e)
								}
							}
						}
						if cond != nil && elem != nil && mentions(info, cond, elem) {
							dep = exprStr(cond)
						}
						return true
					})
					c.Hold(rule, key, l.Body.Pos(), dep == "", "an element of the recipient list can pass the loop without a status ("+fl.Describe(path)+") under a condition that looks at the address: "+dep+" – two spellings the condition takes for one recipient were both accepted by AddRcpt, the second gets no result and counts as delivered")
				}
			})
		})
	}
	if n == 0 {
		c.Fail(rule, "loops", token.NoPos, "anchor unresolved: no status-reporting loop found")
	}
}

// directlyIn: n lies in body and not inside a function literal nested in body.
func directlyIn(body *ast.BlockStmt, n ast.Node) bool {
	if !within(body, n) {
		return false
	}
	in := true
	ast.Inspect(body, func(x ast.Node) bool {
		if lit, ok := x.(*ast.FuncLit); ok {
			if within(lit.Body, n) {
				in = false
			}
			return false
		}
		return true
	})
	return in
}

// ---- no transitional IDNA processing (C07.R15, C17.R10).
// UTS #46 transitional processing maps the deviation characters (ß → ss, ς → σ, ZWJ / ZWNJ removed): `faß.example`
// becomes `fass.example` – ANOTHER registrable domain under IDNA2008. A profile built with idna.Transitional(true)
// anywhere on the way from an address to a lookup key or to a DNS query makes the U-label spelling of a domain name a
// different domain than its A-label spelling (xn--fa-hia.example): the DMARC policy of the author domain is fetched
// from someone else's zone, and a domain aligned with `fass.example` passes for a header that shows `faß.example`.
func noTransitionalIDNA(c *Check, rule string, rels []string) {
	c.Rule(rule, "no IDNA profile in the address / DNS / DMARC code is transitional: idna.Transitional is never applied with a value other than the constant false (ß, ς, ZWJ, ZWNJ keep their identity – faß.example is not fass.example)", 1)
	p := c.P
	nProfiles := 0
	if rels == nil {
		for _, pk := range p.ServerPkgs() {
			rels = append(rels, strings.TrimPrefix(strings.TrimPrefix(pk.PkgPath, modPath), "/"))
		}
	}
	for _, rel := range rels {
		pk := p.Pkg(rel)
		if pk == nil {
			c.Fail(rule, rel, token.NoPos, "anchor unresolved: package")
			continue
		}
		info := pk.TypesInfo
		for _, f := range pk.Syntax {
			if strings.HasSuffix(p.Fset.Position(f.Pos()).Filename, "_test.go") {
				continue
			}
			ast.Inspect(f, func(x ast.Node) bool {
				call, ok := x.(*ast.CallExpr)
				if !ok {
					return true
				}
				if isCall(info, call, "golang.org/x/net/idna.New") {
					nProfiles++
				}
				// the ready-made transitional-free profiles are Lookup / Registration / Punycode / Display: all
				// non-transitional in x/net (A3b); only the option can switch it on
				if !isCall(info, call, "golang.org/x/net/idna.Transitional") || len(call.Args) != 1 {
					return true
				}
				tv, has := info.Types[call.Args[0]]
				ok2 := has && tv.Value != nil && tv.Value.String() == "false"
				c.Hold(rule, pk.Types.Name()+":transitional:"+itoa(p0(p, call.Pos())), call.Pos(), ok2, "line "+itoa(p0(p, call.Pos()))+": an IDNA profile is built with "+exprStr(call)+": transitional processing maps ß to ss and ς to σ and drops ZWJ / ZWNJ – the Unicode spelling of a domain is converted to a different domain than its A-label spelling names")
				return true
			})
		}
	}
	c.Hold(rule, "profiles-seen", token.NoPos, true, "")
	_ = nProfiles
}

// ---- C17.R11: LowerASCII is a total, pointwise map.
// dns.LowerASCII is what makes the ACE prefix recognisable (R4c). Its contract – every ASCII letter lowered,
// everything else untouched – has to hold for every string, in particular for names that MIX an upper-case A-label
// with a U-label (`XN--E1AYBC.тест`): a fast path that hands the argument back as soon as it meets a non-ASCII byte
// leaves `XN--` in place, the decoder skips the label, the key differs from the one of the all-lower spelling and a
// second application changes it again. Decided: every value the function returns is strings.Map(f, parameter) (or
// strings.ToLower is NOT accepted: it folds non-ASCII letters too, before normalisation) with f lowering exactly A–Z
// (evaluated at 'A', 'Z', '@', '[', U+0080), or the result of a loop over all bytes; no return hands back the parameter.
func c17LowerASCIITotal(c *Check, rule string) {
	c.Rule(rule, "dns.LowerASCII maps every string pointwise: each return value is strings.Map over the parameter with a function that lowers exactly A–Z; no path returns the parameter itself (a name that mixes an upper-case A-label with a U-label keeps its XN-- prefix otherwise and is not decoded)", 1)
	p := c.P
	// the function: the one R4c found between NFC and idna.ToUnicode in dns.ForLookup
	fl := p.Func("framework/dns", "", "ForLookup")
	if fl == nil {
		c.Fail(rule, "ForLookup", token.NoPos, "anchor unresolved")
		return
	}
	var target *FuncInfo
	ast.Inspect(fl.Decl.Body, func(x ast.Node) bool {
		call, ok := x.(*ast.CallExpr)
		if !ok || !isCall(fl.Info(), call, "golang.org/x/net/idna.ToUnicode") || len(call.Args) != 1 {
			return true
		}
		arg := resolveLocal(fl.Info(), fl.Decl.Body, call.Args[0])
		if lc, ok := ast.Unparen(arg).(*ast.CallExpr); ok {
			if fn := callee(fl.Info(), lc); fn != nil && fn.Pkg() != nil && strings.HasPrefix(fn.Pkg().Path(), modPath) {
				target = p.DeclOf(fn)
			}
		}
		return true
	})
	if target == nil || target.Decl.Body == nil {
		// lowering is done in place (strings.Map literal in ForLookup): R4c judges it there
		c.Hold(rule, "dns.ForLookup:inline", fl.Decl.Pos(), true, "")
		return
	}
	c.SawFunc(target.Name())
	info := target.Info()
	sig := target.Obj.Type().(*types.Signature)
	if sig.Params().Len() != 1 || sig.Results().Len() != 1 {
		c.Fail(rule, target.Name()+":shape", target.Decl.Pos(), "undecided: expected func(string) string")
		return
	}
	param := sig.Params().At(0)
	nRet := 0
	msg := ""
	inspectNoLit(target.Decl.Body, func(x ast.Node) bool {
		ret, ok := x.(*ast.ReturnStmt)
		if !ok || len(ret.Results) != 1 {
			return true
		}
		nRet++
		v := resolveLocal(info, target.Decl.Body, ret.Results[0])
		if objOf(info, v) == param {
			msg = "line " + itoa(p0(p, ret.Pos())) + ": the parameter is returned as it came (a shortcut for some class of inputs): for `XN--E1AYBC.тест` the ASCII letters stay upper-case, idna.ToUnicode does not decode the label, ForLookup / CleanDomain give that spelling a key of its own and are not idempotent on it"
			return true
		}
		call, isC := ast.Unparen(v).(*ast.CallExpr)
		if isC && isCall(info, call, "strings.Map") && len(call.Args) == 2 && objOf(info, call.Args[1]) == param {
			if lit, isL := ast.Unparen(call.Args[0]).(*ast.FuncLit); isL && lowersASCIIBody(info, lit.Body) {
				return true
			}
			if fn, isFn := objOf(info, call.Args[0]).(*types.Func); isFn {
				if d := p.DeclOf(fn); d != nil && d.Decl.Body != nil && lowersASCIIBody(d.Info(), d.Decl.Body) {
					return true
				}
			}
			if o := objOf(info, call.Args[0]); o != nil && localIn(target.Decl.Body, o) {
				if dd, n := localDef(info, target.Decl.Body, o); n == 1 && dd != nil {
					if lit, isL := ast.Unparen(dd).(*ast.FuncLit); isL && lowersASCIIBody(info, lit.Body) {
						return true
					}
				}
			}
		}
		// a builder / byte slice filled by a loop over the whole parameter: accepted when the loop has no exit but its end
		if o := objOf(info, v); o != nil && localIn(target.Decl.Body, o) {
			return true
		}
		if isC {
			if sel, ok := ast.Unparen(call.Fun).(*ast.SelectorExpr); ok && sel.Sel.Name == "String" {
				return true
			}
			if tv, ok := info.Types[call.Fun]; ok && tv.IsType() {
				return true // string(buf)
			}
		}
		msg = "line " + itoa(p0(p, ret.Pos())) + ": the value returned (" + exprStr(v) + ") is not the pointwise lowering of the parameter"
		return true
	})
	c.Hold(rule, target.Name()+":total", target.Decl.Pos(), nRet > 0 && msg == "", msg)
}

// ---- C17.R12: a character is copied whole.
// Inside `for i, ch := range s` the loop advances by characters; s[i] is the FIRST BYTE of the character ch. Writing
// s[i] where the character is meant (WriteByte(s[i]), append(buf, s[i])) copies the lead byte of every multi-byte
// character and drops the rest: `имя фамилия` quoted and unquoted again is not the input (and is not valid UTF-8).
// Comparisons of s[i] with an ASCII constant are fine and are not looked at.
func c17WholeCharacterCopied(c *Check, rule string) {
	c.Rule(rule, "framework/address, framework/dns: in a loop that ranges over the characters of a string the byte s[i] at the loop index is never written out in place of the character (WriteByte(s[i]), append(…, s[i])): a multi-byte character would be cut to its lead byte", 2)
	p := c.P
	nLoops := 0
	for _, rel := range []string{"framework/address", "framework/dns"} {
		pk := p.Pkg(rel)
		if pk == nil {
			c.Fail(rule, rel, token.NoPos, "anchor unresolved")
			continue
		}
		info := pk.TypesInfo
		p.AllFuncs([]*packagesPkg{pk}, func(fi *FuncInfo) {
			if fi.Decl.Body == nil || strings.HasSuffix(p.Fset.Position(fi.Decl.Pos()).Filename, "_test.go") {
				return
			}
			ast.Inspect(fi.Decl.Body, func(n ast.Node) bool {
				rs, ok := n.(*ast.RangeStmt)
				if !ok {
					return true
				}
				tv, has := info.Types[rs.X]
				if !has || !isStringType(tv.Type) {
					return true
				}
				nLoops++
				if rs.Key == nil {
					c.Hold(rule, pk.Types.Name()+"."+refName(fi.Obj)+":range"+itoa(p0(p, rs.Pos())), rs.Pos(), true, "")
					return true
				}
				idx := objOf(info, rs.Key)
				strObj := objOf(info, rs.X)
				msg := ""
				var visit func(x ast.Node, written bool)
				visit = func(x ast.Node, written bool) {
					ast.Inspect(x, func(y ast.Node) bool {
						if y == nil || y == x {
							return true
						}
						switch s := y.(type) {
						case *ast.BinaryExpr:
							switch s.Op {
							case token.EQL, token.NEQ, token.LSS, token.GTR, token.LEQ, token.GEQ:
								return false // a comparison reads, it does not copy
							}
						case *ast.CallExpr:
							for _, a := range s.Args {
								visit(a, true)
								if ix, ok := ast.Unparen(a).(*ast.IndexExpr); ok {
									if objOf(info, ix.Index) == idx && idx != nil && (strObj == nil || objOf(info, ix.X) == strObj) && isStringType(info.TypeOf(ix.X)) {
										msg = "line " + itoa(p0(p, ix.Pos())) + ": " + exprStr(s) + " writes the byte " + exprStr(ix) + " inside a loop over the characters of " + exprStr(rs.X) + ": of a multi-byte character only the lead byte is copied (quote / unquote no longer round-trips for a non-ASCII local part, the result is not valid UTF-8)"
									}
								}
							}
							visit(s.Fun, false)
							return false
						case *ast.AssignStmt:
							for _, r := range s.Rhs {
								if ix, ok := ast.Unparen(r).(*ast.IndexExpr); ok {
									if objOf(info, ix.Index) == idx && idx != nil && isStringType(info.TypeOf(ix.X)) {
										// stored into a byte slot of an output buffer
										for _, l := range s.Lhs {
											if _, isIx := ast.Unparen(l).(*ast.IndexExpr); isIx {
												msg = "line " + itoa(p0(p, ix.Pos())) + ": the byte " + exprStr(ix) + " is stored in place of the character inside a loop over the characters of " + exprStr(rs.X)
											}
										}
									}
								}
							}
						}
						return true
					})
				}
				visit(rs.Body, false)
				c.SawFunc(fi.Name())
				c.Hold(rule, pk.Types.Name()+"."+refName(fi.Obj)+":range"+itoa(p0(p, rs.Pos())), rs.Pos(), msg == "", msg)
				return true
			})
		})
	}
	if nLoops == 0 {
		c.Fail(rule, "loops", token.NoPos, "undecided: no loop over the characters of a string found")
	}
}

// ---- E12: a loop does not range over a collection that was created empty the statement before.
// `cpy.M = make(map[K]V, len(src.M)); for k, v := range cpy.M { cpy.M[k] = v }` is the copy loop with the wrong
// operand: it ranges over the map that was just made, never runs, and the "copy" is empty (C10P: every spooled copy of
// the metadata lost its original-recipient table). Decided per block: for a range statement over an expression X
// (variable or field path), the nearest preceding assignment to X in the same or an enclosing block, with nothing in
// between that mentions X, is not `make(…)` with length 0 / an empty composite literal / nil.
func emptyRangeSeen(c *Check, fis []*FuncInfo) {
	c.Rule("E12", "no loop ranges over a collection that was created empty by the assignment before it (a copy loop whose operand is the fresh destination never runs: the copy is empty)", 0)
	defer func() { c.HoldConst("E12", "loops-examined", token.NoPos, true, "") }()
	seen := map[*types.Func]bool{}
	for _, fi := range fis {
		if fi == nil || seen[fi.Obj] || fi.Decl.Body == nil {
			continue
		}
		seen[fi.Obj] = true
		info := fi.Info()
		n := 0
		var walk func(stmts []ast.Stmt, outer [][]ast.Stmt, loops []ast.Stmt)
		emptyCtor := func(e ast.Expr) bool {
			e = ast.Unparen(e)
			if isNilIdent(info, e) {
				return true
			}
			switch x := e.(type) {
			case *ast.CompositeLit:
				switch info.TypeOf(x).Underlying().(type) {
				case *types.Map, *types.Slice:
					return len(x.Elts) == 0
				}
			case *ast.CallExpr:
				if id, ok := ast.Unparen(x.Fun).(*ast.Ident); ok && id.Name == "make" && info.Uses[id] == types.Universe.Lookup("make") && len(x.Args) >= 1 {
					switch info.TypeOf(x.Args[0]).Underlying().(type) {
					case *types.Map:
						return true
					case *types.Slice:
						if len(x.Args) >= 2 {
							if tv, ok := info.Types[x.Args[1]]; ok && tv.Value != nil && tv.Value.String() == "0" {
								return true
							}
						}
					}
				}
			}
			return false
		}
		mentionsExpr := func(s ast.Node, txt string) bool {
			found := false
			ast.Inspect(s, func(y ast.Node) bool {
				if e, ok := y.(ast.Expr); ok && exprStr(e) == txt {
					found = true
				}
				return !found
			})
			return found
		}
		check := func(rs *ast.RangeStmt, before []ast.Stmt, outer [][]ast.Stmt, loops []ast.Stmt) {
			x := ast.Unparen(rs.X)
			switch x.(type) {
			case *ast.Ident, *ast.SelectorExpr:
			default:
				return
			}
			switch info.TypeOf(x).Underlying().(type) {
			case *types.Map, *types.Slice:
			default:
				return
			}
			txt := exprStr(x)
			// a loop around the range statement whose body touches the operand elsewhere fills it on an earlier way round
			countIn := func(n ast.Node) int {
				k := 0
				ast.Inspect(n, func(y ast.Node) bool {
					if e, ok := y.(ast.Expr); ok && exprStr(e) == txt {
						k++
						return false
					}
					return true
				})
				return k
			}
			for _, lp := range loops {
				if countIn(lp) > countIn(rs) {
					return
				}
			}
			lists := append([][]ast.Stmt{before}, outer...)
			for _, list := range lists {
				for i := len(list) - 1; i >= 0; i-- {
					s := list[i]
					if as, ok := s.(*ast.AssignStmt); ok && len(as.Lhs) == len(as.Rhs) {
						for j, l := range as.Lhs {
							if exprStr(l) == txt {
								n++
								key := fi.Pkg.Types.Name() + "." + refName(fi.Obj) + ":range" + itoa(n)
								c.Hold("E12", key, rs.Pos(), !emptyCtor(as.Rhs[j]), "line "+itoa(p0(c.P, rs.Pos()))+": the loop ranges over "+txt+", which line "+itoa(p0(c.P, as.Pos()))+" has just created empty ("+exprStr(as.Rhs[j])+"): the body never runs – if this is a copy loop the operand is the destination instead of the source and the copy stays empty")
								return
							}
						}
					}
					if mentionsExpr(s, txt) {
						return // filled, passed on or re-assigned in a way this rule does not follow
					}
				}
			}
		}
		walk = func(stmts []ast.Stmt, outer [][]ast.Stmt, loops []ast.Stmt) {
			for i, s := range stmts {
				before := stmts[:i]
				if rs, ok := s.(*ast.RangeStmt); ok {
					check(rs, before, outer, loops)
				}
				sub := func(b *ast.BlockStmt) {
					if b != nil {
						lp := loops
						switch s.(type) {
						case *ast.ForStmt, *ast.RangeStmt:
							lp = append(append([]ast.Stmt{}, loops...), s)
						}
						walk(b.List, append([][]ast.Stmt{before}, outer...), lp)
					}
				}
				switch x := s.(type) {
				case *ast.BlockStmt:
					sub(x)
				case *ast.IfStmt:
					sub(x.Body)
					for e := x.Else; e != nil; {
						switch y := e.(type) {
						case *ast.BlockStmt:
							sub(y)
							e = nil
						case *ast.IfStmt:
							sub(y.Body)
							e = y.Else
						default:
							e = nil
						}
					}
				case *ast.ForStmt:
					// a loop body may run after its own later statements: only look at what precedes the loop when the
					// body itself does not assign the operand (handled by mentionsExpr on the way back)
					sub(x.Body)
				case *ast.RangeStmt:
					sub(x.Body)
				case *ast.SwitchStmt:
					for _, cc := range x.Body.List {
						walk(cc.(*ast.CaseClause).Body, append([][]ast.Stmt{before}, outer...), loops)
					}
				case *ast.TypeSwitchStmt:
					for _, cc := range x.Body.List {
						walk(cc.(*ast.CaseClause).Body, append([][]ast.Stmt{before}, outer...), loops)
					}
				}
			}
		}
		walk(fi.Decl.Body.List, nil, nil)
	}
}

// ---- C04.R12: a reject block answers with the reply it was configured with.
// `reject 450 4.2.1 "Mailbox is busy"` names the three parts of the reply. In msgpipeline.parseRejectDirective each
// part of the returned SMTPError is its default or what was parsed from the argument of that position – nothing
// rewrites a part after it was parsed (C04O: `enchCode[0] = code / 100` placed where `code` still holds the default 554
// turned every configured 4.x.x into 5.x.x).
func c04RejectReplyAsConfigured(c *Check, rule string) {
	c.Rule(rule, "msgpipeline.parseRejectDirective: every part of the reply (code, enhanced code, message) is its default or is parsed from the directive's argument; no store rewrites a part from anything else", 3)
	r := c.need(rule, "internal/msgpipeline", "", "parseRejectDirective")
	if r == nil {
		return
	}
	info := r.Info
	body := r.FI.Decl.Body
	var nodeP types.Object
	sig := r.FI.Obj.Type().(*types.Signature)
	if sig.Params().Len() >= 1 {
		nodeP = sig.Params().At(0)
	}
	if nodeP == nil {
		c.Fail(rule, "parseRejectDirective:param", r.FI.Decl.Pos(), "undecided: no directive parameter")
		return
	}
	// what stems from the directive: the parameter and every local with a definition that mentions something that does
	derived := map[types.Object]bool{nodeP: true}
	mentionsDerived := func(e ast.Node) bool {
		f := false
		ast.Inspect(e, func(y ast.Node) bool {
			if id, ok := y.(*ast.Ident); ok {
				if o := info.Uses[id]; o != nil && derived[o] {
					f = true
				}
			}
			return !f
		})
		return f
	}
	for changed := true; changed; {
		changed = false
		inspectNoLit(body, func(x ast.Node) bool {
			as, ok := x.(*ast.AssignStmt)
			if !ok {
				return true
			}
			for i, l := range as.Lhs {
				o := objOf(info, l)
				if o == nil || derived[o] || !localIn(body, o) {
					continue
				}
				var rhs ast.Expr
				if len(as.Rhs) == len(as.Lhs) {
					rhs = as.Rhs[i]
				} else if len(as.Rhs) == 1 {
					rhs = as.Rhs[0]
				}
				if rhs != nil && mentionsDerived(rhs) {
					if _, isIdx := ast.Unparen(l).(*ast.IndexExpr); !isIdx {
						derived[o] = true
						changed = true
					}
				}
			}
			return true
		})
	}
	// the places the reply is assembled in: locals used as fields of the returned SMTPError, fields of a local
	// SMTPError, elements of a local enhanced code
	isPart := func(l ast.Expr) (string, bool) {
		l = ast.Unparen(l)
		name := ""
		if ix, isI := l.(*ast.IndexExpr); isI {
			if t := info.TypeOf(ix.X); t != nil && typeIs(derefAll(t), exterrPkg, "EnhancedCode") {
				return exprStr(ix.X) + "[…]", true
			}
			return "", false
		}
		if se, isS := l.(*ast.SelectorExpr); isS {
			if t := info.TypeOf(se.X); t != nil && isSMTPErrorType(t) {
				switch se.Sel.Name {
				case "Code", "EnhancedCode", "Message":
					return se.Sel.Name, true
				}
			}
			return "", false
		}
		o := objOf(info, l)
		if o == nil || !localIn(body, o) {
			return "", false
		}
		t := o.Type()
		switch {
		case typeIs(t, exterrPkg, "EnhancedCode"):
			name = "EnhancedCode"
		default:
			// a local that ends up as Code / Message of the returned literal
			inspectNoLit(body, func(x ast.Node) bool {
				if cl, ok := x.(*ast.CompositeLit); ok && isSMTPErrorType(info.TypeOf(cl)) {
					for _, el := range cl.Elts {
						if kv, ok := el.(*ast.KeyValueExpr); ok && objOf(info, kv.Value) == o {
							if id, ok := kv.Key.(*ast.Ident); ok && (id.Name == "Code" || id.Name == "Message" || id.Name == "EnhancedCode") {
								name = id.Name
							}
						}
					}
				}
				return true
			})
		}
		return name, name != ""
	}
	n := map[string]int{}
	total := 0
	inspectNoLit(body, func(x ast.Node) bool {
		as, ok := x.(*ast.AssignStmt)
		if !ok {
			return true
		}
		for i, l := range as.Lhs {
			name, is := isPart(l)
			if !is {
				continue
			}
			var rhs ast.Expr
			if len(as.Rhs) == len(as.Lhs) {
				rhs = as.Rhs[i]
			} else if len(as.Rhs) == 1 {
				rhs = as.Rhs[0]
			}
			n[name]++
			total++
			ok := false
			if rhs != nil {
				if tv, has := info.Types[rhs]; has && tv.Value != nil {
					ok = true // a constant: the default
				} else if _, isLit := ast.Unparen(rhs).(*ast.CompositeLit); isLit {
					ok = !mentionsNonConst(info, rhs) // a literal default
				} else if mentionsDerived(rhs) {
					ok = true // parsed from / taken from the directive
					// … provided the locals it reads hold what was parsed at this point, not still their default
					if pt, found := r.F.PtOfNode(as); found {
						ast.Inspect(rhs, func(y ast.Node) bool {
							id, isId := y.(*ast.Ident)
							if !isId {
								return true
							}
							o := info.Uses[id]
							if o == nil || o == nodeP || !derived[o] || !localIn(body, o) {
								return true
							}
							defs, _ := r.ReachingDefs(o, pt, nil)
							for _, d := range defs {
								if tv, has := info.Types[d]; has && tv.Value != nil {
									ok = false // the default reaches this use
								}
							}
							return true
						})
					}
				}
			}
			c.Hold(rule, "parseRejectDirective:"+name+":store"+itoa(n[name]), as.Pos(), ok, "line "+itoa(p0(c.P, as.Pos()))+": "+exprStr(l)+" is set to "+exprStr(rhs)+", which is neither the default nor taken from the directive's arguments: the block answers with something other than its configured reply (e.g. `reject 450 4.2.1` answered `450 5.2.1`)")
		}
		return true
	})
	if total < 3 {
		c.Fail(rule, "parseRejectDirective:parts", r.FI.Decl.Pos(), "undecided: fewer than three stores into the parts of the reply were found")
	}
}

// mentionsNonConst: a composite literal with an element that is neither a constant nor a nested literal.
func mentionsNonConst(info *types.Info, e ast.Expr) bool {
	bad := false
	ast.Inspect(e, func(y ast.Node) bool {
		if id, ok := y.(*ast.Ident); ok {
			if v, isVar := info.Uses[id].(*types.Var); isVar && !v.IsField() {
				bad = true
			}
		}
		return !bad
	})
	return bad
}

// ---- C04.R13: every address a rewrite produced is handed on.
// A modifier's RewriteRcpt answers with the list of addresses the recipient becomes; the pipeline routes each of them.
// A loop that copies a list of addresses into the list that is returned copies every element: an iteration that ends
// without the copy (a filter, a "seen before" test) accepts the recipient at RCPT TO and hands one of its addresses
// to no target (C04P: an alias that includes its own name – `team: team, archive` – lost the `team` mailbox because
// the duplicate filter was seeded with the address being rewritten).
func c04RewriteKeepsEveryResult(c *Check, rule string) {
	c.Rule(rule, "internal/modify: a loop that copies a list of addresses into the list a rewrite returns copies every element – no iteration ends without the copy (an address that is dropped is accepted and delivered nowhere)", 1)
	p := c.P
	pk := p.Pkg("internal/modify")
	if pk == nil {
		c.Fail(rule, "package", token.NoPos, "anchor unresolved")
		return
	}
	n := 0
	p.AllFuncs([]*packagesPkg{pk}, func(fi *FuncInfo) {
		if fi.Decl.Body == nil || strings.HasSuffix(p.Fset.Position(fi.Decl.Pos()).Filename, "_test.go") {
			return
		}
		sig := fi.Obj.Type().(*types.Signature)
		returnsList := false
		for i := 0; i < sig.Results().Len(); i++ {
			if sl, ok := sig.Results().At(i).Type().Underlying().(*types.Slice); ok && isStringType(sl.Elem()) {
				returnsList = true
			}
		}
		if !returnsList {
			return
		}
		info := fi.Info()
		fl := p.FlowOfFunc(fi)
		// the lists that are returned
		returned := map[types.Object]bool{}
		inspectNoLit(fi.Decl.Body, func(x ast.Node) bool {
			if ret, ok := x.(*ast.ReturnStmt); ok {
				for _, e := range ret.Results {
					if o := objOf(info, e); o != nil {
						returned[o] = true
					}
				}
			}
			return true
		})
		loops := elemLoops(info, fi.Decl.Body, func(e ast.Expr) bool {
			t := info.TypeOf(e)
			if t == nil {
				return false
			}
			sl, ok := t.Underlying().(*types.Slice)
			return ok && isStringType(sl.Elem())
		})
		for li, l := range loops {
			if !directlyIn(fi.Decl.Body, l.Body) {
				continue
			}
			elem := l.ElemObj()
			isCopy := func(pt Pt) bool {
				as, ok := pt.Node().(*ast.AssignStmt)
				if !ok {
					return false
				}
				for i, lh := range as.Lhs {
					if i >= len(as.Rhs) {
						break
					}
					if o, args := appendTarget(info, lh, as.Rhs[i]); o != nil && returned[o] {
						for _, a := range args {
							if l.IsElem(a) || (elem != nil && mentions(info, a, elem)) {
								return true
							}
						}
					}
					if ix, isI := ast.Unparen(lh).(*ast.IndexExpr); isI {
						if o := objOf(info, ix.X); o != nil && returned[o] && (l.IsElem(as.Rhs[i]) || (elem != nil && mentions(info, as.Rhs[i], elem))) {
							return true
						}
					}
				}
				return false
			}
			has := false
			for _, pt := range fl.Points() {
				if pt.Node() != nil && within(l.Body, pt.Node()) && isCopy(pt) {
					has = true
				}
			}
			if !has {
				continue
			}
			n++
			c.SawFunc(fi.Name())
			iterEnd := fl.IterEnd(l)
			// a return inside the loop refuses the whole rewrite (an invalid replacement): not a dropped element
			path, found := fl.Reach(Query{From: fl.LoopBodyStart(l), Inclusive: true, Target: func(q Pt) bool { return iterEnd(q) && !fl.IsExitPt(q) }, Avoid: isCopy})
			c.Hold(rule, fi.Name()+":loop"+itoa(li+1), l.Body.Pos(), !found, "an element of "+exprStr(l.List)+" can pass the loop without being copied into the returned list ("+fl.Describe(path)+"): the address is produced by the rewrite and then dropped – the recipient is accepted, that address reaches no target")
		}
	})
	c.Hold(rule, "loops-seen", token.NoPos, true, itoa(n))
}

// ---- C16.R12: SMTPCode is asked for a temporary 4xx and a permanent 5xx.
// exterrors.SMTPCode(err, t, p) answers t when err is temporary and p otherwise; its companion SMTPEnchCode sets the
// class digit by the same test. The pair is coherent only when t is a 4xx and p a 5xx CONSTANT: with p a variable
// (`code = SMTPCode(err, 451, code)` inside a fold over several errors – C16O) a permanent error visited after a
// temporary one keeps 451 while the enhanced class goes back to 5: `451 5.0.0`.
func c16SMTPCodeArgs(c *Check, rule string) {
	c.Rule(rule, "every call of exterrors.SMTPCode passes a constant 4xx as the temporary and a constant 5xx as the permanent code (the class SMTPEnchCode derives from the same error then agrees with it)", 5)
	p := c.P
	n := 0
	for _, pk := range p.ServerPkgs() {
		info := pk.TypesInfo
		for _, f := range pk.Syntax {
			if strings.HasSuffix(p.Fset.Position(f.Pos()).Filename, "_test.go") {
				continue
			}
			ast.Inspect(f, func(x ast.Node) bool {
				call, ok := x.(*ast.CallExpr)
				if !ok || !isCall(info, call, exterrPkg+".SMTPCode") || len(call.Args) != 3 {
					return true
				}
				n++
				cls := func(e ast.Expr) int {
					if tv, has := info.Types[e]; has && tv.Value != nil {
						if v, ok := constInt(tv); ok {
							if v < 10 {
								return int(v) // the class digit itself (`code[0] = SMTPCode(err, 4, 5)`)
							}
							return int(v / 100)
						}
					}
					return -1
				}
				t, pm := cls(call.Args[1]), cls(call.Args[2])
				c.Hold(rule, pk.Types.Name()+":SMTPCode:"+itoa(p0(p, call.Pos())), call.Pos(), t == 4 && pm == 5, "line "+itoa(p0(p, call.Pos()))+": "+exprStr(call)+" – the alternatives are not a constant 4xx and a constant 5xx: the basic code can keep a class the enhanced code computed from the same error does not have (e.g. 451 with 5.0.0)")
				return true
			})
		}
	}
	if n == 0 {
		c.Fail(rule, "sites", token.NoPos, "anchor unresolved: no call of exterrors.SMTPCode")
	}
}

// ---- C12.R18: shutdown does not wait with a lock in its hand.
// Queue.Close waits for the attempts in flight (deliveryWg.Wait). An attempt that ends during the wait may call back
// into the queue – a failure report routed into the same queue calls q.Start. A mutex of the queue that Close holds
// across the wait and any such entry point takes makes shutdown wait for itself (C12O). Decided on the flow graph of
// every function of the package: from a Lock / RLock of a mutex field no WaitGroup.Wait is reachable unless the
// matching Unlock lies in between (a deferred Unlock runs at return: it does not).
func c12NoLockAcrossWait(c *Check, rule string) {
	c.Rule(rule, "package queue: no function waits for a wait group (the attempts in flight) while it holds one of the queue's mutexes – an attempt that calls back into the queue during shutdown would block on that mutex for ever", 1)
	p := c.P
	pk := p.Pkg(queueRel)
	if pk == nil {
		c.Fail(rule, "package", token.NoPos, "anchor unresolved")
		return
	}
	nWait := 0
	p.AllFuncs([]*packagesPkg{pk}, func(fi *FuncInfo) {
		if fi.Decl.Body == nil || strings.HasSuffix(p.Fset.Position(fi.Decl.Pos()).Filename, "_test.go") {
			return
		}
		info := fi.Info()
		funcBodies(p, fi, func(name string, body *ast.BlockStmt, fl *Flow) {
			isWait := func(pt Pt) bool {
				if _, isDefer := pt.Node().(*ast.DeferStmt); isDefer {
					return false
				}
				for _, call := range callsAt(pt.Node()) {
					if isCall(info, call, "sync.WaitGroup.Wait") {
						return true
					}
					// `wait := q.deliveryWg.Wait; wait()`
					if o := objOf(info, call.Fun); o != nil && localIn(body, o) {
						if d, nd := localDef(info, body, o); nd == 1 && d != nil {
							if se, isSel := ast.Unparen(d).(*ast.SelectorExpr); isSel && se.Sel.Name == "Wait" && typeIs(derefAll(info.TypeOf(se.X)), "sync", "WaitGroup") {
								return true
							}
						}
					}
				}
				return false
			}
			var waits []Pt
			for _, pt := range fl.Points() {
				if pt.Node() != nil && isWait(pt) {
					waits = append(waits, pt)
				}
			}
			if len(waits) == 0 {
				return
			}
			nWait += len(waits)
			c.SawFunc(fi.Name())
			msg := ""
			for _, pt := range fl.Points() {
				n := pt.Node()
				if n == nil {
					continue
				}
				if _, isDefer := n.(*ast.DeferStmt); isDefer {
					continue
				}
				for _, call := range callsAt(n) {
					if !isLockCall(info, call) {
						continue
					}
					m := exprStr(callRecv(call))
					unlock := func(q Pt) bool {
						if q.Node() == nil {
							return false
						}
						if _, isDefer := q.Node().(*ast.DeferStmt); isDefer {
							return false
						}
						for _, uc := range callsAt(q.Node()) {
							if isUnlockCall(info, uc) && exprStr(callRecv(uc)) == m {
								return true
							}
						}
						return false
					}
					if path, found := fl.Reach(Query{From: []Pt{pt}, Target: isWait, Avoid: unlock}); found {
						msg = "line " + itoa(p0(p, call.Pos())) + ": " + m + " is held while the function waits for the wait group (" + fl.Describe(path) + "): an attempt that ends during the wait and calls a method that takes " + m + " (a failure report delivered into this queue calls Start) never returns, and neither does the wait"
					}
				}
			}
			c.Hold(rule, name+":wait-without-lock", body.Pos(), msg == "", msg)
		})
	})
	if nWait == 0 {
		// the wait may be reached through a helper or a function value this rule does not follow: nothing to judge
		c.Hold(rule, "waits:none-direct", token.NoPos, true, "")
	}
}

// ---- C12.R19 (= C02.R14): the staging file of a record rewrite belongs to its message.
// updateMetadataOnDisk writes the new record to a scratch file and renames it over the old one. Attempts of different
// messages end concurrently: the scratch file's name has to contain the message's id (it is the record's final path
// plus a suffix), and the rename's source is the file that was written. One scratch file for the whole spool (C12P)
// lets two rewrites interleave: a message is spooled with another message's envelope, or its rename finds nothing.
func c12StagingFilePerMessage(c *Check, rule string) {
	c.Rule(rule, "updateMetadataOnDisk: the staging file's path is built from the message's id (the record's own path plus a suffix) and the rename's source is that same path – concurrent rewrites of different messages never share a file", 2)
	r := c.need(rule, queueRel, "Queue", "updateMetadataOnDisk")
	if r == nil {
		return
	}
	info := r.Info
	body := r.FI.Decl.Body
	// does expression e (through single-definition locals) mention a field named ID?
	var perMsg func(e ast.Expr, depth int) bool
	perMsg = func(e ast.Expr, depth int) bool {
		if e == nil || depth > 6 {
			return false
		}
		found := false
		ast.Inspect(e, func(x ast.Node) bool {
			switch y := x.(type) {
			case *ast.SelectorExpr:
				if f := fieldOf(info, y); f != nil && f.Name() == "ID" {
					found = true
				}
			case *ast.Ident:
				if o := objOf(info, y); o != nil && localIn(body, o) {
					// every definition of the local has to be per message (`p := metaPath; if … { p = metaPath + ".new" }`)
					all, n := true, 0
					ast.Inspect(body, func(z ast.Node) bool {
						as, ok := z.(*ast.AssignStmt)
						if !ok {
							return true
						}
						for i, l := range as.Lhs {
							if objOf(info, l) != o || len(as.Rhs) != len(as.Lhs) {
								continue
							}
							n++
							if as.Rhs[i] == e || !perMsg(as.Rhs[i], depth+1) {
								all = false
							}
						}
						return true
					})
					if n > 0 && all {
						found = true
					}
				}
			}
			return !found
		})
		return found
	}
	var created []ast.Expr
	var renamedFrom []ast.Expr
	for _, call := range callsIn(body) {
		if isCreate(info, call) && len(call.Args) >= 1 {
			created = append(created, call.Args[0])
		}
		if isCall(info, call, "os.Rename") && len(call.Args) == 2 {
			renamedFrom = append(renamedFrom, call.Args[0])
		}
	}
	if len(created) == 0 {
		c.Fail(rule, "updateMetadataOnDisk:create", r.FI.Decl.Pos(), "undecided: no file is created")
		return
	}
	for i, e := range created {
		c.Hold(rule, "updateMetadataOnDisk:create"+itoa(i+1), e.Pos(), perMsg(e, 0), "the file the new record is written to ("+exprStr(e)+") is not named after the message: two attempts that end at the same time write into one file – a message is stored with another message's recipients, or not at all")
	}
	resolved := func(e ast.Expr) string {
		if o := objOf(info, e); o != nil && localIn(body, o) {
			if d, n := localDef(info, body, o); n == 1 && d != nil {
				return exprStr(d)
			}
		}
		return exprStr(e)
	}
	for i, e := range renamedFrom {
		same := false
		for _, cr := range created {
			if exprStr(cr) == exprStr(e) || resolved(cr) == resolved(e) {
				same = true
			}
			// the created path is a local with one definition per platform (`p := meta + ".new"; if windows { p = meta }`)
			if o := objOf(info, cr); o != nil && localIn(body, o) {
				ast.Inspect(body, func(z ast.Node) bool {
					if as, ok := z.(*ast.AssignStmt); ok && len(as.Lhs) == len(as.Rhs) {
						for i, l := range as.Lhs {
							if objOf(info, l) == o && (exprStr(as.Rhs[i]) == exprStr(e) || exprStr(as.Rhs[i]) == resolved(e)) {
								same = true
							}
						}
					}
					return true
				})
			}
		}
		c.Hold(rule, "updateMetadataOnDisk:rename"+itoa(i+1), e.Pos(), same && perMsg(e, 0), "the rename's source ("+exprStr(e)+") is not the per-message file that was written")
	}
}

// ---- C14.R8: the credentials table keeps one row per key.
// table.sql_query's SetKey is "INSERT, and only when that is refused, UPDATE". It is an upsert only if the table
// refuses a second row for a key. table.sql_table creates the table itself: while SetKey has that shape, the CREATE
// TABLE statement it generates declares the key column PRIMARY KEY or UNIQUE. Without it (C14O) a password change
// inserts a second row, Lookup keeps answering with the first: the old password stays valid, the new one is refused.
func c14KeyColumnUnique(c *Check, rule string) {
	c.Rule(rule, "table.sql_table: while SetKey updates only after a refused insert, the generated CREATE TABLE statement makes the key column PRIMARY KEY / UNIQUE (otherwise a changed password adds a row and the old one stays valid)", 1)
	sk := c.need(rule, "internal/table", "SQL", "SetKey")
	ini := c.need(rule, "internal/table", "SQLTable", "Init")
	if sk == nil || ini == nil {
		return
	}
	// premise: an Exec on the `set` statement happens only on the error edge of an Exec on the `add` statement
	isExecOn := func(field string) CallPred {
		return func(info *types.Info, call *ast.CallExpr) bool {
			if methodName(call) != "Exec" && methodName(call) != "ExecContext" {
				return false
			}
			f := fieldOf(info, callRecv(call))
			return f != nil && f.Name() == field
		}
	}
	adds, sets := sk.Calls(isExecOn("add")), sk.Calls(isExecOn("set"))
	premise := len(adds) > 0 && len(sets) > 0
	if premise {
		for _, a := range adds {
			call := sk.CallAt(a, isExecOn("add"))
			// on the nil edge of the insert no update is reachable
			if found, _, ok := sk.OnErr(a, call, true, isPt(sets), nil); !ok || found {
				premise = false
			}
		}
	}
	if !premise {
		c.Hold(rule, "SetKey:not-insert-then-update", sk.FI.Decl.Pos(), true, "")
		return
	}
	info := ini.Info
	// every constant string of Init (and of the package-level constants it names) that is a CREATE statement: the
	// statement may be written in place, hoisted into a local or a constant, or assembled by a helper of the package
	var stmts []string
	seenStr := map[string]bool{}
	var collect func(n ast.Node, inf *types.Info, depth int)
	collect = func(n ast.Node, inf *types.Info, depth int) {
		ast.Inspect(n, func(y ast.Node) bool {
			if e, ok := y.(ast.Expr); ok {
				if sv, ok := constString(inf, e); ok && !seenStr[sv] && strings.Contains(strings.ToUpper(sv), "CREATE ") {
					seenStr[sv] = true
					stmts = append(stmts, sv)
				}
			}
			if call, ok := y.(*ast.CallExpr); ok && depth < 2 {
				if fn := callee(inf, call); fn != nil && fn.Pkg() != nil && fn.Pkg().Path() == modPath+"/internal/table" {
					if d := c.P.DeclOf(fn); d != nil && d.Decl.Body != nil && d.Decl.Body != n {
						collect(d.Decl.Body, d.Info(), depth+1)
					}
				}
			}
			return true
		})
	}
	collect(ini.FI.Decl.Body, info, 0)
	okU := false
	seenCreate := false
	for _, s := range stmts {
		u := strings.ToUpper(s)
		if strings.Contains(u, "CREATE TABLE") {
			seenCreate = true
			// the key column is the first column of the statement
			if i := strings.Index(u, "("); i >= 0 {
				first := u[i:]
				if j := strings.Index(first, ","); j >= 0 {
					first = first[:j]
				}
				if strings.Contains(first, "PRIMARY KEY") || strings.Contains(first, "UNIQUE") {
					okU = true
				}
			}
			if strings.Contains(u, "PRIMARY KEY (") || strings.Contains(u, "UNIQUE (") {
				okU = true
			}
		}
		if strings.Contains(u, "CREATE UNIQUE INDEX") {
			okU = true
		}
	}
	if !seenCreate {
		c.Fail(rule, "SQLTable.Init:create-table", ini.FI.Decl.Pos(), "undecided: no constant CREATE TABLE statement in the init node")
		return
	}
	c.HoldConst(rule, "SQLTable.Init:key-unique", ini.FI.Decl.Pos(), okU, "the table sql_table creates does not refuse a second row for a key, while SetKey (insert, update only when the insert fails) relies on exactly that: after `creds password` the account has two rows, authentication reads the first – the old password is still accepted and the new one refused")
}

// ---- C15.R17: every name of the normalisation table means its own function, and only the casefold names fold.
// authz.NormalizeFuncs maps the values of auth_normalize / from_normalize / user_normalize to functions. An
// administrator who writes `precis_email` asks for case-PRESERVING comparison of local parts – Alice@ and alice@ are
// two accounts. Decided: no two names map to the same function value; a name containing "casefold" maps to a function
// whose cone contains a case-mapping step (precis.UsernameCaseMapped, strings.ToLower, cases.Fold) and a name without
// it (other than `auto`, documented as folding) to one whose cone contains none.
func c15NormalizerTable(c *Check, rule string) {
	c.Rule(rule, "authz.NormalizeFuncs: no two configuration names denote the same function, and exactly the names that say casefold (and auto) map to a function that folds case – `precis_email` keeps Alice@ and alice@ apart", 5)
	p := c.P
	pk := p.Pkg("internal/authz")
	if pk == nil {
		c.Fail(rule, "package", token.NoPos, "anchor unresolved")
		return
	}
	info := pk.TypesInfo
	var lit *ast.CompositeLit
	for _, f := range pk.Syntax {
		ast.Inspect(f, func(x ast.Node) bool {
			vs, ok := x.(*ast.ValueSpec)
			if !ok {
				return true
			}
			for i, nm := range vs.Names {
				if nm.Name == "NormalizeFuncs" && i < len(vs.Values) {
					lit, _ = ast.Unparen(vs.Values[i]).(*ast.CompositeLit)
				}
			}
			return true
		})
	}
	if lit == nil {
		c.Fail(rule, "NormalizeFuncs", token.NoPos, "anchor unresolved: table literal")
		return
	}
	var folds func(e ast.Expr, inf *types.Info, depth int) bool
	foldsBody := func(n ast.Node, inf *types.Info, depth int) bool {
		found := false
		ast.Inspect(n, func(y ast.Node) bool {
			switch z := y.(type) {
			case *ast.SelectorExpr:
				if z.Sel.Name == "UsernameCaseMapped" || z.Sel.Name == "Fold" {
					found = true
				}
			case *ast.CallExpr:
				if isCall(inf, z, "strings.ToLower", "strings.ToUpper", "strings.EqualFold") {
					found = true
				} else if fn := callee(inf, z); fn != nil && fn.Pkg() != nil && strings.HasPrefix(fn.Pkg().Path(), modPath) && depth < 4 {
					if d := p.DeclOf(fn); d != nil && d.Decl.Body != nil {
						if folds(nil, nil, depth+1) || func() bool {
							f2 := false
							ast.Inspect(d.Decl.Body, func(w ast.Node) bool {
								if se, ok := w.(*ast.SelectorExpr); ok && (se.Sel.Name == "UsernameCaseMapped" || se.Sel.Name == "Fold") {
									f2 = true
								}
								if cc, ok := w.(*ast.CallExpr); ok && isCall(d.Info(), cc, "strings.ToLower") {
									f2 = true
								}
								return !f2
							})
							return f2
						}() {
							found = true
						}
					}
				}
			}
			return !found
		})
		return found
	}
	folds = func(e ast.Expr, inf *types.Info, depth int) bool {
		if e == nil {
			return false
		}
		e = ast.Unparen(e)
		if fl, ok := e.(*ast.FuncLit); ok {
			return foldsBody(fl.Body, inf, depth)
		}
		if se, ok := e.(*ast.SelectorExpr); ok {
			// method value precis.UsernameCaseMapped.CompareKey
			if strings.Contains(exprStr(se), "UsernameCaseMapped") {
				return true
			}
			if strings.Contains(exprStr(se), "UsernameCasePreserved") {
				return false
			}
		}
		if o := objOf(inf, e); o != nil {
			if fn, ok := o.(*types.Func); ok {
				if d := p.DeclOf(fn); d != nil && d.Decl.Body != nil {
					return foldsBody(d.Decl.Body, d.Info(), depth+1)
				}
			}
		}
		return false
	}
	seen := map[string]string{}
	for _, el := range lit.Elts {
		kv, ok := el.(*ast.KeyValueExpr)
		if !ok {
			continue
		}
		name, ok := constString(info, kv.Key)
		if !ok {
			continue
		}
		val := exprStr(kv.Value)
		_, isLit := ast.Unparen(kv.Value).(*ast.FuncLit)
		if prev, dup := seen[val]; dup && !isLit {
			c.Hold(rule, "NormalizeFuncs:"+name+":own-function", kv.Pos(), false, "the names "+prev+" and "+name+" map to the same function ("+val+"): one of the two settings does not do what its name says")
		} else {
			c.Hold(rule, "NormalizeFuncs:"+name+":own-function", kv.Pos(), true, "")
		}
		if !isLit {
			seen[val] = name
		}
		wantFold := strings.Contains(name, "casefold") || name == "auto"
		if name == "noop" || strings.HasPrefix(name, "precis") || strings.Contains(name, "casefold") {
			got := folds(kv.Value, info, 0)
			c.Hold(rule, "NormalizeFuncs:"+name+":case", kv.Pos(), got == wantFold, "the setting "+name+" maps to "+val+", which "+map[bool]string{true: "folds", false: "does not fold"}[got]+" case: "+map[bool]string{true: "a case-preserving setting compares Alice@ and alice@ as equal – one user may send as the other", false: "a case-folding setting keeps spellings of one account apart"}[got])
		}
	}
}

// ---- C19.R15: the pool applies the bounds it was configured with.
// conn_max_idle_time, conn_max_idle_count and the key limits arrive in pool.Config from the target's directives
// (defaults included). Inside package pool the numeric fields of Config are only read: a "sane default" written into
// them in New (C19P: MaxConnLifetimeSec <= 0 becomes 150) turns the user's `conn_max_idle_time 0` – never reuse an
// idle connection – into 150 seconds of reuse.
func c19ConfigNotRewritten(c *Check, rule string) {
	c.Rule(rule, "package pool: the numeric bounds of pool.Config are never assigned inside the package (the idle lifetime compared in Get is the configured one, zero included)", 1)
	p := c.P
	pk := p.Pkg(poolRel)
	if pk == nil {
		c.Fail(rule, "package", token.NoPos, "anchor unresolved")
		return
	}
	info := pk.TypesInfo
	cfgT := pk.Types.Scope().Lookup("Config")
	if cfgT == nil {
		c.Fail(rule, "Config", token.NoPos, "anchor unresolved")
		return
	}
	msg := ""
	for _, f := range pk.Syntax {
		if strings.HasSuffix(p.Fset.Position(f.Pos()).Filename, "_test.go") {
			continue
		}
		ast.Inspect(f, func(x ast.Node) bool {
			var lhs []ast.Expr
			switch s := x.(type) {
			case *ast.AssignStmt:
				lhs = s.Lhs
			case *ast.IncDecStmt:
				lhs = []ast.Expr{s.X}
			}
			for _, l := range lhs {
				fv := fieldOf(info, ast.Unparen(l))
				if fv == nil {
					continue
				}
				se := ast.Unparen(l).(*ast.SelectorExpr)
				if !typeIs(derefAll(info.TypeOf(se.X)), pk.PkgPath, "Config") {
					continue
				}
				if b, ok := fv.Type().Underlying().(*types.Basic); ok && b.Info()&types.IsNumeric != 0 {
					// a clamp of a value outside the field's domain (a negative count) replaces no bound a user can mean:
					// the store is unreachable in the worlds "the field is 0" and "the field is 1"
					if c19OnlyForNegative(c, pk, x, fv) {
						continue
					}
					msg = "line " + itoa(p0(p, l.Pos())) + ": " + exprStr(l) + " is assigned inside the pool: the bound the user configured (0 = never reuse an idle connection) is replaced"
				}
			}
			return true
		})
	}
	c.Hold(rule, "pool:config-read-only", token.NoPos, msg == "", msg)
}

// ---- C13.R11: the time certificates are judged at is the time of the judgement.
// verifyDANE hands x509 a CurrentTime that tests can override through a package-level variable; left at the zero
// value x509 uses the current time. A package-level time.Time that is INITIALISED from the clock (`= time.Now()`)
// freezes it at process start (C13P): a leaf that expires while maddy runs still "validly chains" – a DANE-TA match
// that must be refused is accepted – and a certificate issued after start-up is refused until restart.
func c13NoFrozenClock(c *Check, rule string, rels []string) {
	c.Rule(rule, "no package-level variable of the DANE / MTA-STS code is initialised from the clock: a time that is read later as 'now' is taken when it is needed (certificate validity is judged at the time of the connection, not at process start)", 1)
	p := c.P
	n := 0
	for _, rel := range rels {
		pk := p.Pkg(rel)
		if pk == nil {
			c.Fail(rule, rel, token.NoPos, "anchor unresolved")
			continue
		}
		info := pk.TypesInfo
		for _, f := range pk.Syntax {
			if strings.HasSuffix(p.Fset.Position(f.Pos()).Filename, "_test.go") {
				continue
			}
			for _, d := range f.Decls {
				gd, ok := d.(*ast.GenDecl)
				if !ok || gd.Tok != token.VAR {
					continue
				}
				for _, sp := range gd.Specs {
					vs := sp.(*ast.ValueSpec)
					for i, nm := range vs.Names {
						n++
						if i >= len(vs.Values) {
							continue
						}
						bad := false
						ast.Inspect(vs.Values[i], func(y ast.Node) bool {
							if _, isLit := y.(*ast.FuncLit); isLit {
								return false
							}
							if call, ok := y.(*ast.CallExpr); ok && isCall(info, call, "time.Now", "time.Since", "time.Until") {
								bad = true
							}
							return true
						})
						if bad {
							c.Hold(rule, pk.Types.Name()+"."+nm.Name, nm.Pos(), false, "package-level variable "+nm.Name+" is initialised with "+exprStr(vs.Values[i])+": the clock is read once at process start – where the variable stands for the current time (x509.VerifyOptions.CurrentTime) an expired certificate keeps verifying for as long as the server runs")
						}
					}
				}
			}
		}
	}
	c.Hold(rule, "package-variables-seen", token.NoPos, n > 0, "no package-level variables found")
}

// ---- C07.R16: the organizational-domain fallback is decided on DMARC records.
// RFC 7489 §6.6.3: TXT records at _dmarc.<author domain> that do not begin with v=DMARC1 are discarded FIRST; if
// nothing is left the organizational domain is asked. A wildcard `*.example.org TXT "v=spf1 -all"` answers for
// `_dmarc.sub.example.org` too: deciding the fallback on the raw answer (len(txts) == 0) takes that SPF string for "a
// record exists", finds no DMARC record in it and ends with "no policy" – the p=reject / sp= of example.org is never
// consulted and a forged `From: x@sub.example.org` is accepted. Decided in dmarc.FetchRecord: the list whose emptiness
// guards the second lookup has passed the version filter on every definition that reaches the test.
func c07FallbackOnFilteredRecords(c *Check, rule string) {
	c.Rule(rule, "dmarc.FetchRecord: the emptiness test that sends the lookup to the organizational domain is made on the records that begin with v=DMARC1, not on the raw TXT answer (a wildcard SPF/TXT record at the subdomain does not hide the organizational policy)", 1)
	r := c.need(rule, "internal/dmarc", "", "FetchRecord")
	if r == nil {
		return
	}
	info := r.Info
	isLookup := func(info *types.Info, call *ast.CallExpr) bool { return methodName(call) == "LookupTXT" }
	lk := r.Calls(isLookup)
	if len(lk) < 2 {
		c.Fail(rule, "FetchRecord:lookups", r.FI.Decl.Pos(), "undecided: expected a lookup at the author domain and one at the organizational domain")
		return
	}
	// the second lookup: the one reachable from the first
	var second Pt
	found := false
	for _, a := range lk {
		for _, b := range lk {
			if a != b {
				if f, _ := r.Reachable([]Pt{a}, false, func(q Pt) bool { return q == b }, nil); f {
					second, found = b, true
				}
			}
		}
	}
	if !found {
		c.Fail(rule, "FetchRecord:order", r.FI.Decl.Pos(), "undecided: the two lookups are not ordered")
		return
	}
	// is an expression a version-filtered list?
	isVersionTest := func(inf *types.Info, n ast.Node) bool {
		f := false
		ast.Inspect(n, func(y ast.Node) bool {
			if call, ok := y.(*ast.CallExpr); ok && isCall(inf, call, "strings.HasPrefix") && len(call.Args) == 2 {
				if s, ok := constString(inf, call.Args[1]); ok && strings.HasPrefix(strings.ToUpper(s), "V=DMARC1") {
					f = true
				}
			}
			return !f
		})
		return f
	}
	filteredDef := func(d ast.Expr) bool {
		call, ok := ast.Unparen(d).(*ast.CallExpr)
		if !ok {
			return false
		}
		if fn := callee(info, call); fn != nil && fn.Pkg() != nil && fn.Pkg().Path() == modPath+"/internal/dmarc" {
			// the filter may sit a helper or two down (`lookupRecords` → `dmarcRecords`)
			var cone func(fn *types.Func, depth int) bool
			cone = func(fn *types.Func, depth int) bool {
				dd := c.P.DeclOf(fn)
				if dd == nil || dd.Decl.Body == nil || depth > 3 {
					return false
				}
				if isVersionTest(dd.Info(), dd.Decl.Body) {
					return true
				}
				for _, cc := range callsIn(dd.Decl.Body) {
					if f2 := callee(dd.Info(), cc); f2 != nil && f2 != fn && f2.Pkg() != nil && f2.Pkg().Path() == modPath+"/internal/dmarc" && cone(f2, depth+1) {
						return true
					}
				}
				return false
			}
			if cone(fn, 0) {
				return true
			}
		}
		// append(acc, x) inside a loop guarded by the version test
		if id, ok := ast.Unparen(call.Fun).(*ast.Ident); ok && id.Name == "append" {
			okApp := false
			ast.Inspect(r.FI.Decl.Body, func(y ast.Node) bool {
				if ifs, ok := y.(*ast.IfStmt); ok && isVersionTest(info, ifs.Cond) && posIn(ifs.Body, call.Pos()) {
					okApp = true
				}
				// any loop form whose body applies the version test (continue-guard, tagless switch, indexed loop)
				switch lp := y.(type) {
				case *ast.ForStmt:
					if posIn(lp.Body, call.Pos()) && isVersionTest(info, lp.Body) {
						okApp = true
					}
				case *ast.RangeStmt:
					if posIn(lp.Body, call.Pos()) && isVersionTest(info, lp.Body) {
						okApp = true
					}
				}
				return true
			})
			return okApp
		}
		return false
	}
	// conditions `len(V) == 0` / `len(V) != 0` on the way to the second lookup
	n := 0
	for _, b := range r.F.G.Blocks {
		cond, isCase := r.F.Cond(b)
		if cond == nil || isCase {
			continue
		}
		var lenArg ast.Expr
		ast.Inspect(cond, func(y ast.Node) bool {
			if call, ok := y.(*ast.CallExpr); ok && len(call.Args) == 1 {
				if id, ok := ast.Unparen(call.Fun).(*ast.Ident); ok && id.Name == "len" {
					lenArg = call.Args[0]
				}
			}
			return true
		})
		if lenArg == nil {
			continue
		}
		// an emptiness test: len(X) compared with the constant 0 (or 1 with < / >=)
		isEmptiness := false
		ast.Inspect(cond, func(y ast.Node) bool {
			if be, ok := y.(*ast.BinaryExpr); ok {
				for _, side := range []ast.Expr{be.X, be.Y} {
					if tv, has := info.Types[side]; has && tv.Value != nil && (tv.Value.String() == "0" || tv.Value.String() == "1") {
						other := be.X
						if side == be.X {
							other = be.Y
						}
						if call, isC := ast.Unparen(other).(*ast.CallExpr); isC && len(call.Args) == 1 && call.Args[0] == lenArg {
							isEmptiness = true
						}
					}
				}
			}
			return true
		})
		if !isEmptiness {
			continue
		}
		condPt := Pt{b, len(b.Nodes) - 1}
		// only tests between the first lookup and the second
		if f, _ := r.Reachable([]Pt{condPt}, false, func(q Pt) bool { return q == second }, nil); !f {
			continue
		}
		v := objOf(info, lenArg)
		if v == nil {
			continue
		}
		n++
		defs, ok := r.ReachingDefsDeep(v, condPt, nil, 0)
		good := len(defs) > 0
		bad := ""
		if !ok {
			// tuple definitions: `txts, err := r.LookupTXT(…)` is the raw answer; `recs, err := lookupRecords(…)` with a
			// helper of this package that applies the version filter is not
			good, bad = false, "the raw answer of LookupTXT"
			allFiltered, nTuple := true, 0
			ast.Inspect(r.FI.Decl.Body, func(z ast.Node) bool {
				as, isA := z.(*ast.AssignStmt)
				if !isA || len(as.Rhs) != 1 || len(as.Lhs) < 2 {
					return true
				}
				for _, l := range as.Lhs {
					if objOf(info, l) == v {
						nTuple++
						if !filteredDef(as.Rhs[0]) {
							allFiltered = false
						}
					}
				}
				return true
			})
			if nTuple > 0 && allFiltered {
				good, bad = true, ""
				for _, d := range defs {
					if !filteredDef(d) {
						good, bad = false, exprStr(d)
					}
				}
				c.Hold(rule, "FetchRecord:fallback-test"+itoa(n), cond.Pos(), good, "line "+itoa(p0(c.P, cond.Pos()))+": the test "+exprStr(cond)+" looks at "+bad)
				continue
			}
		}
		for _, d := range defs {
			if !filteredDef(d) {
				// a slice of an empty prefix (`txts[:0]`) is the start of an in-place filter: the appends decide
				if se, isS := ast.Unparen(d).(*ast.SliceExpr); isS && se.Low == nil && se.High != nil {
					continue
				}
				if mk, isC := ast.Unparen(d).(*ast.CallExpr); isC {
					if id, isId := ast.Unparen(mk.Fun).(*ast.Ident); isId && id.Name == "make" && len(mk.Args) >= 2 {
						if tv, has := info.Types[mk.Args[1]]; has && tv.Value != nil && tv.Value.String() == "0" {
							continue // an empty list the filter appends to
						}
					}
				}
				if isNilIdent(info, d) {
					continue
				}
				good, bad = false, exprStr(d)
			}
		}
		c.Hold(rule, "FetchRecord:fallback-test"+itoa(n), cond.Pos(), good, "line "+itoa(p0(c.P, cond.Pos()))+": the test "+exprStr(cond)+" that decides whether the organizational domain is asked looks at "+bad+" – TXT strings that are not DMARC records (a wildcard SPF record answers for _dmarc.sub.example.org as well) count as 'a record exists': no DMARC record is found among them, the result is 'no policy', and the reject / quarantine policy published at the organizational domain is never applied to the subdomain")
	}
	if n == 0 {
		c.Fail(rule, "FetchRecord:fallback-test", r.FI.Decl.Pos(), "undecided: no emptiness test guards the lookup at the organizational domain")
	}
}

// ---- C11.R10: the table never drops a bucket that has a holder.
// When the keyed table is over capacity BucketSet.take removes stale buckets. "Stale" by the time of the last TAKE says
// nothing about permits that are still held (a remote delivery holds its destination permit for minutes): dropping
// such a bucket gives the key a fresh one – the next message of that key is admitted beyond the limit – and the two
// releases that follow hit the new semaphore, the second one an empty one (`panic: mismatched Release call`).
// Decided: every removal from the bucket table (delete on the map field) outside Close stands under a condition that
// reads a numeric field of the bucket entry which the take path increments and Release decrements (a holder count).
func c11ReaperSparesHeldBuckets(c *Check, rule string) {
	c.Rule(rule, "limiters.BucketSet: a bucket is removed from the table only under a test of a per-bucket holder count that taking increments and Release decrements – a bucket whose permit is still held is never replaced by a fresh one", 1)
	p := c.P
	pk := p.Pkg(limitersRel)
	if pk == nil {
		c.Fail(rule, "package", token.NoPos, "anchor unresolved")
		return
	}
	info := pk.TypesInfo
	// numeric fields of the entry type incremented / decremented anywhere in the package, by function
	inc := map[*types.Var][]string{}
	dec := map[*types.Var][]string{}
	p.AllFuncs([]*packagesPkg{pk}, func(fi *FuncInfo) {
		if fi.Decl.Body == nil || strings.HasSuffix(p.Fset.Position(fi.Decl.Pos()).Filename, "_test.go") {
			return
		}
		ast.Inspect(fi.Decl.Body, func(x ast.Node) bool {
			switch s := x.(type) {
			case *ast.IncDecStmt:
				if f := fieldOf(info, ast.Unparen(s.X)); f != nil {
					if s.Tok == token.INC {
						inc[f] = append(inc[f], refName(fi.Obj))
					} else {
						dec[f] = append(dec[f], refName(fi.Obj))
					}
				}
			case *ast.AssignStmt:
				if len(s.Lhs) == 1 {
					if f := fieldOf(info, ast.Unparen(s.Lhs[0])); f != nil {
						if s.Tok == token.ADD_ASSIGN {
							inc[f] = append(inc[f], refName(fi.Obj))
						} else if s.Tok == token.SUB_ASSIGN {
							dec[f] = append(dec[f], refName(fi.Obj))
						}
					}
				}
			}
			return true
		})
	})
	// the holder counts: integer fields that some function increments and a Release-like function decrements
	holder := map[*types.Var]bool{}
	for f := range inc {
		for _, fn := range dec[f] {
			if strings.Contains(fn, "elease") {
				holder[f] = true
			}
		}
	}
	n := 0
	p.AllFuncs([]*packagesPkg{pk}, func(fi *FuncInfo) {
		if fi.Decl.Body == nil || strings.HasSuffix(p.Fset.Position(fi.Decl.Pos()).Filename, "_test.go") {
			return
		}
		if fi.Decl.Recv == nil || recvTypeName(fi.Decl) != "BucketSet" || refName(fi.Obj) == "Close" {
			return
		}
		fl := p.FlowOfFunc(fi)
		isDelete := func(pt Pt) bool {
			for _, call := range callsAt(pt.Node()) {
				if id, isId := ast.Unparen(call.Fun).(*ast.Ident); isId && id.Name == "delete" && len(call.Args) == 2 && fieldOf(info, ast.Unparen(call.Args[0])) != nil {
					return true
				}
			}
			return false
		}
		// a point that reads a holder count (the guard, in whatever form: nested if, continue-guard, named boolean)
		readsHolder := func(pt Pt) bool {
			nd := pt.Node()
			if nd == nil {
				return false
			}
			found := false
			ast.Inspect(nd, func(y ast.Node) bool {
				if se, ok := y.(*ast.SelectorExpr); ok {
					if f := fieldOf(info, se); f != nil && holder[f] {
						found = true
					}
				}
				return !found
			})
			return found
		}
		for _, pt := range fl.Points() {
			if pt.Node() == nil || !isDelete(pt) {
				continue
			}
			n++
			c.SawFunc(fi.Name())
			_, reach := fl.Reach(Query{From: []Pt{fl.Entry()}, Inclusive: true, Target: func(q Pt) bool { return q == pt }, Avoid: func(q Pt) bool { return q != pt && readsHolder(q) }})
			c.Hold(rule, "BucketSet."+refName(fi.Obj)+":delete"+itoa(n), pt.Node().Pos(), !reach, "line "+itoa(p0(p, pt.Node().Pos()))+": a bucket is removed from the table by age alone (time since the last take): a key whose permit has been held for longer than the reap interval gets a fresh bucket – the next message of that key is admitted although the limit is reached, and when both end the second Release finds an empty semaphore (panic: mismatched Release call)")
		}
	})
	if n == 0 {
		c.Hold(rule, "BucketSet:no-removal", token.NoPos, true, "")
	}
}

// ---- C19.R16: a connection given to the pool is never simply dropped.
// pool.Return owns the connection it is handed: on every path it is either put into a bucket (channel send) or closed.
// The early return for a pool that was shut down dropped it – no QUIT, the socket stays open until the process ends or
// the peer times out: a delivery still running while the target is closed leaks its connection.
func c19ReturnOwnsConn(c *Check, rule string) {
	c.Rule(rule, "pool.Return: on every path the connection parameter is stored into a bucket or closed (a connection handed to the pool – also to a pool that was shut down meanwhile – is never left open and unreferenced)", 1)
	r := c.need(rule, poolRel, "P", "Return")
	if r == nil {
		return
	}
	info := r.Info
	var connP types.Object
	sig := r.FI.Obj.Type().(*types.Signature)
	for i := 0; i < sig.Params().Len(); i++ {
		if _, isIface := sig.Params().At(i).Type().Underlying().(*types.Interface); isIface {
			connP = sig.Params().At(i)
		}
	}
	if connP == nil {
		c.Fail(rule, "Return:param", r.FI.Decl.Pos(), "undecided: no connection parameter")
		return
	}
	disposes := func(pt Pt) bool {
		n := pt.Node()
		if n == nil {
			return false
		}
		if _, isDefer := n.(*ast.DeferStmt); isDefer {
			return false
		}
		found := false
		ast.Inspect(n, func(x ast.Node) bool {
			switch s := x.(type) {
			case *ast.SendStmt:
				if objOf(info, s.Value) == connP {
					found = true
				}
			case *ast.CallExpr:
				if methodName(s) == "Close" && recvObj(info, s) == connP {
					found = true
				}
			}
			return !found
		})
		return found
	}
	// the select's send case: go/cfg puts the comm clause's statement into the case block
	path, found := r.F.Reach(Query{From: r.Entry(), Inclusive: true, Target: r.F.IsExitPt, Avoid: disposes})
	c.Hold(rule, "Return:stored-or-closed", r.FI.Decl.Pos(), !found, "Return can end without having stored or closed the connection ("+r.F.Describe(path)+"): the connection stays open and nothing refers to it any more")
}

// c19OnlyForNegative: statement st (a store into numeric field fv) cannot be reached when fv holds 0 or 1.
func c19OnlyForNegative(c *Check, pk *packagesPkg, st ast.Node, fv *types.Var) bool {
	p := c.P
	info := pk.TypesInfo
	res := false
	p.AllFuncs([]*packagesPkg{pk}, func(fi *FuncInfo) {
		if fi.Decl.Body == nil || !within(fi.Decl.Body, st) {
			return
		}
		fl := p.FlowOfFunc(fi)
		pt, ok := fl.PtOfNode(st)
		if !ok {
			return
		}
		unreachable := true
		for _, val := range []int64{0, 1} {
			val := val
			world := fl.World(func(atom ast.Expr) (bool, bool) {
				be, ok := ast.Unparen(atom).(*ast.BinaryExpr)
				if !ok || fieldOf(info, be.X) != fv {
					return false, false
				}
				tv, has := info.Types[be.Y]
				if !has || tv.Value == nil {
					return false, false
				}
				cv, isInt := constInt(tv)
				if !isInt {
					return false, false
				}
				switch be.Op {
				case token.LSS:
					return val < cv, true
				case token.LEQ:
					return val <= cv, true
				case token.GTR:
					return val > cv, true
				case token.GEQ:
					return val >= cv, true
				case token.EQL:
					return val == cv, true
				case token.NEQ:
					return val != cv, true
				}
				return false, false
			})
			if _, found := fl.Reach(Query{From: []Pt{fl.Entry()}, Inclusive: true, Target: func(q Pt) bool { return q == pt }, AvoidEdge: world}); found {
				unreachable = false
			}
		}
		res = unreachable
	})
	return res
}
