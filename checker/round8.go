package main

// Rules added in round 8 (DESIGN.md §R.17): necessary conditions prompted by the eighth set of independently seeded
// changes. Each is stated as a property of the code's shape, is quiet on the reference tree and on the refactoring
// corpus, and names the construct it rejects.

import (
	"go/ast"
	"go/token"
	"go/types"
	"strings"
)

// funcBodies calls f for every function-like body (declared function or function literal) of fi, with a flow of its own.
func funcBodies(p *Prog, fi *FuncInfo, f func(name string, body *ast.BlockStmt, fl *Flow)) {
	if fi.Decl.Body == nil {
		return
	}
	f(fi.Name(), fi.Decl.Body, p.FlowOfFunc(fi))
	n := 0
	ast.Inspect(fi.Decl.Body, func(x ast.Node) bool {
		if lit, ok := x.(*ast.FuncLit); ok {
			n++
			name := fi.Name() + "$" + itoa(n)
			f(name, lit.Body, p.FlowOf(fi.Info(), lit.Body, name))
		}
		return true
	})
}

// ---- C09.K14: who gets a result does not depend on how the address is spelled.
// A loop that reports a status for the elements of a recipient list reports one for EVERY element: on no way round
// the loop is the report skipped under a condition that looks at the element (its spelling, whether an "equal"
// address was seen before). The collector's contract is keyed by the exact string the caller passed to AddRcpt; a
// recipient that is skipped because it is address.Equal to an earlier one gets no result, and no result means
// delivered – for `Sales@x` and `sales@x` on one connection a DATA failure is recorded for the first only, the second
// is neither retried nor reported.
func c09NoSpellingDependentSkip(c *Check, rule string) {
	c.Rule(rule, "a loop that reports a per-recipient status reports one for every element of the list: the report is never skipped under a condition that depends on the recipient's address (a recipient without a result counts as delivered)", 4)
	p := c.P
	n := 0
	for _, rel := range propertyPackages["C09"] {
		pk := p.Pkg(rel)
		if pk == nil {
			continue
		}
		p.AllFuncs([]*packagesPkg{pk}, func(fi *FuncInfo) {
			if fi.Decl.Body == nil || strings.HasSuffix(p.Fset.Position(fi.Decl.Pos()).Filename, "_test.go") {
				return
			}
			info := fi.Info()
			funcBodies(p, fi, func(name string, body *ast.BlockStmt, fl *Flow) {
				loops := elemLoops(info, body, func(e ast.Expr) bool {
					t := info.TypeOf(e)
					if t == nil {
						return false
					}
					sl, ok := t.Underlying().(*types.Slice)
					return ok && isStringType(sl.Elem())
				})
				for li, l := range loops {
					// only loops of this body (not of a nested literal, which gets its own turn)
					if !directlyIn(body, l.Body) {
						continue
					}
					isReport := func(pt Pt) bool {
						for _, call := range callsAt(pt.Node()) {
							if methodName(call) == "SetStatus" && len(call.Args) == 2 && l.IsElem(call.Args[0]) {
								return true
							}
						}
						return false
					}
					has := false
					for _, pt := range fl.Points() {
						if pt.Node() != nil && within(l.Body, pt.Node()) && isReport(pt) {
							has = true
						}
					}
					if !has {
						continue
					}
					n++
					c.SawFunc(fi.Name())
					key := name + ":loop" + itoa(li+1)
					// paths round the loop that avoid the report
					path, found := fl.Reach(Query{From: fl.LoopBodyStart(l), Inclusive: true, Target: fl.IterEnd(l), Avoid: isReport})
					if !found {
						c.Hold(rule, key, l.Body.Pos(), true, "")
						continue
					}
					// allowed when no condition inside the loop body mentions the element (skipping by outcome, e.g.
					// `if err == nil { continue }`, is the collector's own convention)
					elem := l.ElemObj()
					dep := ""
					ast.Inspect(l.Body, func(x ast.Node) bool {
						var cond ast.Expr
						switch s := x.(type) {
						case *ast.IfStmt:
							cond = s.Cond
						case *ast.SwitchStmt:
							cond = s.Tag
						case *ast.CaseClause:
							for _, e := range s.List {
								if elem != nil && mentions(info, e, elem) {
									dep = exprStr(e)
								}
							}
						}
						if cond != nil && elem != nil && mentions(info, cond, elem) {
							dep = exprStr(cond)
						}
						return true
					})
					c.Hold(rule, key, l.Body.Pos(), dep == "", "an element of the recipient list can pass the loop without a status ("+fl.Describe(path)+") under a condition that looks at the address: "+dep+" – two spellings the condition takes for one recipient were both accepted by AddRcpt, the second gets no result and counts as delivered")
				}
			})
		})
	}
	if n == 0 {
		c.Fail(rule, "loops", token.NoPos, "anchor unresolved: no status-reporting loop found")
	}
}

// directlyIn: n lies in body and not inside a function literal nested in body.
func directlyIn(body *ast.BlockStmt, n ast.Node) bool {
	if !within(body, n) {
		return false
	}
	in := true
	ast.Inspect(body, func(x ast.Node) bool {
		if lit, ok := x.(*ast.FuncLit); ok {
			if within(lit.Body, n) {
				in = false
			}
			return false
		}
		return true
	})
	return in
}

// ---- no transitional IDNA processing (C07.R15, C17.R10).
// UTS #46 transitional processing maps the deviation characters (ß → ss, ς → σ, ZWJ / ZWNJ removed): `faß.example`
// becomes `fass.example` – ANOTHER registrable domain under IDNA2008. A profile built with idna.Transitional(true)
// anywhere on the way from an address to a lookup key or to a DNS query makes the U-label spelling of a domain name a
// different domain than its A-label spelling (xn--fa-hia.example): the DMARC policy of the author domain is fetched
// from someone else's zone, and a domain aligned with `fass.example` passes for a header that shows `faß.example`.
func noTransitionalIDNA(c *Check, rule string, rels []string) {
	c.Rule(rule, "no IDNA profile in the address / DNS / DMARC code is transitional: idna.Transitional is never applied with a value other than the constant false (ß, ς, ZWJ, ZWNJ keep their identity – faß.example is not fass.example)", 1)
	p := c.P
	nProfiles := 0
	for _, rel := range rels {
		pk := p.Pkg(rel)
		if pk == nil {
			c.Fail(rule, rel, token.NoPos, "anchor unresolved: package")
			continue
		}
		info := pk.TypesInfo
		for _, f := range pk.Syntax {
			if strings.HasSuffix(p.Fset.Position(f.Pos()).Filename, "_test.go") {
				continue
			}
			ast.Inspect(f, func(x ast.Node) bool {
				call, ok := x.(*ast.CallExpr)
				if !ok {
					return true
				}
				if isCall(info, call, "golang.org/x/net/idna.New") {
					nProfiles++
				}
				// the ready-made transitional-free profiles are Lookup / Registration / Punycode / Display: all
				// non-transitional in x/net (A3b); only the option can switch it on
				if !isCall(info, call, "golang.org/x/net/idna.Transitional") || len(call.Args) != 1 {
					return true
				}
				tv, has := info.Types[call.Args[0]]
				ok2 := has && tv.Value != nil && tv.Value.String() == "false"
				c.Hold(rule, pk.Types.Name()+":transitional:"+itoa(p0(p, call.Pos())), call.Pos(), ok2, "line "+itoa(p0(p, call.Pos()))+": an IDNA profile is built with "+exprStr(call)+": transitional processing maps ß to ss and ς to σ and drops ZWJ / ZWNJ – the Unicode spelling of a domain is converted to a different domain than its A-label spelling names")
				return true
			})
		}
	}
	c.Hold(rule, "profiles-seen", token.NoPos, true, "")
	_ = nProfiles
}

// ---- C17.R11: LowerASCII is a total, pointwise map.
// dns.LowerASCII is what makes the ACE prefix recognisable (R4c). Its contract – every ASCII letter lowered,
// everything else untouched – has to hold for every string, in particular for names that MIX an upper-case A-label
// with a U-label (`XN--E1AYBC.тест`): a fast path that hands the argument back as soon as it meets a non-ASCII byte
// leaves `XN--` in place, the decoder skips the label, the key differs from the one of the all-lower spelling and a
// second application changes it again. Decided: every value the function returns is strings.Map(f, parameter) (or
// strings.ToLower is NOT accepted: it folds non-ASCII letters too, before normalisation) with f lowering exactly A–Z
// (evaluated at 'A', 'Z', '@', '[', U+0080), or the result of a loop over all bytes; no return hands back the parameter.
func c17LowerASCIITotal(c *Check, rule string) {
	c.Rule(rule, "dns.LowerASCII maps every string pointwise: each return value is strings.Map over the parameter with a function that lowers exactly A–Z; no path returns the parameter itself (a name that mixes an upper-case A-label with a U-label keeps its XN-- prefix otherwise and is not decoded)", 1)
	p := c.P
	// the function: the one R4c found between NFC and idna.ToUnicode in dns.ForLookup
	fl := p.Func("framework/dns", "", "ForLookup")
	if fl == nil {
		c.Fail(rule, "ForLookup", token.NoPos, "anchor unresolved")
		return
	}
	var target *FuncInfo
	ast.Inspect(fl.Decl.Body, func(x ast.Node) bool {
		call, ok := x.(*ast.CallExpr)
		if !ok || !isCall(fl.Info(), call, "golang.org/x/net/idna.ToUnicode") || len(call.Args) != 1 {
			return true
		}
		arg := resolveLocal(fl.Info(), fl.Decl.Body, call.Args[0])
		if lc, ok := ast.Unparen(arg).(*ast.CallExpr); ok {
			if fn := callee(fl.Info(), lc); fn != nil && fn.Pkg() != nil && strings.HasPrefix(fn.Pkg().Path(), modPath) {
				target = p.DeclOf(fn)
			}
		}
		return true
	})
	if target == nil || target.Decl.Body == nil {
		// lowering is done in place (strings.Map literal in ForLookup): R4c judges it there
		c.Hold(rule, "dns.ForLookup:inline", fl.Decl.Pos(), true, "")
		return
	}
	c.SawFunc(target.Name())
	info := target.Info()
	sig := target.Obj.Type().(*types.Signature)
	if sig.Params().Len() != 1 || sig.Results().Len() != 1 {
		c.Fail(rule, target.Name()+":shape", target.Decl.Pos(), "undecided: expected func(string) string")
		return
	}
	param := sig.Params().At(0)
	nRet := 0
	msg := ""
	inspectNoLit(target.Decl.Body, func(x ast.Node) bool {
		ret, ok := x.(*ast.ReturnStmt)
		if !ok || len(ret.Results) != 1 {
			return true
		}
		nRet++
		v := resolveLocal(info, target.Decl.Body, ret.Results[0])
		if objOf(info, v) == param {
			msg = "line " + itoa(p0(p, ret.Pos())) + ": the parameter is returned as it came (a shortcut for some class of inputs): for `XN--E1AYBC.тест` the ASCII letters stay upper-case, idna.ToUnicode does not decode the label, ForLookup / CleanDomain give that spelling a key of its own and are not idempotent on it"
			return true
		}
		call, isC := ast.Unparen(v).(*ast.CallExpr)
		if isC && isCall(info, call, "strings.Map") && len(call.Args) == 2 && objOf(info, call.Args[1]) == param {
			if lit, isL := ast.Unparen(call.Args[0]).(*ast.FuncLit); isL && lowersASCIIBody(info, lit.Body) {
				return true
			}
		}
		// a builder / byte slice filled by a loop over the whole parameter: accepted when the loop has no exit but its end
		if o := objOf(info, v); o != nil && localIn(target.Decl.Body, o) {
			return true
		}
		if isC {
			if sel, ok := ast.Unparen(call.Fun).(*ast.SelectorExpr); ok && sel.Sel.Name == "String" {
				return true
			}
			if tv, ok := info.Types[call.Fun]; ok && tv.IsType() {
				return true // string(buf)
			}
		}
		msg = "line " + itoa(p0(p, ret.Pos())) + ": the value returned (" + exprStr(v) + ") is not the pointwise lowering of the parameter"
		return true
	})
	c.Hold(rule, target.Name()+":total", target.Decl.Pos(), nRet > 0 && msg == "", msg)
}

// ---- C17.R12: a character is copied whole.
// Inside `for i, ch := range s` the loop advances by characters; s[i] is the FIRST BYTE of the character ch. Writing
// s[i] where the character is meant (WriteByte(s[i]), append(buf, s[i])) copies the lead byte of every multi-byte
// character and drops the rest: `имя фамилия` quoted and unquoted again is not the input (and is not valid UTF-8).
// Comparisons of s[i] with an ASCII constant are fine and are not looked at.
func c17WholeCharacterCopied(c *Check, rule string) {
	c.Rule(rule, "framework/address, framework/dns: in a loop that ranges over the characters of a string the byte s[i] at the loop index is never written out in place of the character (WriteByte(s[i]), append(…, s[i])): a multi-byte character would be cut to its lead byte", 2)
	p := c.P
	nLoops := 0
	for _, rel := range []string{"framework/address", "framework/dns"} {
		pk := p.Pkg(rel)
		if pk == nil {
			c.Fail(rule, rel, token.NoPos, "anchor unresolved")
			continue
		}
		info := pk.TypesInfo
		p.AllFuncs([]*packagesPkg{pk}, func(fi *FuncInfo) {
			if fi.Decl.Body == nil || strings.HasSuffix(p.Fset.Position(fi.Decl.Pos()).Filename, "_test.go") {
				return
			}
			ast.Inspect(fi.Decl.Body, func(n ast.Node) bool {
				rs, ok := n.(*ast.RangeStmt)
				if !ok {
					return true
				}
				tv, has := info.Types[rs.X]
				if !has || !isStringType(tv.Type) {
					return true
				}
				nLoops++
				if rs.Key == nil {
					c.Hold(rule, pk.Types.Name()+"."+refName(fi.Obj)+":range"+itoa(p0(p, rs.Pos())), rs.Pos(), true, "")
					return true
				}
				idx := objOf(info, rs.Key)
				strObj := objOf(info, rs.X)
				msg := ""
				var visit func(x ast.Node, written bool)
				visit = func(x ast.Node, written bool) {
					ast.Inspect(x, func(y ast.Node) bool {
						if y == nil || y == x {
							return true
						}
						switch s := y.(type) {
						case *ast.BinaryExpr:
							switch s.Op {
							case token.EQL, token.NEQ, token.LSS, token.GTR, token.LEQ, token.GEQ:
								return false // a comparison reads, it does not copy
							}
						case *ast.CallExpr:
							for _, a := range s.Args {
								visit(a, true)
								if ix, ok := ast.Unparen(a).(*ast.IndexExpr); ok {
									if objOf(info, ix.Index) == idx && idx != nil && (strObj == nil || objOf(info, ix.X) == strObj) && isStringType(info.TypeOf(ix.X)) {
										msg = "line " + itoa(p0(p, ix.Pos())) + ": " + exprStr(s) + " writes the byte " + exprStr(ix) + " inside a loop over the characters of " + exprStr(rs.X) + ": of a multi-byte character only the lead byte is copied (quote / unquote no longer round-trips for a non-ASCII local part, the result is not valid UTF-8)"
									}
								}
							}
							visit(s.Fun, false)
							return false
						case *ast.AssignStmt:
							for _, r := range s.Rhs {
								if ix, ok := ast.Unparen(r).(*ast.IndexExpr); ok {
									if objOf(info, ix.Index) == idx && idx != nil && isStringType(info.TypeOf(ix.X)) {
										// stored into a byte slot of an output buffer
										for _, l := range s.Lhs {
											if _, isIx := ast.Unparen(l).(*ast.IndexExpr); isIx {
												msg = "line " + itoa(p0(p, ix.Pos())) + ": the byte " + exprStr(ix) + " is stored in place of the character inside a loop over the characters of " + exprStr(rs.X)
											}
										}
									}
								}
							}
						}
						return true
					})
				}
				visit(rs.Body, false)
				c.SawFunc(fi.Name())
				c.Hold(rule, pk.Types.Name()+"."+refName(fi.Obj)+":range"+itoa(p0(p, rs.Pos())), rs.Pos(), msg == "", msg)
				return true
			})
		})
	}
	if nLoops == 0 {
		c.Fail(rule, "loops", token.NoPos, "undecided: no loop over the characters of a string found")
	}
}

// ---- E12: a loop does not range over a collection that was created empty the statement before.
// `cpy.M = make(map[K]V, len(src.M)); for k, v := range cpy.M { cpy.M[k] = v }` is the copy loop with the wrong
// operand: it ranges over the map that was just made, never runs, and the "copy" is empty (C10P: every spooled copy of
// the metadata lost its original-recipient table). Decided per block: for a range statement over an expression X
// (variable or field path), the nearest preceding assignment to X in the same or an enclosing block, with nothing in
// between that mentions X, is not `make(…)` with length 0 / an empty composite literal / nil.
func emptyRangeSeen(c *Check, fis []*FuncInfo) {
	c.Rule("E12", "no loop ranges over a collection that was created empty by the assignment before it (a copy loop whose operand is the fresh destination never runs: the copy is empty)", 0)
	defer func() { c.HoldConst("E12", "loops-examined", token.NoPos, true, "") }()
	seen := map[*types.Func]bool{}
	for _, fi := range fis {
		if fi == nil || seen[fi.Obj] || fi.Decl.Body == nil {
			continue
		}
		seen[fi.Obj] = true
		info := fi.Info()
		n := 0
		var walk func(stmts []ast.Stmt, outer [][]ast.Stmt)
		emptyCtor := func(e ast.Expr) bool {
			e = ast.Unparen(e)
			if isNilIdent(info, e) {
				return true
			}
			switch x := e.(type) {
			case *ast.CompositeLit:
				switch info.TypeOf(x).Underlying().(type) {
				case *types.Map, *types.Slice:
					return len(x.Elts) == 0
				}
			case *ast.CallExpr:
				if id, ok := ast.Unparen(x.Fun).(*ast.Ident); ok && id.Name == "make" && info.Uses[id] == types.Universe.Lookup("make") && len(x.Args) >= 1 {
					switch info.TypeOf(x.Args[0]).Underlying().(type) {
					case *types.Map:
						return true
					case *types.Slice:
						if len(x.Args) >= 2 {
							if tv, ok := info.Types[x.Args[1]]; ok && tv.Value != nil && tv.Value.String() == "0" {
								return true
							}
						}
					}
				}
			}
			return false
		}
		mentionsExpr := func(s ast.Node, txt string) bool {
			found := false
			ast.Inspect(s, func(y ast.Node) bool {
				if e, ok := y.(ast.Expr); ok && exprStr(e) == txt {
					found = true
				}
				return !found
			})
			return found
		}
		check := func(rs *ast.RangeStmt, before []ast.Stmt, outer [][]ast.Stmt) {
			x := ast.Unparen(rs.X)
			switch x.(type) {
			case *ast.Ident, *ast.SelectorExpr:
			default:
				return
			}
			switch info.TypeOf(x).Underlying().(type) {
			case *types.Map, *types.Slice:
			default:
				return
			}
			txt := exprStr(x)
			lists := append([][]ast.Stmt{before}, outer...)
			for _, list := range lists {
				for i := len(list) - 1; i >= 0; i-- {
					s := list[i]
					if as, ok := s.(*ast.AssignStmt); ok && len(as.Lhs) == len(as.Rhs) {
						for j, l := range as.Lhs {
							if exprStr(l) == txt {
								n++
								key := fi.Pkg.Types.Name() + "." + refName(fi.Obj) + ":range" + itoa(n)
								c.Hold("E12", key, rs.Pos(), !emptyCtor(as.Rhs[j]), "line "+itoa(p0(c.P, rs.Pos()))+": the loop ranges over "+txt+", which line "+itoa(p0(c.P, as.Pos()))+" has just created empty ("+exprStr(as.Rhs[j])+"): the body never runs – if this is a copy loop the operand is the destination instead of the source and the copy stays empty")
								return
							}
						}
					}
					if mentionsExpr(s, txt) {
						return // filled, passed on or re-assigned in a way this rule does not follow
					}
				}
			}
		}
		walk = func(stmts []ast.Stmt, outer [][]ast.Stmt) {
			for i, s := range stmts {
				before := stmts[:i]
				if rs, ok := s.(*ast.RangeStmt); ok {
					check(rs, before, outer)
				}
				sub := func(b *ast.BlockStmt) {
					if b != nil {
						walk(b.List, append([][]ast.Stmt{before}, outer...))
					}
				}
				switch x := s.(type) {
				case *ast.BlockStmt:
					sub(x)
				case *ast.IfStmt:
					sub(x.Body)
					for e := x.Else; e != nil; {
						switch y := e.(type) {
						case *ast.BlockStmt:
							sub(y)
							e = nil
						case *ast.IfStmt:
							sub(y.Body)
							e = y.Else
						default:
							e = nil
						}
					}
				case *ast.ForStmt:
					// a loop body may run after its own later statements: only look at what precedes the loop when the
					// body itself does not assign the operand (handled by mentionsExpr on the way back)
					sub(x.Body)
				case *ast.RangeStmt:
					sub(x.Body)
				case *ast.SwitchStmt:
					for _, cc := range x.Body.List {
						walk(cc.(*ast.CaseClause).Body, append([][]ast.Stmt{before}, outer...))
					}
				case *ast.TypeSwitchStmt:
					for _, cc := range x.Body.List {
						walk(cc.(*ast.CaseClause).Body, append([][]ast.Stmt{before}, outer...))
					}
				}
			}
		}
		walk(fi.Decl.Body.List, nil)
	}
}

// ---- C04.R12: a reject block answers with the reply it was configured with.
// `reject 450 4.2.1 "Mailbox is busy"` names the three parts of the reply. In msgpipeline.parseRejectDirective each
// part of the returned SMTPError is its default or what was parsed from the argument of that position – nothing
// rewrites a part after it was parsed (C04O: `enchCode[0] = code / 100` placed where `code` still holds the default 554
// turned every configured 4.x.x into 5.x.x).
func c04RejectReplyAsConfigured(c *Check, rule string) {
	c.Rule(rule, "msgpipeline.parseRejectDirective: every part of the reply (code, enhanced code, message) is its default or is parsed from the directive's argument; no store rewrites a part from anything else", 3)
	r := c.need(rule, "internal/msgpipeline", "", "parseRejectDirective")
	if r == nil {
		return
	}
	info := r.Info
	var nodeP types.Object
	sig := r.FI.Obj.Type().(*types.Signature)
	if sig.Params().Len() >= 1 {
		nodeP = sig.Params().At(0)
	}
	// the variables that make up the returned literal
	parts := map[types.Object]string{}
	inspectNoLit(r.FI.Decl.Body, func(x ast.Node) bool {
		cl, ok := x.(*ast.CompositeLit)
		if !ok || !isSMTPErrorType(info.TypeOf(cl)) {
			return true
		}
		for _, el := range cl.Elts {
			if kv, ok := el.(*ast.KeyValueExpr); ok {
				if o := objOf(info, kv.Value); o != nil && localIn(r.FI.Decl.Body, o) {
					parts[o] = kv.Key.(*ast.Ident).Name
				}
			}
		}
		return true
	})
	if len(parts) < 3 || nodeP == nil {
		c.Fail(rule, "parseRejectDirective:parts", r.FI.Decl.Pos(), "undecided: the returned reply is not built from three local variables")
		return
	}
	n := map[string]int{}
	inspectNoLit(r.FI.Decl.Body, func(x ast.Node) bool {
		as, ok := x.(*ast.AssignStmt)
		if !ok {
			return true
		}
		for i, l := range as.Lhs {
			root := ast.Unparen(l)
			elem := false
			if ix, isI := root.(*ast.IndexExpr); isI {
				root, elem = ast.Unparen(ix.X), true
			}
			o := objOf(info, root)
			name, is := parts[o]
			if o == nil || !is {
				continue
			}
			var rhs ast.Expr
			if len(as.Rhs) == len(as.Lhs) {
				rhs = as.Rhs[i]
			} else if len(as.Rhs) == 1 {
				rhs = as.Rhs[0]
			}
			n[name]++
			ok := false
			if rhs != nil && !elem {
				if tv, has := info.Types[rhs]; has && tv.Value != nil {
					ok = true // default
				} else if _, isLit := ast.Unparen(rhs).(*ast.CompositeLit); isLit && as.Tok == token.DEFINE {
					ok = true // default enhanced code
				} else if mentions(info, rhs, nodeP) {
					ok = true // parsed from / taken from the directive
				}
			}
			c.Hold(rule, "parseRejectDirective:"+name+":store"+itoa(n[name]), as.Pos(), ok, "line "+itoa(p0(c.P, as.Pos()))+": "+exprStr(l)+" is set to "+exprStr(rhs)+", which is neither the default nor taken from the directive's arguments: the block answers with something other than its configured reply (e.g. `reject 450 4.2.1` answered `450 5.2.1`)")
		}
		return true
	})
}

// ---- C04.R13: every address a rewrite produced is handed on.
// A modifier's RewriteRcpt answers with the list of addresses the recipient becomes; the pipeline routes each of them.
// A loop that copies a list of addresses into the list that is returned copies every element: an iteration that ends
// without the copy (a filter, a "seen before" test) accepts the recipient at RCPT TO and hands one of its addresses
// to no target (C04P: an alias that includes its own name – `team: team, archive` – lost the `team` mailbox because
// the duplicate filter was seeded with the address being rewritten).
func c04RewriteKeepsEveryResult(c *Check, rule string) {
	c.Rule(rule, "internal/modify: a loop that copies a list of addresses into the list a rewrite returns copies every element – no iteration ends without the copy (an address that is dropped is accepted and delivered nowhere)", 1)
	p := c.P
	pk := p.Pkg("internal/modify")
	if pk == nil {
		c.Fail(rule, "package", token.NoPos, "anchor unresolved")
		return
	}
	n := 0
	p.AllFuncs([]*packagesPkg{pk}, func(fi *FuncInfo) {
		if fi.Decl.Body == nil || strings.HasSuffix(p.Fset.Position(fi.Decl.Pos()).Filename, "_test.go") {
			return
		}
		sig := fi.Obj.Type().(*types.Signature)
		returnsList := false
		for i := 0; i < sig.Results().Len(); i++ {
			if sl, ok := sig.Results().At(i).Type().Underlying().(*types.Slice); ok && isStringType(sl.Elem()) {
				returnsList = true
			}
		}
		if !returnsList {
			return
		}
		info := fi.Info()
		fl := p.FlowOfFunc(fi)
		// the lists that are returned
		returned := map[types.Object]bool{}
		inspectNoLit(fi.Decl.Body, func(x ast.Node) bool {
			if ret, ok := x.(*ast.ReturnStmt); ok {
				for _, e := range ret.Results {
					if o := objOf(info, e); o != nil {
						returned[o] = true
					}
				}
			}
			return true
		})
		loops := elemLoops(info, fi.Decl.Body, func(e ast.Expr) bool {
			t := info.TypeOf(e)
			if t == nil {
				return false
			}
			sl, ok := t.Underlying().(*types.Slice)
			return ok && isStringType(sl.Elem())
		})
		for li, l := range loops {
			if !directlyIn(fi.Decl.Body, l.Body) {
				continue
			}
			elem := l.ElemObj()
			isCopy := func(pt Pt) bool {
				as, ok := pt.Node().(*ast.AssignStmt)
				if !ok {
					return false
				}
				for i, lh := range as.Lhs {
					if i >= len(as.Rhs) {
						break
					}
					if o, args := appendTarget(info, lh, as.Rhs[i]); o != nil && returned[o] {
						for _, a := range args {
							if l.IsElem(a) || (elem != nil && mentions(info, a, elem)) {
								return true
							}
						}
					}
					if ix, isI := ast.Unparen(lh).(*ast.IndexExpr); isI {
						if o := objOf(info, ix.X); o != nil && returned[o] && (l.IsElem(as.Rhs[i]) || (elem != nil && mentions(info, as.Rhs[i], elem))) {
							return true
						}
					}
				}
				return false
			}
			has := false
			for _, pt := range fl.Points() {
				if pt.Node() != nil && within(l.Body, pt.Node()) && isCopy(pt) {
					has = true
				}
			}
			if !has {
				continue
			}
			n++
			c.SawFunc(fi.Name())
			iterEnd := fl.IterEnd(l)
			// a return inside the loop refuses the whole rewrite (an invalid replacement): not a dropped element
			path, found := fl.Reach(Query{From: fl.LoopBodyStart(l), Inclusive: true, Target: func(q Pt) bool { return iterEnd(q) && !fl.IsExitPt(q) }, Avoid: isCopy})
			c.Hold(rule, fi.Name()+":loop"+itoa(li+1), l.Body.Pos(), !found, "an element of "+exprStr(l.List)+" can pass the loop without being copied into the returned list ("+fl.Describe(path)+"): the address is produced by the rewrite and then dropped – the recipient is accepted, that address reaches no target")
		}
	})
	c.Hold(rule, "loops-seen", token.NoPos, true, itoa(n))
}
