package main

import (
	"encoding/json"
	"fmt"
	"go/ast"
	"go/token"
	"os"
	"path/filepath"
	"sort"
	"strings"
)

// Sensitivity measurement (not a check): syntactic mutants of the functions a property's rules looked at. Each
// mutant is one edited copy of one source file; the driver (mutants.py) analyses it through -overlay and, for the
// survivors, asks the package's own tests. Operators: negate an if-condition, swap a comparison / logical
// operator, flip a boolean constant, delete a simple statement, drop an `if … { return/continue/break }` guard.

type mutant struct {
	ID   int    `json:"id"`
	File string `json:"file"` // absolute path in the repository
	Func string `json:"func"`
	Line int    `json:"line"`
	Kind string `json:"kind"`
	Desc string `json:"desc"`
	Out  string `json:"out"` // replacement file
}

func writeMutants(c *Check, dir string) (int, error) {
	p := c.P
	if err := os.MkdirAll(dir, 0o755); err != nil {
		return 0, err
	}
	want := map[string]bool{}
	for f := range c.funcs {
		want[f] = true
	}
	var muts []mutant
	srcCache := map[string][]byte{}
	src := func(file string) []byte {
		if b, ok := srcCache[file]; ok {
			return b
		}
		b, _ := os.ReadFile(file)
		srcCache[file] = b
		return b
	}
	add := func(fi *FuncInfo, n ast.Node, kind, desc string, from, to token.Pos, repl string) {
		pf, pt := p.Fset.Position(from), p.Fset.Position(to)
		file := pf.Filename
		b := src(file)
		if b == nil || pf.Offset > pt.Offset || pt.Offset > len(b) {
			return
		}
		id := len(muts) + 1
		out := filepath.Join(dir, fmt.Sprintf("m%05d.go", id))
		nb := append(append(append([]byte{}, b[:pf.Offset]...), []byte(repl)...), b[pt.Offset:]...)
		if os.WriteFile(out, nb, 0o644) != nil {
			return
		}
		muts = append(muts, mutant{ID: id, File: file, Func: fi.Name(), Line: p.Fset.Position(n.Pos()).Line, Kind: kind, Desc: desc, Out: out})
	}
	text := func(n ast.Node) string {
		pf, pt := p.Fset.Position(n.Pos()), p.Fset.Position(n.End())
		b := src(pf.Filename)
		if b == nil || pt.Offset > len(b) {
			return ""
		}
		return string(b[pf.Offset:pt.Offset])
	}
	swaps := map[token.Token]string{token.EQL: "!=", token.NEQ: "==", token.LSS: "<=", token.LEQ: "<", token.GTR: ">=", token.GEQ: ">", token.LAND: "||", token.LOR: "&&"}
	var fis []*FuncInfo
	p.AllFuncs(p.Pkgs, func(fi *FuncInfo) {
		if want[fi.Name()] && !strings.HasSuffix(p.Fset.Position(fi.Decl.Pos()).Filename, "_test.go") {
			fis = append(fis, fi)
		}
	})
	sort.Slice(fis, func(i, j int) bool { return fis[i].Name() < fis[j].Name() })
	for _, fi := range fis {
		fi := fi
		ast.Inspect(fi.Decl.Body, func(n ast.Node) bool {
			switch x := n.(type) {
			case *ast.IfStmt:
				add(fi, x, "negate-if", "if !("+text(x.Cond)+")", x.Cond.Pos(), x.Cond.End(), "!("+text(x.Cond)+")")
				// guard removal: body consists of a single return/continue/break (possibly after logging), no else
				if x.Else == nil && x.Init == nil && len(x.Body.List) > 0 {
					switch x.Body.List[len(x.Body.List)-1].(type) {
					case *ast.ReturnStmt, *ast.BranchStmt:
						add(fi, x, "drop-guard", "removed: if "+text(x.Cond)+" {…}", x.Pos(), x.End(), "")
					}
				}
			case *ast.BinaryExpr:
				if r, ok := swaps[x.Op]; ok {
					add(fi, x, "swap-op", text(x)+"  →  "+x.Op.String()+" becomes "+r, x.OpPos, x.OpPos+token.Pos(len(x.Op.String())), r)
				}
			case *ast.Ident:
				if (x.Name == "true" || x.Name == "false") && fi.Info().Uses[x] != nil && fi.Info().Uses[x].Pkg() == nil {
					r := "true"
					if x.Name == "true" {
						r = "false"
					}
					add(fi, x, "flip-bool", x.Name+" → "+r, x.Pos(), x.End(), r)
				}
			case *ast.BlockStmt:
				for _, st := range x.List {
					switch s := st.(type) {
					case *ast.ExprStmt, *ast.IncDecStmt, *ast.SendStmt, *ast.GoStmt, *ast.DeferStmt:
						add(fi, s, "delete-stmt", "removed: "+oneLine(text(s)), s.Pos(), s.End(), "")
					case *ast.AssignStmt:
						if s.Tok != token.DEFINE {
							add(fi, s, "delete-stmt", "removed: "+oneLine(text(s)), s.Pos(), s.End(), "")
						}
					}
				}
			}
			return true
		})
	}
	data, _ := json.MarshalIndent(muts, "", " ")
	return len(muts), os.WriteFile(filepath.Join(dir, "mutants.json"), data, 0o644)
}

func oneLine(s string) string {
	s = strings.Join(strings.Fields(s), " ")
	if len(s) > 120 {
		s = s[:120] + "…"
	}
	return s
}
