package main

import (
	"sort"
	"go/ast"
	"go/token"
	"go/types"
	"strings"

	"golang.org/x/tools/go/ssa"
)

func init() { register("C05", checkC05) }

func checkC05(c *Check) {
	p := c.P
	c.explain = "C05 (outbound mail only over connections that satisfy the security policy), structural part on the remote target: only attemptMX dials; the complete configured policy list vets the MX before the dial and the connection after it, a failed check closes the connection; the levels recorded on a connection are computed per attempt and stored only after all checks passed; " +
		"the policy list is skipped only under the TLS-Required override, and a connection opened under the override is never pooled; REQUIRETLS level comparisons dominate MAIL and bypass the pool; every TLS weakening lowers the reported level and never writes the shared TLS configuration; per-message metadata is not modified per destination; a TLSA lookup failure defers (C13.R4); a quarantined message reaches no sending call."
	c.notCover = "correctness of MTA-STS matching, certificate validation and DNSSEC validation (library behaviour)."

	pk := p.Pkg(remoteRel)
	if pk == nil {
		c.Rule("R1", "who may connect", 1)
		c.Fail("R1", "package", token.NoPos, "anchor unresolved")
		return
	}
	info := pk.TypesInfo

	// ---- R1 who may connect
	c.Rule("R1", "in the remote target only connect() dials, connect() is called only from attemptMX, attemptMX only from newConn, newConn only from connectionForDomain", 4)
	callers := func(pred CallPred) map[string]int {
		out := map[string]int{}
		p.AllFuncs([]*packagesPkg{pk}, func(fi *FuncInfo) {
			ast.Inspect(fi.Decl.Body, func(n ast.Node) bool {
				if call, ok := n.(*ast.CallExpr); ok && pred(fi.Info(), call) {
					out[refName(fi.Obj)]++
				}
				return true
			})
		})
		return out
	}
	chain := []struct {
		name   string
		pred   CallPred
		caller string
	}{
		{"smtpconn.Connect", calling("~/internal/smtpconn.C.Connect", "~/internal/smtpconn.C.ConnectLMTP"), "connect"},
		{"connect", calling("~/" + remoteRel + ".remoteDelivery.connect"), "attemptMX"},
		{"attemptMX", calling("~/" + remoteRel + ".remoteDelivery.attemptMX"), "newConn"},
		{"newConn", calling("~/" + remoteRel + ".remoteDelivery.newConn"), "connectionForDomain"},
	}
	for _, ch := range chain {
		cs := callers(ch.pred)
		ok := len(cs) == 1 && cs[ch.caller] >= 1
		var names []string
		for n := range cs {
			names = append(names, n)
		}
		c.Hold("R1", ch.name, token.NoPos, ok, ch.name+" is called from "+strings.Join(names, ",")+" (expected only "+ch.caller+"): a connection could be opened around the policy checks")
	}

	// ---- R2 policy loops bracket the connect
	c.Rule("R2", "attemptMX: the complete policy list runs CheckMX before the dial and CheckConn after it; an error returns without a usable connection; levels are per-attempt and stored only after all checks passed", 5)
	if r := c.need("R2", remoteRel, "remoteDelivery", "attemptMX"); r != nil {
		isConnect := calling("~/" + remoteRel + ".remoteDelivery.connect")
		conn := r.Calls(isConnect)
		if len(conn) != 1 {
			c.Fail("R2", "attemptMX:connect", r.FI.Decl.Pos(), "undecided: expected exactly one connect call")
		} else {
			policyLoop := func(method string) (*ElemLoop, *ast.CallExpr) {
				var rs *ElemLoop
				var pc *ast.CallExpr
				for _, l := range elemLoops(r.Info, r.FI.Decl.Body, func(e ast.Expr) bool { return isField(r.Info, e, "remoteDelivery", "policies") }) {
					if !l.Whole {
						continue
					}
					l := l
					ast.Inspect(l.Body, func(n ast.Node) bool {
						if call, ok := n.(*ast.CallExpr); ok && methodName(call) == method && l.IsElem(callRecv(call)) {
							rs, pc = l, call
						}
						return true
					})
				}
				return rs, pc
			}
			for _, m := range []string{"CheckMX", "CheckConn"} {
				rs, pcall := policyLoop(m)
				key := "attemptMX:" + m
				if rs == nil {
					c.Hold("R2", key, r.FI.Decl.Pos(), false, "no loop over the delivery's policy list calling "+m)
					continue
				}
				msg := ""
				// complete: no break/continue/goto before the call in the body; the call's error returns
				inspectNoLit(rs.Body, func(x ast.Node) bool {
					if b, ok := x.(*ast.BranchStmt); ok && b.Pos() < pcall.Pos() {
						msg = "the policy loop can skip a policy (" + b.Tok.String() + " before " + m + ")"
					}
					return true
				})
				ppt, _ := r.F.PtOf(pcall.Pos())
				// loop completion point: RangeDone
				done := r.F.LoopDone(rs)
				if m == "CheckMX" {
					if ok, w := r.MustPass(r.Entry(), true, isPt(conn), isPt(done)); !ok {
						msg = "the dial is reachable without the MX checks having completed: " + w
					}
				} else {
					if ok, w := r.MustPass(conn, false, r.IsSuccessReturn, isPt(done)); !ok {
						msg = "attemptMX can succeed without the connection checks having completed: " + w
					}
				}
				found, w, decided := r.OnErr(ppt, pcall, false, orPt(r.IsSuccessReturn, isPt(conn)), nil)
				if !decided {
					msg = "the error of " + m + " is dropped"
				} else if found {
					msg = "after " + m + " failed the function still dials or reports success: " + w
				}
				if m == "CheckConn" && msg == "" {
					// the connection is closed on failure
					closeCall := func(pt Pt) bool {
						for _, call := range callsAt(pt.Node()) {
							if methodName(call) == "Close" || methodName(call) == "DirectClose" {
								return true
							}
						}
						return false
					}
					if f2, w2, _ := r.OnErr(ppt, pcall, false, r.IsNormalExit, closeCall); f2 {
						msg = "a connection that failed a policy check is left open and attached to the delivery: " + w2
					}
				}
				c.Hold("R2", key, rs.Stmt.Pos(), msg == "", msg)
			}
			// levels: stores to conn.mxLevel / conn.tlsLevel only after the CheckConn loop completed
			rsC, _ := policyLoop("CheckConn")
			stores := r.Assigns(func(l, _ ast.Expr) bool {
				return isField(r.Info, l, "mxConn", "mxLevel") || isField(r.Info, l, "mxConn", "tlsLevel")
			})
			msg := ""
			if len(stores) < 2 {
				msg = "the levels established for the connection are not recorded"
			}
			if rsC != nil {
				done := r.F.LoopDone(rsC)
				for _, st := range stores {
					if ok, w := r.MustPass(r.Entry(), true, isPt([]Pt{st}), isPt(done)); !ok {
						msg = "a security level is recorded on the connection before all policy checks passed (it survives a failed attempt and is inherited by the next MX candidate): " + w
					}
				}
			}
			c.Hold("R2", "attemptMX:levels-after-checks", r.FI.Decl.Pos(), msg == "", msg)
			// the recorded values are locals of this attempt
			okLocal := true
			for _, st := range stores {
				as := st.Node().(*ast.AssignStmt)
				for i := range as.Lhs {
					if i < len(as.Rhs) {
						o := objOf(r.Info, as.Rhs[i])
						v, isVar := o.(*types.Var)
						if !isVar || v.IsField() || v.Parent() == nil {
							okLocal = false
						}
					}
				}
			}
			c.Hold("R2", "attemptMX:levels-per-attempt", r.FI.Decl.Pos(), okLocal && len(stores) >= 2, "the recorded levels are not local results of this attempt")
			// no other function stores the levels
			other := ""
			p.AllFuncs([]*packagesPkg{pk}, func(fi *FuncInfo) {
				if refName(fi.Obj) == "attemptMX" {
					return
				}
				ast.Inspect(fi.Decl.Body, func(n ast.Node) bool {
					if as, ok := n.(*ast.AssignStmt); ok {
						for _, l := range as.Lhs {
							if isField(fi.Info(), l, "mxConn", "mxLevel") || isField(fi.Info(), l, "mxConn", "tlsLevel") {
								other = fi.Name()
							}
						}
					}
					return true
				})
			})
			c.Hold("R2", "levels-only-from-attemptMX", token.NoPos, other == "", "security levels of a connection are also written in "+other)
		}
	}

	c05Override(c)

	// ---- R3b: where the override comes from
	c.Rule("R3b", "the message flag that lets the policies be skipped (TLSRequireOverride) is set only on the edge where the message's TLS-Required header field equals No (RFC 8689) – nowhere else in the server", 2)
	{
		nStores := 0
		p.AllFuncs(p.ServerPkgs(), func(fi *FuncInfo) {
			if strings.HasSuffix(p.Fset.Position(fi.Decl.Pos()).Filename, "_test.go") {
				return
			}
			inf := fi.Info()
			var stores []ast.Node
			ast.Inspect(fi.Decl.Body, func(n ast.Node) bool {
				if as, ok := n.(*ast.AssignStmt); ok {
					for _, l := range as.Lhs {
						if isField(inf, l, "MsgMetadata", "TLSRequireOverride") {
							stores = append(stores, as)
						}
					}
				}
				return true
			})
			if len(stores) == 0 {
				return
			}
			r := c.CtxOf(fi)
			for i, st := range stores {
				nStores++
				as := st.(*ast.AssignStmt)
				key := fi.Name() + ":override-store" + itoa(i+1)
				// a copy of the same flag from another metadata object is not an origin
				if len(as.Rhs) == 1 && mentionsField(inf, as.Rhs[0], "TLSRequireOverride") {
					c.Hold("R3b", key, as.Pos(), true, "")
					continue
				}
				pt, found := r.F.PtOf(as.Pos())
				if !found {
					c.Fail("R3b", key, as.Pos(), "undecided: store not located in the flow graph")
					continue
				}
				w := r.F.World(func(atom ast.Expr) (bool, bool) {
					// strings.EqualFold(<header>.Get("TLS-Required"), "No")  /  <…> == "No"
					isHdr := func(e ast.Expr) bool {
						call, ok := ast.Unparen(e).(*ast.CallExpr)
						if !ok || methodName(call) != "Get" || len(call.Args) != 1 {
							return false
						}
						sv, ok := constString(inf, call.Args[0])
						return ok && strings.EqualFold(sv, "TLS-Required")
					}
					isNo := func(e ast.Expr) bool { sv, ok := constString(inf, e); return ok && strings.EqualFold(sv, "no") }
					if call, ok := ast.Unparen(atom).(*ast.CallExpr); ok && isCall(inf, call, "strings.EqualFold") && len(call.Args) == 2 {
						if (isHdr(call.Args[0]) && isNo(call.Args[1])) || (isHdr(call.Args[1]) && isNo(call.Args[0])) {
							return false, true
						}
					}
					if be, ok := ast.Unparen(atom).(*ast.BinaryExpr); ok && (be.Op == token.EQL || be.Op == token.NEQ) {
						if (isHdr(be.X) && isNo(be.Y)) || (isHdr(be.Y) && isNo(be.X)) {
							return be.Op == token.NEQ, true
						}
					}
					return false, false
				})
				// the world in which the header does not say "No": the store of `true` must be unreachable
				setsTrue := true
				if len(as.Rhs) == 1 {
					if tv, ok := inf.Types[as.Rhs[0]]; ok && tv.Value != nil && tv.Value.String() == "false" {
						setsTrue = false
					}
				}
				path, f := r.F.Reach(Query{From: r.Entry(), Inclusive: true, Target: func(q Pt) bool { return q == pt }, AvoidEdge: w})
				c.Hold("R3b", key, as.Pos(), !setsTrue || !f, "the override flag is set although the message does not carry `TLS-Required: No`: with the administrator's opt-in every such message is sent without MX/TLS policy checks: "+r.F.Describe(path))
			}
		})
		if nStores < 2 {
			c.Fail("R3b", "override-stores", token.NoPos, "undecided: expected the stores of the override flag in the SMTP and LMTP data handlers")
		}
	}

	// ---- R5 REQUIRETLS
	c.Rule("R5", "connectionForDomain: with REQUIRETLS the pooled connection is ignored and both level comparisons (TLS authenticated, MX authenticated) dominate MAIL, failing closed", 3)
	c.Rule("R5b", "the remote target does not modify message-wide metadata per destination", 1)
	if r := c.need("R5", remoteRel, "remoteDelivery", "connectionForDomain"); r != nil {
		mail := r.Calls(calling("~/internal/smtpconn.C.Mail"))
		isReqTLS := func(e ast.Expr) bool {
			s, ok := ast.Unparen(e).(*ast.SelectorExpr)
			return ok && s.Sel.Name == "RequireTLS"
		}
		// level comparisons
		type cmp struct {
			field string
			level string
		}
		for _, cp := range []cmp{{"tlsLevel", "TLSAuthenticated"}, {"mxLevel", "MX_MTASTS"}} {
			// in the REQUIRETLS world: remove edges establishing RequireTLS false, and edges establishing "level < required" false... i.e.
			// MAIL must be unreachable when RequireTLS is true and the level is below the requirement.
			mkWorld := func(g *RuleCtx) func(b *cfgBlock, i int) bool {
				return func(b *cfgBlock, i int) bool {
					cond, isCase := g.F.Cond(b)
					if cond == nil || isCase {
						return false
					}
					for _, af := range atomsOnEdge(cond, i) {
						if isReqTLS(af.E) && !af.T {
							return true
						}
						if be, ok := ast.Unparen(af.E).(*ast.BinaryExpr); ok && isField(g.Info, be.X, "mxConn", cp.field) {
							if s, ok := ast.Unparen(be.Y).(*ast.SelectorExpr); ok && s.Sel.Name == cp.level {
								truth := map[token.Token]bool{token.LSS: true, token.LEQ: true, token.NEQ: true, token.GEQ: false, token.GTR: false, token.EQL: false}
								if t, ok := truth[be.Op]; ok && t != af.T {
									return true
								}
							}
						}
					}
					return false
				}
			}
			avoid := func(b *cfgBlock, i int) bool {
				cond, isCase := r.F.Cond(b)
				if cond == nil || isCase {
					return false
				}
				for _, af := range atomsOnEdge(cond, i) {
					if isReqTLS(af.E) && !af.T {
						return true
					}
					if be, ok := ast.Unparen(af.E).(*ast.BinaryExpr); ok && isField(r.Info, be.X, "mxConn", cp.field) {
						if s, ok := ast.Unparen(be.Y).(*ast.SelectorExpr); ok && s.Sel.Name == cp.level {
							// world: level is just below the requirement ⇒ `x < L` true, `x >= L` false, `x == L` false…
							truth := map[token.Token]bool{token.LSS: true, token.LEQ: true, token.NEQ: true, token.GEQ: false, token.GTR: false, token.EQL: false}
							if t, ok := truth[be.Op]; ok && t != af.T {
								return true
							}
						}
					}
				}
				return false
			}
			sawCmp := false
			seeCmp := func(info *types.Info, body ast.Node) {
				ast.Inspect(body, func(n ast.Node) bool {
					if be, ok := n.(*ast.BinaryExpr); ok && isField(info, be.X, "mxConn", cp.field) {
						if s, ok := ast.Unparen(be.Y).(*ast.SelectorExpr); ok && s.Sel.Name == cp.level {
							sawCmp = true
						}
					}
					return true
				})
			}
			seeCmp(r.Info, r.FI.Decl.Body)
			for _, call := range callsIn(r.FI.Decl.Body) {
				if fn := callee(r.Info, call); fn != nil && fn.Pkg() == r.FI.Obj.Pkg() {
					if d := c.P.DeclOf(fn); d != nil && d.Decl.Body != nil {
						seeCmp(d.Info(), d.Decl.Body)
					}
				}
			}
			path, f := r.F.Reach(Query{From: r.Entry(), Inclusive: true, Target: isPt(mail), AvoidEdge: orEdge(avoid, r.GateEdges(mkWorld))})
			c.Hold("R5", "connectionForDomain:"+cp.field, r.FI.Decl.Pos(), sawCmp && !f && len(mail) > 0, "with REQUIRETLS and "+cp.field+" below "+cp.level+" the message is still sent: "+r.F.Describe(path))
		}
		// pool bypass: the pooled connection is used only on edges establishing RequireTLS false
		useP := r.Assigns(func(l, rhs ast.Expr) bool {
			if rhs == nil {
				return false
			}
			ta, ok := ast.Unparen(rhs).(*ast.TypeAssertExpr)
			if !ok {
				return false
			}
			o := objOf(r.Info, ta.X)
			if o == nil {
				return false
			}
			def, n := localDef(r.Info, r.FI.Decl.Body, o)
			call, isCall2 := ast.Unparen(def).(*ast.CallExpr)
			return n >= 1 && isCall2 && isCall(r.Info, call, "~/internal/smtpconn/pool.P.Get")
		})
		avoid := r.F.AvoidImplying(func(atom ast.Expr) (bool, bool) {
			if isReqTLS(atom) {
				return false, true
			}
			return false, false
		})
		path, f := r.F.Reach(Query{From: r.Entry(), Inclusive: true, Target: isPt(useP), AvoidEdge: avoid})
		c.Hold("R5", "connectionForDomain:pool-bypass", r.FI.Decl.Pos(), !f && len(useP) > 0, "a pooled connection can be reused for a REQUIRETLS message: "+r.F.Describe(path))
	}
	// R5b: no store through rd.msgMeta in the package
	bad := ""
	var badPos token.Pos
	p.AllFuncs([]*packagesPkg{pk}, func(fi *FuncInfo) {
		ast.Inspect(fi.Decl.Body, func(n ast.Node) bool {
			if as, ok := n.(*ast.AssignStmt); ok {
				for _, l := range as.Lhs {
					root := l
					depth := 0
					for {
						s, ok := ast.Unparen(root).(*ast.SelectorExpr)
						if !ok {
							break
						}
						if s.Sel.Name == "msgMeta" && fieldOf(fi.Info(), s) != nil && depth > 0 {
							bad = "message-wide metadata (" + exprStr(l) + ") is modified while handling one destination in " + fi.Name() + ": the change (e.g. dropping REQUIRETLS for an MX without the extension) silently applies to every later destination of the same message"
							badPos = as.Pos()
						}
						root = s.X
						depth++
					}
				}
			}
			return true
		})
	})
	c.Hold("R5b", "remote:msgMeta-immutable", badPos, bad == "", bad)

	// ---- R6 weakening
	c.Rule("R6", "connect: every weakening of the TLS configuration (skip verification, drop TLS) is accompanied by the matching lowering of the reported level before the retry; without STARTTLS the level is none", 3)
	c.Rule("R6b", "connect never writes the target-wide TLS configuration: a weakened configuration is always a private clone", 1)
	if r := c.need("R6", remoteRel, "remoteDelivery", "connect"); r != nil {
		var levelObj types.Object
		sig := r.FI.Obj.Type().(*types.Signature)
		if sig.Results().Len() > 0 {
			levelObj = sig.Results().At(0)
		}
		levelSet := func(st ast.Stmt, names ...string) bool {
			as, ok := st.(*ast.AssignStmt)
			if !ok || len(as.Lhs) != 1 || objOf(r.Info, as.Lhs[0]) != levelObj {
				return false
			}
			s, ok := ast.Unparen(as.Rhs[0]).(*ast.SelectorExpr)
			if !ok {
				return false
			}
			for _, n := range names {
				if s.Sel.Name == n {
					return true
				}
			}
			return false
		}
		// temporaries that are copied into the level variable (`tlsCfg, tlsLevel = _r1, _r2` after a helper that
		// returns the new pair was read in place): lowering one of them lowers the level
		levelVars := map[types.Object]bool{levelObj: true}
		ast.Inspect(r.FI.Decl.Body, func(n ast.Node) bool {
			if as, ok := n.(*ast.AssignStmt); ok && len(as.Lhs) == len(as.Rhs) {
				for i, l := range as.Lhs {
					if objOf(r.Info, l) == levelObj {
						if id, isId := ast.Unparen(as.Rhs[i]).(*ast.Ident); isId {
							if v, isVar := objOf(r.Info, id).(*types.Var); isVar && !v.IsField() {
								levelVars[v] = true
							}
						}
					}
				}
			}
			return true
		})
		lowers := func(n ast.Node, names ...string) bool {
			as, ok := n.(*ast.AssignStmt)
			if !ok || len(as.Lhs) != len(as.Rhs) {
				return false
			}
			for i, l := range as.Lhs {
				if o := objOf(r.Info, l); o == nil || !levelVars[o] {
					continue
				}
				if sel, ok := ast.Unparen(as.Rhs[i]).(*ast.SelectorExpr); ok {
					for _, nm := range names {
						if sel.Sel.Name == nm {
							return true
						}
					}
				}
			}
			return false
		}
		nWeak := 0
		for _, pt := range r.F.Points() {
			as, ok := pt.Node().(*ast.AssignStmt)
			if !ok || len(as.Lhs) != len(as.Rhs) {
				continue
			}
			for i := range as.Lhs {
				kind := ""
				if sl, ok := ast.Unparen(as.Lhs[i]).(*ast.SelectorExpr); ok && sl.Sel.Name == "InsecureSkipVerify" {
					if tv, ok := r.Info.Types[as.Rhs[i]]; ok && tv.Value != nil && tv.Value.String() == "true" {
						kind = "skip-verify"
					}
				}
				if typeIs(r.Info.TypeOf(as.Lhs[i]), "crypto/tls", "Config") && isNilIdent(r.Info, as.Rhs[i]) {
					kind = "no-tls"
				}
				if kind == "" {
					continue
				}
				nWeak++
				want := []string{"TLSNone"}
				if kind == "skip-verify" {
					want = []string{"TLSEncrypted", "TLSNone"}
				}
				// from the weakening to the next connection attempt (or the end of the function) the level is lowered
				ok2 := lowers(as, want...)
				if !ok2 {
					lowered := func(q Pt) bool { return lowers(q.Node(), want...) }
					next := func(q Pt) bool {
						if r.F.IsExitPt(q) {
							return true
						}
						if n := q.Node(); n != nil {
							for _, call := range callsIn(n) {
								if isCall(r.Info, call, "~/internal/smtpconn.C.Connect") {
									return true
								}
							}
						}
						return false
					}
					_, found := r.F.Reach(Query{From: []Pt{pt}, Target: next, Avoid: lowered})
					ok2 = !found
				}
				c.Hold("R6", "connect:"+kind, as.Pos(), ok2, "the TLS configuration is weakened ("+kind+") but the level reported for the connection is not lowered before retrying: an unauthenticated connection is reported as authenticated")
			}
		}
		if nWeak == 0 {
			c.HoldConst("R6", "connect:no-weakening", r.FI.Decl.Pos(), true, "")
		}
		// no STARTTLS ⇒ TLSNone: the else branch of the STARTTLS test sets TLSNone
		okElse := false
		ast.Inspect(r.FI.Decl.Body, func(n ast.Node) bool {
			if is, ok := n.(*ast.IfStmt); ok && is.Else != nil {
				if eb, ok := is.Else.(*ast.BlockStmt); ok {
					for _, st := range eb.List {
						if levelSet(st, "TLSNone") {
							okElse = true
						}
					}
				}
			}
			return true
		})
		c.Hold("R6", "connect:no-starttls-is-none", r.FI.Decl.Pos(), okElse, "when STARTTLS is not offered/used the reported level is not set to none")
		// R6b
		c05SharedTLS(c, r)
	}

	c05Quarantine(c)
	_ = info
	// ---- R7: a TLSA lookup failure defers the delivery instead of silently switching DANE off – C13's rules on the
	// discovery and on CheckConn, re-evaluated here because they are a clause of this property
	c.Rule("R7", "a failed TLSA lookup (other than 'no such record') defers the delivery: the discovery returns the error, CheckConn turns it into a temporary failure (C13.R4 lookup-failure-defers, C13.R5)", 4)
	sub := newCheck("C13", c.P, c.Tier)
	checkC13(sub)
	for _, o := range sub.obs {
		if o.Rule == "R5" || (o.Rule == "R4" && strings.Contains(o.Key, "lookup-failure")) {
			c.Hold("R7", o.Rule+":"+o.Key, o.posRaw, o.OK, o.Msg)
		}
	}
	// R7b: "authenticated as required" with DANE is what verifyDANE / CheckConn decide: the level granted to the
	// connection (and compared by local_policy and REQUIRETLS) is authenticated only over a match of the server's own
	// certificate. The rest of C13's rules, evaluated here as a clause of this property.
	c.Rule("R7b", "the DANE verdict that raises a connection to 'authenticated' needs a match of the server's own certificate against a usable authenticated record (C13.R1–R4, R6)", 10)
	for _, o := range sub.obs {
		if len(o.Rule) >= 2 && o.Rule[0] == 'R' && !(o.Rule == "R5" || (o.Rule == "R4" && strings.Contains(o.Key, "lookup-failure"))) {
			c.Hold("R7b", o.Rule+":"+o.Key, o.posRaw, o.OK, o.Msg)
		}
	}
	for f := range sub.funcs {
		c.SawFunc(f)
	}
	// R8b: the quarantine flag reaches the target. It is written to the message metadata in the body stage, after every
	// target's Start; a target in between (the queue) that copied the metadata at Start would hand the remote target a
	// snapshot from before the verdict. C06.R5, a clause of "quarantined messages are never relayed".
	c.Rule("R8b", "no delivery target copies the message metadata at Start: the quarantine verdict written later reaches the remote target through every intermediate target (C06.R5)", 5)
	sub6 := newCheck("C06", c.P, c.Tier)
	c06MetadataIdentity(sub6)
	for _, o := range sub6.obs {
		if o.Rule == "R5" {
			c.Hold("R8b", o.Key, o.posRaw, o.OK, o.Msg)
		}
	}
	c05PerDomainState(c)
	c05ADPerServer(c, "R10")
	c05FuturesByValue(c, "R11")
	c05CloseCloses(c, "R12")
	c05WaitsWithCallersContext(c, "R13")
	c05OverrideDirective(c, "R14")
	c13NoFrozenClock(c, "R15", []string{"internal/target/remote", "internal/smtpconn", "internal/smtpconn/pool", "framework/dns", "framework/future"})
	c13NotFoundIsNXDomainOnly(c, "R16")
	c13PreparedInTheSameAttempt(c, "R17")
}

// R9: a policy's per-message object outlives one destination: the remote target calls PrepareDomain once per
// recipient domain and PrepareConn once per MX candidate on the same object, and CheckMX / CheckConn read what the
// Prepare step left in its fields (the future of the policy fetch, of the TLSA lookup). A Prepare step that can skip
// the assignment because of what an earlier call left there judges the second domain by the first domain's policy.
// Decided: for every field of the receiver a Prepare* method assigns, every path from entry to exit that does not pass
// the assignment crosses a condition that reads only state no method of the type ever assigns (configuration).
func c05PerDomainState(c *Check) {
	p := c.P
	c.Rule("R9", "policy objects: what PrepareDomain / PrepareConn leave in the fields of the per-message object for CheckMX / CheckConn is assigned afresh on every call – a path that skips the assignment is guarded only by configuration, never by the object's own earlier state (one message has several recipient domains and MX candidates)", 2)
	pk := p.Pkg(remoteRel)
	if pk == nil {
		c.Fail("R9", "package", token.NoPos, "anchor unresolved")
		return
	}
	// receiver types with PrepareDomain and PrepareConn and CheckMX and CheckConn
	type methods map[string]*FuncInfo
	byRecv := map[string]methods{}
	p.AllFuncs([]*packagesPkg{pk}, func(fi *FuncInfo) {
		if fi.Decl.Recv == nil {
			return
		}
		rn := recvTypeName(fi.Decl)
		if byRecv[rn] == nil {
			byRecv[rn] = methods{}
		}
		byRecv[rn][refName(fi.Obj)] = fi
	})
	var names []string
	for rn, ms := range byRecv {
		if ms["PrepareDomain"] != nil && ms["PrepareConn"] != nil && ms["CheckMX"] != nil && ms["CheckConn"] != nil {
			names = append(names, rn)
		}
	}
	sort.Strings(names)
	n := 0
	for _, rn := range names {
		ms := byRecv[rn]
		// fields of the receiver assigned by any method of the type
		mutable := map[*types.Var]bool{}
		for _, fi := range ms {
			info := fi.Info()
			ast.Inspect(fi.Decl.Body, func(x ast.Node) bool {
				if as, ok := x.(*ast.AssignStmt); ok {
					for _, l := range as.Lhs {
						if fv := fieldOf(info, l); fv != nil {
							mutable[fv] = true
						}
					}
				}
				return true
			})
		}
		for _, mn := range []string{"PrepareDomain", "PrepareConn"} {
			fi := ms[mn]
			r := c.CtxOf(fi)
			info := r.Info
			var recv types.Object
			if len(fi.Decl.Recv.List) == 1 && len(fi.Decl.Recv.List[0].Names) == 1 {
				recv = info.Defs[fi.Decl.Recv.List[0].Names[0]]
			}
			assigned := map[*types.Var][]Pt{}
			for _, pt := range r.F.Points() {
				as, ok := pt.Node().(*ast.AssignStmt)
				if !ok {
					continue
				}
				for _, l := range as.Lhs {
					sel, isSel := ast.Unparen(l).(*ast.SelectorExpr)
					if fv := fieldOf(info, l); fv != nil && isSel && recv != nil && objOf(info, sel.X) == recv {
						assigned[fv] = append(assigned[fv], pt)
					}
				}
			}
			// conditions that read only configuration
			cfgOnly := func(b *cfgBlock, i int) bool {
				cond, isCase := r.F.Cond(b)
				if cond == nil || isCase {
					return false
				}
				only := true
				ast.Inspect(cond, func(x ast.Node) bool {
					if sel, ok := x.(*ast.SelectorExpr); ok {
						if fv := fieldOf(info, sel); fv != nil && mutable[fv] {
							only = false
						}
					}
					if _, isCall := x.(*ast.CallExpr); isCall {
						only = false
					}
					return only
				})
				return only
			}
			var fields []*types.Var
			for fv := range assigned {
				fields = append(fields, fv)
			}
			sort.Slice(fields, func(i, j int) bool { return fields[i].Pos() < fields[j].Pos() })
			for _, fv := range fields {
				n++
				c.SawFunc(fi.Name())
				path, found := r.F.Reach(Query{From: r.Entry(), Inclusive: true, Target: r.F.IsExitPt, Avoid: isPt(assigned[fv]), AvoidEdge: cfgOnly})
				c.Hold("R9", rn+"."+mn+":"+objName(fv), fi.Decl.Pos(), !found, "the step can return without assigning "+objName(fv)+" afresh, depending on what an earlier call left in the object: the next recipient domain / MX candidate of the same message is judged by the previous one's result (e.g. no MTA-STS policy for the first domain switches enforcement off for the second): "+r.F.Describe(path))
			}
		}
	}
	if n == 0 {
		c.Fail("R9", "policies", token.NoPos, "undecided: no per-message policy object with state found")
	}
}

// c05SharedTLS: every store to a field of a *tls.Config in connect has a base that is a fresh clone; a parameter
// edge is tolerated only where it is provably nil (the parameter is bound at every call site to the same shared
// field whose nil-ness guards the clone).
func c05SharedTLS(c *Check, r *RuleCtx) {
	p := c.P
	f := p.SSAFunc(r.FI.Obj)
	if f == nil {
		c.Fail("R6b", "connect", r.FI.Decl.Pos(), "undecided: no SSA")
		return
	}
	msg := ""
	n := 0
	var fresh func(v ssa.Value, seen map[ssa.Value]bool) string
	fresh = func(v ssa.Value, seen map[ssa.Value]bool) string {
		if seen[v] {
			return ""
		}
		seen[v] = true
		switch x := v.(type) {
		case *ssa.Call:
			if strings.HasSuffix(ssaCalleeName(&x.Call), "tls.Config.Clone") {
				return ""
			}
			return "result of " + ssaCalleeName(&x.Call)
		case *ssa.Alloc:
			return ""
		case *ssa.Const:
			return "" // nil
		case *ssa.Phi:
			for i, e := range x.Edges {
				if prm, ok := e.(*ssa.Parameter); ok {
					if fv := paramBoundToField(p, prm); fv != nil && phiEdgeFieldNil(x, i, fv) {
						continue // on this edge the shared field – hence the parameter – is nil
					}
				}
				if s := fresh(e, seen); s != "" {
					return s
				}
			}
			return ""
		case *ssa.Parameter:
			return "parameter " + x.Name() + " (the caller's configuration object)"
		case *ssa.UnOp:
			if fa, ok := x.X.(*ssa.FieldAddr); ok {
				if fv := fieldVarOf(fa); fv != nil {
					return "shared field " + objName(fv)
				}
			}
			if al, ok := x.X.(*ssa.Alloc); ok {
				// local cell: all stores
				for _, ref := range *al.Referrers() {
					if st, ok := ref.(*ssa.Store); ok && st.Addr == ssa.Value(al) {
						if s := fresh(st.Val, seen); s != "" {
							return s
						}
					}
				}
				return ""
			}
		}
		return "value " + v.String()
	}
	var visit func(fn *ssa.Function)
	visit = func(fn *ssa.Function) {
		for _, b := range fn.Blocks {
			for _, ins := range b.Instrs {
				st, ok := ins.(*ssa.Store)
				if !ok {
					continue
				}
				fa, ok := st.Addr.(*ssa.FieldAddr)
				if !ok || !typeIs(fa.X.Type(), "crypto/tls", "Config") {
					continue
				}
				n++
				if s := fresh(fa.X, map[ssa.Value]bool{}); s != "" && msg == "" {
					fv := fieldVarOf(fa)
					name := "?"
					if fv != nil {
						name = objName(fv)
					}
					msg = "tls.Config." + name + " is written on an object that is not a private clone (" + s + "): the weakening persists in the target-wide configuration and every later connection skips certificate verification while still being reported as authenticated"
				}
			}
		}
		for _, a := range fn.AnonFuncs {
			visit(a)
		}
	}
	visit(f)
	c.Hold("R6b", "connect:shared-config", r.FI.Decl.Pos(), msg == "" && n > 0, msg)
}

// paramBoundToField: at every call site (in the same package) the argument for prm is a load of one struct field.
func paramBoundToField(p *Prog, prm *ssa.Parameter) *types.Var {
	fn := prm.Parent()
	idx := -1
	for i, q := range fn.Params {
		if q == prm {
			idx = i
		}
	}
	if idx < 0 {
		return nil
	}
	var bound *types.Var
	n := 0
	for _, g := range p.MaddyFuncs() {
		if g.Pkg != fn.Pkg {
			continue
		}
		for _, b := range g.Blocks {
			for _, ins := range b.Instrs {
				ci, ok := ins.(ssa.CallInstruction)
				if !ok || ci.Common().StaticCallee() != fn {
					continue
				}
				n++
				args := ci.Common().Args
				if idx >= len(args) {
					return nil
				}
				u, ok := args[idx].(*ssa.UnOp)
				if !ok {
					return nil
				}
				fa, ok := u.X.(*ssa.FieldAddr)
				if !ok {
					return nil
				}
				fv := fieldVarOf(fa)
				if fv == nil || (bound != nil && bound != fv) {
					return nil
				}
				bound = fv
			}
		}
	}
	if n == 0 {
		return nil
	}
	return bound
}

// phiEdgeFieldNil: edge i of phi comes from a block that branches on `<field fv> != nil` / `== nil`, taking the nil side.
func phiEdgeFieldNil(phi *ssa.Phi, i int, fv *types.Var) bool {
	pred := phi.Block().Preds[i]
	if len(pred.Instrs) == 0 {
		return false
	}
	ifi, ok := pred.Instrs[len(pred.Instrs)-1].(*ssa.If)
	if !ok {
		return false
	}
	b, ok := ifi.Cond.(*ssa.BinOp)
	if !ok || (b.Op != token.EQL && b.Op != token.NEQ) {
		return false
	}
	isFieldLoad := func(v ssa.Value) bool {
		u, ok := v.(*ssa.UnOp)
		if !ok {
			return false
		}
		fa, ok := u.X.(*ssa.FieldAddr)
		return ok && fieldVarOf(fa) == fv
	}
	if !((isFieldLoad(b.X) && isNilConst(b.Y)) || (isFieldLoad(b.Y) && isNilConst(b.X))) {
		return false
	}
	nilSucc := 0
	if b.Op == token.NEQ {
		nilSucc = 1
	}
	return pred.Succs[nilSucc] == phi.Block()
}

// c05Quarantine: R8 (also evaluated by C06)
func c05Quarantine(c *Check) {
	// ---- R8 quarantine
	c.Rule("R8", "a quarantined message reaches no network-sending call in AddRcpt / BodyNonAtomic", 2)
	for _, m := range []string{"AddRcpt", "BodyNonAtomic"} {
		r := c.need("R8", remoteRel, "remoteDelivery", m)
		if r == nil {
			continue
		}
		isSend := calling("~/"+remoteRel+".remoteDelivery.connectionForDomain", "~/internal/smtpconn.C.Rcpt", "~/internal/smtpconn.C.Data", "~/internal/smtpconn.C.Mail")
		sendsVia := func(call *ast.CallExpr) bool {
			if isSend(r.Info, call) {
				return true
			}
			if fn := callee(r.Info, call); fn != nil && fn.Pkg() == r.FI.Obj.Pkg() && fn != r.FI.Obj {
				return c.P.reachesCall(c.P.DeclOf(fn), isSend, 2)
			}
			return false
		}
		sending := func(pt Pt) bool {
			for _, call := range callsAt(pt.Node()) {
				if sendsVia(call) {
					return true
				}
			}
			// goroutines that send (closure body or a method started with go)
			if g, ok := pt.Node().(*ast.GoStmt); ok {
				found := sendsVia(g.Call)
				ast.Inspect(g, func(x ast.Node) bool {
					if call, ok := x.(*ast.CallExpr); ok && sendsVia(call) {
						found = true
					}
					return true
				})
				return found
			}
			return false
		}
		avoid := r.F.AvoidImplying(func(atom ast.Expr) (bool, bool) {
			if s, ok := ast.Unparen(atom).(*ast.SelectorExpr); ok && s.Sel.Name == "Quarantine" {
				return false, true // remove "not quarantined" edges
			}
			return false, false
		})
		path, f := r.F.Reach(Query{From: r.Entry(), Inclusive: true, Target: sending, AvoidEdge: avoid})
		any := len(r.F.Find(func(n ast.Node) bool { return sending(ptOfNode(r.F, n)) })) > 0
		c.Hold("R8", "remoteDelivery."+m, r.FI.Decl.Pos(), !f && any, "a quarantined message can reach a sending call: "+r.F.Describe(path))
	}
}

// c05Override: R3 / R4 (also evaluated by C13: a connection opened without the policy list – DANE never judged it –
// must not come back from the pool for an ordinary message)
func c05Override(c *Check) {
	p := c.P
	pk := p.Pkg(remoteRel)
	if pk == nil {
		return
	}
	info := pk.TypesInfo
	_ = info
	callers := func(pred CallPred) map[string]int {
		out := map[string]int{}
		p.AllFuncs([]*packagesPkg{pk}, func(fi *FuncInfo) {
			ast.Inspect(fi.Decl.Body, func(n ast.Node) bool {
				if call, ok := n.(*ast.CallExpr); ok && pred(fi.Info(), call) {
					out[refName(fi.Obj)]++
				}
				return true
			})
		})
		return out
	}
	// ---- R3 policy list is the configured list ; R4 override connections are not pooled
	c.Rule("R3", "Target.Start starts every configured policy unless the TLS-Required override applies (message flag and administrator opt-in)", 1)
	c.Rule("R4", "a connection opened without the policy list (override) is never returned to the pool", 2)
	var overrideFields []*types.Var
	if r := c.need("R3", remoteRel, "Target", "Start"); r != nil {
		var loops []*ElemLoop
		for _, l := range elemLoops(r.Info, r.FI.Decl.Body, func(e ast.Expr) bool { return isField(r.Info, e, "Target", "policies") }) {
			if l.Whole {
				loops = append(loops, l)
			}
		}
		msg := ""
		if len(loops) != 1 {
			msg = "undecided: expected one loop over the configured policies"
		} else {
			// enclosing if conditions
			var conds []ast.Expr
			ast.Inspect(r.FI.Decl.Body, func(n ast.Node) bool {
				if is, ok := n.(*ast.IfStmt); ok && posIn(is.Body, loops[0].Stmt.Pos()) {
					conds = append(conds, is.Cond)
				}
				return true
			})
			if len(conds) > 1 {
				msg = "the policy list is skipped under more than one condition"
			}
			for _, cd := range conds {
				// a local flag defined once stands for its definition
				var ex ast.Node = cd
				ast.Inspect(cd, func(n ast.Node) bool {
					if id, ok := n.(*ast.Ident); ok {
						if o, ok := r.Info.Uses[id].(*types.Var); ok && !o.IsField() {
							if def, n := localDef(r.Info, r.FI.Decl.Body, o); n == 1 && def != nil {
								ex = def
							}
						}
					}
					return true
				})
				if !(mentionsField(r.Info, ex, "TLSRequireOverride") && mentionsField(r.Info, ex, "allowSecOverride")) {
					msg = "the policy list is skipped on a condition other than TLSRequireOverride && allowSecOverride: " + exprStr(cd)
				} else {
					// both are needed: with only one of the two set the enclosing condition must let the policies run
					for _, only := range []string{"TLSRequireOverride", "allowSecOverride"} {
						var val func(atom ast.Expr) (bool, bool)
						val = func(atom ast.Expr) (bool, bool) {
							atom = ast.Unparen(atom)
							if sx, ok := atom.(*ast.SelectorExpr); ok && fieldOf(r.Info, sx) != nil {
								switch sx.Sel.Name {
								case "TLSRequireOverride", "allowSecOverride":
									return sx.Sel.Name == only, true
								}
							}
							if id, ok := atom.(*ast.Ident); ok {
								if o, ok := r.Info.Uses[id].(*types.Var); ok && !o.IsField() {
									if def, n := localDef(r.Info, r.FI.Decl.Body, o); n == 1 && def != nil {
										return evalBoolUnder(def, val)
									}
								}
							}
							return false, false
						}
						if v, known := evalBoolUnder(cd, val); !known || !v {
							msg = "the security policies are skipped with only " + only + " set (both the message's TLS-Required: No and the administrator's opt-in are required): " + exprStr(cd)
						}
					}
				}
			}
			inspectNoLit(loops[0].Body, func(x ast.Node) bool {
				if b, ok := x.(*ast.BranchStmt); ok {
					msg = "the loop over configured policies can skip one (" + b.Tok.String() + ")"
				}
				return true
			})
		}
		c.Hold("R3", "Target.Start:policies", r.FI.Decl.Pos(), msg == "", msg)
		// fields of remoteDelivery set from the override condition in the returned literal
		ast.Inspect(r.FI.Decl.Body, func(n ast.Node) bool {
			cl, ok := n.(*ast.CompositeLit)
			if !ok || namedOf(r.Info.TypeOf(cl)) == nil || objName(namedOf(r.Info.TypeOf(cl)).Obj()) != "remoteDelivery" {
				return true
			}
			for _, el := range cl.Elts {
				kv, ok := el.(*ast.KeyValueExpr)
				if !ok {
					continue
				}
				val := kv.Value
				if o := objOf(r.Info, val); o != nil {
					if def, n := localDef(r.Info, r.FI.Decl.Body, o); n == 1 && def != nil {
						val = def
					}
				}
				if mentionsField(r.Info, val, "TLSRequireOverride") && mentionsField(r.Info, val, "allowSecOverride") {
					if id, ok := kv.Key.(*ast.Ident); ok {
						if fv, ok := r.Info.Uses[id].(*types.Var); ok {
							overrideFields = append(overrideFields, fv)
						}
					}
				}
			}
			return true
		})
	}
	// R4: every pool.Return in the package is unreachable once the edges "not overridden" are removed
	isReturn := calling("~/internal/smtpconn/pool.P.Return")
	nRet := 0
	p.AllFuncs([]*packagesPkg{pk}, func(fi *FuncInfo) {
		r := &RuleCtx{C: c, FI: fi, F: p.FlowOfFunc(fi), Info: fi.Info()}
		for _, pt := range r.Calls(isReturn) {
			nRet++
			c.SawFunc(fi.Name())
			msg := ""
			if len(overrideFields) == 0 {
				msg = "connections opened for a `TLS-Required: No` message (no policy evaluated, possibly plaintext) are returned to the pool and handed to later messages for the same domain without any policy check: the delivery does not even record that it ran under the override"
			} else {
				avoid := r.F.AvoidImplying(func(atom ast.Expr) (bool, bool) {
					if fv := fieldOf(r.Info, atom); fv != nil {
						for _, of := range overrideFields {
							if fv == of {
								return false, true // edges establishing "override is false"
							}
						}
					}
					return false, false
				})
				if path, f := r.F.Reach(Query{From: r.Entry(), Inclusive: true, Target: isPt([]Pt{pt}), AvoidEdge: avoid}); f {
					msg = "a connection can be returned to the pool although the delivery ran under the TLS-Required override (no policy was evaluated for it): " + r.F.Describe(path)
				}
			}
			c.Hold("R4", fi.Name()+":pool.Return", r.Pos(pt), msg == "", msg)
		}
	})
	if nRet == 0 {
		c.HoldConst("R4", "remote:no-pooling", token.NoPos, true, "")
	}
	// pooled connections are taken only in connectionForDomain
	gets := callers(calling("~/internal/smtpconn/pool.P.Get"))
	c.Hold("R4", "pool.Get:callers", token.NoPos, len(gets) == 1 && gets["connectionForDomain"] == 1, "pooled connections are taken outside connectionForDomain")

}


// c05ADPerServer: the DNSSEC "authenticated data" bit is the only thing MX_DNSSEC, DANE and min_mx_level dnssec rest
// on, and it is believed only from a resolver on the loopback interface (the channel to any other resolver can be
// tampered with). The resolver list has several entries and a later one answers when an earlier one does not: the
// decision must be made for the server the response came from.
func c05ADPerServer(c *Check, rule string) {
	c.Rule(rule, "extended resolver: a response is handed on with its AD bit intact only under a loopback test of the very server it was obtained from – evaluated in the world where that server is not a loopback address, every successful return of the response passes `AuthenticatedData = false`", 1)
	r := c.need(rule, "framework/dns", "ExtResolver", "exchange")
	if r == nil {
		return
	}
	info := r.Info
	msg := "undecided: no exchange with a server of the configured list inside a loop"
	n := 0
	for _, l := range elemLoops(info, r.FI.Decl.Body, func(e ast.Expr) bool {
		sl, ok := info.TypeOf(e).Underlying().(*types.Slice)
		return ok && isStringType(sl.Elem())
	}) {
		l := l
		elem := l.ElemObj()
		mentionsElem := func(e ast.Node) bool {
			found := false
			ast.Inspect(e, func(x ast.Node) bool {
				if ex, ok := x.(ast.Expr); ok && l.IsElem(ex) {
					found = true
				}
				return !found
			})
			return found || (elem != nil && mentions(info, e, elem))
		}
		for _, pt := range r.F.Points() {
			as, ok := pt.Node().(*ast.AssignStmt)
			if !ok || len(as.Rhs) != 1 || !posIn(l.Body, as.Pos()) {
				continue
			}
			call, ok := ast.Unparen(as.Rhs[0]).(*ast.CallExpr)
			if !ok || !containsFold(methodName(call), "exchange") || !mentionsElem(call) || len(as.Lhs) < 2 {
				continue
			}
			resp := objOf(info, as.Lhs[0])
			if resp == nil {
				continue
			}
			n++
			msg = ""
			clears := func(q Pt) bool {
				a2, ok := q.Node().(*ast.AssignStmt)
				if !ok || len(a2.Lhs) != 1 || len(a2.Rhs) != 1 {
					return false
				}
				sel, ok := ast.Unparen(a2.Lhs[0]).(*ast.SelectorExpr)
				if !ok || sel.Sel.Name != "AuthenticatedData" || objOf(info, sel.X) != resp {
					return false
				}
				tv, has := info.Types[a2.Rhs[0]]
				return has && tv.Value != nil && tv.Value.String() == "false"
			}
			errObj := errVarAssigned(info, as, call)
			// the world: this exchange succeeded, and the server is not a loopback address
			remote := r.F.World(func(atom ast.Expr) (bool, bool) {
				atom = ast.Unparen(atom)
				if call, ok := atom.(*ast.CallExpr); ok && len(call.Args) == 1 && containsFold(exprStr(call.Fun), "loopback") && mentionsElem(call.Args[0]) {
					return false, true
				}
				if be, ok := atom.(*ast.BinaryExpr); ok && errObj != nil && (be.Op == token.EQL || be.Op == token.NEQ) && objOf(info, be.X) == errObj && isNilIdent(info, be.Y) {
					return be.Op == token.EQL, true
				}
				return false, false
			})
			// … and stays a success: a later failure recorded in the same error variable is not a hand-over
			failsLater := func(q Pt) bool {
				a2, ok := q.Node().(*ast.AssignStmt)
				if !ok || q == pt || errObj == nil || len(a2.Lhs) != len(a2.Rhs) {
					return false
				}
				for i, lh := range a2.Lhs {
					if objOf(info, lh) == errObj && nonNilErrExpr(info, a2.Rhs[i]) {
						return true
					}
				}
				return false
			}
			handsOn := func(q Pt) bool {
				_, ret := r.F.Exit(q)
				if ret == nil || len(ret.Results) == 0 {
					return false
				}
				return objOf(info, ret.Results[0]) == resp
			}
			redefined := func(q Pt) bool { return q != pt && q.Node() != nil && assignsObj(info, q.Node(), resp) }
			if path, f := r.F.Reach(Query{From: []Pt{pt}, Target: handsOn, Avoid: func(q Pt) bool { return clears(q) || redefined(q) || failsLater(q) }, AvoidEdge: remote}); f {
				msg = "the response of a server that is not on the loopback interface can be returned with its AD bit as received (the loopback decision is not made for the server that answered): a forged AD=1 from a fallback resolver makes the MX count as DNSSEC-authenticated and its TLSA records as usable: " + r.F.Describe(path)
			}
		}
	}
	c.Hold(rule, "ExtResolver.exchange:ad-per-server", r.FI.Decl.Pos(), msg == "" && n > 0, msg)
}


// c05FuturesByValue: one policy object serves every recipient domain and every MX candidate of a message. A lookup
// started by Prepare* completes a future; the verdict for a domain / connection is read from the future in a field of
// the object. The goroutine must complete the future its own call created – held in a local – and not whatever the
// field points to when the lookup is done: if the step between Prepare* and Check* fails (MX lookup error, connection
// refused) the next Prepare* has replaced the field, the late lookup then decides the NEXT domain's / MX's verdict and
// that one's own result is dropped ("Future.Set called multiple times").
func c05FuturesByValue(c *Check, rule string) {
	c.Rule(rule, "policy lookups complete the future created by their own call: a goroutine never completes a future it reads from a field of the shared policy object at completion time when the enclosing method (re)installs that field", 2)
	p := c.P
	const futPkg = modPath + "/framework/future"
	n := 0
	for _, fi := range funcsOfPkgs(p, remoteRel) {
		info := fi.Info()
		inspectNoLit(fi.Decl.Body, func(x ast.Node) bool {
			g, ok := x.(*ast.GoStmt)
			if !ok {
				return true
			}
			lit, ok := g.Call.Fun.(*ast.FuncLit)
			if !ok {
				return true
			}
			ast.Inspect(lit.Body, func(y ast.Node) bool {
				call, ok := y.(*ast.CallExpr)
				if !ok || !isCall(info, call, futPkg+".Future.Set") {
					return true
				}
				n++
				c.SawFunc(fi.Name())
				recv := callRecv(call)
				key := fi.Name() + ":set:" + exprStr(recv)
				if fv := fieldOf(info, recv); fv != nil {
					// the field is (re)installed by the enclosing function: a later call replaces it while this lookup runs
					reinstalled := false
					ast.Inspect(fi.Decl.Body, func(z ast.Node) bool {
						if as, ok := z.(*ast.AssignStmt); ok {
							for _, l := range as.Lhs {
								if fieldOf(info, l) == fv {
									reinstalled = true
								}
							}
						}
						return true
					})
					c.Hold(rule, key, call.Pos(), !reinstalled, "the lookup goroutine completes `"+exprStr(recv)+"`, read when the lookup is done, while "+refName(fi.Obj)+" installs a new future there on every call: when the step after it fails before the verdict is read (MX lookup error, connection refused), the next call has replaced the field – this lookup's result then decides the NEXT domain's / MX's verdict and that one's own result is dropped (an enforced MTA-STS policy or TLSA set is silently not applied)")
					return true
				}
				v, isVar := objOf(info, recv).(*types.Var)
				okLocal := isVar && !v.IsField() && localIn(fi.Decl.Body, v) && !localIn(lit, v) && !assignedMoreThanOnce(info, fi.Decl.Body, v)
				c.Hold(rule, key, call.Pos(), okLocal, "the future completed by the lookup goroutine is not a local of this call assigned exactly once")
				return true
			})
			return true
		})
	}
	if n < 2 {
		c.Fail(rule, "lookups", token.NoPos, "undecided: fewer than two asynchronous policy lookups found in the remote target")
	}
}

func assignedMoreThanOnce(info *types.Info, body ast.Node, v types.Object) bool {
	n := 0
	ast.Inspect(body, func(x ast.Node) bool {
		if as, ok := x.(*ast.AssignStmt); ok {
			for _, l := range as.Lhs {
				if id, ok := ast.Unparen(l).(*ast.Ident); ok && (info.Defs[id] == v || info.Uses[id] == v) {
					n++
				}
			}
		}
		return true
	})
	return n > 1
}
