package main

import (
	"go/ast"
	"go/token"
	"go/types"
	"sort"

	"golang.org/x/tools/go/cfg"
)

// E7 – "last one wins". A stage that is applied to every element of a list and whose results are read AFTER the loop
// must accumulate them. A loop of the shape
//
//	for _, x := range xs { v, err = step(x); if err != nil { return err } }
//	use(v)
//
// hands on the result for the last element only: the results for all other elements are silently dropped (recipients
// produced by a 1→N rewrite that never reach a target, statuses of all but the last recipient, …). The rule is purely
// structural and exact for its shape:
//
//   - v is a variable declared outside the loop, of a type that carries data (not bool / number / error);
//   - the assignment's right-hand side depends on the loop's element (directly, or through a local defined from it in
//     the body) and does not mention v itself (so it is not an accumulation `v = append(v, …)` / `v = v + …`);
//   - the assignment is made on every way round the loop (not under a condition that picks one element);
//   - after the assignment succeeded (the error variable set by the same statement is nil, the ok flag true) the loop
//     can run the assignment again without leaving the loop (no break / return follows on the success path) – so an
//     earlier result is overwritten while still unread …
//   - … unless the body itself reads v after the assignment on every way round (per-iteration use, as in "rewrite,
//     then deliver each result"), and
//   - v is read after the loop has ended, reached by the in-loop assignment without another definition.
//
// Retry idioms (`conn, err = dial(mx); if err != nil { continue }; break`) do not match: after a success they leave
// the loop. Search idioms (`if match(x) { found = x; break }`) likewise.
func lastWins(p *Prog, fi *FuncInfo) (map[string]string, int) {
	out := map[string]string{}
	if fi.Decl.Body == nil {
		return out, 0
	}
	info := fi.Info()
	r := &RuleCtx{FI: fi, F: p.FlowOfFunc(fi), Info: info}
	type loopT struct {
		stmt  ast.Stmt
		body  *ast.BlockStmt
		elems map[types.Object]bool
	}
	var loops []loopT
	inspectNoLit(fi.Decl.Body, func(n ast.Node) bool {
		switch s := n.(type) {
		case *ast.RangeStmt:
			l := loopT{stmt: s, body: s.Body, elems: map[types.Object]bool{}}
			for _, e := range []ast.Expr{s.Key, s.Value} {
				if e != nil {
					if o := objOf(info, e); o != nil {
						l.elems[o] = true
					}
				}
			}
			if len(l.elems) > 0 {
				loops = append(loops, l)
			}
		case *ast.ForStmt:
			if init, ok := s.Init.(*ast.AssignStmt); ok && len(init.Lhs) == 1 {
				if o := objOf(info, init.Lhs[0]); o != nil {
					loops = append(loops, loopT{stmt: s, body: s.Body, elems: map[types.Object]bool{o: true}})
				}
			}
		}
		return true
	})
	ord := map[string]int{}
	for _, l := range loops {
		// locals of the body defined from the element
		declared := map[types.Object]bool{}
		inspectNoLit(l.body, func(n ast.Node) bool {
			switch s := n.(type) {
			case *ast.AssignStmt:
				if s.Tok == token.DEFINE {
					for _, lh := range s.Lhs {
						if id, ok := lh.(*ast.Ident); ok {
							if o := info.Defs[id]; o != nil {
								declared[o] = true
							}
						}
					}
				}
			case *ast.ValueSpec:
				for _, nm := range s.Names {
					if o := info.Defs[nm]; o != nil {
						declared[o] = true
					}
				}
			}
			return true
		})
		for changed := true; changed; {
			changed = false
			inspectNoLit(l.body, func(n ast.Node) bool {
				as, ok := n.(*ast.AssignStmt)
				if !ok {
					return true
				}
				dep := false
				for _, rh := range as.Rhs {
					for o := range l.elems {
						if mentions(info, rh, o) {
							dep = true
						}
					}
				}
				if !dep {
					return true
				}
				for _, lh := range as.Lhs {
					if o := objOf(info, lh); o != nil && declared[o] && !l.elems[o] {
						if v, isVar := o.(*types.Var); isVar && !isErrorType(v.Type()) && !isBoolType(v.Type()) {
							l.elems[o] = true
							changed = true
						}
					}
				}
				return true
			})
		}
		done := map[Pt]bool{}
		for _, b := range r.F.G.Blocks {
			if b.Stmt == l.stmt && (b.Kind == cfg.KindRangeDone || b.Kind == cfg.KindForDone) {
				done[Pt{b, 0}] = true
			}
		}
		if len(done) == 0 {
			continue
		}
		inspectNoLit(l.body, func(n ast.Node) bool {
			as, ok := n.(*ast.AssignStmt)
			if !ok || as.Tok != token.ASSIGN {
				return true
			}
			for i, lh := range as.Lhs {
				v, isVar := objOf(info, lh).(*types.Var)
				if !isVar || v.IsField() || declared[v] || l.elems[v] {
					continue
				}
				if _, isID := ast.Unparen(lh).(*ast.Ident); !isID {
					continue
				}
				if !carriesData(v.Type()) {
					continue
				}
				var rhs ast.Expr
				if len(as.Rhs) == len(as.Lhs) {
					rhs = as.Rhs[i]
				} else if len(as.Rhs) == 1 {
					rhs = as.Rhs[0]
				}
				if rhs == nil || mentions(info, rhs, v) {
					continue
				}
				dep := false
				for o := range l.elems {
					if mentions(info, rhs, o) {
						dep = true
					}
				}
				if !dep {
					continue
				}
				at, found := r.F.PtOfNode(as)
				if !found {
					continue
				}
				// the world in which this step succeeded
				var errObj, okObj types.Object
				if len(as.Rhs) == 1 && len(as.Lhs) > 1 {
					for _, other := range as.Lhs {
						if o, isV := objOf(info, other).(*types.Var); isV && o != v {
							if isErrorType(o.Type()) {
								errObj = o
							} else if isBoolType(o.Type()) {
								okObj = o
							}
						}
					}
				}
				succ := r.F.World(func(atom ast.Expr) (bool, bool) {
					atom = ast.Unparen(atom)
					if be, isBin := atom.(*ast.BinaryExpr); isBin && errObj != nil && (be.Op == token.EQL || be.Op == token.NEQ) && objOf(info, be.X) == errObj && isNilIdent(info, be.Y) {
						return be.Op == token.EQL, true
					}
					if okObj != nil && objOf(info, atom) == okObj {
						return true, true
					}
					return false, false
				})
				stop := func(q Pt) bool {
					if done[q] {
						return true
					}
					if q == at || q.Node() == nil {
						return false
					}
					// the flags of the step are only valid until they are assigned again
					if errObj != nil && assignsObj(info, q.Node(), errObj) {
						return false
					}
					return false
				}
				// (0) the assignment is made on every way round the loop (a conditional pick – minimum search, "the one
				// directive named default" – chooses, it does not drop)
				var bodyStart []Pt
				for _, b := range r.F.G.Blocks {
					if b.Stmt == l.stmt && (b.Kind == cfg.KindRangeBody || b.Kind == cfg.KindForBody) {
						bodyStart = append(bodyStart, Pt{b, 0})
					}
				}
				nextIter := func(q Pt) bool {
					if q.B.Stmt == l.stmt && q.I == 0 {
						switch q.B.Kind {
						case cfg.KindRangeLoop, cfg.KindForPost, cfg.KindForLoop:
							return true
						}
					}
					return false
				}
				if len(bodyStart) == 0 {
					continue
				}
				if _, skips := r.F.Reach(Query{From: bodyStart, Inclusive: true, Target: nextIter, Avoid: func(q Pt) bool { return q == at }, AvoidEdge: succ}); skips {
					continue
				}
				// flags raised on every way round (`seen = true`): at the next iteration they are up
				raised := map[types.Object]bool{}
				inspectNoLit(l.body, func(y ast.Node) bool {
					a2, ok := y.(*ast.AssignStmt)
					if !ok || len(a2.Lhs) != len(a2.Rhs) {
						return true
					}
					for k, lh2 := range a2.Lhs {
						b, isB := objOf(info, lh2).(*types.Var)
						if !isB || !isBoolType(b.Type()) || declared[b] {
							continue
						}
						tv, has := info.Types[a2.Rhs[k]]
						if !has || tv.Value == nil || tv.Value.String() != "true" {
							raised[b] = false // assigned something else somewhere: not a monotone flag
							continue
						}
						if _, seenBefore := raised[b]; seenBefore {
							continue
						}
						bp, okB := r.F.PtOfNode(a2)
						if !okB {
							continue
						}
						if _, skips := r.F.Reach(Query{From: bodyStart, Inclusive: true, Target: nextIter, Avoid: func(q Pt) bool { return q == bp }, AvoidEdge: succ}); !skips {
							raised[b] = true
						}
					}
					return true
				})
				succ2 := r.F.World(func(atom ast.Expr) (bool, bool) {
					if o := objOf(info, ast.Unparen(atom)); o != nil && raised[o] {
						return true, true
					}
					return false, false
				})
				again := orEdge(succ, succ2)
				// (1) the assignment runs again, inside this loop, after it succeeded, and the value was not read in between
				readsV := func(q Pt) bool { return q != at && q.Node() != nil && readsObjReal(info, withoutLogCalls(info, q.Node()), v) }
				if _, runsAgain := r.F.Reach(Query{From: []Pt{at}, Target: func(q Pt) bool { return q == at }, Avoid: func(q Pt) bool { return stop(q) || readsV(q) }, AvoidEdge: again}); !runsAgain {
					continue
				}
				// (2) read after the loop, reached by this definition
				redefined := func(q Pt) bool { return q != at && q.Node() != nil && assignsObj(info, q.Node(), v) }
				afterLoop := false
				var usePos token.Pos
				for d := range done {
					if _, reach := r.F.Reach(Query{From: []Pt{at}, Target: func(q Pt) bool { return q == d }, Avoid: redefined}); !reach {
						continue
					}
					if path, f := r.F.Reach(Query{From: []Pt{d}, Inclusive: true, Target: func(q Pt) bool {
						return q.Node() != nil && readsObjReal(info, q.Node(), v) && !posIn(l.stmt, q.Node().Pos())
					}, Avoid: redefined}); f && len(path) > 0 {
						afterLoop = true
						usePos = path[len(path)-1].Node().Pos()
					}
				}
				if !afterLoop {
					continue
				}
				name := "call"
				if call, isCall := ast.Unparen(rhs).(*ast.CallExpr); isCall {
					name = methodName(call)
					if name == "" {
						name = exprStr(call.Fun)
					}
				}
				ord[name]++
				out[fi.Name()+":"+name+itoa(ord[name])] = "inside the loop at line " + itoa(p.Fset.Position(l.stmt.Pos()).Line) + " " + v.Name() + " is overwritten with the result for each element (" + exprStr(rhs) + ") and read after the loop (line " + itoa(p.Fset.Position(usePos).Line) + "): only the result for the LAST element is handed on, the results for all earlier elements are dropped"
			}
			return true
		})
	}
	return out, len(loops)
}

// carriesData: slices, maps, strings, pointers, structs, interfaces other than error – not flags or counters.
func carriesData(t types.Type) bool {
	if isErrorType(t) || isBoolType(t) {
		return false
	}
	switch u := t.Underlying().(type) {
	case *types.Basic:
		return u.Info()&types.IsString != 0
	case *types.Slice, *types.Map, *types.Pointer, *types.Struct, *types.Interface, *types.Array:
		return true
	}
	return false
}

var lastWinsExceptions = map[string]string{}

// lastWinsSeen applies E7 to the given functions.
func lastWinsSeen(c *Check, fis []*FuncInfo) {
	c.Rule("E7", "a result computed per element of a list and read after the loop is accumulated, not overwritten: no loop hands on the result for its last element only (results for the other elements – rewritten recipients, statuses – would be dropped)", 0)
	seen := map[*types.Func]bool{}
	total := 0
	defer func() { c.HoldConst("E7", "loops-examined", token.NoPos, true, "") }()
	for _, fi := range fis {
		if fi == nil || seen[fi.Obj] || fi.Decl.Body == nil {
			continue
		}
		seen[fi.Obj] = true
		obs, nl := lastWins(c.P, fi)
		total += nl
		c.sites += nl
		var keys []string
		for k := range obs {
			keys = append(keys, k)
		}
		sort.Strings(keys)
		for _, k := range keys {
			full := k
			if why, ok := lastWinsExceptions["E7 "+full]; ok {
				c.Except("E7 " + full + ": " + why)
				continue
			}
			c.Hold("E7", full, fi.Decl.Pos(), false, obs[k])
		}
	}
}


// withoutLogCalls: a copy of the statement's expression tree view in which the arguments of logging calls do not count
// (a debug line that prints a value does not consume it). Implemented as a wrapper node list: the statements /
// expressions of n that are not inside a call into a log package.
func withoutLogCalls(info *types.Info, n ast.Node) ast.Node {
	isLog := func(call *ast.CallExpr) bool {
		fn := callee(info, call)
		if fn == nil || fn.Pkg() == nil {
			return false
		}
		pp := fn.Pkg().Path()
		return pp == "log" || pp == modPath+"/framework/log"
	}
	hasLog := false
	ast.Inspect(n, func(x ast.Node) bool {
		if call, ok := x.(*ast.CallExpr); ok && isLog(call) {
			hasLog = true
		}
		return !hasLog
	})
	if !hasLog {
		return n
	}
	// only whole-statement log calls are dropped (the common form); anything else is kept as it is
	if es, ok := n.(*ast.ExprStmt); ok {
		if call, ok := es.X.(*ast.CallExpr); ok && isLog(call) {
			return &ast.EmptyStmt{Semicolon: n.Pos()}
		}
	}
	return n
}
