package main

import (
	"go/ast"
	"go/token"
	"go/types"
	"sort"
	"strings"
)

func init() { register("C03", checkC03) }

const smtpEndpRel = "internal/endpoint/smtp"
const pipelineRel = "internal/msgpipeline"

func checkC03(c *Check) {
	p := c.P
	c.explain = "C03 (every transaction finalised exactly once), structural part: relational typestate analysis (go/cfg, method inlining, deferred closures replayed at exits, error nil-ness and constant flags refined on branches) of the session's open delivery over all " +
		"Session methods the SMTP library can call and all entry states the command grammar allows; fan-out completeness of the pipeline's Commit/Abort; Commit reachable only over the success edges of body preparation, loop detection and Body; " +
		"success reply only after a successful Commit; every permit taken is released with the same key or transferred to the open delivery, whose clean-up releases it."
	c.notCover = "what a target's Abort actually undoes, LMTP per-recipient reply text, pipelining timing. Entry states rest on assumption A1 about the SMTP library's command sequencing."
	c.Assume("A1: go-smtp (foxcpp fork pinned in go.mod) refuses DATA/BDAT without an accepted RCPT, calls Reset after every DATA/BDAT completion, on RSET and on STARTTLS, Logout once per connection, and does not refuse a nested MAIL")
	c03Assumption(c)

	c.Rule("L1", "session lock: every mutex the package's functions take is released on every path to a return, and nothing unlocks a mutex it does not hold (immediate or deferred; function literals separately)", 5)
	lockBalance(c, "L1", []string{smtpEndpRel}, nil)
	c.Rule("L2", "the session's transaction state (open delivery, message metadata, sender, deferred error) is only touched while the session's message lock is held, by the method itself or by every caller of an unexported helper", 8)
	locksetRule(c, "L2", smtpEndpRel, "Session", "msgLock", []string{"delivery", "msgMeta", "mailFrom", "deliveryErr"}, map[string]string{
		"SetStatus": "callback: the per-recipient status collector is only built as the argument of BodyNonAtomic inside LMTPData's critical section",
	})

	sess := c.need("R1", smtpEndpRel, "Session", "Data")
	c.Rule("R1", "typestate of the session's delivery over every library-callable Session method and entry state: never overwritten or dropped while open, never used or closed when not open, never left closed-but-set", 6)
	c.Rule("immut", "the sender recorded for releasing the permit is not overwritten while a delivery is open", 1)
	if sess != nil {
		spk := p.Pkg(smtpEndpRel)
		var sessT *types.Named
		var delivField, mailFromField *types.Var
		if o := spk.Types.Scope().Lookup("Session"); o != nil {
			sessT, _ = o.Type().(*types.Named)
			if st, ok := sessT.Underlying().(*types.Struct); ok {
				for i := 0; i < st.NumFields(); i++ {
					f := st.Field(i)
					if typeIs(f.Type(), modulePkg, "Delivery") {
						delivField = f
					}
					if objName(f) == "mailFrom" {
						mailFromField = f
					}
				}
			}
		}
		if sessT == nil || delivField == nil || mailFromField == nil {
			c.Fail("R1", "Session:fields", token.NoPos, "anchor unresolved: Session has no module.Delivery field / mailFrom")
		} else {
			cfg := &tsConfig{p: p, field: delivField, recv: sessT, closers: map[string]bool{"Commit": true, "Abort": true}, maxDepth: c.Depth,
				watch:   map[*types.Var]map[string]bool{mailFromField: {"cleanSession": true, "startDelivery": true}},
				reports: map[string]tsReport{}, funcs: map[string]bool{}}
			type entry struct {
				name   string
				states []int
			}
			entries := []entry{
				{"Mail", []int{tsNil, tsOpen}}, {"Rcpt", []int{tsNil, tsOpen}}, {"Reset", []int{tsNil, tsOpen}}, {"Logout", []int{tsNil, tsOpen}},
				{"Data", []int{tsOpen}}, {"LMTPData", []int{tsOpen}},
			}
			exitStates := map[string]map[int]bool{}
			for _, e := range entries {
				fi := p.Func(smtpEndpRel, "Session", e.name)
				if fi == nil {
					c.Fail("R1", "Session."+e.name, token.NoPos, "anchor unresolved")
					continue
				}
				for _, st0 := range e.states {
					label := e.name + "@" + tsNames[st0]
					exits := cfg.run(fi, tsState{ts: st0, errs: map[types.Object]int{}}, label, e.name, 0)
					if exitStates[e.name] == nil {
						exitStates[e.name] = map[int]bool{}
					}
					for ex := range exits {
						exitStates[e.name][ex.ts] = true
						if ex.ts == tsClosed {
							cfg.reports["exit-closed|"+fi.Name()+"|"+label] = tsReport{Kind: "exit-closed", Fn: fi.Name(), Entry: label, State: "Closed", Pos: fi.Decl.Pos()}
						}
					}
					// one obligation per (entry, state)
					bad := 0
					for _, r := range cfg.reports {
						if r.Entry == label {
							bad++
						}
					}
					if bad == 0 {
						c.Hold("R1", "Session."+label, fi.Decl.Pos(), true, "")
					}
				}
			}
			for f := range cfg.funcs {
				c.SawFunc(f)
			}
			c.paths += cfg.paths
			// Reset and Logout must leave nothing open (end of transaction / session)
			for _, m := range []string{"Reset", "Logout"} {
				open := exitStates[m][tsOpen] || exitStates[m][tsClosed]
				c.Hold("R1", "Session."+m+":leaves-nothing-open", token.NoPos, !open && exitStates[m] != nil, m+" can return with a delivery still open (it is never closed before the session ends)")
			}
			var keys []string
			for k := range cfg.reports {
				keys = append(keys, k)
			}
			sort.Strings(keys)
			for _, k := range keys {
				r := cfg.reports[k]
				rule := "R1"
				msg := ""
				switch {
				case r.Kind == "leak-nil":
					msg = "the delivery field is set to nil while the delivery is still open: it is never aborted (a queue target that already stored the message delivers it later)"
				case r.Kind == "leak-overwrite":
					msg = "a new delivery overwrites one that is still open (the old one is never closed, its permit never returned)"
				case r.Kind == "use-closed":
					msg = "the delivery is used after it was committed/aborted"
				case r.Kind == "use-nil":
					msg = "the delivery is used while none is open"
				case r.Kind == "close-not-open":
					msg = "Commit/Abort is called on a delivery that is not open (state " + r.State + ")"
				case r.Kind == "exit-closed":
					msg = "the method returns with a closed delivery still stored in the session (a later Reset aborts it a second time)"
				default:
					rule = "immut"
					msg = "the stored sender is overwritten while a delivery is open: the permit is later released under a different key than it was taken with"
				}
				c.Hold(rule, r.Kind+":"+r.Fn+"@"+r.Entry, r.Pos, false, msg+" [entry="+r.Entry+" via="+r.Via+" state="+r.State+"]")
			}
			anyImmut := false
			for _, r := range cfg.reports {
				if strings.HasPrefix(r.Kind, "store-while-open") {
					anyImmut = true
				}
			}
			if !anyImmut {
				c.Hold("immut", "Session.mailFrom", token.NoPos, true, "")
			}
		}
	}

	// R7: for LMTP each recipient's reply reflects the result of its own target (C09.K5, re-evaluated here)
	c.Rule("R7", "per-recipient (LMTP) path: a target's body failure is reported for exactly that target's recipients (C09.K5)", 1)
	{
		sub := newCheck("C09", c.P, c.Tier)
		checkC09(sub)
		for _, o := range sub.obs {
			if o.Rule == "K5" {
				c.Hold("R7", o.Key, o.posRaw, o.OK, o.Msg)
			}
		}
	}
	c03BodyReader(c)
	c03NewSessionNeverWaits(c)
	c03BodyFailedWriters(c, "R10")
	c03LMTPCommit(c)
	c03FanOut(c)
	c03CommitOrder(c)
	c03Permits(c)
	c03GetDelivery(c)
	c03StartOnlyWhenAbsent(c, "R6b")

	// R5c: "every rate or concurrency permit taken for the transaction is returned" also inside the limiter group: a
	// TakeMsg that fails at a narrower scope gives back what the wider scopes granted, the remote target pairs its
	// destination permits. C11's pairing rules (R2), a clause of this property too.
	c.Rule("R5c", "permits inside the limiter group and below the endpoint: a failing TakeMsg rolls back exactly the scopes it acquired; the destination permit of the remote target is released or owned on every exit (C11.R2)", 7)
	sub11 := newCheck("C11", c.P, c.Tier)
	c11Pairing(sub11)
	for _, o := range sub11.obs {
		if o.Rule == "R2" {
			c.Hold("R5c", o.Key, o.posRaw, o.OK, o.Msg)
		}
	}
	c.Rule("R5d", "a waiting acquisition reports the case that fired: once the semaphore's slot was taken the limiter returns success, never an error re-read from the context afterwards – a slot taken under a reported failure is returned by nobody (C11.R9)", 2)
	importRules(c, "C11", c11OutcomeMatchesCase, map[string]bool{"R9": true}, "R5d")
	c03ReleaseBeforeForgetting(c, "R5e")
	for f := range sub11.funcs {
		c.SawFunc(f)
	}
}

func c03Assumption(c *Check) {
	p := c.P
	c.Rule("A1", "assumption A1 about the SMTP library is re-checked on the library source that go.mod resolves to: Reset after every DATA, DATA refused without an accepted recipient, Logout on close, and a replaced session is logged out (by the library or by maddy's NewSession)", 5)
	found := ""
	for path, pk := range p.ByPath {
		if path == goSMTPPkg && pk.Module != nil {
			m := pk.Module
			if m.Replace != nil {
				m = m.Replace
			}
			found = m.Path + "@" + m.Version
		}
	}
	c.Assume("go-smtp resolves to " + found)
	dep := func(recv, name string) *RuleCtx {
		fi := p.DepFunc(goSMTPPkg, recv, name)
		if fi == nil {
			c.Fail("A1", "go-smtp:"+recv+"."+name, token.NoPos, "the library function the assumption was read from no longer exists: re-read the library")
			return nil
		}
		c.SawFunc("go-smtp." + recv + "." + name)
		return &RuleCtx{C: c, FI: fi, F: p.FlowOfFunc(fi), Info: fi.Info()}
	}
	// (a) DATA is followed by reset on every path
	if r := dep("Conn", "handleData"); r != nil {
		var defers, datas []Pt
		for _, pt := range r.F.Points() {
			if d, ok := pt.Node().(*ast.DeferStmt); ok && methodName(d.Call) == "reset" {
				defers = append(defers, pt)
			}
			for _, call := range callsAt(pt.Node()) {
				if methodName(call) == "Data" || methodName(call) == "handleDataLMTP" {
					datas = append(datas, pt)
				}
			}
		}
		ok := len(defers) > 0 && len(datas) > 0
		if ok {
			ok, _ = r.MustPass(r.Entry(), true, isPt(datas), isPt(defers))
		}
		c.Hold("A1", "go-smtp:DATA-then-reset", r.FI.Decl.Pos(), ok, "the library does not (always) reset the session after DATA: a transaction that failed before Commit would never be aborted – the entry/exit states of C03.R1 must be re-derived")
		// (c) DATA refused without an accepted recipient
		world := r.F.World(func(atom ast.Expr) (bool, bool) {
			if be, ok := ast.Unparen(atom).(*ast.BinaryExpr); ok && (be.Op == token.EQL || be.Op == token.NEQ) {
				if call, ok := ast.Unparen(be.X).(*ast.CallExpr); ok {
					if id, ok := call.Fun.(*ast.Ident); ok && id.Name == "len" && len(call.Args) == 1 && strings.HasSuffix(exprStr(call.Args[0]), "recipients") && exprStr(be.Y) == "0" {
						return be.Op == token.EQL, true
					}
				}
			}
			return false, false
		})
		_, f := r.F.Reach(Query{From: r.Entry(), Inclusive: true, Target: isPt(datas), AvoidEdge: world})
		c.Hold("A1", "go-smtp:DATA-needs-recipient", r.FI.Decl.Pos(), !f, "the library lets DATA through without an accepted recipient: Data/LMTPData can be entered with no open delivery (entry state Nil must be added)")
	}
	// (b) reset → Session.Reset
	if r := dep("Conn", "reset"); r != nil {
		ok := false
		ast.Inspect(r.FI.Decl.Body, func(n ast.Node) bool {
			if call, isCall2 := n.(*ast.CallExpr); isCall2 && methodName(call) == "Reset" && strings.HasSuffix(exprStr(callRecv(call)), "session") {
				ok = true
			}
			return true
		})
		c.Hold("A1", "go-smtp:reset-calls-Session.Reset", r.FI.Decl.Pos(), ok, "the library's reset no longer calls Session.Reset")
	}
	// (d) Close → Logout
	if r := dep("Conn", "Close"); r != nil {
		ok := false
		ast.Inspect(r.FI.Decl.Body, func(n ast.Node) bool {
			if call, isCall2 := n.(*ast.CallExpr); isCall2 && methodName(call) == "Logout" {
				ok = true
			}
			return true
		})
		c.Hold("A1", "go-smtp:Close-calls-Logout", r.FI.Decl.Pos(), ok, "the library no longer logs the session out when the connection is closed")
	}
	// (e) a session that is replaced is logged out – by the library or by maddy's NewSession
	libOK := true
	libWhere := ""
	if pk := p.ByPath[goSMTPPkg]; pk != nil {
		for _, file := range pk.Syntax {
			for _, d := range file.Decls {
				fd, ok := d.(*ast.FuncDecl)
				if !ok || fd.Body == nil || fd.Name.Name == "setSession" {
					continue
				}
				obj, _ := pk.TypesInfo.Defs[fd.Name].(*types.Func)
				fi := &FuncInfo{Obj: obj, Decl: fd, Pkg: pk}
				r := &RuleCtx{C: c, FI: fi, F: p.FlowOfFunc(fi), Info: pk.TypesInfo}
				var sets, logouts []Pt
				for _, pt := range r.F.Points() {
					for _, call := range callsAt(pt.Node()) {
						if methodName(call) == "setSession" && len(call.Args) == 1 && !isNilIdent(pk.TypesInfo, call.Args[0]) {
							sets = append(sets, pt)
						}
						if methodName(call) == "Logout" {
							logouts = append(logouts, pt)
						}
					}
				}
				if len(sets) == 0 {
					continue
				}
				if ok, _ := r.MustPass(r.Entry(), true, isPt(sets), isPt(logouts)); !ok {
					libOK = false
					libWhere = fd.Name.Name
				}
			}
		}
	}
	maddyOK := false
	if r := c.In(smtpEndpRel, "Endpoint", "NewSession"); r != nil {
		// a Logout is called on the connection's previous session (conn.Session()), in NewSession itself or in a
		// helper of the package it calls
		var hasLogoutOfPrev func(fi *FuncInfo, depth int) bool
		hasLogoutOfPrev = func(fi *FuncInfo, depth int) bool {
			info := fi.Info()
			found := false
			for _, call := range callsIn(fi.Decl.Body) {
				if methodName(call) == "Logout" {
					o := recvObj(info, call)
					if o == nil {
						continue
					}
					ast.Inspect(fi.Decl.Body, func(n ast.Node) bool {
						var lhs []ast.Expr
						var rhs ast.Node
						switch x := n.(type) {
						case *ast.AssignStmt:
							lhs, rhs = x.Lhs, x
						case *ast.ValueSpec:
							for _, nm := range x.Names {
								lhs = append(lhs, nm)
							}
							rhs = x
						}
						for _, l := range lhs {
							if objOf(info, l) == o || (func() bool { id, ok := l.(*ast.Ident); return ok && info.Defs[id] == o })() {
								ast.Inspect(rhs, func(x ast.Node) bool {
									if cc, ok := x.(*ast.CallExpr); ok && methodName(cc) == "Session" {
										found = true
									}
									return true
								})
							}
						}
						return true
					})
					continue
				}
				if depth < 2 {
					if fn := callee(info, call); fn != nil && fn.Pkg() == fi.Obj.Pkg() {
						if d := c.P.DeclOf(fn); d != nil && d.Decl.Body != nil && d.Obj != fi.Obj && hasLogoutOfPrev(d, depth+1) {
							found = true
						}
					}
				}
			}
			return found
		}
		maddyOK = hasLogoutOfPrev(r.FI, 0)
		// … and it is reached whenever there is a previous session: in the world "the connection has a session of our
		// type and it is not nil" every successful return of the function that contains the call passed it
		if maddyOK {
			var holder *FuncInfo
			var findHolder func(fi *FuncInfo, depth int)
			findHolder = func(fi *FuncInfo, depth int) {
				for _, call := range callsIn(fi.Decl.Body) {
					if methodName(call) == "Logout" {
						if o := recvObj(fi.Info(), call); o != nil {
							if def, _ := localDef(fi.Info(), fi.Decl.Body, o); def != nil && strings.Contains(exprStr(def), "Session()") {
								holder = fi
							}
						}
					}
					if depth < 2 {
						if fn := callee(fi.Info(), call); fn != nil && fn.Pkg() == fi.Obj.Pkg() && fn != fi.Obj {
							if d := c.P.DeclOf(fn); d != nil && d.Decl.Body != nil {
								findHolder(d, depth+1)
							}
						}
					}
				}
			}
			findHolder(r.FI, 0)
			if holder != nil {
				h := c.CtxOf(holder)
				hi := h.Info
				var prevObj, okObj types.Object
				ast.Inspect(holder.Decl.Body, func(n ast.Node) bool {
					if as, ok := n.(*ast.AssignStmt); ok && len(as.Rhs) == 1 && strings.Contains(exprStr(as.Rhs[0]), "Session()") {
						if len(as.Lhs) >= 1 {
							prevObj = objOf(hi, as.Lhs[0])
						}
						if len(as.Lhs) == 2 {
							okObj = objOf(hi, as.Lhs[1])
						}
					}
					return true
				})
				// the log-out itself, a goroutine started for it (the previous session's lock may be busy), or a local
				// closure that performs it
				logsOut := func(body ast.Node) bool {
					found := false
					ast.Inspect(body, func(y ast.Node) bool {
						if call, ok := y.(*ast.CallExpr); ok && methodName(call) == "Logout" && recvObj(hi, call) == prevObj && prevObj != nil {
							found = true
						}
						return !found
					})
					return found
				}
				closureLogsOut := func(call *ast.CallExpr) bool {
					if lit, ok := ast.Unparen(call.Fun).(*ast.FuncLit); ok {
						return logsOut(lit.Body)
					}
					if id, ok := ast.Unparen(call.Fun).(*ast.Ident); ok {
						if o := objOf(hi, id); o != nil {
							if def, n := localDef(hi, holder.Decl.Body, o); n == 1 && def != nil {
								if lit, ok := ast.Unparen(def).(*ast.FuncLit); ok {
									return logsOut(lit.Body)
								}
							}
						}
					}
					return false
				}
				logouts := h.F.Find(func(n ast.Node) bool {
					for _, call := range callsAt(n) {
						if methodName(call) == "Logout" && recvObj(hi, call) == prevObj && prevObj != nil {
							return true
						}
						if closureLogsOut(call) {
							return true
						}
					}
					if g, ok := n.(*ast.GoStmt); ok && closureLogsOut(g.Call) {
						return true
					}
					return false
				})
				w := h.F.World(func(atom ast.Expr) (bool, bool) {
					atom = ast.Unparen(atom)
					if okObj != nil && objOf(hi, atom) == okObj {
						return true, true
					}
					if be, ok := atom.(*ast.BinaryExpr); ok && (be.Op == token.EQL || be.Op == token.NEQ) && isNilIdent(hi, be.Y) {
						if o := objOf(hi, be.X); o != nil && (o == prevObj) {
							return be.Op == token.NEQ, true
						}
						// the connection itself is present
						if pv, isVar := objOf(hi, be.X).(*types.Var); isVar && typeIs(pv.Type(), goSMTPPkg, "Conn") {
							return be.Op == token.NEQ, true
						}
					}
					return false, false
				})
				sawAssign := func(pt Pt) bool { return false }
				_ = sawAssign
				// from the point where the previous session was obtained
				var from []Pt
				for _, pt := range h.F.Points() {
					if as, ok := pt.Node().(*ast.AssignStmt); ok && len(as.Rhs) == 1 && strings.Contains(exprStr(as.Rhs[0]), "Session()") {
						from = append(from, pt)
					}
				}
				if _, f := h.F.Reach(Query{From: from, Target: h.IsSuccessReturn, Avoid: isPt(logouts), AvoidEdge: w}); f || len(from) == 0 || len(logouts) == 0 {
					maddyOK = false
				}
				// and every way to a successful return obtains it when there is a connection
				if _, f := h.F.Reach(Query{From: h.Entry(), Inclusive: true, Target: h.IsSuccessReturn, Avoid: isPt(from), AvoidEdge: w}); f {
					maddyOK = false
				}
			}
		}
	}
	c.Hold("A1", "session-replaced-is-logged-out", token.NoPos, libOK || maddyOK,
		"the SMTP library replaces the session on a repeated EHLO/LHLO (in "+libWhere+") without calling Logout or Reset on the old one, and maddy's NewSession does not compensate: a transaction that is open at that moment is never aborted – its delivery stays open and its limit permits are never returned")
}

// c03FanOut: in the pipeline's Commit and Abort every iteration over the started target deliveries closes the
// element, and the loop is not left early.
func c03FanOut(c *Check) {
	c.Rule("R2", "pipeline Commit/Abort: every started target delivery is closed in every iteration; the loop is not left while elements remain", 2)
	for _, m := range []string{"Commit", "Abort"} {
		r := c.need("R2", pipelineRel, "msgpipelineDelivery", m)
		if r == nil {
			continue
		}
		info := r.Info
		loops := rangesIn(r.FI.Decl.Body, func(rs *ast.RangeStmt) bool { return isField(info, rs.X, "msgpipelineDelivery", "deliveries") })
		if len(loops) == 0 {
			c.Hold("R2", "msgpipelineDelivery."+m, r.FI.Decl.Pos(), false, "no loop over the started target deliveries")
			continue
		}
		bad := ""
		var badPos token.Pos = r.FI.Decl.Pos()
		// all elements must be covered by loops that close: take the first loop as the fan-out; a `return`/`break`
		// inside it is accepted only if the iteration already closed its element and a completed pass is guaranteed
		// otherwise (i.e. never).
		closedBy := func(rs *ast.RangeStmt) (func(Pt) bool, types.Object) {
			v := objOf(info, rs.Value)
			return func(pt Pt) bool {
				for _, call := range callsAt(pt.Node()) {
					if (methodName(call) == "Commit" || methodName(call) == "Abort") && recvObj(info, call) == v && v != nil {
						return true
					}
				}
				return false
			}, v
		}
		rs := loops[0]
		isClose, v := closedBy(rs)
		if v == nil {
			bad = "undecided: the loop has no value variable"
		} else {
			// iteration start: first point of the range body block
			var bodyStart []Pt
			for _, b := range r.F.G.Blocks {
				if b.Kind == kindRangeBody && b.Stmt == ast.Stmt(rs) {
					bodyStart = append(bodyStart, Pt{b, 0})
				}
			}
			iterEnd := func(pt Pt) bool {
				return (pt.B.Kind == kindRangeLoop && pt.B.Stmt == ast.Stmt(rs) && pt.I == 0) || r.F.IsExitPt(pt) || (pt.B.Kind == kindRangeDone && pt.B.Stmt == ast.Stmt(rs) && pt.I == 0)
			}
			if p, f := r.F.Reach(Query{From: bodyStart, Inclusive: true, Target: iterEnd, Avoid: isClose}); f {
				bad = "an iteration can finish without committing or aborting its target delivery (it stays open forever): " + r.F.Describe(p)
				if n := p[len(p)-1].Node(); n != nil {
					badPos = n.Pos()
				}
			}
			// early exit: return/break inside the loop body (outside nested function literals and nested loops that
			// themselves close everything)
			inspectNoLit(rs.Body, func(x ast.Node) bool {
				switch s := x.(type) {
				case *ast.ReturnStmt:
					bad = "the loop is left by `return` while later target deliveries are still open (they are never committed nor aborted)"
					badPos = s.Pos()
				case *ast.BranchStmt:
					if s.Tok == token.BREAK || s.Tok == token.GOTO {
						bad = "the loop is left early while later target deliveries are still open"
						badPos = s.Pos()
					}
				}
				return true
			})
		}
		c.Hold("R2", "msgpipelineDelivery."+m, badPos, bad == "", bad)
	}
}

func c03CommitOrder(c *Check) {
	c.Rule("R3", "Data/LMTPData: Commit is reachable only over the success edges of body preparation, loop detection and Body", 4)
	c.Rule("R4", "Data/LMTPData: a success reply is only reachable after a successful Commit", 2)
	for _, m := range []string{"Data", "LMTPData"} {
		r := c.need("R3", smtpEndpRel, "Session", m)
		if r == nil {
			continue
		}
		info := r.Info
		isCommit := func(pt Pt) bool {
			for _, call := range callsAt(pt.Node()) {
				if methodName(call) == "Commit" && isField(info, callRecv(call), "Session", "delivery") {
					return true
				}
			}
			return false
		}
		commits := r.F.Find(func(n ast.Node) bool { return isCommit(ptOfNode(r.F, n)) })
		if len(commits) == 0 {
			c.Hold("R3", "Session."+m+":commit", r.FI.Decl.Pos(), false, "the method never commits")
			continue
		}
		stages := []struct {
			name string
			pred CallPred
		}{
			{"prepareBody", calling("~/" + smtpEndpRel + ".Session.prepareBody")},
			{"checkRoutingLoops", calling("~/" + smtpEndpRel + ".Session.checkRoutingLoops")},
			{"Body", func(info *types.Info, call *ast.CallExpr) bool {
				return methodName(call) == "Body" && isField(info, callRecv(call), "Session", "delivery")
			}},
		}
		for _, st := range stages {
			pts := r.Calls(st.pred)
			if len(pts) == 0 {
				if st.name == "Body" && m == "LMTPData" {
					// per-recipient path reports through the status collector: no error to look at, but the body must
					// have been handed to the delivery before it is committed
					isBNA := func(pt Pt) bool {
						for _, call := range callsAt(pt.Node()) {
							recv := ast.Unparen(callRecv(call))
							if ta, ok := recv.(*ast.TypeAssertExpr); ok {
								recv = ta.X
							}
							if methodName(call) == "BodyNonAtomic" && recv != nil && isField(info, recv, "Session", "delivery") {
								return true
							}
						}
						return false
					}
					okDom, w := r.MustPass(r.Entry(), true, isCommit, isBNA)
					c.Hold("R3", "Session."+m+":BodyNonAtomic", r.FI.Decl.Pos(), okDom, "Commit is reachable without the body having been handed to the delivery: "+w)
					continue
				}
				c.Hold("R3", "Session."+m+":"+st.name, r.FI.Decl.Pos(), false, "stage "+st.name+" is missing")
				continue
			}
			for _, pt := range pts {
				call := r.CallAt(pt, st.pred)
				okDom, w := r.MustPass(r.Entry(), true, isCommit, isPt([]Pt{pt}))
				found, w2, decided := r.OnErr(pt, call, false, isCommit, nil)
				msg := ""
				if !okDom {
					msg = "Commit is reachable without " + st.name + ": " + w
				} else if !decided {
					msg = "the error of " + st.name + " is dropped"
				} else if found {
					msg = "Commit is reachable after " + st.name + " failed (a refused message is committed): " + w2
				}
				c.Hold("R3", "Session."+m+":"+st.name, r.Pos(pt), msg == "", msg)
			}
		}
		// R4
		msg := ""
		if ok, w := r.MustPass(r.Entry(), true, r.IsSuccessReturn, isCommit); !ok {
			msg = "a success reply is reachable without Commit: " + w
		}
		for _, pt := range commits {
			var call *ast.CallExpr
			for _, cc := range callsAt(pt.Node()) {
				if methodName(cc) == "Commit" {
					call = cc
				}
			}
			found, w, decided := r.OnErr(pt, call, false, r.IsSuccessReturn, nil)
			if !decided {
				msg = "the error of Commit is dropped"
			} else if found {
				msg = "a success reply is reachable although Commit failed: " + w
			}
		}
		c.Hold("R4", "Session."+m, r.FI.Decl.Pos(), msg == "", msg)
	}
}

func c03Permits(c *Check) {
	c.Rule("R5", "startDelivery: after a successful TakeMsg every path either releases with the same arguments or stores the started delivery in the session; cleaning the session always releases", 3)
	r := c.need("R5", smtpEndpRel, "Session", "startDelivery")
	if r == nil {
		return
	}
	info := r.Info
	isTake := calling("~/internal/limits.Group.TakeMsg")
	isRel := calling("~/internal/limits.Group.ReleaseMsg")
	takes := r.Calls(isTake)
	if len(takes) != 1 {
		c.Fail("R5", "startDelivery:take", r.FI.Decl.Pos(), "undecided: expected exactly one TakeMsg")
		return
	}
	take := r.CallAt(takes[0], isTake)
	sameArgs := func(pt Pt) bool {
		call := r.CallAt(pt, isRel)
		if call == nil || len(call.Args) != 2 || len(take.Args) != 3 {
			return false
		}
		return sameExpr(call.Args[0], take.Args[1]) && sameExpr(call.Args[1], take.Args[2])
	}
	stored := func(pt Pt) bool {
		return nodeAssigns(pt.Node(), func(l, rhs ast.Expr) bool {
			return isField(info, l, "Session", "delivery") && rhs != nil && !isNilIdent(info, rhs)
		})
	}
	found, w, decided := r.OnErr(takes[0], take, true, r.IsNormalExit, orPt(sameArgs, stored))
	msg := ""
	if !decided {
		msg = "the result of TakeMsg is not checked"
	} else if found {
		msg = "after a successful TakeMsg a path returns without releasing the permit (same IP and domain) and without an open delivery that owns it: " + w
	}
	c.Hold("R5", "startDelivery:take-release", r.Pos(takes[0]), msg == "", msg)
	// release key provenance: the stored sender is the address whose domain was taken
	okKey := false
	var cleanObj types.Object
	// domain argument derives from Split(X): X must be what is stored into s.mailFrom
	if dom := objOf(info, take.Args[2]); dom != nil {
		// the key itself, or a local it is copied from (`_, d, err := Split(x); domain = d`)
		srcs := map[types.Object]bool{dom: true}
		ast.Inspect(r.FI.Decl.Body, func(n ast.Node) bool {
			if as, ok := n.(*ast.AssignStmt); ok && len(as.Lhs) == len(as.Rhs) {
				for i, l := range as.Lhs {
					if objOf(info, l) == dom {
						if y := objOf(info, as.Rhs[i]); y != nil {
							if v, isVar := y.(*types.Var); isVar && !v.IsField() {
								srcs[y] = true
							}
						}
					}
				}
			}
			return true
		})
		ast.Inspect(r.FI.Decl.Body, func(n ast.Node) bool {
			if as, ok := n.(*ast.AssignStmt); ok && len(as.Rhs) == 1 {
				if call, ok := ast.Unparen(as.Rhs[0]).(*ast.CallExpr); ok && isCall(info, call, "~/framework/address.Split") && len(as.Lhs) == 3 && srcs[objOf(info, as.Lhs[1])] {
					cleanObj = objOf(info, call.Args[0])
				}
			}
			return true
		})
	}
	for _, pt := range r.Assigns(func(l, rhs ast.Expr) bool { return isField(info, l, "Session", "mailFrom") }) {
		as := pt.Node().(*ast.AssignStmt)
		if len(as.Rhs) == 1 && cleanObj != nil && objOf(info, as.Rhs[0]) == cleanObj {
			okKey = true
		}
	}
	c.Hold("R5", "startDelivery:release-key", r.FI.Decl.Pos(), okKey, "the sender stored for the later release is not the address whose domain the permit was taken for")
	// cleanSession releases on all paths (exception: the Split error return of releaseLimits, see DESIGN §2.3)
	cs := c.need("R5", smtpEndpRel, "Session", "cleanSession")
	rl := c.In(smtpEndpRel, "Session", "releaseLimits")
	if cs != nil && rl != nil {
		okCall, _ := cs.MustPass(cs.Entry(), true, cs.IsNormalExit, cs.IsCallPt(calling("~/"+smtpEndpRel+".Session.releaseLimits")))
		// in releaseLimits: every exit passes ReleaseMsg, except returns on the error edge of address.Split (exception)
		splitCalls := rl.Calls(calling("~/framework/address.Split"))
		exempt := func(pt Pt) bool {
			// a return reachable only on the err != nil edge of Split
			if !rl.IsNormalExit(pt) {
				return false
			}
			for _, sp := range splitCalls {
				call := rl.CallAt(sp, calling("~/framework/address.Split"))
				if f, _, d := rl.OnErr(sp, call, true, isPt([]Pt{pt}), nil); d && !f {
					return true
				}
			}
			return false
		}
		p, f := rl.F.Reach(Query{From: rl.Entry(), Inclusive: true, Target: func(pt Pt) bool { return rl.IsNormalExit(pt) && !exempt(pt) }, Avoid: rl.IsCallPt(isRel)})
		if len(splitCalls) > 0 {
			c.Except("smtp.(*Session).releaseLimits: return after address.Split(s.mailFrom) failed – infeasible: a permit is only held after startDelivery stored an address that CleanDomain and Split accepted; side-condition C03.immut (no other store to mailFrom while open)")
		}
		c.Hold("R5", "cleanSession:releases", cs.FI.Decl.Pos(), okCall && !f, "cleaning the session can skip releasing the permit: "+rl.F.Describe(p))
	}
}

func c03GetDelivery(c *Check) {
	c.Rule("R6", "a target delivery started late (first recipient for that target) is recorded in the pipeline's table on the success edge, so the fan-out closes it", 1)
	r := c.need("R6", pipelineRel, "msgpipelineDelivery", "getDelivery")
	if r == nil {
		return
	}
	info := r.Info
	isStart := func(info *types.Info, call *ast.CallExpr) bool {
		return qname(callee(info, call)) == modulePkg+".DeliveryTarget.Start"
	}
	starts := r.Calls(isStart)
	if len(starts) != 1 {
		c.Fail("R6", "getDelivery:start", r.FI.Decl.Pos(), "undecided: expected exactly one target Start")
		return
	}
	stored := func(pt Pt) bool {
		return nodeAssigns(pt.Node(), func(l, _ ast.Expr) bool {
			ix, ok := ast.Unparen(l).(*ast.IndexExpr)
			return ok && isField(info, ix.X, "msgpipelineDelivery", "deliveries")
		})
	}
	found, w, decided := r.OnErr(starts[0], r.CallAt(starts[0], isStart), true, r.IsSuccessReturn, stored)
	msg := ""
	if !decided {
		msg = "the error of the target's Start is dropped"
	} else if found {
		msg = "a started target delivery can be returned without being recorded (Commit/Abort will never reach it): " + w
	}
	c.Hold("R6", "getDelivery:owned", r.Pos(starts[0]), msg == "", msg)
}

// c03LMTPCommit: callers of BodyNonAtomic always Commit. A target delivery that did not receive the body (a check or
// modifier failed before the fan-out, or its own Body failed) must therefore be aborted by the pipeline's Commit.
func c03LMTPCommit(c *Check) {
	p := c.P
	c.Rule("R3b", "per-recipient (LMTP) path: a target delivery that did not accept the message body is marked and the pipeline's Commit aborts it instead of committing it (a message refused at the body stage is committed to no target)", 3)
	rb := c.need("R3b", pipelineRel, "msgpipelineDelivery", "BodyNonAtomic")
	rc := c.need("R3b", pipelineRel, "msgpipelineDelivery", "Commit")
	if rb == nil || rc == nil {
		return
	}
	info := rb.Info
	// the failure flag: a bool field of the per-target delivery struct set to true in BodyNonAtomic or in a method of
	// that struct it calls
	var flag *types.Var
	findFlag := func(inf *types.Info, body ast.Node) {
		ast.Inspect(body, func(n ast.Node) bool {
			if as, ok := n.(*ast.AssignStmt); ok && len(as.Lhs) == 1 && len(as.Rhs) == 1 {
				if fv := fieldOf(inf, as.Lhs[0]); fv != nil {
					if tv, ok := inf.Types[as.Rhs[0]]; ok && tv.Value != nil && tv.Value.String() == "true" {
						if b, ok := fv.Type().Underlying().(*types.Basic); ok && b.Kind() == types.Bool {
							if nt := fieldOwner(p, fv); nt != nil && objName(nt.Obj()) == "delivery" {
								flag = fv
							}
						}
					}
				}
			}
			return true
		})
	}
	findFlag(info, rb.FI.Decl.Body)
	if flag == nil {
		for _, call := range callsIn(rb.FI.Decl.Body) {
			if fn := callee(info, call); fn != nil && fn.Pkg() == rb.FI.Obj.Pkg() {
				if d := p.DeclOf(fn); d != nil && d.Decl.Body != nil {
					findFlag(d.Info(), d.Decl.Body)
				}
			}
		}
	}
	if flag == nil {
		c.Hold("R3b", "BodyNonAtomic:failure-recorded", rb.FI.Decl.Pos(), false, "the per-recipient body path does not record which target deliveries did not get the body; its callers always Commit, so a message rejected by a body check (every recipient refused) is committed to every target")
		return
	}
	storesFlag := func(inf *types.Info, n ast.Node, isTarget func(ast.Expr) bool) bool {
		return nodeAssigns(n, func(l, rhs ast.Expr) bool {
			if fieldOf(inf, l) != flag || rhs == nil {
				return false
			}
			sx := ast.Unparen(l).(*ast.SelectorExpr)
			tv, ok := inf.Types[rhs]
			return isTarget(sx.X) && ok && tv.Value != nil && tv.Value.String() == "true"
		})
	}
	// marksVia: the call is a method call on the target (isTarget(receiver)) of a method that sets the flag of its
	// receiver on every path
	marksVia := func(inf *types.Info, call *ast.CallExpr, isTarget func(ast.Expr) bool) bool {
		rcv := callRecv(call)
		if rcv == nil || !isTarget(rcv) {
			return false
		}
		fn := callee(inf, call)
		if fn == nil || fn.Pkg() != rb.FI.Obj.Pkg() {
			return false
		}
		d := p.DeclOf(fn)
		if d == nil || d.Decl.Body == nil || d.Decl.Recv == nil || len(d.Decl.Recv.List) != 1 || len(d.Decl.Recv.List[0].Names) != 1 {
			return false
		}
		di := d.Info()
		recvO := di.Defs[d.Decl.Recv.List[0].Names[0]]
		g := c.CtxOf(d)
		sets := func(q Pt) bool {
			return q.Node() != nil && storesFlag(di, q.Node(), func(e ast.Expr) bool { return objOf(di, e) == recvO })
		}
		_, escapes := g.F.Reach(Query{From: g.Entry(), Inclusive: true, Target: g.F.IsExitPt, Avoid: sets})
		return !escapes
	}
	marksAt := func(inf *types.Info, n ast.Node, isTarget func(ast.Expr) bool) bool {
		if n == nil {
			return false
		}
		if storesFlag(inf, n, isTarget) {
			return true
		}
		for _, call := range callsAt(n) {
			if marksVia(inf, call, isTarget) {
				return true
			}
		}
		return false
	}
	isDeliveries := func(inf *types.Info) func(ast.Expr) bool {
		return func(e ast.Expr) bool { return isField(inf, e, "msgpipelineDelivery", "deliveries") }
	}
	// a loop over all target deliveries that marks each of them
	markAllLoops := func(inf *types.Info, body ast.Node) []*ElemLoop {
		var out []*ElemLoop
		for _, l := range elemLoops(inf, body, isDeliveries(inf)) {
			if !l.Whole {
				continue
			}
			l := l
			marks := false
			for _, st := range l.Body.List {
				ast.Inspect(st, func(x ast.Node) bool {
					if st2, ok := x.(ast.Stmt); ok && marksAt(inf, st2, l.IsElem) {
						marks = true
					}
					return true
				})
			}
			escape := false
			inspectNoLit(l.Body, func(x ast.Node) bool {
				switch b := x.(type) {
				case *ast.BranchStmt:
					escape = escape || b.Tok == token.BREAK || b.Tok == token.CONTINUE || b.Tok == token.GOTO
				case *ast.ReturnStmt:
					escape = true
				}
				return true
			})
			if marks && !escape {
				out = append(out, l)
			}
		}
		return out
	}
	// (i) every early return of BodyNonAtomic (before the fan-out) passes something that marks every delivery: such a
	// loop, a closure containing one, or a function of the package containing one
	markAll := map[types.Object]bool{}
	ast.Inspect(rb.FI.Decl.Body, func(n ast.Node) bool {
		if as, ok := n.(*ast.AssignStmt); ok && len(as.Lhs) == 1 && len(as.Rhs) == 1 {
			if fl, ok := as.Rhs[0].(*ast.FuncLit); ok && len(markAllLoops(info, fl.Body)) > 0 {
				markAll[objOf(info, as.Lhs[0])] = true
			}
		}
		return true
	})
	inlineMarkAll := markAllLoops(info, rb.FI.Decl.Body)
	callsMarkAll := func(pt Pt) bool {
		for _, call := range callsAt(pt.Node()) {
			if id, ok := call.Fun.(*ast.Ident); ok && markAll[objOf(info, id)] {
				return true
			}
			if fn := callee(info, call); fn != nil && fn.Pkg() == rb.FI.Obj.Pkg() && fn != rb.FI.Obj {
				if d := p.DeclOf(fn); d != nil && d.Decl.Body != nil && len(markAllLoops(d.Info(), d.Decl.Body)) > 0 {
					return true
				}
			}
		}
		// completion of an inline mark-all loop
		for _, l := range inlineMarkAll {
			for _, d := range rb.F.LoopDone(l) {
				if d == pt {
					return true
				}
			}
		}
		return false
	}
	// the fan-out loop: the loop over the deliveries (outside closures) that hands the body to the targets
	var fan *ElemLoop
	for _, l := range elemLoops(info, rb.FI.Decl.Body, isDeliveries(info)) {
		inLit := false
		ast.Inspect(rb.FI.Decl.Body, func(x ast.Node) bool {
			if fl, ok := x.(*ast.FuncLit); ok && posIn(fl, l.Stmt.Pos()) {
				inLit = true
			}
			return true
		})
		hands := false
		l := l
		ast.Inspect(l.Body, func(x ast.Node) bool {
			if call, ok := x.(*ast.CallExpr); ok && (methodName(call) == "Body" || methodName(call) == "BodyNonAtomic") {
				hands = true
			}
			return true
		})
		if !inLit && hands {
			fan = l
		}
	}
	msg := ""
	if fan == nil {
		msg = "undecided: fan-out loop not found"
	} else {
		fanStart := rb.F.LoopBodyStart(fan)
		// a return before the fan-out that does not mark all deliveries
		early := func(pt Pt) bool {
			if !rb.F.IsExitPt(pt) {
				return false
			}
			_, ret := rb.F.Exit(pt)
			return ret != nil && ret.Pos() < fan.Stmt.Pos()
		}
		if path, f := rb.F.Reach(Query{From: rb.Entry(), Inclusive: true, Target: early, Avoid: orPt(callsMarkAll, isPt(fanStart))}); f {
			msg = "the body stage can end before the fan-out without marking the target deliveries as failed: " + rb.F.Describe(path)
		}
	}
	c.Hold("R3b", "BodyNonAtomic:early-failure-marks-all", rb.FI.Decl.Pos(), msg == "", msg)
	// (ii) atomic target Body failure marks that delivery
	msg = ""
	if fan != nil {
		for _, pt := range rb.F.Points() {
			nd := pt.Node()
			if nd == nil || !within(fan.Body, nd) {
				continue
			}
			for _, call := range callsAt(nd) {
				if methodName(call) == "Body" && callRecv(call) != nil && fan.IsElem(callRecv(call)) {
					eo := errVarAssigned(info, nd, call)
					iterEnd := rb.F.IterEnd(fan)
					marks := func(q Pt) bool { return marksAt(info, q.Node(), fan.IsElem) }
					if eo == nil {
						msg = "the error of the target's Body is dropped"
					} else if path, f := rb.F.ReachRefined(pt, eo, false, false, iterEnd, marks); f {
						msg = "a target whose Body failed is not marked: the caller's Commit commits it: " + rb.F.Describe(path)
					}
				}
			}
		}
	}
	c.Hold("R3b", "BodyNonAtomic:target-failure-marks-it", rb.FI.Decl.Pos(), msg == "", msg)
	// (ii-b) a failure is reported (and the deliveries marked) only with an actual error: the mark-all / report-all step
	// is never reached on the path where the error it is given is nil (it would tell every recipient "250" while
	// Commit aborts every target)
	msg = ""
	for _, pt := range rb.F.Points() {
		if !callsMarkAll(pt) {
			continue
		}
		for _, call := range callsAt(pt.Node()) {
			for _, a := range call.Args {
				eo, ok := objOf(info, a).(*types.Var)
				if !ok || !isErrorType(eo.Type()) {
					continue
				}
				// where is that error defined?
				for _, dp := range rb.F.Points() {
					if dp.Node() == nil || !assignsObj(info, dp.Node(), eo) {
						continue
					}
					redef := func(q Pt) bool { return q.Node() != nil && assignsObj(info, q.Node(), eo) }
					if path, f := rb.F.ReachRefined(dp, eo, true, false, func(q Pt) bool { return q == pt }, redef); f {
						msg = "the 'body stage failed' step is reached although the error is nil: every recipient is told the message was accepted while all target deliveries are marked and aborted – the message is lost: " + rb.F.Describe(path)
					}
				}
			}
		}
	}
	c.Hold("R3b", "BodyNonAtomic:failure-only-with-error", rb.FI.Decl.Pos(), msg == "", msg)
	// (ii-c) the atomic path: Body reports success only after the body was handed to every started target
	if rBody := c.In(pipelineRel, "msgpipelineDelivery", "Body"); rBody != nil {
		bi := rBody.Info
		var bfan *ElemLoop
		for _, l := range elemLoops(bi, rBody.FI.Decl.Body, isDeliveries(bi)) {
			l := l
			for _, call := range callsIn(l.Body) {
				if methodName(call) == "Body" && callRecv(call) != nil && l.IsElem(callRecv(call)) && l.Whole {
					bfan = l
				}
			}
		}
		m := ""
		if bfan == nil {
			m = "undecided: Body has no fan-out over the started target deliveries"
		} else if path, f := rBody.F.Reach(Query{From: rBody.Entry(), Inclusive: true, Target: rBody.IsSuccessReturn, Avoid: isPt(rBody.F.LoopDone(bfan))}); f {
			m = "the pipeline's Body can report success without having handed the body to the target deliveries (the caller then commits targets that hold no message): " + rBody.F.Describe(path)
		}
		if m == "" && bfan != nil {
			// `return err` with err possibly nil before the fan-out
			done := isPt(rBody.F.LoopDone(bfan))
			for _, blk := range rBody.F.G.Blocks {
				ex := Pt{blk, len(blk.Nodes)}
				_, ret := rBody.F.Exit(ex)
				if ret == nil || len(ret.Results) != 1 {
					continue
				}
				v, ok := objOf(bi, ret.Results[0]).(*types.Var)
				if !ok || v.IsField() || !isErrorType(v.Type()) {
					continue
				}
				for _, dp := range rBody.F.Points() {
					if dp.Node() == nil || !assignsObj(bi, dp.Node(), v) {
						continue
					}
					avoid := func(q Pt) bool { return done(q) || (q.Node() != nil && assignsObj(bi, q.Node(), v)) }
					if path, f := rBody.F.ReachRefined(dp, v, true, false, func(q Pt) bool { return q == ex }, avoid); f {
						m = "the pipeline's Body can return a nil error – success – before the body was handed to the target deliveries: " + rBody.F.Describe(path)
					}
				}
			}
		}
		c.Hold("R3b", "Body:success-after-fan-out", rBody.FI.Decl.Pos(), m == "", m)
	}
	// (iii) Commit aborts marked deliveries
	ci := rc.Info
	msg = "undecided: Commit has no loop over the deliveries"
	for _, rs := range rangesIn(rc.FI.Decl.Body, func(rs *ast.RangeStmt) bool { return isField(ci, rs.X, "msgpipelineDelivery", "deliveries") }) {
		lv := objOf(ci, rs.Value)
		msg = ""
		world := rc.F.World(func(atom ast.Expr) (bool, bool) {
			if fv := fieldOf(ci, atom); fv == flag {
				if s, ok := ast.Unparen(atom).(*ast.SelectorExpr); ok && objOf(ci, s.X) == lv {
					return true, true
				}
			}
			return false, false
		})
		var bodyStart []Pt
		for _, b := range rc.F.G.Blocks {
			if b.Kind == kindRangeBody && b.Stmt == ast.Stmt(rs) {
				bodyStart = append(bodyStart, Pt{b, 0})
			}
		}
		commits := func(q Pt) bool {
			for _, call := range callsAt(q.Node()) {
				if methodName(call) == "Commit" && recvObj(ci, call) == lv {
					return true
				}
			}
			return false
		}
		iterEnd := func(q Pt) bool {
			return (q.B.Stmt == ast.Stmt(rs) && (q.B.Kind == kindRangeLoop || q.B.Kind == kindRangeDone) && q.I == 0) || rc.F.IsExitPt(q)
		}
		if path, f := rc.F.Reach(Query{From: bodyStart, Inclusive: true, Target: commits, Avoid: iterEnd, AvoidEdge: world}); f {
			msg = "a target delivery marked as not having accepted the body is still committed: " + rc.F.Describe(path)
		}
	}
	c.Hold("R3b", "Commit:aborts-marked", rc.FI.Decl.Pos(), msg == "", msg)
}


// R8: the functions that turn the DATA / BDAT reader into the message buffer (the `buffer` directive's functions and
// the buffer constructors they use) decide whether Body and Commit are reached at all. The library's data reader
// reports a connection lost before the end-of-data marker, a cancelled BDAT and an oversized message as read errors –
// the first of them as io.ErrUnexpectedEOF. A buffer function that answers a read error other than io.EOF with a
// buffer hands a cut-off message to the targets, which commit it although the transaction failed.
func c03BodyReader(c *Check) {
	c.Rule("R8", "body buffering: a function from the message reader to a buffer returns a buffer only when every read of the reader ended with nil or io.EOF (evaluated in the world `err != nil, err != io.EOF`), and does not read through io.ReadFull / io.ReadAtLeast, whose io.ErrUnexpectedEOF cannot be told from the data reader's 'connection lost'", 3)
	p := c.P
	isReader := func(t types.Type) bool {
		n := namedOf(t)
		return n != nil && n.Obj().Pkg() != nil && n.Obj().Pkg().Path() == "io" && n.Obj().Name() == "Reader"
	}
	isBufferFn := func(sig *types.Signature) (int, bool) {
		if sig == nil || sig.Results().Len() != 2 || !isErrorType(sig.Results().At(1).Type()) {
			return 0, false
		}
		rn := namedOf(sig.Results().At(0).Type())
		if rn == nil || rn.Obj().Pkg() == nil || rn.Obj().Pkg().Path() != modPath+"/framework/buffer" {
			return 0, false
		}
		for i := 0; i < sig.Params().Len(); i++ {
			if isReader(sig.Params().At(i).Type()) {
				return i, true
			}
		}
		return 0, false
	}
	n := 0
	judge := func(fi *FuncInfo, name string, ft *ast.FuncType, body *ast.BlockStmt, sig *types.Signature) {
		pi, ok := isBufferFn(sig)
		if !ok || body == nil {
			return
		}
		info := fi.Info()
		// the reader parameter's object
		var rd types.Object
		k := 0
		for _, fld := range ft.Params.List {
			if len(fld.Names) == 0 {
				k++
				continue
			}
			for _, nm := range fld.Names {
				if k == pi {
					rd = info.Defs[nm]
				}
				k++
			}
		}
		if rd == nil {
			return
		}
		n++
		c.SawFunc(fi.Name())
		r := &RuleCtx{C: c, FI: fi, F: p.FlowOf(info, body, name), Info: info}
		// readers derived from the parameter (bufio.NewReader(r), io.MultiReader(…, r), io.LimitReader(r, n))
		derived := copyClosure(info, body, rd)
		derived[rd] = true
		ast.Inspect(body, func(x ast.Node) bool {
			as, ok := x.(*ast.AssignStmt)
			if !ok || len(as.Lhs) != 1 || len(as.Rhs) != 1 {
				return true
			}
			for o := range derived {
				if mentions(info, as.Rhs[0], o) && isReader(info.TypeOf(as.Rhs[0])) {
					if lo := objOf(info, as.Lhs[0]); lo != nil {
						derived[lo] = true
					}
				}
			}
			return true
		})
		usesReader := func(e ast.Node) bool {
			for o := range derived {
				if mentions(info, e, o) {
					return true
				}
			}
			return false
		}
		bad := ""
		nReads := 0
		for _, pt := range r.F.Points() {
			nd := pt.Node()
			if nd == nil {
				continue
			}
			for _, call := range callsAt(nd) {
				if !usesReader(call) {
					continue
				}
				if isCall(info, call, "io.ReadFull", "io.ReadAtLeast") {
					bad = "the message reader is read through " + exprStr(call.Fun) + ": its io.ErrUnexpectedEOF stands both for 'the message is shorter than the buffer' and for the data reader's 'connection lost before the end of the message'"
					continue
				}
				eo := errVarAssigned(info, nd, call)
				if eo == nil {
					continue
				}
				nReads++
				world := r.F.World(func(atom ast.Expr) (bool, bool) {
					atom = ast.Unparen(atom)
					if be, ok := atom.(*ast.BinaryExpr); ok && (be.Op == token.EQL || be.Op == token.NEQ) && objOf(info, be.X) == eo {
						if isNilIdent(info, be.Y) {
							return be.Op == token.NEQ, true
						}
						if sel, ok := ast.Unparen(be.Y).(*ast.SelectorExpr); ok && sel.Sel.Name == "EOF" {
							if o := info.Uses[sel.Sel]; o != nil && o.Pkg() != nil && o.Pkg().Path() == "io" {
								return be.Op == token.NEQ, true
							}
						}
					}
					if call, ok := atom.(*ast.CallExpr); ok && isCall(info, call, "errors.Is") && len(call.Args) == 2 && objOf(info, call.Args[0]) == eo {
						if sel, ok := ast.Unparen(call.Args[1]).(*ast.SelectorExpr); ok && sel.Sel.Name == "EOF" {
							return false, true
						}
					}
					return false, false
				})
				redefined := func(q Pt) bool { return q != pt && q.Node() != nil && assignsObj(info, q.Node(), eo) }
				if path, f := r.F.Reach(Query{From: []Pt{pt}, Target: r.IsSuccessReturn, Avoid: redefined, AvoidEdge: world}); f {
					bad = "after " + exprStr(call.Fun) + " on the message reader failed with something other than io.EOF (connection lost, transfer cancelled, message too large) the function still returns a buffer: the cut-off message goes on to Body and Commit: " + r.F.Describe(path)
				}
			}
		}
		key := name
		c.Hold("R8", key+":read-errors", body.Pos(), bad == "", bad)
		_ = nReads
	}
	for _, rel := range []string{smtpEndpRel, "framework/buffer"} {
		for _, fi := range funcsOfPkgs(p, rel) {
			fi := fi
			if sig, ok := fi.Obj.Type().(*types.Signature); ok {
				judge(fi, fi.Name(), fi.Decl.Type, fi.Decl.Body, sig)
			}
			li := 0
			ast.Inspect(fi.Decl.Body, func(x ast.Node) bool {
				if fl, ok := x.(*ast.FuncLit); ok {
					li++
					if sig, ok := fi.Info().TypeOf(fl).(*types.Signature); ok {
						judge(fi, fi.Name()+"$lit"+itoa(li), fl.Type, fl.Body, sig)
					}
				}
				return true
			})
		}
	}
	if n < 3 {
		c.Fail("R8", "buffer-functions", token.NoPos, "undecided: fewer than three functions from an io.Reader to a buffer.Buffer found (buffer.BufferInMemory, buffer.BufferInFile, the endpoint's auto mode)")
	}
}


// R9: NewSession runs on the connection's command goroutine. From the first BDAT chunk on, the session's Data runs on
// a goroutine of its own, holds the session's message lock and waits for chunks that only the command goroutine can
// pass on. If NewSession (a repeated EHLO / LHLO) waits for that lock – by calling a method of the previous session
// that takes it (Logout, Reset) – both goroutines wait for each other: the connection hangs, the open delivery is
// never closed and its permits are never returned. Such a call is therefore made only after a successful TryLock
// of that lock, or handed to a goroutine of its own.
func c03NewSessionNeverWaits(c *Check) {
	c.Rule("R9", "Endpoint.NewSession never waits for the message lock of the connection's previous session: a call of a Session method that takes the lock is dominated by a successful TryLock of it or runs in its own goroutine (the lock may be held by a BDAT transfer that waits for this very goroutine)", 1)
	r := c.need("R9", smtpEndpRel, "Endpoint", "NewSession")
	if r == nil {
		return
	}
	info := r.Info
	p := c.P
	// Session methods that take the message lock
	takes := map[*types.Func]bool{}
	for _, fi := range funcsOfPkgs(p, smtpEndpRel) {
		sig := fi.Obj.Type().(*types.Signature)
		if sig.Recv() == nil || namedOf(sig.Recv().Type()) == nil || objName(namedOf(sig.Recv().Type()).Obj()) != "Session" {
			continue
		}
		for _, call := range callsIn(fi.Decl.Body) {
			if methodName(call) == "Lock" && isField(fi.Info(), callRecv(call), "Session", "msgLock") {
				takes[fi.Obj] = true
			}
		}
	}
	if len(takes) == 0 {
		c.Fail("R9", "NewSession:lock-takers", r.FI.Decl.Pos(), "undecided: no Session method takes the message lock")
		return
	}
	// calls in NewSession's own flow (closures that are only called are read in place; `go` literals are not part of it)
	n := 0
	msg := ""
	var visit func(body *ast.BlockStmt, flowName string, async bool)
	visit = func(body *ast.BlockStmt, flowName string, async bool) {
		f := p.FlowOf(info, body, flowName)
		lr := &RuleCtx{C: c, FI: r.FI, F: f, Info: info}
		for _, pt := range f.Points() {
			nd := pt.Node()
			if nd == nil {
				continue
			}
			if g, isGo := nd.(*ast.GoStmt); isGo {
				_ = g
				continue // runs elsewhere
			}
			var calls []*ast.CallExpr
			for _, call := range callsAt(nd) {
				calls = append(calls, call)
				// a local closure called in place performs its calls here
				if id, ok := ast.Unparen(call.Fun).(*ast.Ident); ok {
					if o := objOf(info, id); o != nil {
						if def, nd := localDef(info, r.FI.Decl.Body, o); nd == 1 && def != nil {
							if lit, ok := ast.Unparen(def).(*ast.FuncLit); ok {
								calls = append(calls, callsIn(lit.Body)...)
							}
						}
					}
				}
			}
			for _, call := range calls {
				fn := callee(info, call)
				if fn == nil || !takes[fn] {
					continue
				}
				// only sessions obtained from the connection can be busy; the session this call has just created is not
				if ro := recvObj(info, call); ro != nil {
					if def, nd := localDef(info, r.FI.Decl.Body, ro); nd == 1 && def != nil && !strings.Contains(exprStr(def), "Session()") {
						continue
					}
				}
				n++
				if async {
					continue
				}
				// dominated by a successful TryLock on the same session's lock?
				recv := exprStr(callRecv(call))
				tryOK := f.AvoidImplying(func(atom ast.Expr) (bool, bool) {
					if tc, ok := ast.Unparen(atom).(*ast.CallExpr); ok && methodName(tc) == "TryLock" {
						if sel, ok := ast.Unparen(callRecv(tc)).(*ast.SelectorExpr); ok && exprStr(sel.X) == recv {
							return true, true // remove the edges on which TryLock succeeded
						}
					}
					return false, false
				})
				if path, reach := f.Reach(Query{From: lr.Entry(), Inclusive: true, Target: func(q Pt) bool { return q == pt }, AvoidEdge: tryOK}); reach {
					msg = "NewSession calls " + exprStr(call.Fun) + ", which waits for the previous session's message lock, without having found the lock free (TryLock) and not in a goroutine of its own: after `BDAT n` (not LAST) the lock is held by the transfer, which waits for this goroutine – a repeated EHLO hangs the connection for good, the delivery stays open and its permits taken: " + f.Describe(path)
				}
			}
		}
	}
	visit(r.FI.Decl.Body, r.FI.Name(), false)
	c.Hold("R9", "NewSession:never-waits-for-previous-session", r.FI.Decl.Pos(), msg == "", msg)
	_ = n
}
