package main

import (
	_ "embed"
	"encoding/json"
	"go/ast"
	"go/types"
	"os"
	"sort"
	"strings"
)

// Rename tolerance for anchors. Rules name the functions they reason about. A behaviour-preserving rename of such
// a function would make every rule on it fail closed ("anchor unresolved") – an alarm on a harmless edit. As a
// fall-back only (an exact name match always wins) an index of the functions of the reference tree – signature and
// the set of functions called – is consulted: a function of the same package and receiver type, with an identical
// signature, whose name is *not* a name of the reference tree and whose callee set is closest to the recorded one
// is taken for the renamed anchor. The index decides nothing about any property; it is regenerated with
// `./check ANCHORS quick` (writes checker/anchors_index.json) whenever the reference tree changes.

//go:embed anchors_index.json
var anchorsIndexRaw []byte

type anchorRec struct {
	Rel     string   `json:"rel"`
	Recv    string   `json:"recv"`
	Name    string   `json:"name"`
	Sig     string   `json:"sig"`
	Callees []string `json:"callees"`
}

type fieldRec struct {
	Name string `json:"name"`
	Typ  string `json:"typ"`
}

type structRec struct {
	Rel     string     `json:"rel"`
	Type    string     `json:"type"`
	Fields  []fieldRec `json:"fields"`
	Methods []string   `json:"methods,omitempty"`
}

type anchorsIndex struct {
	Funcs   []anchorRec `json:"funcs"`
	Structs []structRec `json:"structs"`
}

var theProg *Prog // for name-based call predicates (isCall) that have no program at hand

type renameState struct {
	index    map[string]anchorRec // rel|recv|name
	names    map[string]bool      // rel|recv|name of the reference tree
	alias    map[string]*FuncInfo // resolved renames (nil = looked up, nothing found)
	byQName  map[string]string    // reference qualified name -> current qualified name
	notes    []string
	refNames map[*types.Func]string
	structs  map[string]structRec       // rel|TypeName of the reference tree
	fieldRef map[*types.Var]string      // current field object -> reference name (renamed fields only)
	typeRef  map[*types.TypeName]string // current struct type -> reference name (renamed types only)
	applied  bool
}

func (p *Prog) renames() *renameState {
	if p.ren != nil {
		return p.ren
	}
	rs := &renameState{index: map[string]anchorRec{}, names: map[string]bool{}, alias: map[string]*FuncInfo{}, byQName: map[string]string{}}
	var idx anchorsIndex
	// measurements against an older reference tree (refacw.sh on a base commit) supply that tree's index
	if alt := os.Getenv("VERIF_ANCHORS_IN"); alt != "" {
		if data, err := os.ReadFile(alt); err == nil {
			anchorsIndexRaw = data
		}
	}
	if len(anchorsIndexRaw) > 0 {
		if err := json.Unmarshal(anchorsIndexRaw, &idx); err != nil {
			_ = json.Unmarshal(anchorsIndexRaw, &idx.Funcs)
		}
	}
	rs.structs = map[string]structRec{}
	for _, st := range idx.Structs {
		rs.structs[st.Rel+"|"+st.Type] = st
	}
	recs := idx.Funcs
	for _, r := range recs {
		k := r.Rel + "|" + r.Recv + "|" + r.Name
		rs.index[k] = r
		rs.names[k] = true
	}
	p.ren = rs
	return rs
}

func sigString(fn *types.Func) string {
	sig := fn.Type().(*types.Signature)
	// without the receiver, package-qualified
	s := types.NewSignatureType(nil, nil, nil, sig.Params(), sig.Results(), sig.Variadic())
	// parameter names are irrelevant: print types only
	var parts []string
	for i := 0; i < s.Params().Len(); i++ {
		parts = append(parts, types.TypeString(s.Params().At(i).Type(), nil))
	}
	out := "(" + strings.Join(parts, ", ") + ")"
	if s.Variadic() {
		out += "..."
	}
	parts = nil
	for i := 0; i < s.Results().Len(); i++ {
		parts = append(parts, types.TypeString(s.Results().At(i).Type(), nil))
	}
	return out + " (" + strings.Join(parts, ", ") + ")"
}

func calleeSet(fi *FuncInfo) []string {
	set := map[string]bool{}
	info := fi.Info()
	ast.Inspect(fi.Decl.Body, func(n ast.Node) bool {
		if call, ok := n.(*ast.CallExpr); ok {
			if q := qname(callee(info, call)); q != "" {
				set[q] = true
			}
		}
		return true
	})
	var out []string
	for k := range set {
		out = append(out, k)
	}
	sort.Strings(out)
	return out
}

// resolveRenamed: the function of the current tree that the reference function rel/recv/name has become.
func (p *Prog) resolveRenamed(rel, recv, name string) *FuncInfo {
	rs := p.renames()
	k := rel + "|" + recv + "|" + name
	if fi, done := rs.alias[k]; done {
		return fi
	}
	rs.alias[k] = nil
	rec, ok := rs.index[k]
	if !ok {
		return nil
	}
	pk := p.Pkg(rel)
	if pk == nil {
		return nil
	}
	want := map[string]bool{}
	for _, c := range rec.Callees {
		want[c] = true
	}
	var best *FuncInfo
	bestScore, nCand := -1.0, 0
	p.AllFuncs([]*packagesPkg{pk}, func(fi *FuncInfo) {
		if strings.HasSuffix(p.Fset.Position(fi.Decl.Pos()).Filename, "_test.go") {
			return
		}
		if recvTypeName(fi.Decl) != recv || rs.names[rel+"|"+recv+"|"+fi.Obj.Name()] {
			return // a function the reference tree already had under this name is not a rename target
		}
		if sigString(fi.Obj) != rec.Sig {
			return
		}
		nCand++
		have := calleeSet(fi)
		inter := 0
		for _, c := range have {
			if want[c] {
				inter++
			}
		}
		union := len(have) + len(want) - inter
		score := 1.0
		if union > 0 {
			score = float64(inter) / float64(union)
		}
		if score > bestScore {
			best, bestScore = fi, score
		}
	})
	if best == nil || (nCand > 1 && bestScore < 0.5) || (nCand == 1 && bestScore < 0.2 && len(want) > 2) {
		return nil
	}
	rs.alias[k] = best
	rs.notes = append(rs.notes, "anchor "+rel+":"+recv+"."+name+" not found under that name; resolved to "+best.Name()+" (same receiver and signature, callee overlap "+strings.TrimRight(strings.TrimRight(strconvF(bestScore), "0"), ".")+")")
	return best
}

func strconvF(f float64) string {
	n := int(f*100 + 0.5)
	return itoa(n/100) + "." + itoa((n%100)/10) + itoa(n%10)
}

// currentQName maps a qualified name of the reference tree ("pkgpath.Recv.Name" / "pkgpath.Name") to the
// qualified name of the function it was renamed to; "" if the name still exists or nothing was found.
func (p *Prog) currentQName(ref string) string {
	if p == nil || !strings.HasPrefix(ref, modPath+"/") {
		return ""
	}
	rs := p.renames()
	if v, ok := rs.byQName[ref]; ok {
		return v
	}
	rs.byQName[ref] = ""
	rest := strings.TrimPrefix(ref, modPath+"/")
	// rest = "internal/x/y.Recv.Name" or "internal/x/y.Name": the package path has no dot after its last slash
	slash := strings.LastIndex(rest, "/")
	dot := strings.Index(rest[slash+1:], ".")
	if dot < 0 {
		return ""
	}
	rel := rest[:slash+1+dot]
	parts := strings.Split(rest[slash+1+dot+1:], ".")
	recv, name := "", parts[len(parts)-1]
	if len(parts) == 2 {
		recv = parts[0]
	}
	if p.Func(rel, recv, name) != nil {
		// Func resolves renames itself; if it came back through the alias the names differ
		if fi := p.Func(rel, recv, name); fi != nil && fi.Obj.Name() != name {
			rs.byQName[ref] = qname(fi.Obj)
		}
	}
	return rs.byQName[ref]
}

// writeAnchorsIndex regenerates checker/anchors_index.json from the loaded tree.
func writeAnchorsIndex(p *Prog, path string) (int, error) {
	var recs []anchorRec
	for _, pk := range p.Pkgs {
		rel := strings.TrimPrefix(strings.TrimPrefix(pk.PkgPath, modPath), "/")
		p.AllFuncs([]*packagesPkg{pk}, func(fi *FuncInfo) {
			if strings.HasSuffix(p.Fset.Position(fi.Decl.Pos()).Filename, "_test.go") {
				return
			}
			recs = append(recs, anchorRec{Rel: rel, Recv: recvTypeName(fi.Decl), Name: fi.Obj.Name(), Sig: sigString(fi.Obj), Callees: calleeSet(fi)})
		})
	}
	sort.Slice(recs, func(i, j int) bool {
		a, b := recs[i], recs[j]
		if a.Rel != b.Rel {
			return a.Rel < b.Rel
		}
		if a.Recv != b.Recv {
			return a.Recv < b.Recv
		}
		return a.Name < b.Name
	})
	var structs []structRec
	for _, pk := range p.Pkgs {
		rel := strings.TrimPrefix(strings.TrimPrefix(pk.PkgPath, modPath), "/")
		sc := pk.Types.Scope()
		for _, nm := range sc.Names() {
			tn, ok := sc.Lookup(nm).(*types.TypeName)
			if !ok || tn.IsAlias() {
				continue
			}
			st, ok := tn.Type().Underlying().(*types.Struct)
			if !ok {
				continue
			}
			sr := structRec{Rel: rel, Type: nm}
			for i := 0; i < st.NumFields(); i++ {
				sr.Fields = append(sr.Fields, fieldRec{st.Field(i).Name(), types.TypeString(st.Field(i).Type(), nil)})
			}
			if nt, ok := tn.Type().(*types.Named); ok {
				for i := 0; i < nt.NumMethods(); i++ {
					sr.Methods = append(sr.Methods, nt.Method(i).Name())
				}
				sort.Strings(sr.Methods)
			}
			structs = append(structs, sr)
		}
	}
	data, err := json.MarshalIndent(anchorsIndex{Funcs: recs, Structs: structs}, "", " ")
	if err != nil {
		return 0, err
	}
	return len(recs), os.WriteFile(path, append(data, '\n'), 0o644)
}

// funcExact is Func without the rename fall-back.
func (p *Prog) funcExact(rel, recv, name string) bool {
	pk := p.Pkg(rel)
	if pk == nil {
		return false
	}
	for _, f := range pk.Syntax {
		for _, d := range f.Decls {
			if fd, ok := d.(*ast.FuncDecl); ok && fd.Name.Name == name && fd.Body != nil && recvTypeName(fd) == recv {
				return true
			}
		}
	}
	return false
}

// refName: the name under which the rules know fn – its own name, or, for a function that exists in the current
// tree under a name the reference tree did not have, the reference name it was renamed from (so that obligation
// keys, known findings and "only X may do this" rules survive the rename).
func refName(fn *types.Func) string {
	p := theProg
	if fn == nil {
		return ""
	}
	if p == nil || fn.Pkg() == nil || !strings.HasPrefix(fn.Pkg().Path(), modPath) {
		return fn.Name()
	}
	rs := p.renames()
	if rs.refNames == nil {
		rs.refNames = map[*types.Func]string{}
	}
	if n, ok := rs.refNames[fn]; ok {
		return n
	}
	rs.refNames[fn] = fn.Name()
	fi := p.DeclOf(fn)
	if fi == nil {
		return fn.Name()
	}
	rel := strings.TrimPrefix(strings.TrimPrefix(fn.Pkg().Path(), modPath), "/")
	recv := recvTypeName(fi.Decl)
	if rs.names[rel+"|"+recv+"|"+fn.Name()] || len(rs.index) == 0 {
		return fn.Name()
	}
	sig := sigString(fn)
	for _, rec := range rs.index {
		if rec.Rel != rel || rec.Recv != recv || rec.Sig != sig || p.funcExact(rel, recv, rec.Name) {
			continue
		}
		if got := p.resolveRenamed(rel, recv, rec.Name); got != nil && got.Obj == fn {
			rs.refNames[fn] = rec.Name
			return rec.Name
		}
	}
	return fn.Name()
}

// applyRenames normalises the loaded syntax trees to the names of the reference tree: every identifier that refers
// to a renamed unexported function or to a renamed struct field gets the reference name. The rules (which speak
// about `x.deliveries`, `emitDSN`, …) and everything printed from expressions (keys, terms of the bounds prover)
// then read the same as on the reference tree. Type information is not touched; objects keep their current names
// (objName gives the reference name of an object).
func (p *Prog) applyRenames() {
	rs := p.renames()
	if rs.applied || len(rs.index) == 0 {
		return
	}
	rs.applied = true
	rs.fieldRef = map[*types.Var]string{}
	rs.typeRef = map[*types.TypeName]string{}
	// struct types: a type whose name the reference tree did not have, matched to a reference struct of the same
	// package whose name disappeared, with the same number of fields and the closest method set
	for _, pk := range p.Pkgs {
		rel := strings.TrimPrefix(strings.TrimPrefix(pk.PkgPath, modPath), "/")
		sc := pk.Types.Scope()
		gone := map[string]structRec{}
		for k, sr := range rs.structs {
			if sr.Rel == rel && sc.Lookup(sr.Type) == nil {
				gone[k] = sr
			}
		}
		if len(gone) == 0 {
			continue
		}
		for _, nm := range sc.Names() {
			tn, ok := sc.Lookup(nm).(*types.TypeName)
			if !ok || tn.IsAlias() {
				continue
			}
			if _, known := rs.structs[rel+"|"+nm]; known {
				continue
			}
			st, ok := tn.Type().Underlying().(*types.Struct)
			if !ok {
				continue
			}
			var meths []string
			if nt, ok := tn.Type().(*types.Named); ok {
				for i := 0; i < nt.NumMethods(); i++ {
					meths = append(meths, nt.Method(i).Name())
				}
			}
			best, bestScore := "", -1.0
			for k, sr := range gone {
				if len(sr.Fields) != st.NumFields() {
					continue
				}
				same := 0
				for i, f := range sr.Fields {
					if st.Field(i).Name() == f.Name {
						same++
					}
				}
				want := map[string]bool{}
				for _, m := range sr.Methods {
					want[m] = true
				}
				inter := 0
				for _, m := range meths {
					if want[m] {
						inter++
					}
				}
				union := len(meths) + len(want) - inter
				score := 0.0
				if union > 0 {
					score = float64(inter) / float64(union)
				} else if st.NumFields() > 0 {
					score = float64(same) / float64(st.NumFields())
				}
				if st.NumFields() > 0 {
					score = (score + float64(same)/float64(st.NumFields())) / 2
				}
				if score > bestScore {
					best, bestScore = k, score
				}
			}
			if best != "" && bestScore >= 0.5 {
				rs.typeRef[tn] = gone[best].Type
				rs.notes = append(rs.notes, "type "+rel+":"+gone[best].Type+" not found under that name; resolved to "+nm+" (same package, same shape)")
				delete(gone, best)
			}
		}
	}
	// fields: per struct type present in both trees
	for _, pk := range p.Pkgs {
		rel := strings.TrimPrefix(strings.TrimPrefix(pk.PkgPath, modPath), "/")
		sc := pk.Types.Scope()
		for _, nm := range sc.Names() {
			tn, ok := sc.Lookup(nm).(*types.TypeName)
			if !ok {
				continue
			}
			st, ok := tn.Type().Underlying().(*types.Struct)
			if !ok {
				continue
			}
			refTypeName := nm
			if rn, ok := rs.typeRef[tn]; ok {
				refTypeName = rn
			}
			ref, ok := rs.structs[rel+"|"+refTypeName]
			if !ok {
				continue
			}
			cur := map[string]bool{}
			for i := 0; i < st.NumFields(); i++ {
				cur[st.Field(i).Name()] = true
			}
			refNames := map[string]bool{}
			for _, f := range ref.Fields {
				refNames[f.Name] = true
			}
			used := map[string]bool{}
			for i := 0; i < st.NumFields(); i++ {
				f := st.Field(i)
				if refNames[f.Name()] {
					continue // unchanged name
				}
				ts := types.TypeString(f.Type(), nil)
				// a field whose type was renamed as well: compare under the reference names of the types
				for rtn, refT := range rs.typeRef {
					if rtn.Pkg() != nil {
						ts = replaceTypeWord(ts, rtn.Pkg().Path()+"."+rtn.Name(), rtn.Pkg().Path()+"."+refT)
					}
				}
				// reference fields that disappeared and have the same type
				var cands []int
				for j, rf := range ref.Fields {
					if !cur[rf.Name] && !used[rf.Name] && rf.Typ == ts {
						cands = append(cands, j)
					}
				}
				pick := -1
				if len(cands) == 1 {
					pick = cands[0]
				} else {
					for _, j := range cands {
						if j == i {
							pick = j
						}
					}
				}
				if pick >= 0 {
					rs.fieldRef[f] = ref.Fields[pick].Name
					used[ref.Fields[pick].Name] = true
					rs.notes = append(rs.notes, "field "+rel+":"+nm+"."+ref.Fields[pick].Name+" not found under that name; resolved to "+f.Name()+" (same struct, same type)")
				}
			}
		}
	}
	// which identifiers change? (decided before anything is touched)
	type edit struct {
		id   *ast.Ident
		name string
	}
	var edits []edit
	for _, pk := range p.Pkgs {
		info := pk.TypesInfo
		for _, file := range pk.Syntax {
			if strings.HasSuffix(p.Fset.Position(file.Pos()).Filename, "_test.go") {
				continue
			}
			ast.Inspect(file, func(n ast.Node) bool {
				id, ok := n.(*ast.Ident)
				if !ok {
					return true
				}
				obj := info.Uses[id]
				if obj == nil {
					obj = info.Defs[id]
				}
				switch o := obj.(type) {
				case *types.Var:
					if o.IsField() {
						if rn, ok := rs.fieldRef[o]; ok {
							edits = append(edits, edit{id, rn})
						}
					}
				case *types.TypeName:
					if rn, ok := rs.typeRef[o]; ok {
						edits = append(edits, edit{id, rn})
					}
				case *types.Func:
					if o.Pkg() != nil && strings.HasPrefix(o.Pkg().Path(), modPath) && !o.Exported() {
						if rn := refName(o); rn != o.Name() {
							edits = append(edits, edit{id, rn})
						}
					}
				}
				return true
			})
		}
	}
	if len(edits) == 0 {
		return
	}
	// go/ssa resolves the keys of struct literals by name: build the SSA form from the unmodified trees first
	p.SSA()
	for _, e := range edits {
		e.id.Name = e.name
	}
}

// objName: the reference name of an object (renamed functions and fields), its own name otherwise.
func objName(o interface{ Name() string }) string {
	switch x := o.(type) {
	case *types.Func:
		return refName(x)
	case *types.TypeName:
		if x != nil && theProg != nil && theProg.ren != nil {
			if rn, ok := theProg.ren.typeRef[x]; ok {
				return rn
			}
		}
	case *types.Var:
		if x != nil && x.IsField() && theProg != nil && theProg.ren != nil {
			if rn, ok := theProg.ren.fieldRef[x]; ok {
				return rn
			}
		}
	}
	return o.Name()
}

// replaceTypeWord replaces the qualified type name old by new where it stands as a whole word.
func replaceTypeWord(s, old, new string) string {
	out := ""
	for {
		i := strings.Index(s, old)
		if i < 0 {
			return out + s
		}
		end := i + len(old)
		isWord := func(b byte) bool {
			return b == '_' || (b >= '0' && b <= '9') || (b >= 'a' && b <= 'z') || (b >= 'A' && b <= 'Z')
		}
		if end < len(s) && isWord(s[end]) {
			out += s[:end]
			s = s[end:]
			continue
		}
		out += s[:i] + new
		s = s[end:]
	}
}
