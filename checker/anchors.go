package main

import (
	"fmt"
	"go/ast"
	"go/token"
	"go/types"
	"reflect"
	"strings"

	"golang.org/x/tools/go/packages"
	"golang.org/x/tools/go/types/typeutil"
)

// FuncInfo is a resolved source function of maddy.
type FuncInfo struct {
	Obj  *types.Func
	Decl *ast.FuncDecl
	Pkg  *packages.Package
}

func (f *FuncInfo) Info() *types.Info { return f.Pkg.TypesInfo }
func (f *FuncInfo) Name() string      { return shortName(f.Obj) }

// shortName: "queue.(*Queue).deliver" / "address.ForLookup"
func shortName(fn *types.Func) string {
	if fn == nil {
		return "<nil>"
	}
	sig, _ := fn.Type().(*types.Signature)
	pkg := ""
	if fn.Pkg() != nil {
		pkg = fn.Pkg().Name()
	}
	if sig != nil && sig.Recv() != nil {
		t := sig.Recv().Type()
		ptr := ""
		if pt, ok := t.(*types.Pointer); ok {
			t = pt.Elem()
			ptr = "*"
		}
		name := "?"
		if nt, ok := t.(*types.Named); ok {
			name = objName(nt.Obj())
		}
		return fmt.Sprintf("%s.(%s%s).%s", pkg, ptr, name, refName(fn))
	}
	return pkg + "." + refName(fn)
}

// Func resolves a function or method by package (relative path), receiver type name ("" for plain functions) and name.
func (p *Prog) Func(rel, recv, name string) *FuncInfo {
	pk := p.Pkg(rel)
	if pk == nil {
		return nil
	}
	for _, f := range pk.Syntax {
		for _, d := range f.Decls {
			fd, ok := d.(*ast.FuncDecl)
			if !ok || fd.Name.Name != name || fd.Body == nil {
				continue
			}
			r := recvTypeName(fd)
			if r != recv {
				continue
			}
			obj, _ := pk.TypesInfo.Defs[fd.Name].(*types.Func)
			if obj == nil {
				continue
			}
			fi := &FuncInfo{Obj: obj, Decl: fd, Pkg: pk}
			p.declCache[obj] = fi
			return fi
		}
	}
	// not under that name: a renamed anchor? (rename.go)
	return p.resolveRenamed(rel, recv, name)
}

func recvTypeName(fd *ast.FuncDecl) string {
	if fd.Recv == nil || len(fd.Recv.List) == 0 {
		return ""
	}
	t := fd.Recv.List[0].Type
	for {
		switch x := t.(type) {
		case *ast.StarExpr:
			t = x.X
			continue
		case *ast.ParenExpr:
			t = x.X
			continue
		case *ast.IndexExpr:
			t = x.X
			continue
		case *ast.Ident:
			return x.Name
		}
		return ""
	}
}

// DeclOf finds the source declaration of a maddy function object.
func (p *Prog) DeclOf(fn *types.Func) *FuncInfo {
	if fn == nil || fn.Pkg() == nil {
		return nil
	}
	if fi, ok := p.declCache[fn]; ok {
		return fi
	}
	pk := p.ByPath[fn.Pkg().Path()]
	if pk == nil || !strings.HasPrefix(pk.PkgPath, modPath) {
		p.declCache[fn] = nil
		return nil
	}
	for _, f := range pk.Syntax {
		for _, d := range f.Decls {
			fd, ok := d.(*ast.FuncDecl)
			if !ok || fd.Body == nil {
				continue
			}
			if pk.TypesInfo.Defs[fd.Name] == fn {
				fi := &FuncInfo{Obj: fn, Decl: fd, Pkg: pk}
				p.declCache[fn] = fi
				return fi
			}
		}
	}
	p.declCache[fn] = nil
	return nil
}

// AllFuncs iterates over every function declaration (with body) of the given maddy packages.
func (p *Prog) AllFuncs(pkgs []*packages.Package, f func(*FuncInfo)) {
	for _, pk := range pkgs {
		for _, file := range pk.Syntax {
			for _, d := range file.Decls {
				fd, ok := d.(*ast.FuncDecl)
				if !ok || fd.Body == nil {
					continue
				}
				obj, _ := pk.TypesInfo.Defs[fd.Name].(*types.Func)
				if obj == nil {
					continue
				}
				fi := &FuncInfo{Obj: obj, Decl: fd, Pkg: pk}
				p.declCache[obj] = fi
				if p.inlinedAway[obj] {
					continue // a new helper whose every call was read as part of the caller
				}
				f(fi)
			}
		}
	}
}

// ServerPkgs returns the maddy packages that are part of the server (no test doubles).
func (p *Prog) ServerPkgs() []*packages.Package {
	var out []*packages.Package
	for _, pk := range p.Pkgs {
		if isServerPkg(pk.PkgPath) {
			out = append(out, pk)
		}
	}
	return out
}

// callee resolves the static callee or interface method of a call; nil for dynamic calls through function values.
func callee(info *types.Info, call *ast.CallExpr) *types.Func {
	fn, _ := typeutil.Callee(info, call).(*types.Func)
	if fn == nil && theProg != nil {
		// a call through a function value that is bound exactly once to a function or method (`stop := q.wheel.Close;
		// stop()`, `lookup := r.table.LookupMulti; lookup(ctx, k)`): the function it is bound to
		if id, ok := ast.Unparen(call.Fun).(*ast.Ident); ok {
			if o := info.Uses[id]; o != nil {
				return theProg.funcValueOf(o)
			}
		}
	}
	return fn
}

// funcValueOf: the function a local variable is bound to, if it is assigned exactly once in the module and the value
// is a function or a method value.
func (p *Prog) funcValueOf(o types.Object) *types.Func {
	if p.funcValues == nil {
		p.funcValues = map[types.Object]*types.Func{}
		count := map[types.Object]int{}
		bind := func(info *types.Info, l ast.Expr, r ast.Expr) {
			lo := objOf(info, l)
			v, isVar := lo.(*types.Var)
			if !isVar || v.IsField() || v.Pkg() == nil || v.Parent() == v.Pkg().Scope() {
				return
			}
			count[lo]++
			if r == nil {
				return
			}
			var fn *types.Func
			switch x := ast.Unparen(r).(type) {
			case *ast.Ident:
				fn, _ = info.Uses[x].(*types.Func)
			case *ast.SelectorExpr:
				if sel := info.Selections[x]; sel != nil && sel.Kind() == types.MethodVal {
					fn, _ = sel.Obj().(*types.Func)
				} else {
					fn, _ = info.Uses[x.Sel].(*types.Func)
				}
			}
			if fn != nil {
				p.funcValues[lo] = fn
			}
		}
		for _, pk := range p.Pkgs {
			for _, f := range pk.Syntax {
				ast.Inspect(f, func(n ast.Node) bool {
					switch s := n.(type) {
					case *ast.AssignStmt:
						for i, l := range s.Lhs {
							var r ast.Expr
							if len(s.Rhs) == len(s.Lhs) {
								r = s.Rhs[i]
							}
							bind(pk.TypesInfo, l, r)
						}
					case *ast.ValueSpec:
						for i, nm := range s.Names {
							var r ast.Expr
							if i < len(s.Values) {
								r = s.Values[i]
							}
							bind(pk.TypesInfo, nm, r)
						}
					case *ast.IncDecStmt:
						bind(pk.TypesInfo, s.X, nil)
					}
					return true
				})
			}
		}
		for o, n := range count {
			if n != 1 {
				delete(p.funcValues, o)
			}
		}
	}
	return p.funcValues[o]
}

// qname returns "pkgpath.Name" or "pkgpath.Recv.Name" (receiver without pointer) of a function object.
func qname(fn *types.Func) string {
	if fn == nil {
		return ""
	}
	pkg := ""
	if fn.Pkg() != nil {
		pkg = fn.Pkg().Path()
	}
	sig, _ := fn.Type().(*types.Signature)
	if sig != nil && sig.Recv() != nil {
		t := sig.Recv().Type()
		if pt, ok := t.(*types.Pointer); ok {
			t = pt.Elem()
		}
		if nt, ok := t.(*types.Named); ok {
			p := ""
			if nt.Obj().Pkg() != nil {
				p = nt.Obj().Pkg().Path()
			}
			return p + "." + objName(nt.Obj()) + "." + fn.Name()
		}
		return pkg + ".?." + fn.Name()
	}
	return pkg + "." + fn.Name()
}

// isCall reports whether call resolves to one of the qualified names (see qname). Names may be given relative
// to the maddy module with a leading "~/" ("~/framework/address.Split").
func isCall(info *types.Info, call *ast.CallExpr, names ...string) bool {
	q := qname(callee(info, call))
	if q == "" {
		return false
	}
	for _, n := range names {
		if strings.HasPrefix(n, "~/") {
			n = modPath + "/" + n[2:]
		}
		if q == n {
			return true
		}
		if cur := theProg.currentQName(n); cur != "" && cur == q {
			return true // the named function was renamed (rename.go)
		}
	}
	return false
}

// methodName returns the selector name of a call "x.Name(...)", or "".
func methodName(call *ast.CallExpr) string {
	if s, ok := ast.Unparen(call.Fun).(*ast.SelectorExpr); ok {
		return s.Sel.Name
	}
	return ""
}

// callRecv returns the receiver expression of a method call.
func callRecv(call *ast.CallExpr) ast.Expr {
	if s, ok := ast.Unparen(call.Fun).(*ast.SelectorExpr); ok {
		return s.X
	}
	return nil
}

// exprStr: canonical text of an expression (types.ExprString elides literals' contents but is stable).
func exprStr(e ast.Expr) string {
	if e == nil {
		return ""
	}
	return types.ExprString(e)
}

// objOf returns the object an identifier or selector denotes.
func objOf(info *types.Info, e ast.Expr) types.Object {
	switch x := ast.Unparen(e).(type) {
	case *ast.Ident:
		if o := info.Uses[x]; o != nil {
			return o
		}
		return info.Defs[x]
	case *ast.SelectorExpr:
		if sel := info.Selections[x]; sel != nil {
			return sel.Obj()
		}
		return info.Uses[x.Sel]
	}
	return nil
}

// fieldOf: if e is a selector x.f denoting a struct field, returns the field var.
func fieldOf(info *types.Info, e ast.Expr) *types.Var {
	if s, ok := ast.Unparen(e).(*ast.SelectorExpr); ok {
		if sel := info.Selections[s]; sel != nil && sel.Kind() == types.FieldVal {
			v, _ := sel.Obj().(*types.Var)
			return v
		}
	}
	return nil
}

// isFieldNamed: e is a selector of a field called name declared in a struct type named typ of package rel ("" = any).
func isField(info *types.Info, e ast.Expr, typ, name string) bool {
	s, ok := ast.Unparen(e).(*ast.SelectorExpr)
	if !ok || s.Sel.Name != name {
		return false
	}
	sel := info.Selections[s]
	if sel == nil || sel.Kind() != types.FieldVal {
		return false
	}
	if typ == "" {
		return true
	}
	t := sel.Recv()
	if pt, ok := t.(*types.Pointer); ok {
		t = pt.Elem()
	}
	if nt, ok := t.(*types.Named); ok {
		return objName(nt.Obj()) == typ
	}
	return false
}

// namedOf strips pointers and returns the named type (or nil).
func namedOf(t types.Type) *types.Named {
	if t == nil {
		return nil
	}
	t = types.Unalias(t)
	if pt, ok := t.(*types.Pointer); ok {
		t = types.Unalias(pt.Elem())
	}
	nt, _ := t.(*types.Named)
	return nt
}

func typeIs(t types.Type, pkgPath, name string) bool {
	nt := namedOf(t)
	if nt == nil || objName(nt.Obj()) != name {
		return false
	}
	if strings.HasPrefix(pkgPath, "~/") {
		pkgPath = modPath + "/" + pkgPath[2:]
	}
	return nt.Obj().Pkg() != nil && nt.Obj().Pkg().Path() == pkgPath
}

// inspectNoLit walks n without descending into function literals (code in a closure is not executed here).
func inspectNoLit(n ast.Node, f func(ast.Node) bool) {
	if n == nil || (reflect.ValueOf(n).Kind() == reflect.Ptr && reflect.ValueOf(n).IsNil()) {
		return
	}
	ast.Inspect(n, func(x ast.Node) bool {
		if _, ok := x.(*ast.FuncLit); ok {
			return false
		}
		if x == nil {
			return true
		}
		return f(x)
	})
}

// callsIn returns the call expressions directly executed by node n (not inside closures).
func callsIn(n ast.Node) []*ast.CallExpr {
	var out []*ast.CallExpr
	inspectNoLit(n, func(x ast.Node) bool {
		if c, ok := x.(*ast.CallExpr); ok {
			out = append(out, c)
		}
		return true
	})
	return out
}

// constString returns the constant string value of e, if any.
func constString(info *types.Info, e ast.Expr) (string, bool) {
	tv, ok := info.Types[e]
	if !ok || tv.Value == nil {
		return "", false
	}
	if tv.Value.Kind().String() != "String" {
		return "", false
	}
	s := tv.Value.ExactString()
	// ExactString is quoted
	if len(s) >= 2 && s[0] == '"' {
		var out string
		if _, err := fmt.Sscanf(s, "%q", &out); err == nil {
			return out, true
		}
	}
	return s, true
}

func isNilIdent(info *types.Info, e ast.Expr) bool {
	id, ok := ast.Unparen(e).(*ast.Ident)
	if !ok {
		return false
	}
	_, isNil := info.Uses[id].(*types.Nil)
	return isNil
}

// enclosing finds the innermost node of type T on the path from the file root to pos.
func posIn(n ast.Node, pos token.Pos) bool { return n != nil && n.Pos() <= pos && pos < n.End() }

type packagesPackage = packages.Package

// DepFunc resolves a function of any loaded package (dependencies are loaded with syntax and types).
func (p *Prog) DepFunc(pkgPath, recv, name string) *FuncInfo {
	pk := p.ByPath[pkgPath]
	if pk == nil || pk.TypesInfo == nil {
		return nil
	}
	for _, f := range pk.Syntax {
		for _, d := range f.Decls {
			fd, ok := d.(*ast.FuncDecl)
			if !ok || fd.Body == nil || fd.Name.Name != name || recvTypeName(fd) != recv {
				continue
			}
			obj, _ := pk.TypesInfo.Defs[fd.Name].(*types.Func)
			if obj == nil {
				continue
			}
			return &FuncInfo{Obj: obj, Decl: fd, Pkg: pk}
		}
	}
	return nil
}

// within: node n lies inside root – by position, or (for inlined copies of helper bodies, whose positions are those of
// the helper) by identity.
func within(root ast.Node, n ast.Node) bool {
	if root == nil || n == nil || reflectNil(root) || reflectNil(n) {
		return false
	}
	if posIn(root, n.Pos()) {
		return true
	}
	if !inlinedNodes[n] {
		return false
	}
	found := false
	ast.Inspect(root, func(x ast.Node) bool {
		if x == n {
			found = true
		}
		return !found
	})
	return found
}

// localIn: v is declared inside body (or belongs to an inlined copy of a helper body).
func localIn(body ast.Node, v types.Object) bool {
	if v == nil || body == nil || reflectNil(body) {
		return false
	}
	return posIn(body, v.Pos()) || inlineFresh[v]
}

func reflectNil(n ast.Node) bool {
	rv := reflect.ValueOf(n)
	return rv.Kind() == reflect.Ptr && rv.IsNil()
}

// nodes and variables that the helper-inlining pass created (inline.go)
var (
	inlinedNodes = map[ast.Node]bool{}
	inlineFresh  = map[types.Object]bool{}
)

// calleeFn is callee under a name that local variables called `callee` do not shadow.
func calleeFn(info *types.Info, call *ast.CallExpr) *types.Func { return callee(info, call) }
