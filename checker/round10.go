package main

// Rules added after the tenth set of independently seeded changes (DESIGN.md §R.19).

import (
	"go/ast"
	"go/token"
	"go/types"
	"strings"
)

// ---- C20.R8: what is pushed back is what was read.
// bufio.Reader.UnreadByte after ReadRune puts back the LAST BYTE of the rune only: for an ASCII character the two are
// the same, for a multi-byte character the reader restarts in the middle of its encoding and the next ReadRune yields
// U+FFFD (C20Q: the byte-order-mark sniffing of lexer.load pushed the first character back with UnreadByte – a
// configuration whose first character is a non-ASCII letter is rejected, and a tree printed with such a first
// directive does not parse again). Decided per function of the two parser packages: no UnreadByte on a reader is
// reachable from a ReadRune on the same reader without another read of that reader in between.
func c20PushBackMatchesRead(c *Check, rule string) {
	c.Rule(rule, "lexer / parser: a character read with ReadRune is pushed back with UnreadRune – no UnreadByte follows a ReadRune of the same reader without another read in between (UnreadByte returns only the last byte of a multi-byte character)", 1)
	p := c.P
	n := 0
	for _, rel := range []string{"framework/config/lexer", "framework/cfgparser"} {
		pk := p.Pkg(rel)
		if pk == nil {
			c.Fail(rule, rel, token.NoPos, "anchor unresolved: package not loaded")
			continue
		}
		info := pk.TypesInfo
		p.AllFuncs([]*packagesPkg{pk}, func(fi *FuncInfo) {
			if fi.Decl.Body == nil || strings.HasSuffix(p.Fset.Position(fi.Decl.Pos()).Filename, "_test.go") {
				return
			}
			funcBodies(p, fi, func(name string, body *ast.BlockStmt, fl *Flow) {
				kindOf := func(call *ast.CallExpr) (kind, rd string) {
					fn := callee(info, call)
					if fn == nil || fn.Pkg() == nil || fn.Pkg().Path() != "bufio" {
						return "", ""
					}
					sig, _ := fn.Type().(*types.Signature)
					if sig == nil || sig.Recv() == nil {
						return "", ""
					}
					switch m := fn.Name(); {
					case m == "UnreadByte" || m == "UnreadRune" || m == "ReadRune":
						return m, exprStr(callRecv(call))
					case strings.HasPrefix(m, "Read") || m == "Discard" || m == "Peek" || m == "WriteTo" || m == "Reset":
						return "read", exprStr(callRecv(call))
					}
					return "", ""
				}
				for _, pt := range fl.Points() {
					if pt.Node() == nil || !directlyIn(body, pt.Node()) {
						continue
					}
					for _, call := range callsAt(pt.Node()) {
						k, rd := kindOf(call)
						if k != "UnreadByte" && k != "UnreadRune" {
							continue
						}
						n++
						c.SawFunc(fi.Name())
						key := name + ":" + k + itoa(n)
						if k == "UnreadRune" {
							c.HoldConst(rule, key, call.Pos(), true, "")
							continue
						}
						var runeReads []Pt
						for _, q := range fl.Points() {
							if q.Node() == nil {
								continue
							}
							for _, cc := range callsAt(q.Node()) {
								if k2, rd2 := kindOf(cc); k2 == "ReadRune" && rd2 == rd {
									runeReads = append(runeReads, q)
								}
							}
						}
						otherRead := func(q Pt) bool {
							if q.Node() == nil {
								return false
							}
							for _, cc := range callsAt(q.Node()) {
								if k2, rd2 := kindOf(cc); rd2 == rd && (k2 == "read" || k2 == "UnreadRune") {
									return true
								}
							}
							return false
						}
						tgt := pt
						path, found := fl.Reach(Query{From: runeReads, Target: func(q Pt) bool { return q == tgt }, Avoid: otherRead})
						c.Hold(rule, key, call.Pos(), len(runeReads) == 0 || !found, "UnreadByte on "+rd+" follows a ReadRune of the same reader ("+fl.Describe(path)+"): for a character of more than one byte only its last byte is put back – the next read starts in the middle of the encoding and yields U+FFFD (a configuration that begins with a non-ASCII letter is rejected; a printed tree with such a first directive does not parse again)")
					}
				}
			})
		})
	}
	if n == 0 {
		c.Fail(rule, "sites", token.NoPos, "anchor unresolved: no push-back call found in the lexer")
	}
}

// ---- C09.K15: the list of accepted recipients is handed out whole.
// target.remote reports the result of DATA for the elements of smtpconn.C.Rcpts(). A getter that filters the recorded
// list (C09R: de-duplicated with address.Equal, "the collector must not get a recipient twice") makes the accepted
// recipient `Info@x` disappear behind `info@x`: it gets no result, and no result counts as delivered. Decided for
// every parameterless method of the property's packages that returns a []string and reads a []string field of its
// receiver: it returns the field itself (or a whole-slice copy), or every loop over the field hands every element on.
func c09AcceptedListWhole(c *Check, rule string) {
	c.Rule(rule, "a getter of a recorded recipient list returns the list whole: the field itself, a copy of all of it, or a loop that appends every element – no element is left out under a condition on its spelling (a recipient that is not listed gets no result and counts as delivered)", 1)
	p := c.P
	n := 0
	for _, rel := range propertyPackages["C09"] {
		pk := p.Pkg(rel)
		if pk == nil {
			continue
		}
		p.AllFuncs([]*packagesPkg{pk}, func(fi *FuncInfo) {
			if fi.Decl.Body == nil || fi.Decl.Recv == nil || strings.HasSuffix(p.Fset.Position(fi.Decl.Pos()).Filename, "_test.go") {
				return
			}
			sig, _ := fi.Obj.Type().(*types.Signature)
			if sig == nil || sig.Params().Len() != 0 || sig.Results().Len() != 1 || !isStringSlice(sig.Results().At(0).Type()) {
				return
			}
			info := fi.Info()
			recv := recvObjOf(fi)
			isField := func(e ast.Expr) bool {
				sel, ok := ast.Unparen(e).(*ast.SelectorExpr)
				if !ok || recv == nil || objOf(info, sel.X) != recv {
					return false
				}
				fv := fieldOf(info, sel)
				return fv != nil && isStringSlice(fv.Type())
			}
			reads := false
			inspectNoLit(fi.Decl.Body, func(x ast.Node) bool {
				if e, ok := x.(ast.Expr); ok && isField(e) {
					reads = true
				}
				return true
			})
			if !reads {
				return
			}
			n++
			c.SawFunc(fi.Name())
			key := fi.Name()
			fl := p.FlowOfFunc(fi)
			loops := elemLoops(info, fi.Decl.Body, isField)
			msg := ""
			for _, l := range loops {
				isHandOn := func(pt Pt) bool {
					if pt.Node() == nil {
						return false
					}
					for _, call := range callsAt(pt.Node()) {
						if id, ok := ast.Unparen(call.Fun).(*ast.Ident); ok && id.Name == "append" {
							for _, a := range call.Args[1:] {
								if l.IsElem(a) {
									return true
								}
							}
						}
					}
					// dst[i] = elem
					if as, ok := pt.Node().(*ast.AssignStmt); ok {
						for _, r := range as.Rhs {
							if l.IsElem(r) {
								return true
							}
						}
					}
					return false
				}
				if path, found := fl.Reach(Query{From: fl.LoopBodyStart(l), Inclusive: true, Target: fl.IterEnd(l), Avoid: isHandOn}); found {
					msg = "an element of the recorded list can pass the loop without being handed on (" + fl.Describe(path) + "): the recipient was accepted by the next hop but is not in the list the results are reported for – it gets none and counts as delivered (two spellings of one mailbox, `Info@x` and `info@x`, are two recipients for the collector)"
				}
			}
			if msg == "" && len(loops) == 0 {
				// without a loop every return hands on the field or a whole-slice copy of it
				inspectNoLit(fi.Decl.Body, func(x ast.Node) bool {
					ret, ok := x.(*ast.ReturnStmt)
					if !ok || len(ret.Results) != 1 {
						return true
					}
					e := ast.Unparen(ret.Results[0])
					if isField(e) {
						return true
					}
					if call, isCall := e.(*ast.CallExpr); isCall {
						for _, a := range call.Args {
							if isField(a) {
								return true // append([]string(nil), f...), slices.Clone(f)
							}
						}
					}
					if id, isID := e.(*ast.Ident); isID {
						if def, k := localDef(info, fi.Decl.Body, objOf(info, id)); k == 1 && def != nil {
							if isField(def) {
								return true
							}
							if call, isCall := ast.Unparen(def).(*ast.CallExpr); isCall {
								for _, a := range call.Args {
									if isField(a) {
										return true
									}
								}
							}
						}
					}
					if sl, isSl := e.(*ast.SliceExpr); isSl && isField(sl.X) {
						msg = "the getter returns a part of the recorded list (" + exprStr(e) + ")"
					}
					return true
				})
			}
			c.Hold(rule, key, fi.Decl.Pos(), msg == "", msg)
		})
	}
	if n == 0 {
		c.Fail(rule, "getters", token.NoPos, "anchor unresolved: no getter of a recorded recipient list found (smtpconn.C.Rcpts)")
	}
}

func isStringSlice(t types.Type) bool {
	sl, ok := t.Underlying().(*types.Slice)
	return ok && isStringType(sl.Elem())
}

// ---- C16.R14: the two halves of a reply code are changed together.
// smtpconn.C.Rcpt turns the next hop's `552` at RCPT into `452` (RFC 5321 §4.5.3.1.10) – both halves: the basic code
// and the class digit of the enhanced code. A store into the basic code of an existing error that is not accompanied,
// on every path through it, by a store into the enhanced code of the same error (C16Q: the class digit was only
// rewritten when the server had advertised ENHANCEDSTATUSCODES, although the client library parses an `x.y.z` prefix
// either way) leaves `452 5.5.3`: retried by the queue, stored and reported as permanent. Decided for every statement
// of the server that assigns the Code field of an SMTP error value: on no path from the function's entry through that
// store to an exit is the EnhancedCode of the same value left unassigned, and constant classes agree.
func c16CodePairChangedTogether(c *Check, rule string) {
	c.Rule(rule, "a statement that assigns the basic code of an SMTP error value is accompanied on every path through it by an assignment of that value's enhanced code (whole or class digit), and constant classes agree – no path leaves `452 5.x.x` (values under construction in a converter are judged by R3 / R4)", 1)
	p := c.P
	n := 0
	isErrField := func(info *types.Info, e ast.Expr, field string) (types.Object, bool) {
		e = ast.Unparen(e)
		if ix, ok := e.(*ast.IndexExpr); ok && field == "EnhancedCode" {
			e = ast.Unparen(ix.X)
		}
		sel, ok := e.(*ast.SelectorExpr)
		if !ok || sel.Sel.Name != field {
			return nil, false
		}
		fv := fieldOf(info, sel)
		if fv == nil {
			return nil, false
		}
		t := info.TypeOf(sel.X)
		if t == nil {
			return nil, false
		}
		if pt, isPtr := t.Underlying().(*types.Pointer); isPtr {
			t = pt.Elem()
		}
		nt, isNamed := types.Unalias(t).(*types.Named)
		if !isNamed || nt.Obj().Name() != "SMTPError" {
			return nil, false
		}
		return objOf(info, sel.X), true
	}
	for _, pk := range p.ServerPkgs() {
		pk := pk
		p.AllFuncs([]*packagesPkg{pk}, func(fi *FuncInfo) {
			if fi.Decl.Body == nil || strings.HasSuffix(p.Fset.Position(fi.Decl.Pos()).Filename, "_test.go") {
				return
			}
			info := fi.Info()
			funcBodies(p, fi, func(name string, body *ast.BlockStmt, fl *Flow) {
				k := 0
				for _, pt := range fl.Points() {
					as, ok := pt.Node().(*ast.AssignStmt)
					if !ok || !directlyIn(body, as) {
						continue
					}
					for i, l := range as.Lhs {
						base, isCode := isErrField(info, l, "Code")
						if !isCode || base == nil {
							continue
						}
						// a value under construction in this function (a local bound to a composite literal: the converters
						// wrapErr / toSMTPErr fill its halves from separate sources – C16.R3/R4 decide those) is not "an existing reply"
						if def, cnt := localDef(info, fi.Decl.Body, base); cnt >= 1 && def != nil {
							d := ast.Unparen(def)
							if u, isU := d.(*ast.UnaryExpr); isU && u.Op == token.AND {
								d = ast.Unparen(u.X)
							}
							if _, isLit := d.(*ast.CompositeLit); isLit {
								continue
							}
						}
						n++
						k++
						c.SawFunc(fi.Name())
						key := name + ":Code" + itoa(k)
						class := int64(-1)
						if len(as.Rhs) == len(as.Lhs) {
							if tv, has := info.Types[as.Rhs[i]]; has && tv.Value != nil {
								if v, isInt := constInt(tv); isInt {
									class = v / 100
								}
							}
						}
						msg := ""
						isEnch := func(q Pt) bool {
							a2, ok := q.Node().(*ast.AssignStmt)
							if !ok {
								return false
							}
							for j, l2 := range a2.Lhs {
								if b2, isE := isErrField(info, l2, "EnhancedCode"); isE && b2 == base {
									// constant class digit that disagrees
									if class >= 0 && len(a2.Rhs) == len(a2.Lhs) {
										if _, isIdx := ast.Unparen(l2).(*ast.IndexExpr); isIdx {
											if tv, has := info.Types[a2.Rhs[j]]; has && tv.Value != nil {
												if v, isInt := constInt(tv); isInt && v != class {
													msg = "the basic code is set to class " + itoa(int(class)) + " and the enhanced class digit to " + itoa(int(v))
												}
											}
										}
									}
									return true
								}
							}
							return false
						}
						here := pt
						_, before := fl.Reach(Query{From: []Pt{fl.Entry()}, Inclusive: true, Target: func(q Pt) bool { return q == here }, Avoid: isEnch})
						path, after := fl.Reach(Query{From: []Pt{here}, Target: fl.IsExitPt, Avoid: isEnch})
						if before && after && msg == "" {
							msg = "the basic code of " + base.Name() + " is assigned at line " + itoa(p0(p, as.Pos())) + " and a path through that statement never assigns its enhanced code (" + fl.Describe(path) + "): the reply keeps the class digit it had – `452 5.x.x` is retried by the queue and stored / reported as a permanent failure"
						}
						c.Hold(rule, key, as.Pos(), msg == "", msg)
					}
				}
			})
		})
	}
	if n == 0 {
		c.Fail(rule, "sites", token.NoPos, "anchor unresolved: no assignment to the basic code of an SMTP error found")
	}
}

// ---- C11.R12: no limiter is built around a channel of negative capacity.
// `make(chan T, n)` panics for n < 0. The sizes of the limiters' channels are configuration values (`concurrency -1`,
// `rate -1`): strconv.Atoi accepts them, Semaphore's documentation promises "negative or zero: all methods are no-op",
// and the first TakeMsg / TakeDest of a new source or destination key (or Group.Init for the global scope) crashes the
// process. Decided for every make of a buffered channel in the limiter packages whose size is not a constant: the
// value -1 cannot reach it (a guard or a clamp dominates the make in the world "size = -1").
func c11NoNegativeChannelSize(c *Check, rule string) {
	c.Rule(rule, "limiters: the capacity handed to make(chan …) is a non-negative constant, or a variable that a guard / clamp in front of the make keeps from being negative (make panics on a negative capacity: `concurrency -1` would crash the first operation of every new key)", 2)
	chanCapacityRule(c, rule, []string{"internal/limits/limiters", "internal/limits"}, []int64{-1}, nil,
		"make panics on a negative capacity – with `concurrency -1` / `rate -1` in the configuration the first limit operation for a new source or destination (or Group.Init) crashes the server, although the type's documentation promises a no-op limiter")
}

// ---- C12.R21: the queue's delivery semaphore has room for at least one attempt.
// Queue.dispatch acquires a slot of q.deliverySemaphore before every attempt. Its capacity is `max_parallelism` from the
// configuration: with 0 the channel is unbuffered – the acquiring send never completes, no message is ever attempted and
// Queue.Close waits for ever; with a negative value make panics in Init. Decided like C11.R12 for the values 0 and -1,
// the guard may sit in the (only) caller of the function that creates the channel.
func c12SemaphoreHasRoom(c *Check, rule string) {
	c.Rule(rule, "target.queue: the capacity of the delivery semaphore is at least 1 where the channel is created (a guard on max_parallelism in Init or in front of the make): with 0 no attempt ever starts and Close never returns, a negative value panics", 1)
	chanCapacityRule(c, rule, []string{queueRel}, []int64{0, -1}, func(t types.Type) bool {
		ch, ok := t.Underlying().(*types.Chan)
		if !ok {
			return false
		}
		st, isStruct := ch.Elem().Underlying().(*types.Struct)
		return isStruct && st.NumFields() == 0
	}, "with `max_parallelism 0` the semaphore is an unbuffered channel: the send that acquires a slot in dispatch never completes, no message is ever attempted and Queue.Close waits for the attempts for ever; a negative value makes make panic in Init")
}

// chanCapacityRule: for every make(chan …, n) of the packages (restricted to channel types accepted by only, if given)
// none of the values can be the capacity: n is a constant different from them, or a variable that a guard / clamp keeps
// from having them – in the function itself or, when n is a parameter, at every call site of the function.
func chanCapacityRule(c *Check, rule string, rels []string, vals []int64, only func(types.Type) bool, consequence string) {
	p := c.P
	n := 0
	for _, rel := range rels {
		pk := p.Pkg(rel)
		if pk == nil {
			c.Fail(rule, rel, token.NoPos, "anchor unresolved: package not loaded")
			continue
		}
		info := pk.TypesInfo
		// can value val of variable v reach point here of flow fl?
		reaches := func(fl *Flow, v *types.Var, here Pt, val int64) ([]Pt, bool) {
			world := fl.World(func(atom ast.Expr) (bool, bool) {
				be, ok := ast.Unparen(atom).(*ast.BinaryExpr)
				if !ok {
					return false, false
				}
				x, y, op := be.X, be.Y, be.Op
				if objOf(info, y) == v {
					x, y = y, x
					switch op {
					case token.LSS:
						op = token.GTR
					case token.GTR:
						op = token.LSS
					case token.LEQ:
						op = token.GEQ
					case token.GEQ:
						op = token.LEQ
					}
				}
				if objOf(info, x) != v {
					return false, false
				}
				tv, has := info.Types[y]
				if !has || tv.Value == nil {
					return false, false
				}
				cv, isInt := constInt(tv)
				if !isInt {
					return false, false
				}
				switch op {
				case token.LSS:
					return val < cv, true
				case token.LEQ:
					return val <= cv, true
				case token.GTR:
					return val > cv, true
				case token.GEQ:
					return val >= cv, true
				case token.EQL:
					return val == cv, true
				case token.NEQ:
					return val != cv, true
				}
				return false, false
			})
			reassigned := func(q Pt) bool { return q.Node() != nil && assignsObj(info, q.Node(), v) }
			return fl.Reach(Query{From: []Pt{fl.Entry()}, Inclusive: true, Target: func(q Pt) bool { return q == here }, Avoid: reassigned, AvoidEdge: world})
		}
		isParam := func(fi *FuncInfo, v *types.Var) int {
			sig, _ := fi.Obj.Type().(*types.Signature)
			if sig == nil {
				return -1
			}
			for i := 0; i < sig.Params().Len(); i++ {
				if sig.Params().At(i) == v {
					return i
				}
			}
			return -1
		}
		p.AllFuncs([]*packagesPkg{pk}, func(fi *FuncInfo) {
			if fi.Decl.Body == nil || strings.HasSuffix(p.Fset.Position(fi.Decl.Pos()).Filename, "_test.go") {
				return
			}
			funcBodies(p, fi, func(name string, body *ast.BlockStmt, fl *Flow) {
				k := 0
				for _, pt := range fl.Points() {
					if pt.Node() == nil || !directlyIn(body, pt.Node()) {
						continue
					}
					for _, call := range callsAt(pt.Node()) {
						id, ok := ast.Unparen(call.Fun).(*ast.Ident)
						if !ok || id.Name != "make" || len(call.Args) != 2 {
							continue
						}
						if _, isB := info.Uses[id].(*types.Builtin); !isB {
							continue
						}
						t := info.TypeOf(call.Args[0])
						if t == nil {
							continue
						}
						if _, isChan := t.Underlying().(*types.Chan); !isChan {
							continue
						}
						if only != nil && !only(t) {
							continue
						}
						n++
						k++
						c.SawFunc(fi.Name())
						key := name + ":make" + itoa(k)
						size := ast.Unparen(call.Args[1])
						if tv, has := info.Types[size]; has && tv.Value != nil {
							v, isInt := constInt(tv)
							bad := !isInt
							for _, val := range vals {
								if v == val {
									bad = true
								}
							}
							c.HoldConst(rule, key, call.Pos(), !bad, "constant channel capacity "+exprStr(size)+": "+consequence)
							continue
						}
						v, isVar := objOf(info, size).(*types.Var)
						if !isVar {
							c.Fail(rule, key, call.Pos(), "undecided: the channel capacity "+exprStr(size)+" is neither a constant nor a plain variable")
							continue
						}
						msg := ""
						for _, val := range vals {
							path, found := reaches(fl, v, pt, val)
							if !found {
								continue
							}
							// the guard may sit at the call sites when the capacity is a parameter
							pi := -1
							if body == fi.Decl.Body {
								pi = isParam(fi, v)
							}
							if pi < 0 {
								msg = "the value " + itoa(int(val)) + " of " + v.Name() + " reaches make(chan …, " + v.Name() + ") (" + fl.Describe(path) + "): " + consequence
								break
							}
							sites := 0
							p.AllFuncs([]*packagesPkg{pk}, func(cf *FuncInfo) {
								if cf.Decl.Body == nil || strings.HasSuffix(p.Fset.Position(cf.Decl.Pos()).Filename, "_test.go") {
									return
								}
								funcBodies(p, cf, func(cname string, cbody *ast.BlockStmt, cfl *Flow) {
									for _, cpt := range cfl.Points() {
										if cpt.Node() == nil || !directlyIn(cbody, cpt.Node()) {
											continue
										}
										for _, cc := range callsAt(cpt.Node()) {
											if callee(info, cc) != fi.Obj || pi >= len(cc.Args) {
												continue
											}
											sites++
											arg := ast.Unparen(cc.Args[pi])
											if tv, has := info.Types[arg]; has && tv.Value != nil {
												if cv, isInt := constInt(tv); isInt && cv == val {
													msg = cname + " passes the constant " + itoa(int(val)) + " as the capacity: " + consequence
												}
												continue
											}
											av, isAV := objOf(info, arg).(*types.Var)
											if !isAV {
												msg = "undecided: " + cname + " passes " + exprStr(arg) + " as the capacity"
												continue
											}
											if cpath, cfound := reaches(cfl, av, cpt, val); cfound {
												msg = "the value " + itoa(int(val)) + " of " + av.Name() + " reaches the call of " + fi.Name() + " in " + cname + " (" + cfl.Describe(cpath) + ") and from there make(chan …, " + v.Name() + "): " + consequence
											}
										}
									}
								})
							})
							if sites == 0 {
								msg = "the value " + itoa(int(val)) + " of parameter " + v.Name() + " reaches make(chan …, " + v.Name() + ") and no caller was found to guard it: " + consequence
							}
							if msg != "" {
								break
							}
						}
						c.Hold(rule, key, call.Pos(), msg == "", msg)
					}
				}
			})
		})
	}
	if n == 0 {
		c.Fail(rule, "sites", token.NoPos, "anchor unresolved: no channel of the kind the rule looks at is created")
	}
}

// ---- C10.R14: what the queue hands on shares no table with what it stores.
// Queue.deliver gives the downstream target `meta.MsgMeta.DeepCopy()`. The downstream of a queue is usually a message
// pipeline, and a pipeline records every rewrite it performs in the OriginalRcpts table of the metadata it was handed.
// With a copy that still refers to the record's own table, those entries land in the queue's record, are persisted
// with the next update and are handed on at every retry and after a restart – the original-recipient mapping the
// queue hands on is no longer the one it accepted, and the failure report reads a stranger's entry when a rewritten
// address equals a pending recipient. Decided on MsgMetadata.DeepCopy: for every map-typed field of the structure the
// copy's field is assigned (a fresh table) on every path on which the source's table exists.
func c10CopyIsDeepForTables(c *Check, rule string) {
	c.Rule(rule, "MsgMetadata.DeepCopy gives the copy its own table for every map-typed field (OriginalRcpts): what a downstream pipeline records in the copy handed to it by the queue never reaches the stored record", 1)
	r := c.need(rule, "framework/module", "MsgMetadata", "DeepCopy")
	if r == nil {
		return
	}
	info := r.Info
	nt, _ := derefNamed(r.FI.Obj.Type().(*types.Signature).Recv().Type())
	if nt == nil {
		c.Fail(rule, "DeepCopy:receiver", r.FI.Decl.Pos(), "undecided: receiver type")
		return
	}
	st, ok := nt.Underlying().(*types.Struct)
	if !ok {
		c.Fail(rule, "DeepCopy:receiver", r.FI.Decl.Pos(), "undecided: receiver is not a structure")
		return
	}
	n := 0
	for i := 0; i < st.NumFields(); i++ {
		fv := st.Field(i)
		if _, isMap := fv.Type().Underlying().(*types.Map); !isMap {
			continue
		}
		n++
		var stores []Pt
		for _, pt := range r.F.Points() {
			as, isAs := pt.Node().(*ast.AssignStmt)
			if !isAs {
				continue
			}
			for _, l := range as.Lhs {
				if fieldOf(info, l) == fv {
					if _, isIdx := ast.Unparen(l).(*ast.IndexExpr); !isIdx {
						stores = append(stores, pt)
					}
				}
			}
		}
		world := r.F.World(func(atom ast.Expr) (bool, bool) {
			be, isBE := ast.Unparen(atom).(*ast.BinaryExpr)
			if !isBE || (be.Op != token.EQL && be.Op != token.NEQ) || !isNilIdent(info, be.Y) || fieldOf(info, be.X) != fv {
				return false, false
			}
			return be.Op == token.NEQ, true // the world "the source has a table"
		})
		path, found := r.F.Reach(Query{From: r.Entry(), Inclusive: true, Target: r.F.IsExitPt, Avoid: isPt(stores), AvoidEdge: world})
		msg := ""
		if len(stores) == 0 {
			msg = "DeepCopy never assigns the copy's " + fv.Name() + ": the copy refers to the source's table – a pipeline behind the queue records its rewrites in the queue's own record (persisted, handed on at every retry and after a restart; the failure report can read an entry the downstream wrote)"
		} else if found {
			msg = "a path through DeepCopy leaves the copy's " + fv.Name() + " referring to the source's table (" + r.F.Describe(path) + ")"
		}
		c.Hold(rule, "DeepCopy:"+fv.Name(), r.FI.Decl.Pos(), msg == "", msg)
	}
	if n == 0 {
		c.HoldConst(rule, "DeepCopy:no-map-fields", r.FI.Decl.Pos(), true, "")
	}
}

func derefNamed(t types.Type) (*types.Named, bool) {
	if p, ok := t.Underlying().(*types.Pointer); ok {
		t = p.Elem()
	}
	nt, ok := types.Unalias(t).(*types.Named)
	return nt, ok
}

// ---- C13.R13 (= C05.R17): the TLSA look-up that is awaited is the one started for this MX.
// daneDelivery keeps ONE pending look-up per delivery: PrepareConn(mx) starts it, CheckConn(…, mx, …) waits for it.
// The pair belongs to one attempt: remoteDelivery.attemptMX prepares the policies for record.Host, connects, and
// checks. With the PrepareConn calls hoisted into a loop over all MX records in front of the connection loop (C13S:
// "start the look-ups early") every MX is judged against the records of the LAST one: a preferred MX with a
// mismatching usable record is accepted when the backup MX publishes none, and an MX without records is refused when
// the backup publishes some. Decided in target.remote: a function that calls CheckConn on the policies calls
// PrepareConn before it on some path, and a function that calls PrepareConn goes on to CheckConn itself.
func c13PreparedInTheSameAttempt(c *Check, rule string) {
	c.Rule(rule, "target.remote: the per-MX policy look-up is started (PrepareConn) in the very function that later awaits it (CheckConn) – no function prepares connections it does not check, none checks without having prepared (the DANE policy holds one pending look-up per delivery: preparing all MXs ahead judges every MX by the last one's records)", 2)
	p := c.P
	pk := p.Pkg("internal/target/remote")
	if pk == nil {
		c.Fail(rule, "package", token.NoPos, "anchor unresolved")
		return
	}
	info := pk.TypesInfo
	isPolicyCall := func(call *ast.CallExpr, name string) bool {
		if methodName(call) != name {
			return false
		}
		fn := callee(info, call)
		if fn == nil || fn.Pkg() == nil || !strings.HasSuffix(fn.Pkg().Path(), "/framework/module") {
			return false
		}
		sig, _ := fn.Type().(*types.Signature)
		return sig != nil && sig.Recv() != nil && types.IsInterface(sig.Recv().Type())
	}
	n := 0
	p.AllFuncs([]*packagesPkg{pk}, func(fi *FuncInfo) {
		if fi.Decl.Body == nil || strings.HasSuffix(p.Fset.Position(fi.Decl.Pos()).Filename, "_test.go") {
			return
		}
		fi = p.DeclOf(fi.Obj)
		if fi == nil || fi.Decl.Body == nil {
			return
		}
		var preps, checks []Pt
		fl := p.FlowOfFunc(fi)
		for _, pt := range fl.Points() {
			if pt.Node() == nil {
				continue
			}
			for _, call := range callsAt(pt.Node()) {
				if isPolicyCall(call, "PrepareConn") {
					preps = append(preps, pt)
				}
				if isPolicyCall(call, "CheckConn") {
					checks = append(checks, pt)
				}
			}
		}
		if len(preps) == 0 && len(checks) == 0 {
			return
		}
		n++
		c.SawFunc(fi.Name())
		name := fi.Name()
		if len(checks) > 0 {
			_, reach := fl.Reach(Query{From: preps, Target: isPt(checks)})
			c.Hold(rule, name+":checked-after-prepared", fi.Decl.Pos(), len(preps) > 0 && reach, "the function awaits the policies' verdict for a connection (CheckConn) without having started their look-up for that MX (PrepareConn) itself: what the DANE policy waits for is whatever look-up was started last – with the look-ups of all MX records started ahead, every MX is judged by the TLSA records of the last one (a mismatching certificate is accepted when the backup MX publishes no records; an MX without records is refused when the backup publishes some)")
		}
		if len(preps) > 0 {
			_, reach := fl.Reach(Query{From: preps, Target: isPt(checks)})
			c.Hold(rule, name+":prepared-then-checked", fi.Decl.Pos(), len(checks) > 0 && reach, "the function starts the policies' look-up for an MX (PrepareConn) but does not itself go on to CheckConn: the DANE policy keeps one pending look-up per delivery, a second PrepareConn (for the next MX record) replaces the first before it was awaited")
		}
	})
	if n == 0 {
		c.Fail(rule, "sites", token.NoPos, "anchor unresolved: no PrepareConn / CheckConn call on the policies in target.remote")
	}
}

// ---- C19.R19: a connection that was closed or has failed is not "usable".
// Both guards of the pool – remoteDelivery.Close decides whether a connection goes back, pool.Get whether one comes out –
// ask the connection itself (mxConn.Usable). Everything C19 says about closed connections rests on that answer: when the
// client is gone (closed), the connection object is gone, or a transaction on it failed, no path through Usable ends in
// a return other than the constant false. (From the mutant run of round 11: the whole guard of Usable could be negated
// or dropped without any rule noticing.)
func c19UsableRefusesClosed(c *Check, rule string) {
	c.Rule(rule, "mxConn.Usable: in each of the worlds 'the client is nil' (closed), 'the connection object is nil', 'a transaction on it failed' every return is the constant false – the two guards of the pool (Close before Return, Get before hand-out) rest on this answer", 3)
	r := c.need(rule, "internal/target/remote", "mxConn", "Usable")
	if r == nil {
		return
	}
	info := r.Info
	type world struct {
		name  string
		match func(atom ast.Expr) (bool, bool)
	}
	isNilCmp := func(atom ast.Expr, x func(ast.Expr) bool) (bool, bool) {
		be, ok := ast.Unparen(atom).(*ast.BinaryExpr)
		if !ok || (be.Op != token.EQL && be.Op != token.NEQ) || !isNilIdent(info, be.Y) || !x(be.X) {
			return false, false
		}
		return be.Op == token.EQL, true
	}
	isClientCall := func(e ast.Expr) bool {
		call, ok := ast.Unparen(e).(*ast.CallExpr)
		return ok && methodName(call) == "Client" && len(call.Args) == 0
	}
	isConnField := func(e ast.Expr) bool {
		fv := fieldOf(info, e)
		if fv == nil {
			return false
		}
		nt, ok := derefNamed(fv.Type())
		return ok && nt.Obj().Name() == "C" && nt.Obj().Pkg() != nil && strings.HasSuffix(nt.Obj().Pkg().Path(), "/internal/smtpconn")
	}
	worlds := []world{
		{"client-nil", func(a ast.Expr) (bool, bool) { return isNilCmp(a, isClientCall) }},
		{"conn-nil", func(a ast.Expr) (bool, bool) { return isNilCmp(a, isConnField) }},
		{"errored", func(a ast.Expr) (bool, bool) {
			if fv := fieldOf(info, ast.Unparen(a)); fv != nil && fv.Name() == "errored" {
				return true, true
			}
			return false, false
		}},
	}
	notFalse := func(pt Pt) bool {
		k, ret := r.F.Exit(pt)
		if k != ExitReturn || ret == nil || len(ret.Results) != 1 {
			return k != NotExit && k != ExitReturn
		}
		tv, has := info.Types[ret.Results[0]]
		return !(has && tv.Value != nil && tv.Value.String() == "false")
	}
	for _, w := range worlds {
		seen := false
		ast.Inspect(r.FI.Decl.Body, func(n ast.Node) bool {
			if e, ok := n.(ast.Expr); ok {
				if _, m := w.match(e); m {
					seen = true
				}
			}
			return true
		})
		if !seen {
			c.Hold(rule, "Usable:"+w.name, r.FI.Decl.Pos(), false, "Usable never looks at '"+w.name+"': a connection in that state is reported usable, goes back to the pool and is handed to the next delivery")
			continue
		}
		path, found := r.F.Reach(Query{From: r.Entry(), Inclusive: true, Target: notFalse, AvoidEdge: r.F.World(w.match)})
		c.Hold(rule, "Usable:"+w.name, r.FI.Decl.Pos(), !found, "in the world '"+w.name+"' Usable can answer something other than false ("+r.F.Describe(path)+"): a closed or failed connection passes both guards of the pool – Close returns it, Get hands it out")
	}
}

// ---- E15: no in-place filter of storage the function does not own.
// `res := fields[:0]; for … { res = append(res, x) }` writes the survivors into the backing array of `fields`. That is
// the allocation-free filter idiom and correct when `fields` was allocated by the function itself. When `fields` is a
// parameter, a struct field or a package-level list, the array can belong to somebody else: modify.dkim's
// `m.signHeader` IS the package-level default list when `sign_fields` is not configured (C08T: an instance with a
// custom `oversign_fields` squeezed `List-Unsubscribe` out of the default list of every other instance, which then
// stopped signing that field). Decided per function body: the operand of a zero-length re-slice that is appended to
// is a local variable whose every definition in the body is a fresh allocation (make, a composite literal, append onto
// nil, a conversion / strings.Fields-like call result).
func inPlaceFilterSeen(c *Check, fis []*FuncInfo) {
	c.Rule("E15", "a zero-length re-slice `x[:0]` that is appended to (the in-place filter idiom) has an operand the function allocated itself – never a parameter, a struct field or a package-level list, whose backing array other holders keep reading", 0)
	defer func() { c.HoldConst("E15", "functions-examined", token.NoPos, true, "") }()
	seen := map[*types.Func]bool{}
	for _, fi := range fis {
		if fi == nil || seen[fi.Obj] || fi.Decl.Body == nil {
			continue
		}
		seen[fi.Obj] = true
		info := fi.Info()
		n := 0
		funcBodiesAST(fi, func(name string, body *ast.BlockStmt) {
			inspectNoLit(body, func(x ast.Node) bool {
				sl, ok := x.(*ast.SliceExpr)
				if !ok || sl.Low != nil && !isConstZero(info, sl.Low) || sl.High == nil || !isConstZero(info, sl.High) {
					return true
				}
				t := info.TypeOf(sl.X)
				if t == nil {
					return true
				}
				if _, isSlice := t.Underlying().(*types.Slice); !isSlice {
					return true
				}
				n++
				key := name + ":reslice" + itoa(n)
				owner := ""
				switch o := objOf(info, sl.X).(type) {
				case *types.Var:
					switch {
					case o.IsField():
						owner = "the struct field " + o.Name()
					case o.Pkg() != nil && o.Parent() == o.Pkg().Scope():
						owner = "the package-level list " + o.Name()
					default:
						// a local: every definition in this body is a fresh allocation?
						isParam := true
						ast.Inspect(body, func(y ast.Node) bool {
							if id, isID := y.(*ast.Ident); isID && info.Defs[id] == o {
								isParam = false
							}
							return true
						})
						if isParam {
							// a parameter: the storage is the caller's – an alarm only when a caller in the package hands in a
							// struct field or a package-level list (a documented "filters in place" helper fed with a look-up
							// result is the idiom used as intended)
							owner = paramFedWithSharedStorage(c.P, fi, o)
							break
						}
						for _, d := range defsOfObj(info, body, o) {
							if !freshSliceExpr(info, d) {
								owner = "the variable " + o.Name() + " (defined as " + exprStr(d) + ")"
							}
						}
					}
				default:
					if fv := fieldOf(info, sl.X); fv != nil {
						owner = "the struct field " + fv.Name()
					} else {
						owner = exprStr(sl.X)
					}
				}
				c.Hold("E15", key, sl.Pos(), owner == "", "the in-place filter `"+exprStr(sl)+"` writes into the backing array of "+owner+", which this function did not allocate: whoever else holds that array (the package-level default a configuration field was initialised from, the caller's list, a table's own storage) sees its elements overwritten – a later message, another module instance or the next look-up works on the filtered list")
				return true
			})
		})
	}
}

func isConstZero(info *types.Info, e ast.Expr) bool {
	tv, ok := info.Types[e]
	if !ok || tv.Value == nil {
		return false
	}
	v, isInt := constInt(tv)
	return isInt && v == 0
}

// funcBodiesAST: the declared body and every function literal in it, without building flow graphs.
func funcBodiesAST(fi *FuncInfo, f func(name string, body *ast.BlockStmt)) {
	f(fi.Name(), fi.Decl.Body)
	k := 0
	ast.Inspect(fi.Decl.Body, func(x ast.Node) bool {
		if lit, ok := x.(*ast.FuncLit); ok {
			k++
			f(fi.Name()+"$"+itoa(k), lit.Body)
		}
		return true
	})
}

// defsOfObj: the right-hand sides of every definition / assignment of o in body (nil entries for definitions without
// a value, range variables and multi-value assignments are reported as the statement's first expression).
func defsOfObj(info *types.Info, body ast.Node, o types.Object) []ast.Expr {
	var out []ast.Expr
	ast.Inspect(body, func(n ast.Node) bool {
		switch s := n.(type) {
		case *ast.AssignStmt:
			for i, l := range s.Lhs {
				if objOf(info, l) != o {
					continue
				}
				if len(s.Rhs) == len(s.Lhs) {
					out = append(out, s.Rhs[i])
				} else if len(s.Rhs) == 1 {
					out = append(out, s.Rhs[0])
				}
			}
		case *ast.ValueSpec:
			for i, nm := range s.Names {
				if info.Defs[nm] != o {
					continue
				}
				if i < len(s.Values) {
					out = append(out, s.Values[i])
				}
			}
		case *ast.RangeStmt:
			if (s.Key != nil && objOf(info, s.Key) == o) || (s.Value != nil && objOf(info, s.Value) == o) {
				out = append(out, s.X)
			}
		}
		return true
	})
	return out
}

// freshSliceExpr: the expression allocates a new backing array (or is nil).
func freshSliceExpr(info *types.Info, e ast.Expr) bool {
	e = ast.Unparen(e)
	if isNilIdent(info, e) {
		return true
	}
	switch x := e.(type) {
	case *ast.CompositeLit:
		return true
	case *ast.CallExpr:
		if id, ok := ast.Unparen(x.Fun).(*ast.Ident); ok {
			if _, isB := info.Uses[id].(*types.Builtin); isB {
				switch id.Name {
				case "make":
					return true
				case "append":
					// append onto nil / onto a fresh value
					return len(x.Args) > 0 && freshSliceExpr(info, x.Args[0])
				}
				return false
			}
		}
		if tv, ok := info.Types[x.Fun]; ok && tv.IsType() {
			// a conversion: []T(nil) is fresh, []byte(s) allocates
			return len(x.Args) == 1 && (isNilIdent(info, x.Args[0]) || isStringType(info.TypeOf(x.Args[0])))
		}
		// results of the standard library's splitting / copying helpers are the caller's own
		if fn := callee(info, x); fn != nil && fn.Pkg() != nil {
			switch fn.Pkg().Path() {
			case "strings", "bytes", "slices", "sort", "regexp":
				return fn.Name() != "Compact" && fn.Name() != "Delete"
			}
		}
	}
	return false
}

// ---- C04.R15 (= C16.R15): what the error says about itself wins over the converter's defaults.
// Endpoint.wrapErr and queue.toSMTPErr start from a default pair chosen by the temporariness of the error and then
// copy the code, the enhanced code and the text the error carries (`smtp_code`, `smtp_enchcode`, `smtp_msg`, a typed
// SMTP error). The order is the specification: a default stored AFTER the copy (C04T: `if IsTemporary(err) { res.Code =
// 451 }` moved below, "a temporary failure is never reported as a permanent one") replaces the configured reply of a
// `reject 450 4.2.1 "…"` block by 451. Decided on both converters: no store of a constant into the reply's basic code
// is reachable from a store of the code the error carries.
func c04FieldsWinOverDefaults(c *Check, rule string) {
	c.Rule(rule, "wrapErr / toSMTPErr: no constant is stored into the reply's basic code after the code the error carries (smtp_code field, typed SMTP error) was copied into it – a block's configured `reject 450 …` is answered with 450, not with the converter's default", 2)
	for _, site := range [][3]string{{smtpEndpRel, "Endpoint", "wrapErr"}, {queueRel, "", "toSMTPErr"}} {
		r := c.need(rule, site[0], site[1], site[2])
		if r == nil {
			continue
		}
		info := r.Info
		isCodeStore := func(pt Pt, wantConst bool) bool {
			as, ok := pt.Node().(*ast.AssignStmt)
			if !ok || len(as.Lhs) != len(as.Rhs) {
				return false
			}
			for i, l := range as.Lhs {
				sel, isSel := ast.Unparen(l).(*ast.SelectorExpr)
				if !isSel || sel.Sel.Name != "Code" || fieldOf(info, sel) == nil {
					continue
				}
				tv, has := info.Types[as.Rhs[i]]
				isConst := has && tv.Value != nil
				if isConst == wantConst {
					return true
				}
			}
			return false
		}
		var carried []Pt
		for _, pt := range r.F.Points() {
			if isCodeStore(pt, false) {
				carried = append(carried, pt)
			}
		}
		if len(carried) == 0 {
			c.Fail(rule, site[2]+":carried", r.FI.Decl.Pos(), "undecided: the converter never copies the code the error carries")
			continue
		}
		path, found := r.F.Reach(Query{From: carried, Target: func(q Pt) bool { return isCodeStore(q, true) }})
		c.Hold(rule, site[2]+":defaults-first", r.FI.Decl.Pos(), !found, "a constant is stored into the reply's basic code after the code the error carries was copied ("+r.F.Describe(path)+"): the reply a pipeline block was configured with (`reject 450 4.2.1 \"…\"`, `reject 452 …`) reaches the client as the converter's default 451 with the configured enhanced code and text")
	}
}

// ---- C17.R13: the address functions have no memory.
// Quoting, splitting, normalising and comparing are functions of their arguments. A package-level buffer or pool that
// a call reads and leaves behind changed (C17S: QuoteMbox took a *bytes.Buffer from a sync.Pool and reset it on one of
// its two exits only – after QuoteMbox("alice") the next address that needs quoting came out as "alicea b") makes the
// result depend on the calls before: quoting no longer round-trips, and two goroutines see each other's text. Decided
// for framework/address and the normalisation file of framework/dns: a function refers to a package-level variable only
// when that variable is never assigned, has no element stores, and is of a type without mutable operations (an error
// value, a table in a map / slice literal, a compiled profile).
func c17AddressFunctionsStateless(c *Check, rule string) {
	c.Rule(rule, "framework/address and framework/dns (normalisation): functions refer to package-level variables only as constants – never to a pool, buffer or builder, never to a variable that some function assigns or stores into (the result of quoting / splitting / normalising depends on the argument alone)", 4)
	p := c.P
	n := 0
	for _, rel := range []string{"framework/address", "framework/dns"} {
		pk := p.Pkg(rel)
		if pk == nil {
			c.Fail(rule, rel, token.NoPos, "anchor unresolved: package not loaded")
			continue
		}
		info := pk.TypesInfo
		// package-level variables that are written somewhere in the package
		written := map[types.Object]string{}
		p.AllFuncs([]*packagesPkg{pk}, func(fi *FuncInfo) {
			if fi.Decl.Body == nil || strings.HasSuffix(p.Fset.Position(fi.Decl.Pos()).Filename, "_test.go") {
				return
			}
			ast.Inspect(fi.Decl.Body, func(x ast.Node) bool {
				mark := func(l ast.Expr) {
					l = ast.Unparen(l)
					if ix, ok := l.(*ast.IndexExpr); ok {
						l = ast.Unparen(ix.X)
					}
					if v, ok := objOf(info, l).(*types.Var); ok && v.Pkg() != nil && v.Parent() == v.Pkg().Scope() {
						written[v] = fi.Name()
					}
				}
				switch s := x.(type) {
				case *ast.AssignStmt:
					for _, l := range s.Lhs {
						mark(l)
					}
				case *ast.IncDecStmt:
					mark(s.X)
				}
				return true
			})
		})
		mutableType := func(t types.Type) string {
			if pt, ok := t.Underlying().(*types.Pointer); ok {
				t = pt.Elem()
			}
			if nt, ok := types.Unalias(t).(*types.Named); ok && nt.Obj().Pkg() != nil {
				q := nt.Obj().Pkg().Path() + "." + nt.Obj().Name()
				switch q {
				case "sync.Pool", "bytes.Buffer", "strings.Builder", "sync.Map", "bufio.Reader", "bufio.Writer":
					return q
				}
			}
			return ""
		}
		p.AllFuncs([]*packagesPkg{pk}, func(fi *FuncInfo) {
			fname := p.Fset.Position(fi.Decl.Pos()).Filename
			if fi.Decl.Body == nil || strings.HasSuffix(fname, "_test.go") {
				return
			}
			if rel == "framework/dns" && !strings.HasSuffix(fname, "norm.go") {
				return // the resolver part of the package has configuration (override.go) and connections
			}
			n++
			c.SawFunc(fi.Name())
			msg := ""
			ast.Inspect(fi.Decl.Body, func(x ast.Node) bool {
				id, ok := x.(*ast.Ident)
				if !ok {
					return true
				}
				v, isVar := info.Uses[id].(*types.Var)
				if !isVar || v.IsField() || v.Pkg() == nil || v.Parent() != v.Pkg().Scope() || !strings.HasPrefix(v.Pkg().Path(), modPath) {
					return true
				}
				if mt := mutableType(v.Type()); mt != "" {
					msg = "the function uses the package-level " + mt + " " + v.Name() + " (line " + itoa(p0(p, id.Pos())) + "): what one call leaves in it is part of the next call's result – quoting / normalising an address no longer depends on the address alone (and concurrent calls share the state)"
				} else if w, isW := written[v]; isW {
					msg = "the function reads the package-level variable " + v.Name() + " (line " + itoa(p0(p, id.Pos())) + "), which " + w + " assigns: the result depends on the calls made before"
				}
				return true
			})
			c.Hold(rule, fi.Name(), fi.Decl.Pos(), msg == "", msg)
		})
	}
	if n == 0 {
		c.Fail(rule, "functions", token.NoPos, "anchor unresolved")
	}
}

// ---- E16: a timer that drives a loop is re-armed on every way round.
// A time.Ticker fires for ever, a time.Timer once. A loop that waits on `timer.C` and comes round again without
// `timer.Reset(…)` (or a new timer) waits for ever from the second iteration on: pool.cleanUpTick rewritten from a
// ticker to a timer (C19T, "the interval is counted from the end of the previous sweep") swept once, one minute after
// start-up – idle connections of destinations nobody writes to again were never closed while the process lived.
// Decided per function body: from the branch that a receive from a *time.Timer's channel selects (or from the receive
// itself when it stands alone) no path leads back to that receive without a Reset of the timer or an assignment to it.
func timerRearmedSeen(c *Check, fis []*FuncInfo) {
	c.Rule("E16", "a receive from the channel of a *time.Timer that a loop comes back to is preceded, on every way round, by a Reset of that timer or by a new timer (a one-shot timer that is waited on again never fires: a periodic job runs once)", 0)
	defer func() { c.HoldConst("E16", "functions-examined", token.NoPos, true, "") }()
	seen := map[*types.Func]bool{}
	for _, fi := range fis {
		if fi == nil || seen[fi.Obj] || fi.Decl.Body == nil {
			continue
		}
		seen[fi.Obj] = true
		info := fi.Info()
		timerOf := func(e ast.Expr) types.Object {
			u, ok := ast.Unparen(e).(*ast.UnaryExpr)
			if !ok || u.Op != token.ARROW {
				return nil
			}
			sel, ok := ast.Unparen(u.X).(*ast.SelectorExpr)
			if !ok || sel.Sel.Name != "C" {
				return nil
			}
			t := info.TypeOf(sel.X)
			if t == nil {
				return nil
			}
			nt, isNamed := derefNamed(t)
			if !isNamed || nt.Obj().Pkg() == nil || nt.Obj().Pkg().Path() != "time" || nt.Obj().Name() != "Timer" {
				return nil
			}
			return objOf(info, sel.X)
		}
		// pre-filter
		has := false
		ast.Inspect(fi.Decl.Body, func(x ast.Node) bool {
			if e, ok := x.(ast.Expr); ok && timerOf(e) != nil {
				has = true
			}
			return !has
		})
		if !has {
			continue
		}
		funcBodies(c.P, fi, func(name string, body *ast.BlockStmt, fl *Flow) {
			n := 0
			var recvs []struct {
				tm   types.Object
				expr ast.Expr
				cc   *ast.CommClause
			}
			var stack []ast.Node
			ast.Inspect(body, func(x ast.Node) bool {
				if x == nil {
					stack = stack[:len(stack)-1]
					return true
				}
				stack = append(stack, x)
				if _, isLit := x.(*ast.FuncLit); isLit {
					stack = stack[:len(stack)-1]
					return false
				}
				e, ok := x.(ast.Expr)
				if !ok {
					return true
				}
				tm := timerOf(e)
				if tm == nil {
					return true
				}
				var cc *ast.CommClause
				for i := len(stack) - 2; i >= 0; i-- {
					if c2, isCC := stack[i].(*ast.CommClause); isCC {
						if c2.Comm != nil && within(c2.Comm, e) {
							cc = c2
						}
						break
					}
					if _, isStmt := stack[i].(ast.Stmt); isStmt {
						if _, isExprStmt := stack[i].(*ast.ExprStmt); !isExprStmt {
							if _, isAs := stack[i].(*ast.AssignStmt); !isAs {
								break
							}
						}
					}
				}
				recvs = append(recvs, struct {
					tm   types.Object
					expr ast.Expr
					cc   *ast.CommClause
				}{tm, e, cc})
				return true
			})
			for _, rc := range recvs {
				n++
				key := name + ":timer" + itoa(n)
				// where the receive is evaluated
				var evalPts []Pt
				for _, pt := range fl.Points() {
					if pt.Node() != nil && within(pt.Node(), rc.expr) {
						evalPts = append(evalPts, pt)
					}
				}
				if len(evalPts) == 0 {
					continue
				}
				from := evalPts
				if rc.cc != nil {
					from = nil
					for _, b := range fl.G.Blocks {
						if b.Kind == kindSelectCaseBody && b.Stmt == ast.Stmt(rc.cc) {
							from = append(from, Pt{b, 0})
						}
					}
					if len(from) == 0 {
						continue
					}
				}
				rearmed := func(q Pt) bool {
					if q.Node() == nil {
						return false
					}
					if assignsObj(info, q.Node(), rc.tm) {
						return true
					}
					for _, call := range callsAt(q.Node()) {
						if methodName(call) == "Reset" && objOf(info, callRecv(call)) == rc.tm {
							return true
						}
					}
					return false
				}
				path, found := fl.Reach(Query{From: from, Inclusive: rc.cc != nil, Target: isPt(evalPts), Avoid: rearmed})
				c.Hold("E16", key, rc.expr.Pos(), !found, "after the timer "+rc.tm.Name()+" has fired the loop comes back to wait on it again without a Reset ("+fl.Describe(path)+"): a time.Timer fires once – from the second way round the wait never ends and whatever the loop does periodically (the pool's sweep of idle connections, a refill, a retry) is done exactly once in the life of the process")
			}
		})
	}
}

// ---- C19.R20: the pool never creates a bucket of negative capacity.
// pool.Return creates a key's bucket with make(chan Conn, cfg.MaxConnsPerKey); the value is `conn_max_idle_count` of
// target.remote, any integer. A negative one panics ('makechan: size out of range') in the first Return for a new key –
// in the goroutine that just committed a delivery. "None of which crash": pool.New clamps or replaces a negative value
// before it keeps the configuration (decided in the world 'the field is -1': every path through New assigns the field).
func c19BucketCapacityNotNegative(c *Check, rule string) {
	c.Rule(rule, "smtpconn/pool: every configuration field that is used as the capacity of a make(chan …) is assigned by pool.New on every path on which it is negative (clamped or replaced) – `conn_max_idle_count -1` cannot make the first Return of a new key panic", 1)
	p := c.P
	pk := p.Pkg("internal/smtpconn/pool")
	if pk == nil {
		c.Fail(rule, "package", token.NoPos, "anchor unresolved")
		return
	}
	info := pk.TypesInfo
	fields := map[*types.Var]token.Pos{}
	p.AllFuncs([]*packagesPkg{pk}, func(fi *FuncInfo) {
		if fi.Decl.Body == nil || strings.HasSuffix(p.Fset.Position(fi.Decl.Pos()).Filename, "_test.go") {
			return
		}
		ast.Inspect(fi.Decl.Body, func(x ast.Node) bool {
			call, ok := x.(*ast.CallExpr)
			if !ok || len(call.Args) != 2 {
				return true
			}
			id, isID := ast.Unparen(call.Fun).(*ast.Ident)
			if !isID || id.Name != "make" {
				return true
			}
			if t := info.TypeOf(call.Args[0]); t == nil {
				return true
			} else if _, isChan := t.Underlying().(*types.Chan); !isChan {
				return true
			}
			if fv := fieldOf(info, call.Args[1]); fv != nil {
				fields[fv] = call.Pos()
			} else if tv, has := info.Types[call.Args[1]]; !has || tv.Value == nil {
				if _, isVar := objOf(info, call.Args[1]).(*types.Var); !isVar {
					c.Fail(rule, fi.Name()+":make", call.Pos(), "undecided: channel capacity "+exprStr(call.Args[1]))
				}
			}
			return true
		})
	})
	if len(fields) == 0 {
		c.Fail(rule, "sites", token.NoPos, "anchor unresolved: no bucket channel is created from a configuration field")
		return
	}
	r := c.need(rule, "internal/smtpconn/pool", "", "New")
	if r == nil {
		return
	}
	for fv, pos := range fields {
		var stores []Pt
		for _, pt := range r.F.Points() {
			as, ok := pt.Node().(*ast.AssignStmt)
			if !ok {
				continue
			}
			for _, l := range as.Lhs {
				if fieldOf(r.Info, l) == fv {
					stores = append(stores, pt)
				}
			}
		}
		world := r.F.World(func(atom ast.Expr) (bool, bool) {
			be, ok := ast.Unparen(atom).(*ast.BinaryExpr)
			if !ok || fieldOf(r.Info, be.X) != fv {
				return false, false
			}
			tv, has := r.Info.Types[be.Y]
			if !has || tv.Value == nil {
				return false, false
			}
			cv, isInt := constInt(tv)
			if !isInt {
				return false, false
			}
			const val = int64(-1)
			switch be.Op {
			case token.LSS:
				return val < cv, true
			case token.LEQ:
				return val <= cv, true
			case token.GTR:
				return val > cv, true
			case token.GEQ:
				return val >= cv, true
			case token.EQL:
				return val == cv, true
			case token.NEQ:
				return val != cv, true
			}
			return false, false
		})
		path, found := r.F.Reach(Query{From: r.Entry(), Inclusive: true, Target: r.F.IsExitPt, Avoid: isPt(stores), AvoidEdge: world})
		c.Hold(rule, "New:"+fv.Name(), pos, !found, "pool.New keeps a negative "+fv.Name()+" ("+r.F.Describe(path)+") and "+p.Pos(pos)+" hands it to make(chan …): `conn_max_idle_count -1` makes the first Return for a new key panic 'makechan: size out of range' in the goroutine that has just finished a delivery")
	}
}

// ---- C14.R9: the password reaches the hash function whole.
// "Succeeds exactly when the supplied password is the one most recently set": every byte of the password takes part.
// The functions registered in pass_table's HashCompute / HashVerify tables (and the legacy SHA-256 pair) hand their
// password parameter to the key-derivation function as `[]byte(pass)` – the whole string. A copy into a fixed-size
// scratch array (C14S: 256 bytes, "so it does not linger on the heap"; `copy` truncates silently), a slice or an index
// of the parameter lets every password with the same prefix in.
func c14PasswordHashedWhole(c *Check, rule string) {
	c.Rule(rule, "pass_table: in every hash compute / verify function the password parameter is only ever used whole – converted to []byte or passed on as it is – never sliced, indexed, measured or copied into a buffer of fixed size (a truncated password admits every password with the same prefix)", 4)
	p := c.P
	pk := p.Pkg("internal/auth/pass_table")
	if pk == nil {
		c.Fail(rule, "package", token.NoPos, "anchor unresolved")
		return
	}
	info := pk.TypesInfo
	n := 0
	p.AllFuncs([]*packagesPkg{pk}, func(fi *FuncInfo) {
		if fi.Decl.Body == nil || fi.Decl.Recv != nil || strings.HasSuffix(p.Fset.Position(fi.Decl.Pos()).Filename, "_test.go") {
			return
		}
		sig, _ := fi.Obj.Type().(*types.Signature)
		if sig == nil {
			return
		}
		// FuncHashCompute: (HashOpts, string) (string, error); FuncHashVerify: (string, string) error
		var pass *types.Var
		switch {
		case sig.Params().Len() == 2 && sig.Results().Len() == 2 && isStringType(sig.Params().At(1).Type()) && isStringType(sig.Results().At(0).Type()) && isErrorType(sig.Results().At(1).Type()):
			if nt, ok := derefNamed(sig.Params().At(0).Type()); ok && nt.Obj().Name() == "HashOpts" {
				pass = sig.Params().At(1)
			}
		case sig.Params().Len() == 2 && sig.Results().Len() == 1 && isStringType(sig.Params().At(0).Type()) && isStringType(sig.Params().At(1).Type()) && isErrorType(sig.Results().At(0).Type()):
			if strings.HasPrefix(fi.Obj.Name(), "verify") {
				pass = sig.Params().At(0)
			}
		}
		if pass == nil {
			return
		}
		n++
		c.SawFunc(fi.Name())
		msg, uses := "", 0
		var stack []ast.Node
		ast.Inspect(fi.Decl.Body, func(x ast.Node) bool {
			if x == nil {
				stack = stack[:len(stack)-1]
				return true
			}
			stack = append(stack, x)
			id, ok := x.(*ast.Ident)
			if !ok || info.Uses[id] != pass || len(stack) < 2 {
				return true
			}
			uses++
			parent := stack[len(stack)-2]
			if pe, isParen := parent.(*ast.ParenExpr); isParen && len(stack) >= 3 {
				_ = pe
				parent = stack[len(stack)-3]
			}
			switch pn := parent.(type) {
			case *ast.CallExpr:
				if tv, has := info.Types[pn.Fun]; has && tv.IsType() {
					if isByteSlice(tv.Type) {
						return true // []byte(pass)
					}
					msg = "line " + itoa(p0(p, id.Pos())) + ": the password is converted to " + tv.Type.String()
					return true
				}
				if fid, isID := ast.Unparen(pn.Fun).(*ast.Ident); isID {
					if _, isB := info.Uses[fid].(*types.Builtin); isB {
						if fid.Name == "len" {
							return true // measuring is not truncating (verifyBcrypt refuses by length)
						}
						msg = "line " + itoa(p0(p, id.Pos())) + ": the password is an argument of the builtin " + fid.Name + " (`copy` into a buffer of fixed size truncates silently; a length taken for a bound does the same)"
						return true
					}
				}
				return true // handed on whole
			case *ast.SliceExpr, *ast.IndexExpr:
				msg = "line " + itoa(p0(p, id.Pos())) + ": only a part of the password is used (" + exprStr(parent.(ast.Expr)) + ")"
			case *ast.RangeStmt:
				msg = "line " + itoa(p0(p, id.Pos())) + ": the password is processed character by character"
			}
			return true
		})
		if uses == 0 {
			msg = "the password parameter is never used"
		}
		if msg != "" {
			msg += ": every password that agrees with the stored one on the part that is hashed authenticates (set a password longer than the buffer, log in with its prefix)"
		}
		c.Hold(rule, fi.Name(), fi.Decl.Pos(), msg == "", msg)
	})
	if n == 0 {
		c.Fail(rule, "functions", token.NoPos, "anchor unresolved: no hash compute / verify function found in pass_table")
	}
}

func isByteSlice(t types.Type) bool {
	sl, ok := t.Underlying().(*types.Slice)
	if !ok {
		return false
	}
	b, isB := sl.Elem().Underlying().(*types.Basic)
	return isB && b.Kind() == types.Uint8
}

// ---- C14.R10: every endpoint finds the account mapping in the same place.
// "PLAIN and LOGIN give the same decision and identity for the same credentials (with or without a user-name mapping
// table)" – and so do the endpoints: `auth_map` and `auth_map_normalize` are written once, at the top level of the
// configuration, and inherited by the smtp / submission, imap and dovecot_sasld endpoints. An endpoint that registers
// one of them without the inherit flag (C14T: `auth_map` in endpoint.smtp, "like storage_map next door") runs with no
// mapping while its siblings – and its own normaliser – use the global one: the mapped account's password is refused
// on submission, and an entry that happens to exist under the unmapped name opens the session for another account.
func c14AccountMapInheritedEverywhere(c *Check, rule string) {
	c.Rule(rule, "the directives auth_map and auth_map_normalize are registered with the same inherit-from-globals flag by every endpoint (all true today): no endpoint authenticates against the unmapped name while its siblings apply the global mapping", 4)
	p := c.P
	type site struct {
		where string
		pos   token.Pos
		name  string
		inh   string
	}
	var sites []site
	for _, pk := range p.ServerPkgs() {
		if !strings.Contains(pk.PkgPath, "/internal/endpoint/") {
			continue
		}
		info := pk.TypesInfo
		pk := pk
		p.AllFuncs([]*packagesPkg{pk}, func(fi *FuncInfo) {
			if fi.Decl.Body == nil || strings.HasSuffix(p.Fset.Position(fi.Decl.Pos()).Filename, "_test.go") {
				return
			}
			ast.Inspect(fi.Decl.Body, func(x ast.Node) bool {
				call, ok := x.(*ast.CallExpr)
				if !ok {
					return true
				}
				fn := callee(info, call)
				if fn == nil || fn.Pkg() == nil || !strings.Contains(fn.Pkg().Path(), "/framework/config") {
					return true
				}
				// the directive name is the first string constant argument, the inherit flag the bool that follows it
				for i, a := range call.Args {
					tv, has := info.Types[a]
					if !has || tv.Value == nil || !isStringType(tv.Type) {
						continue
					}
					name := strings.Trim(tv.Value.ExactString(), "\"")
					if name != "auth_map" && name != "auth_map_normalize" {
						break
					}
					inh := "?"
					if i+1 < len(call.Args) {
						if tv2, has2 := info.Types[call.Args[i+1]]; has2 && tv2.Value != nil && isBoolType(tv2.Type) {
							inh = tv2.Value.String()
						}
					}
					sites = append(sites, site{fi.Name(), call.Pos(), name, inh})
					break
				}
				return true
			})
		})
	}
	if len(sites) == 0 {
		c.Fail(rule, "sites", token.NoPos, "anchor unresolved: no endpoint registers auth_map")
		return
	}
	// the majority value is the reference (all agree today)
	count := map[string]int{}
	for _, s := range sites {
		count[s.inh]++
	}
	ref, best := "", -1
	for v, k := range count {
		if k > best || (k == best && v == "true") {
			ref, best = v, k
		}
	}
	for _, s := range sites {
		c.Hold(rule, s.where+":"+s.name, s.pos, s.inh == ref && s.inh != "?", "the directive "+s.name+" is registered with inherit-from-globals = "+s.inh+" here and = "+ref+" by the other endpoints: with the mapping written at the top level of the configuration (the documented multi-domain set-up) this endpoint authenticates the unmapped login name – the mapped account's password is refused, and a credentials entry that exists under the unmapped name authenticates the session for another account – while IMAP and the other listeners apply the mapping")
	}
}

// ---- C07.R18: the identifiers DMARC aligns carry no resolver spelling.
// check.spf asks the SPF library with fully qualified names (dns.FQDN adds the trailing dot the resolver wants) and
// reports the identities it judged in an authres.SPFResult – Helo and From – which dmarc.EvaluateAlignment compares
// with the From-header domain (strict: EqualFold; relaxed: same organisational domain, where an empty last label is an
// error). A reported identity that went through dns.FQDN (C07S: "compute the HELO name once", stored with the dot)
// never aligns: for a bounce (null reverse-path, SPF passes on HELO) the verdict becomes fail and the published reject
// is applied to legitimate mail. Decided in check.spf: no value stored into SPFResult.Helo / From derives from a
// dns.FQDN call – through locals and through fields of the check's state (every store to the field in the package).
func c07ReportedIdentityNotFQDN(c *Check, rule string) {
	c.Rule(rule, "check.spf: the HELO and MAIL FROM identities reported in the SPF result (the operands of DMARC alignment) never derive from dns.FQDN – the trailing dot is for the resolver only", 2)
	p := c.P
	pk := p.Pkg("internal/check/spf")
	if pk == nil {
		c.Fail(rule, "package", token.NoPos, "anchor unresolved")
		return
	}
	info := pk.TypesInfo
	var fqdnIn func(body ast.Node, e ast.Expr, depth int) string
	fqdnIn = func(body ast.Node, e ast.Expr, depth int) string {
		if e == nil || depth > 4 {
			return ""
		}
		found := ""
		ast.Inspect(e, func(x ast.Node) bool {
			if found != "" {
				return false
			}
			switch y := x.(type) {
			case *ast.CallExpr:
				if isCall(info, y, "~/framework/dns.FQDN") {
					found = exprStr(y)
					return false
				}
			case *ast.SelectorExpr:
				if fv := fieldOf(info, y); fv != nil && fv.Pkg() == pk.Types && isStringType(fv.Type()) {
					// every store to the field in the package
					for _, f := range pk.Syntax {
						if strings.HasSuffix(p.Fset.Position(f.Pos()).Filename, "_test.go") {
							continue
						}
						ast.Inspect(f, func(z ast.Node) bool {
							switch s := z.(type) {
							case *ast.AssignStmt:
								for i, l := range s.Lhs {
									if fieldOf(info, l) == fv && len(s.Rhs) == len(s.Lhs) {
										if w := fqdnIn(f, s.Rhs[i], depth+1); w != "" && found == "" {
											found = w + " (stored in field " + fv.Name() + ")"
										}
									}
								}
							case *ast.KeyValueExpr:
								if id, ok := s.Key.(*ast.Ident); ok && info.Uses[id] == fv {
									if w := fqdnIn(f, s.Value, depth+1); w != "" && found == "" {
										found = w + " (stored in field " + fv.Name() + ")"
									}
								}
							}
							return true
						})
					}
				}
			case *ast.Ident:
				if v, ok := info.Uses[y].(*types.Var); ok && !v.IsField() && v.Pkg() == pk.Types && v.Parent() != pk.Types.Scope() && isStringType(v.Type()) {
					for _, d := range defsOfObj(info, body, v) {
						if d == e || within(d, y) {
							continue
						}
						if w := fqdnIn(body, d, depth+1); w != "" && found == "" {
							found = w + " (through " + v.Name() + ")"
						}
					}
				}
			}
			return true
		})
		return found
	}
	n := 0
	p.AllFuncs([]*packagesPkg{pk}, func(fi *FuncInfo) {
		if fi.Decl.Body == nil || strings.HasSuffix(p.Fset.Position(fi.Decl.Pos()).Filename, "_test.go") {
			return
		}
		k := 0
		check := func(field string, val ast.Expr, pos token.Pos) {
			n++
			k++
			c.SawFunc(fi.Name())
			w := fqdnIn(fi.Decl.Body, val, 0)
			c.Hold(rule, fi.Name()+":"+field+itoa(k), pos, w == "", "the "+field+" identity reported in the SPF result derives from "+w+": with the trailing dot it is never aligned with the From-header domain (strict mode compares the strings, relaxed mode fails on the empty last label) – a bounce whose SPF passes on HELO gets dmarc=fail and the published reject / quarantine")
		}
		ast.Inspect(fi.Decl.Body, func(x ast.Node) bool {
			switch s := x.(type) {
			case *ast.CompositeLit:
				t := info.TypeOf(s)
				if t == nil {
					return true
				}
				nt, ok := derefNamed(t)
				if !ok || nt.Obj().Name() != "SPFResult" {
					return true
				}
				for _, el := range s.Elts {
					if kv, isKV := el.(*ast.KeyValueExpr); isKV {
						if id, isID := kv.Key.(*ast.Ident); isID && (id.Name == "Helo" || id.Name == "From") {
							check(id.Name, kv.Value, kv.Pos())
						}
					}
				}
			case *ast.AssignStmt:
				for i, l := range s.Lhs {
					sel, isSel := ast.Unparen(l).(*ast.SelectorExpr)
					if !isSel || (sel.Sel.Name != "Helo" && sel.Sel.Name != "From") || len(s.Rhs) != len(s.Lhs) {
						continue
					}
					if t := info.TypeOf(sel.X); t != nil {
						if nt, ok := derefNamed(t); ok && nt.Obj().Name() == "SPFResult" {
							check(sel.Sel.Name, s.Rhs[i], s.Pos())
						}
					}
				}
			}
			return true
		})
	})
	if n == 0 {
		c.Fail(rule, "sites", token.NoPos, "anchor unresolved: check.spf builds no SPFResult")
	}
}

// ---- C07.R19: alignment compares domains, not spellings.
// The From-header domain reaches the verifier in A-labels (ExtractFromDomain converts it with the package's IDNA
// profile, because the DNS, the public suffix list and DKIM's d= speak A-labels). The SPF identities are what the
// client wrote in the envelope: under SMTPUTF8 `MAIL FROM:<user@bücher.example>` is a U-label domain. isAligned compared
// the two as strings (EqualFold / organisational domain of each): the same domain in two spellings was "not aligned" –
// SPF passes, DMARC fails, the published reject refuses legitimate mail. Decided on isAligned: on every path to a
// return each of the two domain parameters has gone through a ToASCII of an idna profile.
func c07AlignmentOnALabels(c *Check, rule string) {
	c.Rule(rule, "dmarc.isAligned: both domains are converted with an IDNA profile (ToASCII) before they are compared, on every path – the U-label spelling of an SMTPUTF8 envelope domain aligns with the A-label form of the From-header domain", 2)
	r := c.need(rule, "internal/dmarc", "", "isAligned")
	if r == nil {
		return
	}
	info := r.Info
	sig := r.FI.Obj.Type().(*types.Signature)
	k := 0
	for i := 0; i < sig.Params().Len(); i++ {
		pv := sig.Params().At(i)
		if b, isBasic := types.Unalias(pv.Type()).(*types.Basic); !isBasic || b.Kind() != types.String {
			continue // the alignment mode is a named string type
		}
		k++
		var conv []Pt
		for _, pt := range r.F.Points() {
			if pt.Node() == nil {
				continue
			}
			for _, call := range callsAt(pt.Node()) {
				fn := callee(info, call)
				if fn == nil || fn.Pkg() == nil || !strings.HasSuffix(fn.Pkg().Path(), "/idna") || fn.Name() != "ToASCII" {
					continue
				}
				for _, a := range call.Args {
					if mentions(info, a, pv) {
						conv = append(conv, pt)
					}
				}
			}
		}
		path, found := r.F.Reach(Query{From: r.Entry(), Inclusive: true, Target: r.F.IsExitPt, Avoid: isPt(conv)})
		c.Hold(rule, "isAligned:"+pv.Name(), r.FI.Decl.Pos(), len(conv) > 0 && !found, "isAligned can compare "+pv.Name()+" without converting it to A-labels ("+r.F.Describe(path)+"): the From-header domain arrives in A-labels, an SPF identity from an SMTPUTF8 envelope in U-labels – `MAIL FROM:<user@bücher.example>` with `From: user@bücher.example` passes SPF, is 'not aligned', and the domain's p=reject refuses the message")
	}
	if k < 2 {
		c.Fail(rule, "isAligned:params", r.FI.Decl.Pos(), "undecided: isAligned has fewer than two domain parameters")
	}
}

// ---- C14.R11: bcrypt never sees more than it hashes.
// bcrypt uses the first 72 bytes of a password. x/crypto's GenerateFromPassword refuses longer ones
// (ErrPasswordTooLong), so no stored hash belongs to a password of more than 72 bytes – but CompareHashAndPassword
// does not look at the length: a login with the 72-byte password that was set PLUS any suffix compares equal. "Succeeds
// exactly when the supplied password is the one most recently set": every call of CompareHashAndPassword in pass_table
// is unreachable in the world 'the supplied password has 73 bytes'.
func c14BcryptLengthChecked(c *Check, rule string) {
	c.Rule(rule, "pass_table: bcrypt.CompareHashAndPassword is only reached for passwords of at most 72 bytes (the length GenerateFromPassword accepts): a longer password – the stored one plus a suffix – is refused, not compared by its first 72 bytes", 1)
	p := c.P
	pk := p.Pkg("internal/auth/pass_table")
	if pk == nil {
		c.Fail(rule, "package", token.NoPos, "anchor unresolved")
		return
	}
	info := pk.TypesInfo
	n := 0
	p.AllFuncs([]*packagesPkg{pk}, func(fi *FuncInfo) {
		if fi.Decl.Body == nil || strings.HasSuffix(p.Fset.Position(fi.Decl.Pos()).Filename, "_test.go") {
			return
		}
		fi = p.DeclOf(fi.Obj)
		if fi == nil || fi.Decl.Body == nil {
			return
		}
		fl := p.FlowOfFunc(fi)
		for _, pt := range fl.Points() {
			if pt.Node() == nil {
				continue
			}
			for _, call := range callsAt(pt.Node()) {
				fn := callee(info, call)
				if fn == nil || fn.Pkg() == nil || !strings.HasSuffix(fn.Pkg().Path(), "/bcrypt") || fn.Name() != "CompareHashAndPassword" || len(call.Args) != 2 {
					continue
				}
				n++
				c.SawFunc(fi.Name())
				// the password operand: a conversion of a variable, or the variable
				var pw types.Object
				ast.Inspect(call.Args[1], func(x ast.Node) bool {
					if id, ok := x.(*ast.Ident); ok && pw == nil {
						if v, isVar := info.Uses[id].(*types.Var); isVar {
							pw = v
						}
					}
					return true
				})
				if pw == nil {
					c.Fail(rule, fi.Name()+":compare"+itoa(n), call.Pos(), "undecided: the password operand "+exprStr(call.Args[1])+" is not a variable")
					continue
				}
				world := fl.World(func(atom ast.Expr) (bool, bool) {
					be, ok := ast.Unparen(atom).(*ast.BinaryExpr)
					if !ok {
						return false, false
					}
					lc, isCall := ast.Unparen(be.X).(*ast.CallExpr)
					if !isCall || len(lc.Args) != 1 {
						return false, false
					}
					if id, isID := ast.Unparen(lc.Fun).(*ast.Ident); !isID || id.Name != "len" || !mentions(info, lc.Args[0], pw) {
						return false, false
					}
					tv, has := info.Types[be.Y]
					if !has || tv.Value == nil {
						return false, false
					}
					cv, isInt := constInt(tv)
					if !isInt {
						return false, false
					}
					const val = int64(73)
					switch be.Op {
					case token.LSS:
						return val < cv, true
					case token.LEQ:
						return val <= cv, true
					case token.GTR:
						return val > cv, true
					case token.GEQ:
						return val >= cv, true
					case token.EQL:
						return val == cv, true
					case token.NEQ:
						return val != cv, true
					}
					return false, false
				})
				here := pt
				path, found := fl.Reach(Query{From: []Pt{fl.Entry()}, Inclusive: true, Target: func(q Pt) bool { return q == here }, AvoidEdge: world})
				c.Hold(rule, fi.Name()+":compare"+itoa(n), call.Pos(), !found, "a password of 73 bytes reaches bcrypt.CompareHashAndPassword ("+fl.Describe(path)+"): bcrypt compares the first 72 bytes only and GenerateFromPassword never stored a longer password – after a 72-byte password was set, that password followed by anything authenticates")
			}
		}
	})
	if n == 0 {
		c.Fail(rule, "sites", token.NoPos, "anchor unresolved: pass_table does not call bcrypt.CompareHashAndPassword")
	}
}

// paramFedWithSharedStorage: some call of fi in its package passes a struct field or a package-level variable for
// parameter pv; the description of that argument, or "".
func paramFedWithSharedStorage(p *Prog, fi *FuncInfo, pv types.Object) string {
	sig, _ := fi.Obj.Type().(*types.Signature)
	if sig == nil {
		return ""
	}
	idx := -1
	for i := 0; i < sig.Params().Len(); i++ {
		if sig.Params().At(i) == pv {
			idx = i
		}
	}
	if idx < 0 {
		return "" // the parameter of a function literal: read in place where it is only called, otherwise not followed
	}
	res := ""
	info := fi.Pkg.TypesInfo
	p.AllFuncs([]*packagesPkg{fi.Pkg}, func(cf *FuncInfo) {
		if cf.Decl.Body == nil || strings.HasSuffix(p.Fset.Position(cf.Decl.Pos()).Filename, "_test.go") {
			return
		}
		ast.Inspect(cf.Decl.Body, func(x ast.Node) bool {
			call, ok := x.(*ast.CallExpr)
			if !ok || callee(info, call) != fi.Obj || idx >= len(call.Args) {
				return true
			}
			arg := ast.Unparen(call.Args[idx])
			if fv := fieldOf(info, arg); fv != nil {
				res = "the struct field " + fv.Name() + " (handed in by " + cf.Name() + ")"
			} else if v, isVar := objOf(info, arg).(*types.Var); isVar && v.Pkg() != nil && v.Parent() == v.Pkg().Scope() {
				res = "the package-level list " + v.Name() + " (handed in by " + cf.Name() + ")"
			}
			return true
		})
	})
	return res
}

// ---- C12.R22: every attempt that Close waits for says when it is over.
// Queue.Close returns when deliveryWg is back at zero. dispatch counts an attempt in (deliveryWg.Add) and starts its
// goroutine; the goroutine counts it out in a deferred function, so that a panicking attempt is counted out as well. An
// Add without the goroutine, or a goroutine that can end without Done, leaves the counter above zero: shutdown never
// terminates. (From the mutant run of round 11: the Done could be deleted without any rule noticing – E5 does not look
// into function literals.)
func c12AttemptsCountedOut(c *Check, rule string) {
	c.Rule(rule, "target.queue: after every Add on the wait group of the attempts the function goes on to start a goroutine, and that goroutine calls Done on the same wait group on every way out (in a deferred function registered on every path, or directly) – Queue.Close, which waits for the group, terminates", 1)
	p := c.P
	pk := p.Pkg(queueRel)
	if pk == nil {
		c.Fail(rule, "package", token.NoPos, "anchor unresolved")
		return
	}
	info := pk.TypesInfo
	wgCall := func(call *ast.CallExpr, name string) *types.Var {
		if methodName(call) != name {
			return nil
		}
		fn := callee(info, call)
		if fn == nil || fn.Pkg() == nil || fn.Pkg().Path() != "sync" {
			return nil
		}
		if nt, ok := derefNamed(info.TypeOf(callRecv(call))); !ok || nt.Obj().Name() != "WaitGroup" {
			return nil
		}
		return fieldOf(info, callRecv(call))
	}
	// does the body call Done on wg on every way out?
	countsOut := func(fiName string, lit *ast.FuncLit, wg *types.Var) (string, bool) {
		fl := p.FlowOf(info, lit.Body, fiName+"$attempt")
		var done []Pt
		for _, pt := range fl.Points() {
			n := pt.Node()
			if n == nil {
				continue
			}
			if d, isDefer := n.(*ast.DeferStmt); isDefer {
				hit := wgCall(d.Call, "Done") == wg
				if dl, isLit := d.Call.Fun.(*ast.FuncLit); isLit {
					// unconditional statements of the deferred function
					for _, st := range dl.Body.List {
						if es, isES := st.(*ast.ExprStmt); isES {
							if cc, isCall := es.X.(*ast.CallExpr); isCall && wgCall(cc, "Done") == wg {
								hit = true
							}
						}
					}
				}
				if hit {
					done = append(done, pt)
				}
				continue
			}
			if !directlyIn(lit.Body, n) {
				continue
			}
			for _, call := range callsAt(n) {
				if wgCall(call, "Done") == wg {
					done = append(done, pt)
				}
			}
		}
		if len(done) == 0 {
			return "the goroutine never calls Done", false
		}
		path, found := fl.Reach(Query{From: []Pt{fl.Entry()}, Inclusive: true, Target: fl.IsExitPt, Avoid: isPt(done)})
		if found {
			return "the goroutine can end without Done (" + fl.Describe(path) + ")", false
		}
		return "", true
	}
	n := 0
	p.AllFuncs([]*packagesPkg{pk}, func(fi *FuncInfo) {
		if fi.Decl.Body == nil || strings.HasSuffix(p.Fset.Position(fi.Decl.Pos()).Filename, "_test.go") {
			return
		}
		funcBodies(p, fi, func(name string, body *ast.BlockStmt, fl *Flow) {
			for _, pt := range fl.Points() {
				if pt.Node() == nil || !directlyIn(body, pt.Node()) {
					continue
				}
				for _, call := range callsAt(pt.Node()) {
					wg := wgCall(call, "Add")
					if wg == nil {
						continue
					}
					n++
					c.SawFunc(fi.Name())
					key := name + ":" + wg.Name() + ".Add" + itoa(n)
					// goroutines started in this body that count the attempt out
					var starts []Pt
					why := "no goroutine is started after the Add"
					for _, q := range fl.Points() {
						g, isGo := q.Node().(*ast.GoStmt)
						if !isGo {
							continue
						}
						lit, isLit := g.Call.Fun.(*ast.FuncLit)
						if !isLit {
							why = "the goroutine started after the Add is not a function literal (not followed)"
							continue
						}
						if w, ok := countsOut(name, lit, wg); ok {
							starts = append(starts, q)
						} else {
							why = w
						}
					}
					msg := ""
					if len(starts) == 0 {
						msg = why
					} else if path, found := fl.Reach(Query{From: []Pt{pt}, Target: fl.IsExitPt, Avoid: isPt(starts)}); found {
						msg = "after the Add the function can return without starting the goroutine that counts the attempt out (" + fl.Describe(path) + ")"
					}
					if msg != "" {
						msg += ": the wait group of the attempts never returns to zero and Queue.Close – which waits for it after stopping the scheduler – never returns"
					}
					c.Hold(rule, key, call.Pos(), msg == "", msg)
				}
			}
		})
	})
	if n == 0 {
		c.Fail(rule, "sites", token.NoPos, "anchor unresolved: the queue never adds to a wait group")
	}
}

// ---- C03.R5e (= C11.R3e): the permit is given back under the key the session still knows.
// Session.releaseLimits builds the keys of the per-source and per-address permits from the session's own state
// (mailFrom, the connection of msgMeta). cleanSession calls it first and clears that state afterwards. With the order
// turned round (C03U: "forget the envelope first"; C11V: the release moved to the end, the address read from another
// field so that nothing dereferences nil) the sender domain's permit is released under the key "" – BucketSet.Release
// finds no bucket and says nothing – and is never returned; a null-sender transaction in progress loses ITS permit to
// somebody else's release. Decided for every function of the endpoint that calls releaseLimits: no store into a field
// of the session that releaseLimits reads reaches the call.
func c03ReleaseBeforeForgetting(c *Check, rule string) {
	c.Rule(rule, "SMTP endpoint: no assignment to a field of the session that releaseLimits reads (the sender the source permit was taken under, the message metadata holding the peer address) reaches a call of releaseLimits in the same function – the permits are given back under the keys they were taken with, not under the cleared ones", 1)
	p := c.P
	rl := c.need(rule, smtpEndpRel, "Session", "releaseLimits")
	if rl == nil {
		return
	}
	info := rl.Info
	recv := recvObjOf(rl.FI)
	reads := map[*types.Var]bool{}
	ast.Inspect(rl.FI.Decl.Body, func(x ast.Node) bool {
		if sel, ok := x.(*ast.SelectorExpr); ok && recv != nil && objOf(info, sel.X) == recv {
			if fv := fieldOf(info, sel); fv != nil {
				reads[fv] = true
			}
		}
		return true
	})
	if len(reads) == 0 {
		c.Fail(rule, "releaseLimits:reads", rl.FI.Decl.Pos(), "undecided: releaseLimits reads no field of the session")
		return
	}
	pk := p.Pkg(smtpEndpRel)
	n := 0
	p.AllFuncs([]*packagesPkg{pk}, func(fi *FuncInfo) {
		if fi.Decl.Body == nil || fi.Obj == rl.FI.Obj || strings.HasSuffix(p.Fset.Position(fi.Decl.Pos()).Filename, "_test.go") {
			return
		}
		fi = p.DeclOf(fi.Obj)
		if fi == nil || fi.Decl.Body == nil {
			return
		}
		fl := p.FlowOfFunc(fi)
		var calls, stores []Pt
		what := ""
		for _, pt := range fl.Points() {
			if pt.Node() == nil {
				continue
			}
			for _, call := range callsAt(pt.Node()) {
				if callee(info, call) == rl.FI.Obj {
					calls = append(calls, pt)
				}
			}
			if as, ok := pt.Node().(*ast.AssignStmt); ok {
				for _, l := range as.Lhs {
					if fv := fieldOf(info, l); fv != nil && reads[fv] {
						stores = append(stores, pt)
						what = fv.Name()
					}
				}
			}
		}
		if len(calls) == 0 {
			return
		}
		n++
		c.SawFunc(fi.Name())
		path, found := fl.Reach(Query{From: stores, Target: isPt(calls)})
		c.Hold(rule, fi.Name()+":release-first", fi.Decl.Pos(), len(stores) == 0 || !found, "the session's "+what+" is assigned before releaseLimits is called ("+fl.Describe(path)+"): the release computes its keys from the new value – with the sender already cleared the per-source permit of the sender's domain is released under the key \"\" (no such bucket: nothing happens) and is never returned; after `source concurrency N` transactions of one domain every further one is answered 451")
	})
	if n == 0 {
		c.Fail(rule, "callers", token.NoPos, "anchor unresolved: nothing calls releaseLimits")
	}
}

// ---- C16.R16 (= C03.R11): a remembered reply belongs to the current MAIL.
// With deferred sender rejection the session remembers the refusal of MAIL (already rendered by wrapErr for THAT
// command: its SMTPUTF8 mangling decision, its message id) and answers every RCPT with it. Session.Mail therefore starts
// clean: on every successful path that does not start the delivery at once the remembered reply is assigned. Left out
// (C16U: "cleanSession clears it anyway" – but Reset only reaches cleanSession when a delivery is open, and after a
// refused deferred start none is), the next transaction on the connection is answered with the previous one's reply: a
// client that did not ask for SMTPUTF8 receives the non-ASCII text rendered for one that did.
func c16RememberedReplyIsThisMails(c *Check, rule string) {
	c.Rule(rule, "Session.Mail: every successful path that does not start the delivery itself assigns the session's remembered reply (deliveryErr) – a reply rendered for an earlier MAIL (its SMTPUTF8 decision, its message id) is never replayed to the next transaction", 1)
	r := c.need(rule, smtpEndpRel, "Session", "Mail")
	if r == nil {
		return
	}
	info := r.Info
	var resets []Pt
	for _, pt := range r.F.Points() {
		if pt.Node() == nil {
			continue
		}
		if as, ok := pt.Node().(*ast.AssignStmt); ok {
			for _, l := range as.Lhs {
				if fv := fieldOf(info, l); fv != nil && fv.Name() == "deliveryErr" {
					resets = append(resets, pt)
				}
			}
		}
		for _, call := range callsAt(pt.Node()) {
			if isCall(info, call, "~/"+smtpEndpRel+".Session.startDelivery") || isCall(info, call, "~/"+smtpEndpRel+".Session.cleanSession") {
				resets = append(resets, pt)
			}
		}
	}
	path, found := r.F.Reach(Query{From: r.Entry(), Inclusive: true, Target: r.IsSuccessReturn, Avoid: isPt(resets)})
	c.Hold(rule, "Mail:remembered-reply-reset", r.FI.Decl.Pos(), !found, "Mail can accept the command without assigning the remembered reply ("+r.F.Describe(path)+"): after `MAIL` (SMTPUTF8) refused with a non-ASCII text, `RSET`, `MAIL` without SMTPUTF8, the RCPT of the second transaction is answered with the first one's rendered reply – non-ASCII bytes to a client that did not negotiate SMTPUTF8, and the wrong message id")
}

// ---- C16.R17: an SMTP error is temporary when its basic code says so.
// exterrors.SMTPError.Temporary drives the queue's retry decision (IsTemporaryOrUnspec) and the converters' defaults.
// The basic code is always set; the enhanced code may be absent (0.0.0 – what smtpconn builds for a next hop that does
// not send enhanced codes). Decided by the enhanced class (C16V) a `451` without an enhanced code is permanent for
// the queue – bounced at the first attempt – and stored as `451 5.0.0`.
func c16TemporaryByBasicCode(c *Check, rule string) {
	c.Rule(rule, "exterrors.SMTPError.Temporary is computed from the basic code (Code), never from the enhanced code, which can be unset: a 4yz failure without an enhanced code is retried", 1)
	r := c.need(rule, "framework/exterrors", "SMTPError", "Temporary")
	if r == nil {
		return
	}
	info := r.Info
	msg, n := "", 0
	inspectNoLit(r.FI.Decl.Body, func(x ast.Node) bool {
		ret, ok := x.(*ast.ReturnStmt)
		if !ok || len(ret.Results) != 1 {
			return true
		}
		n++
		usesCode, usesEnch := false, false
		var walk func(e ast.Expr, depth int)
		walk = func(e ast.Expr, depth int) {
			ast.Inspect(e, func(y ast.Node) bool {
				switch z := y.(type) {
				case *ast.SelectorExpr:
					if fv := fieldOf(info, z); fv != nil {
						switch fv.Name() {
						case "Code":
							usesCode = true
						case "EnhancedCode":
							usesEnch = true
						}
					}
				case *ast.Ident:
					if v, isVar := info.Uses[z].(*types.Var); isVar && !v.IsField() && depth < 3 {
						for _, d := range defsOfObj(info, r.FI.Decl.Body, v) {
							walk(d, depth+1)
						}
					}
				}
				return true
			})
		}
		walk(ret.Results[0], 0)
		if tv, has := info.Types[ret.Results[0]]; has && tv.Value != nil {
			return true // a constant answer on a guarded path is judged by the guard – not followed here
		}
		if usesEnch || !usesCode {
			msg = "line " + itoa(p0(c.P, ret.Pos())) + ": Temporary answers " + exprStr(ret.Results[0]) + ": an error `451` whose enhanced code is not set (a next hop without ENHANCEDSTATUSCODES) is not temporary – the queue bounces it at the first attempt and records `451 5.0.0`"
		}
		return true
	})
	if n == 0 {
		msg = "undecided: Temporary has no return with one result"
	}
	c.Hold(rule, "SMTPError.Temporary:by-basic-code", r.FI.Decl.Pos(), msg == "", msg)
}

// ---- C03.R6b: a target is started once per transaction.
// msgpipelineDelivery.getDelivery hands out the delivery already open for a target and starts one only when there is
// none. A Start for a target that has an entry (the presence test negated – a survivor of the mutant run of round 12)
// overwrites the entry: the first delivery is never committed or aborted, and on the other branch a nil delivery is
// handed out. Decided in the world "the table has an entry for the target": the target's Start is unreachable.
func c03StartOnlyWhenAbsent(c *Check, rule string) {
	c.Rule(rule, "msgpipelineDelivery.getDelivery: the target's Start is unreachable when the table of open deliveries already has an entry for the target (a second Start would overwrite the entry – the first delivery is never closed)", 1)
	r := c.need(rule, pipelineRel, "msgpipelineDelivery", "getDelivery")
	if r == nil {
		return
	}
	info := r.Info
	var okObj, valObj types.Object
	ast.Inspect(r.FI.Decl.Body, func(x ast.Node) bool {
		as, isAs := x.(*ast.AssignStmt)
		if !isAs || len(as.Rhs) != 1 {
			return true
		}
		ix, isIx := ast.Unparen(as.Rhs[0]).(*ast.IndexExpr)
		if !isIx {
			return true
		}
		if t := info.TypeOf(ix.X); t == nil {
			return true
		} else if _, isMap := t.Underlying().(*types.Map); !isMap {
			return true
		}
		if fieldOf(info, ix.X) == nil {
			return true
		}
		valObj = objOf(info, as.Lhs[0])
		if len(as.Lhs) == 2 {
			okObj = objOf(info, as.Lhs[1])
		}
		return true
	})
	if valObj == nil && okObj == nil {
		c.Fail(rule, "getDelivery:lookup", r.FI.Decl.Pos(), "undecided: no look-up in the table of open deliveries")
		return
	}
	starts := r.Calls(func(info *types.Info, call *ast.CallExpr) bool {
		return qname(callee(info, call)) == modulePkg+".DeliveryTarget.Start"
	})
	if len(starts) == 0 {
		c.Fail(rule, "getDelivery:start", r.FI.Decl.Pos(), "undecided: no target Start")
		return
	}
	world := r.F.World(func(atom ast.Expr) (bool, bool) {
		a := ast.Unparen(atom)
		if id, isID := a.(*ast.Ident); isID && okObj != nil && objOf(info, id) == okObj {
			return true, true
		}
		if be, isBE := a.(*ast.BinaryExpr); isBE && (be.Op == token.EQL || be.Op == token.NEQ) && isNilIdent(info, be.Y) && valObj != nil && objOf(info, be.X) == valObj {
			return be.Op == token.NEQ, true
		}
		return false, false
	})
	path, found := r.F.Reach(Query{From: r.Entry(), Inclusive: true, Target: isPt(starts), AvoidEdge: world})
	c.Hold(rule, "getDelivery:start-only-when-absent", r.FI.Decl.Pos(), !found, "the target is started although the table already holds a delivery for it ("+r.F.Describe(path)+"): the entry is overwritten, the first delivery is neither committed nor aborted when the transaction ends")
}

// ---- C11.R13: a limiter with a limit takes a slot for every permit it grants.
// Semaphore and Rate are no-ops when their channel has no capacity ("no limit configured") and work through the channel
// otherwise. With the no-op test inverted (a survivor of the mutant run of round 12: `if !(cap(s.c) <= 0) { return nil }`)
// a configured limit of N grants every request at once – more than N messages hold a permit – and the matching Release
// panics on the empty channel. Decided for every method of the limiter types that operates on the type's channel: in the
// world "the channel has capacity" every successful way out passes the channel operation (in a select: the clause that
// performs it).
func c11GrantedMeansTaken(c *Check, rule string) {
	c.Rule(rule, "limiters: in the world 'the limiter's channel has capacity' (a limit is configured) every successful exit of a method that operates on the channel has passed the channel operation – no permit is granted, and none is given back, without the slot being taken / freed", 4)
	p := c.P
	pk := p.Pkg("internal/limits/limiters")
	if pk == nil {
		c.Fail(rule, "package", token.NoPos, "anchor unresolved")
		return
	}
	info := pk.TypesInfo
	n := 0
	p.AllFuncs([]*packagesPkg{pk}, func(fi *FuncInfo) {
		if fi.Decl.Body == nil || fi.Decl.Recv == nil || strings.HasSuffix(p.Fset.Position(fi.Decl.Pos()).Filename, "_test.go") {
			return
		}
		switch fi.Obj.Name() {
		case "Take", "TakeContext", "Release":
		default:
			return
		}
		recv := recvObjOf(fi)
		if recv == nil {
			return
		}
		// the channel field(s) of the receiver the method operates on
		chanOp := func(x ast.Node) *types.Var {
			var fv *types.Var
			ast.Inspect(x, func(y ast.Node) bool {
				switch s := y.(type) {
				case *ast.FuncLit:
					return false
				case *ast.SendStmt:
					if f := fieldOf(info, s.Chan); f != nil {
						fv = f
					}
				case *ast.UnaryExpr:
					if s.Op == token.ARROW {
						if f := fieldOf(info, s.X); f != nil {
							fv = f
						}
					}
				}
				return true
			})
			if fv != nil {
				if _, isChan := fv.Type().Underlying().(*types.Chan); !isChan {
					return nil
				}
			}
			return fv
		}
		var field *types.Var
		ast.Inspect(fi.Decl.Body, func(x ast.Node) bool {
			if st, ok := x.(ast.Stmt); ok && field == nil {
				if sel, isSel := fieldSelOnRecv(info, st, recv, chanOp); isSel {
					field = sel
				}
			}
			return true
		})
		if field == nil {
			return
		}
		n++
		c.SawFunc(fi.Name())
		fl := p.FlowOfFunc(fi)
		var ops []Pt
		inSelectComm := map[ast.Node]bool{}
		ast.Inspect(fi.Decl.Body, func(x ast.Node) bool {
			if cc, ok := x.(*ast.CommClause); ok && cc.Comm != nil {
				inSelectComm[cc.Comm] = true
				if chanOp(cc.Comm) == field {
					for _, b := range fl.G.Blocks {
						if b.Kind == kindSelectCaseBody && b.Stmt == ast.Stmt(cc) {
							ops = append(ops, Pt{b, 0})
						}
					}
				}
			}
			return true
		})
		for _, pt := range fl.Points() {
			nd := pt.Node()
			if nd == nil || inSelectComm[nd] {
				continue
			}
			if _, isSel := nd.(*ast.SelectStmt); isSel {
				continue
			}
			// the evaluation of a select's comm expressions is not the operation having been chosen
			isComm := false
			for cm := range inSelectComm {
				if within(cm, nd) {
					isComm = true
				}
			}
			if isComm {
				continue
			}
			if chanOp(nd) == field {
				ops = append(ops, pt)
			}
		}
		world := fl.World(func(atom ast.Expr) (bool, bool) {
			be, ok := ast.Unparen(atom).(*ast.BinaryExpr)
			if !ok {
				return false, false
			}
			call, isCall := ast.Unparen(be.X).(*ast.CallExpr)
			if !isCall || len(call.Args) != 1 {
				return false, false
			}
			if id, isID := ast.Unparen(call.Fun).(*ast.Ident); !isID || id.Name != "cap" || fieldOf(info, call.Args[0]) != field {
				return false, false
			}
			tv, has := info.Types[be.Y]
			if !has || tv.Value == nil {
				return false, false
			}
			cv, isInt := constInt(tv)
			if !isInt {
				return false, false
			}
			const val = int64(1)
			switch be.Op {
			case token.LSS:
				return val < cv, true
			case token.LEQ:
				return val <= cv, true
			case token.GTR:
				return val > cv, true
			case token.GEQ:
				return val >= cv, true
			case token.EQL:
				return val == cv, true
			case token.NEQ:
				return val != cv, true
			}
			return false, false
		})
		sig := fi.Obj.Type().(*types.Signature)
		success := func(pt Pt) bool {
			k, ret := fl.Exit(pt)
			if k == NotExit {
				return false
			}
			if sig.Results().Len() == 0 {
				return fl.IsNormalExit(pt)
			}
			if k != ExitReturn {
				return false
			}
			if ret == nil || len(ret.Results) != 1 {
				return false
			}
			e := ast.Unparen(ret.Results[0])
			if isErrorType(sig.Results().At(0).Type()) {
				return isNilIdent(info, e)
			}
			if tv, has := info.Types[e]; has && tv.Value != nil {
				return tv.Value.String() == "true"
			}
			return true
		}
		path, found := fl.Reach(Query{From: []Pt{fl.Entry()}, Inclusive: true, Target: success, Avoid: isPt(ops), AvoidEdge: world})
		c.Hold(rule, fi.Name()+":"+field.Name(), fi.Decl.Pos(), len(ops) > 0 && !found, "with a limit configured (the channel "+field.Name()+" has capacity) "+fi.Obj.Name()+" can succeed without the channel operation ("+fl.Describe(path)+"): permits are granted without a slot being taken – more than N hold one at a time – or given back without a slot being freed (the limit fills up and never drains)")
	})
	if n == 0 {
		c.Fail(rule, "methods", token.NoPos, "anchor unresolved: no limiter method operates on a channel of its receiver")
	}
}

// fieldSelOnRecv: the statement performs a channel operation on a field of the receiver.
func fieldSelOnRecv(info *types.Info, st ast.Stmt, recv types.Object, chanOp func(ast.Node) *types.Var) (*types.Var, bool) {
	switch st.(type) {
	case *ast.BlockStmt, *ast.IfStmt, *ast.ForStmt, *ast.SelectStmt, *ast.SwitchStmt, *ast.RangeStmt, *ast.CaseClause, *ast.LabeledStmt:
		return nil, false
	}
	fv := chanOp(st)
	if fv == nil {
		return nil, false
	}
	owned := false
	ast.Inspect(st, func(y ast.Node) bool {
		if sel, ok := y.(*ast.SelectorExpr); ok && fieldOf(info, sel) == fv && objOf(info, sel.X) == recv {
			owned = true
		}
		return true
	})
	return fv, owned
}

// ---- C11.R14: a wrapper answers what the limiter it wraps answered.
// BucketSet (one limiter per key) and MultiLimit (several limiters for one scope) take a permit by asking the wrapped
// limiter. What they report is what it said: after a refusal no success, after a grant no failure unless the granted
// permit is handed back first. With the test of the inner answer inverted (survivors of the mutant run of round 12) a
// granted permit is reported as refused – held by nobody, never released: the limit fills up – and a refused one as
// granted: more than N proceed, and their Release panics on the empty limiter.
func c11WrapperReportsInnerAnswer(c *Check, rule string) {
	c.Rule(rule, "limiters: a Take / TakeContext that asks a wrapped limiter reports its answer – after an inner refusal no successful return is reachable, after an inner grant no failing return is reachable without a Release of that limiter", 4)
	p := c.P
	pk := p.Pkg("internal/limits/limiters")
	if pk == nil {
		c.Fail(rule, "package", token.NoPos, "anchor unresolved")
		return
	}
	info := pk.TypesInfo
	n := 0
	p.AllFuncs([]*packagesPkg{pk}, func(fi *FuncInfo) {
		if fi.Decl.Body == nil || fi.Decl.Recv == nil || strings.HasSuffix(p.Fset.Position(fi.Decl.Pos()).Filename, "_test.go") {
			return
		}
		name := fi.Obj.Name()
		if name != "Take" && name != "TakeContext" {
			return
		}
		sig := fi.Obj.Type().(*types.Signature)
		if sig.Results().Len() != 1 {
			return
		}
		errForm := isErrorType(sig.Results().At(0).Type())
		fl := p.FlowOfFunc(fi)
		recv := recvObjOf(fi)
		isInner := func(call *ast.CallExpr) bool {
			if methodName(call) != name {
				return false
			}
			if rx := callRecv(call); rx == nil || objOf(info, rx) == recv {
				return false
			}
			fn := callee(info, call)
			return fn != nil && fn.Pkg() != nil && fn.Pkg() == pk.Types
		}
		retKind := func(pt Pt) string { // "ok", "fail", ""
			k, ret := fl.Exit(pt)
			if k != ExitReturn || ret == nil || len(ret.Results) != 1 {
				return ""
			}
			e := ast.Unparen(ret.Results[0])
			if errForm {
				if isNilIdent(info, e) {
					return "ok"
				}
				return "fail"
			}
			if tv, has := info.Types[e]; has && tv.Value != nil {
				if tv.Value.String() == "true" {
					return "ok"
				}
				return "fail"
			}
			return ""
		}
		k := 0
		for _, pt := range fl.Points() {
			nd := pt.Node()
			if nd == nil {
				continue
			}
			for _, call := range callsAt(nd) {
				if !isInner(call) {
					continue
				}
				n++
				k++
				c.SawFunc(fi.Name())
				key := fi.Name() + ":inner" + itoa(k)
				innerRecv := exprStr(callRecv(call))
				releases := func(q Pt) bool {
					if q.Node() == nil {
						return false
					}
					for _, cc := range callsAt(q.Node()) {
						if methodName(cc) == "Release" && exprStr(callRecv(cc)) == innerRecv {
							return true
						}
					}
					return false
				}
				again := func(q Pt) bool { return q.Node() != nil && len(callsAt(q.Node())) > 0 && func() bool {
					for _, cc := range callsAt(q.Node()) {
						if isInner(cc) {
							return true
						}
					}
					return false
				}() }
				msg := ""
				if errForm {
					eo := errVarAssigned(info, nd, call)
					if eo == nil {
						c.Hold(rule, key, call.Pos(), false, "undecided: the error of the wrapped limiter is not kept in a variable")
						continue
					}
					if path, f := fl.ReachRefined(pt, eo, false, false, func(q Pt) bool { return retKind(q) == "ok" }, again); f {
						msg = "after the wrapped limiter refused (" + fl.Describe(path) + ") the wrapper reports success: the request proceeds without a permit – more than N at a time – and its Release finds the limiter empty"
					} else if path, f := fl.ReachRefined(pt, eo, true, false, func(q Pt) bool { return retKind(q) == "fail" }, func(q Pt) bool { return again(q) || releases(q) }); f {
						msg = "after the wrapped limiter granted the permit (" + fl.Describe(path) + ") the wrapper reports failure without handing it back: the permit is held by nobody and never released – the limit fills up"
					}
				} else {
					world := func(val bool) func(b *cfgBlock, i int) bool {
						return fl.World(func(atom ast.Expr) (bool, bool) {
							if cc, isCall := ast.Unparen(atom).(*ast.CallExpr); isCall && cc == call {
								return val, true
							}
							return false, false
						})
					}
					if path, f := fl.Reach(Query{From: []Pt{pt}, Target: func(q Pt) bool { return retKind(q) == "ok" }, Avoid: again, AvoidEdge: world(false)}); f {
						msg = "after the wrapped limiter refused (" + fl.Describe(path) + ") the wrapper reports success: the request proceeds without a permit – more than N at a time – and its Release finds the limiter empty"
					} else if path, f := fl.Reach(Query{From: []Pt{pt}, Target: func(q Pt) bool { return retKind(q) == "fail" }, Avoid: func(q Pt) bool { return again(q) || releases(q) }, AvoidEdge: world(true)}); f {
						msg = "after the wrapped limiter granted the permit (" + fl.Describe(path) + ") the wrapper reports failure without handing it back: the permit is held by nobody and never released – the limit fills up"
					}
				}
				c.Hold(rule, key, call.Pos(), msg == "", msg)
			}
		}
	})
	if n == 0 {
		c.Fail(rule, "wrappers", token.NoPos, "anchor unresolved: no limiter wraps another")
	}
}

// ---- C02.R16 (= C01.R13): an attempt ends with the message gone from the spool or scheduled again.
// tryDelivery has two ways to end: nothing is pending any more – the message is removed from the spool – or the record
// is rewritten and the next attempt scheduled. An exit with neither (the removal deleted: a survivor of the mutant run
// of round 12) leaves the finished message's files in the spool with the record of the previous attempt: after a
// restart every recipient of that record is attempted again – delivered twice, or reported a second time.
func c02AttemptEndsRemovedOrScheduled(c *Check, rule string) {
	c.Rule(rule, "tryDelivery: every way out passes the removal of the message from the spool or the scheduling of the next attempt – a finished message never stays behind with the record of an earlier attempt (a restart would attempt its recipients again)", 1)
	r := c.need(rule, queueRel, "Queue", "tryDelivery")
	if r == nil {
		return
	}
	info := r.Info
	var ends []Pt
	nRemove, nSched := 0, 0
	for _, pt := range r.F.Points() {
		if pt.Node() == nil {
			continue
		}
		for _, call := range callsAt(pt.Node()) {
			if isCall(info, call, "~/"+queueRel+".Queue.removeFromDisk") {
				ends = append(ends, pt)
				nRemove++
			}
			if isCall(info, call, "~/"+queueRel+".TimeWheel.Add") {
				ends = append(ends, pt)
				nSched++
			}
		}
	}
	if nSched == 0 {
		c.Fail(rule, "tryDelivery:schedules", r.FI.Decl.Pos(), "undecided: tryDelivery never schedules a retry")
		return
	}
	path, found := r.F.Reach(Query{From: r.Entry(), Inclusive: true, Target: r.F.IsNormalExit, Avoid: isPt(ends)})
	c.Hold(rule, "tryDelivery:removed-or-scheduled", r.FI.Decl.Pos(), nRemove > 0 && !found, "an attempt can end without removing the message from the spool and without scheduling the next attempt ("+r.F.Describe(path)+"): the files stay behind with the record of the previous attempt – after a restart the recipients of that record are attempted again although they were delivered or reported")
}

// ---- C18.R19: every recipient block of a report carries the three fields a report must have.
// RFC 3464 §2.3: Final-Recipient, Action and Status are required in every per-recipient group; a report without them is
// not "a well-formed multipart/report" and a sender's software cannot tell which address failed or how. Decided on
// dsn.RecipientInfo.WriteTo: every successful return has passed an h.Add of each of the three names (a survivor of the
// mutant run of round 12: each Add could be deleted).
func c18RequiredRecipientFields(c *Check, rule string) {
	c.Rule(rule, "dsn.RecipientInfo.WriteTo: every successful return has passed the addition of Final-Recipient, of Action and of Status (the per-recipient fields RFC 3464 requires)", 3)
	r := c.need(rule, "internal/dsn", "RecipientInfo", "WriteTo")
	if r == nil {
		return
	}
	info := r.Info
	for _, field := range []string{"Final-Recipient", "Action", "Status"} {
		var adds []Pt
		for _, pt := range r.F.Points() {
			if pt.Node() == nil {
				continue
			}
			for _, call := range callsAt(pt.Node()) {
				if m := methodName(call); (m != "Add" && m != "Set") || len(call.Args) < 1 {
					continue
				}
				if tv, has := info.Types[call.Args[0]]; has && tv.Value != nil && strings.EqualFold(strings.Trim(tv.Value.ExactString(), "\""), field) {
					adds = append(adds, pt)
				}
			}
		}
		path, found := r.F.Reach(Query{From: r.Entry(), Inclusive: true, Target: r.IsSuccessReturn, Avoid: isPt(adds)})
		c.Hold(rule, "WriteTo:"+field, r.FI.Decl.Pos(), len(adds) > 0 && !found, "a recipient block can be written without its "+field+" field ("+r.F.Describe(path)+"): the report is not a well-formed delivery status notification – the sender's software cannot tell which recipient failed, or how")
	}
}
