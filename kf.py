#!/usr/bin/env python3
# usage: kf.py <property> <rule|key> <known|fixed> <commit|-> <what...>
import json,sys
prop,key,status,commit=sys.argv[1:5]; what=' '.join(sys.argv[5:])
f=json.load(open('/verif/known_findings.json'))
f['findings']=[x for x in f['findings'] if not (x['property']==prop and x['key']==key)]
e={"property":prop,"key":key,"what":what,"status":status}
if commit!='-': e["commit"]=commit
f['findings'].append(e)
f['findings'].sort(key=lambda x:(x['property'],x['key']))
json.dump(f,open('/verif/known_findings.json','w'),indent=1,ensure_ascii=False)
