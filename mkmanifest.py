#!/usr/bin/env python3
"""Regenerates MANIFEST.json from the table below (kept as a script so the manifest stays schema-valid)."""
import json, subprocess, sys

BASE = json.load(open('/root/.vp/BASELINE.json'))

# id -> (technique, level text, level note, design ref)
CLAIMED = {}
def claim(id, technique, text, note, ref):
    CLAIMED[id] = (technique, text, note, ref)

NA = {
}
PENDING = {}

exec(open('manifest_table.py').read())

checks = []
for id in sorted(CLAIMED):
    tech, text, note, ref = CLAIMED[id]
    checks.append({
        "property_id": id,
        "quick_cmd": "./check %s quick" % id,
        "thorough_cmd": "./check %s thorough" % id,
        "evidence_file": "evidence/%s.json" % id,
        "replay_cmd_template": "cat {path}",
        "engine": "maddyverif",
        "level_claimed": {"category": "other", "text": text, "design_ref": ref},
        "level_note": note,
        "technique": tech,
    })
na = [{"property_id": k, "reason": v} for k, v in sorted({**NA, **PENDING}.items()) if k not in CLAIMED]
m = {
 "version": 1,
 "setup_cmd": "cd checker && GOFLAGS=-mod=vendor GOPROXY=off GOSUMDB=off GOTOOLCHAIN=local GOWORK=off go build -o ../bin/maddyverif .",
 "hooks": {
  "guard": "verif",
  "enable": "none needed: static analysis reads the source; no instrumentation exists in /repo (no file carries the verif build tag)",
  "baseline_off_cmd": BASE["cmd"],
  "source_commits": [],
  "add_only": True,
 },
 "engines": [{
  "name": "maddyverif", "path": "checker/",
  "serves_properties": sorted(CLAIMED),
  "kind_free_text": "repository-specific static analyser (go/packages + go/types + go/cfg path queries + go/ssa provenance + VTA call graph + compiler BCE log); one obligation per construct; never executes maddy",
 }],
 "checks": checks,
 "not_applicable": na,
 "notes": "All checks are static: they re-load and re-type-check /repo's working tree on every run. Findings protocol: known_findings.json (status known → KNOWN-FINDING line, exit 0; status fixed → suppresses nothing). fix: commits in /repo are listed there. ./check all quick runs every claimed property in one process.",
}
json.dump(m, open('MANIFEST.json', 'w'), indent=1)
try:
    import jsonschema
    jsonschema.validate(m, json.load(open('/root/.vp/MANIFEST.schema.json')))
    print("MANIFEST.json valid:", len(checks), "checks,", len(na), "not applicable")
except ImportError:
    print("written (jsonschema not available)")
