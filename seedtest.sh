#!/bin/sh
# usage: seedtest.sh <patch.diff> <ID[,ID]>  — applies a seeded change to /repo, runs the quick checks, reverts.
P=$1; IDS=$2
cd /repo || exit 2
if [ -n "$(git status --porcelain)" ]; then echo "/repo not clean"; exit 2; fi
git apply --3way "$P" 2>/dev/null || git apply "$P" || { echo "patch does not apply"; exit 3; }
git reset -q 2>/dev/null
cd /verif && ./check "$IDS" quick | grep -E "VIOLATION|KNOWN|: C[0-9]+\.|obligations"
cd /repo && git checkout -- . && git status --porcelain | head -3
