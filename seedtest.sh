#!/bin/sh
# usage: seedtest.sh <patch.diff> <ID[,ID]>  — applies a seeded change to /repo, runs the quick checks, reverts.
P=$1; IDS=$2
cd /repo || exit 2
if [ -n "$(git status --porcelain)" ]; then echo "/repo not clean"; exit 2; fi
git apply "$P" 2>/dev/null || { git apply --3way "$P" >/dev/null 2>&1 && git reset -q; } || { git reset -q --hard HEAD; echo "patch does not apply"; exit 3; }
cd /verif && ./check "$IDS" quick | grep -E "VIOLATION|KNOWN|: C[0-9]+\.|obligations"
cd /repo && git reset -q --hard HEAD && git status --porcelain | head -3
