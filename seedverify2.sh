#!/bin/bash
# usage: seedverify.sh <seed-id> [...]   (e.g. C01A)   — confirms a seeded change in a scratch worktree of /repo HEAD:
#  demo passes on the clean tree, fails with the change; the existing suite still passes with the change.
# Writes /verif/seeded/<id>/{patch.diff,demo files,meta.json,verify.log}. Removes the worktree afterwards.
export GOFLAGS=-mod=mod GOPROXY=off GOSUMDB=off GOTOOLCHAIN=local; unset GOWORK
for ID in "$@"; do
  SRC=/tmp/seed/out/$ID
  WT=/tmp/seedverify_$ID
  OUT=/verif/seeded/$ID
  [ -f $SRC/patch.diff ] || { echo "$ID: no patch"; continue; }
  git -C /repo worktree remove --force $WT 2>/dev/null
  git -C /repo worktree add -q --detach $WT HEAD || continue
  mkdir -p $OUT
  LOG=$OUT/verify.log; : > $LOG
  cp $SRC/patch.diff $OUT/patch.diff
  PATCH=$SRC/patch.diff
  if [ -f $SRC/patch.rebased.diff ]; then cp $SRC/patch.rebased.diff $OUT/patch.rebased.diff; PATCH=$SRC/patch.rebased.diff; fi
  [ -f $SRC/notes.md ] && cp $SRC/notes.md $OUT/notes.md
  [ -f $SRC/demo_path.txt ] && cp $SRC/demo_path.txt $OUT/demo_path.txt
  # place demo files: any *_test.go / other files keeping relative dirs when present
  (cd $SRC && find . -type f \( -name '*_test.go' -o -name '*.go' -o -name '*.sh' \) | while read f; do
     mkdir -p $OUT/demo/$(dirname $f); cp $f $OUT/demo/$f; done)
  # install demo into the worktree: files at top level of SRC go to the directory named in demo_path.txt (first path-like token), nested ones keep their path
  DEMODIR=$(grep -oE '(internal|framework|cmd|tests)/[A-Za-z0-9_/.-]*' $SRC/demo_path.txt | head -1)
  DEMODIR=${DEMODIR%/}; case "$DEMODIR" in *.go) DEMODIR=$(dirname $DEMODIR);; esac
  (cd $SRC && find . -type f \( -name '*.go' -o -name '*.sh' \) | while read f; do
     d=$(dirname $f); d=${d#./}
     case "$d" in
       .) mkdir -p $WT/$DEMODIR; cp $f $WT/$DEMODIR/;;
       internal/*|framework/*|cmd/*|tests/*) mkdir -p $WT/$d; cp $f $WT/$d/;;
       *) mkdir -p $WT/$DEMODIR/$d; cp $f $WT/$DEMODIR/$d/;;
     esac; done)
  CMD=$(grep -oE 'go test [^`]*' $SRC/demo_path.txt | head -1)
  [ -f $SRC/cmd_override.txt ] && CMD=$(cat $SRC/cmd_override.txt)
  [ -z "$CMD" ] && CMD="go test -vet=off -count=1 -run TestSeed$ID ./$DEMODIR/"
  echo "demo dir: $DEMODIR ; cmd: $CMD" >> $LOG
  cd $WT
  echo "--- clean tree + demo" >> $LOG; ( eval "$CMD" ) >> $LOG 2>&1; R_CLEAN=$?
  if git apply --3way $PATCH >> $LOG 2>&1 || git apply $PATCH >> $LOG 2>&1; then APPLY=0; else APPLY=1; fi
  git reset -q
  echo "--- changed tree + demo" >> $LOG; ( eval "$CMD" ) >> $LOG 2>&1; R_MUT=$?
  # existing suite without the demo files
  git status --porcelain | grep '^??' | awk '{print $2}' | xargs -r rm -rf
  echo "--- changed tree, existing suite" >> $LOG
  go test -vet=off -count=1 -timeout 4m ./... > $OUT/suite.txt 2>&1
  # load-sensitive packages (internal/table TestFileReload, endpoint/smtp log-after-test) are run once more on their own
  for pkg in $(grep -E '^FAIL[[:space:]]+github.com' $OUT/suite.txt | awk '{print $2}' | grep -v maddy-pam-helper | sort -u); do
    if go test -vet=off -count=1 -timeout 4m $pkg > $OUT/suite_retry.txt 2>&1; then
      echo "retry of $pkg alone: ok" >> $LOG
      grep -v "^--- FAIL\|^FAIL\|^panic\|^---" $OUT/suite.txt | grep -v "$pkg" > $OUT/suite.tmp; echo "ok  	$pkg (retried alone)" >> $OUT/suite.tmp; mv $OUT/suite.tmp $OUT/suite.txt
    else
      echo "retry of $pkg alone: FAIL" >> $LOG
    fi
    rm -f $OUT/suite_retry.txt
  done
  NOK=$(grep -c '^ok' $OUT/suite.txt); NFAIL=$(grep -E '^(FAIL|---)' $OUT/suite.txt | grep -v maddy-pam-helper | grep -vc '^FAIL$')
  echo "suite: ok=$NOK fail_lines=$NFAIL" >> $LOG
  if [ "$NFAIL" -eq 0 ] && [ "$NOK" -ge 27 ]; then rm -f $OUT/suite.txt; else grep -vE "no test files|^ok" $OUT/suite.txt | head -60 >> $LOG; rm -f $OUT/suite.txt; fi
  cd /
  git -C /repo worktree remove --force $WT
  VERDICT=rejected
  if [ $APPLY -eq 0 ] && [ $R_CLEAN -eq 0 ] && [ $R_MUT -ne 0 ] && [ $NOK -ge 27 ] && [ $NFAIL -eq 0 ]; then VERDICT=confirmed; fi
  echo "$ID: apply=$APPLY demo_clean_rc=$R_CLEAN demo_changed_rc=$R_MUT suite_ok=$NOK suite_fail=$NFAIL => $VERDICT" | tee -a $LOG
  python3 - "$ID" "$VERDICT" "$CMD" "$R_CLEAN" "$R_MUT" "$NOK" "$NFAIL" <<'PY'
import json,sys,os,subprocess
id,verdict,cmd,rc,rm,nok,nf=sys.argv[1:8]
out='/verif/seeded/'+id
head=subprocess.run(['git','-C','/repo','rev-parse','--short','HEAD'],capture_output=True,text=True).stdout.strip()
notes=open(out+'/notes.md').read() if os.path.exists(out+'/notes.md') else ''
meta={"id":id,"property":id[:3],"status":verdict,"repo_head_when_confirmed":head,
 "demo_cmd":cmd,"what_i_ran":["git worktree add (scratch, /repo HEAD)","demo on clean tree: rc="+rc+" (must be 0)","git apply patch.diff","demo on changed tree: rc="+rm+" (must be non-zero)","go test -vet=off -count=1 ./... on changed tree without demo: ok packages="+nok+", failing lines="+nf],
 "needs_to_manifest":"see notes.md (written by the independent sub-agent that produced the change)","caught_by":None}
old=out+'/meta.json'
if os.path.exists(old):
    try:
        o=json.load(open(old)); meta["caught_by"]=o.get("caught_by"); 
        if o.get("needs_to_manifest","").strip() and not o["needs_to_manifest"].startswith("see notes"): meta["needs_to_manifest"]=o["needs_to_manifest"]
    except Exception: pass
json.dump(meta,open(old,'w'),indent=1)
PY
done
