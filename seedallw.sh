#!/bin/bash
# Like seedall.sh, but every seed is applied in its own scratch worktree under /tmp and checked with -repo pointing at it
# (never touches /repo; 8 in parallel). Prints one line per seed: <id> CAUGHT|missed <rules>. Does not rewrite RESULTS.md.
cd /verif
run() {
  d=$1; id=$(basename $d); prop=${id:0:3}
  P=/verif/$d/patch.diff
  wt=/tmp/sw_$id.$$
  flock /tmp/.verif_wt.lock git -C /repo worktree add -q --detach $wt HEAD || { echo "$id worktree-failed"; return; }
  # a seed whose target code a later fix: commit removed (on HEAD the patch applies but changes nothing that matters) is
  # pinned to the last commit on which it is a violation (seeded/<id>/base.txt)
  if [ -f /verif/$d/base.txt ]; then
    flock /tmp/.verif_wt.lock git -C /repo worktree remove --force $wt
    pin=$(cat /verif/$d/base.txt | head -1 | awk '{print $1}')
    out=$(PIN_BASE=$pin /verif/refacb.sh $P $prop 2>&1)
    rules=$(echo "$out" | grep -E ": $prop\.[A-Za-z0-9]+ " | sed -E "s/^[^ ]+ ($prop\.[A-Za-z0-9]+) .*/\1/" | sort -u | tr '\n' ' ')
    if [ -n "$rules" ]; then echo "$id CAUGHT $rules(pinned-base-$pin)"; else echo "$id missed (pinned-base-$pin)"; fi
    return
  fi
  if ! git -C $wt apply $P 2>/dev/null; then
    if [ -f /verif/$d/patch.rebased.diff ] && git -C $wt apply /verif/$d/patch.rebased.diff 2>/dev/null; then :; else
      # written against an older commit (later fix: commits touched the same lines): analysed on the newest base it
      # applies to, that base's own alarms subtracted (refacb.sh)
      flock /tmp/.verif_wt.lock git -C /repo worktree remove --force $wt
      out=$(/verif/refacb.sh $P $prop 2>&1)
      rules=$(echo "$out" | grep -E ": $prop\.[A-Za-z0-9]+ " | sed -E "s/^[^ ]+ ($prop\.[A-Za-z0-9]+) .*/\1/" | sort -u | tr '\n' ' ')
      base=$(echo "$out" | grep -o 'analysed on base [0-9a-f]*' | awk '{print $4}')
      if [ -n "$rules" ]; then echo "$id CAUGHT $rules(on-base-$base)"; elif [ -n "$base" ]; then echo "$id missed (on-base-$base)"; else echo "$id patch-does-not-apply"; fi
      return
    fi
  fi
  vd=/tmp/sv_$id.$$; mkdir -p $vd/evidence; cp /verif/known_findings.json $vd/
  out=$(GOFLAGS=-mod=mod GOPROXY=off GOSUMDB=off GOTOOLCHAIN=local /verif/bin/maddyverif -repo $wt -verif $vd -property $prop 2>&1)
  rules=$(echo "$out" | grep -E ": $prop\.[A-Za-z0-9]+ " | grep -v "KNOWN-FINDING" | sed -E "s/^[^ ]+ ($prop\.[A-Za-z0-9]+) .*/\1/" | sort -u | tr '\n' ' ')
  if echo "$out" | grep -q "^VIOLATION"; then echo "$id CAUGHT $rules"; else echo "$id missed"; fi
  flock /tmp/.verif_wt.lock git -C /repo worktree remove --force $wt; rm -rf $vd
}
export -f run
ls -d seeded/${SEED_GLOB:-C*}/ | xargs -P ${SEED_JOBS:-8} -I{} bash -c 'run {}' | sort
