#!/usr/bin/env python3
"""Sensitivity measurement, incremental (not a check): re-runs the current checker over the mutants of mutants/all.json
that survived the static checks AND passed their package's tests, and updates their static verdict there.
usage: mutretest.py [func-substring]"""
import json, os, subprocess, shutil, tempfile, sys, re, concurrent.futures as cf
VERIF='/verif'; REPO='/repo'
sub = sys.argv[1] if len(sys.argv) > 1 else ''
env = dict(os.environ, GOFLAGS='-mod=mod', GOPROXY='off', GOSUMDB='off', GOTOOLCHAIN='local', GOWORK='off')
res = json.load(open(VERIF+'/mutants/all.json'))
work = tempfile.mkdtemp(prefix='mutre_')
subprocess.run([VERIF+'/check','C01','quick'],stdout=subprocess.DEVNULL)
subprocess.run([VERIF+'/bin/maddyverif','-repo',REPO,'-verif',VERIF,'-property','all','-mutgen',work],stdout=subprocess.DEVNULL,env=env)
gen = json.load(open(work+'/mutants.json'))
key = lambda m: (os.path.relpath(m['file'],REPO) if m['file'].startswith('/') else m['file'], m['line'], m['kind'], m['desc'])
gen_of = {key(m): m for m in gen}
todo = [m for m in res if m['verdict']=='survived' and m.get('tests')=='pass' and key(m) in gen_of and sub in m['func']]
print(len(todo),'test-passing survivors to re-check')
def run(m):
    g = gen_of[key(m)]
    vd = '%s/v%05d' % (work, g['id'])
    os.makedirs(vd + '/evidence', exist_ok=True)
    shutil.copy(VERIF + '/known_findings.json', vd + '/known_findings.json')
    p = subprocess.run([VERIF + '/bin/maddyverif', '-repo', REPO, '-verif', vd, '-property', 'all', '-overlay', g['file'] + '=' + g['out']],
                       capture_output=True, text=True, env=env)
    out = p.stdout
    rules = sorted({l.split(': ', 1)[1].split(' ', 1)[0] for l in out.splitlines() if re.search(r': C\d\d\.', l) and 'KNOWN-FINDING' not in l})
    shutil.rmtree(vd, ignore_errors=True)
    if any('.load' in r or r.endswith('.internal') for r in rules) or 'load failed' in out:
        return key(m), 'invalid', rules
    return key(m), ('killed' if p.returncode != 0 else 'survived'), rules
upd = {}
with cf.ThreadPoolExecutor(max_workers=12) as ex:
    for k, v, rules in ex.map(run, todo):
        upd[k] = (v, rules)
nk = 0
for m in res:
    if key(m) in upd:
        v, rules = upd[key(m)]
        if v != m['verdict']:
            nk += 1
            print('now %s: %s %s:%d %s %s  %s' % (v, m['func'], os.path.basename(m['file']), m['line'], m['kind'], m['desc'][:90], ' '.join(rules)[:80]))
            m['verdict'] = v; m['rules'] = rules[:12]
json.dump(res,open(VERIF+'/mutants/all.json','w'),indent=1)
print(nk,'verdicts changed')
shutil.rmtree(work,ignore_errors=True)
