#!/bin/bash
# usage: seedresults.sh  — replays every kept seeded change in scratch worktrees (seedallw.sh; /repo is never touched, the
# evidence files under /verif are not rewritten) and records the outcome in seeded/RESULTS.md and seeded/<id>/meta.json.
cd /verif
./seedallw.sh > /tmp/seedallw.out 2>&1
python3 - <<'PY'
import json,os
rows=[]
for line in open('/tmp/seedallw.out'):
    parts=line.split()
    if not parts or not parts[0].startswith('C'): continue
    id=parts[0]; verdict=parts[1] if len(parts)>1 else '?'; rules=parts[2:]
    rows.append((id,verdict,rules))
rows.sort()
with open('/verif/seeded/RESULTS.md','w') as f:
    f.write('| seed | property | check result | rules that fired |\n|---|---|---|---|\n')
    for id,verdict,rules in rows:
        v={'CAUGHT':'CAUGHT','missed':'missed'}.get(verdict,verdict)
        f.write('| %s | %s | %s | %s |\n'%(id,id[:3],v,' '.join(rules)))
        p='/verif/seeded/%s/meta.json'%id
        if os.path.exists(p):
            m=json.load(open(p)); m['caught_by']=rules if verdict=='CAUGHT' else []; m['check_verdict']=v
            json.dump(m,open(p,'w'),indent=1)
n=len(rows); c=sum(1 for r in rows if r[1]=='CAUGHT')
print('%d seeds, %d caught'%(n,c))
for r in rows:
    if r[1]!='CAUGHT': print(r)
PY
