#!/bin/sh
# usage: tools_fixcommit.sh "<commit message>"   — runs the pinned suite on /repo's working tree, commits only if every package is ok
export GOFLAGS=-mod=mod GOPROXY=off GOSUMDB=off GOTOOLCHAIN=local; unset GOWORK
cd /repo || exit 2
files=$(git diff --name-only | grep '\.go$')
if [ -z "$files" ]; then echo "NOT COMMITTED (working tree has no change)"; exit 1; fi
gofmt -l $files 2>/dev/null | sed 's/^/gofmt: /'
out=$(go test -vet=off -count=1 ./... 2>&1)
bad=$(echo "$out" | grep -E "^(FAIL|---|panic)" | grep -v "maddy-pam-helper" | grep -v "^FAIL$")
nok=$(echo "$out" | grep -c "^ok")
if [ -n "$bad" ] || [ "$nok" -lt 27 ]; then echo "$out" | grep -vE "no test files|^ok" | head -40; echo "NOT COMMITTED (ok packages: $nok)"; exit 1; fi
git commit -qam "$1" && git log --oneline | head -1
